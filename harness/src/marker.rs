//! Marker terms: construction paths over the real API, protocol lines for the Lean driver,
//! canonical dumps of `kind()`, environments.
use crate::util::*;
use pep440_rs::{Version, VersionSpecifier};
use pep508_rs::{
    ExtraName, ExtraOperator, MarkerEnvironment, MarkerEnvironmentBuilder, MarkerExpression,
    MarkerOperator, MarkerTree, MarkerTreeKind, MarkerValueExtra, MarkerValueString,
    MarkerValueVersion,
};
use std::ops::Bound;
use std::str::FromStr;
use version_ranges::Ranges;

pub const SKEYS: [MarkerValueString; 14] = [
    MarkerValueString::ImplementationName,
    MarkerValueString::OsName,
    MarkerValueString::OsNameDeprecated,
    MarkerValueString::PlatformMachine,
    MarkerValueString::PlatformMachineDeprecated,
    MarkerValueString::PlatformPythonImplementation,
    MarkerValueString::PlatformPythonImplementationDeprecated,
    MarkerValueString::PythonImplementationDeprecated,
    MarkerValueString::PlatformRelease,
    MarkerValueString::PlatformSystem,
    MarkerValueString::PlatformVersion,
    MarkerValueString::PlatformVersionDeprecated,
    MarkerValueString::SysPlatform,
    MarkerValueString::SysPlatformDeprecated,
];
pub const SKEY_TEXT: [&str; 14] = [
    "implementation_name", "os_name", "os.name", "platform_machine", "platform.machine",
    "platform_python_implementation", "platform.python_implementation", "python_implementation",
    "platform_release", "platform_system", "platform_version", "platform.version",
    "sys_platform", "sys.platform",
];
/// environment field read by each spelling
pub const SKEY_FIELD: [usize; 14] = [0, 1, 1, 2, 2, 3, 3, 3, 4, 5, 6, 6, 7, 7];

pub fn skey_idx(k: &MarkerValueString) -> usize {
    SKEYS.iter().position(|x| x == k).unwrap()
}

pub const VKEYS: [MarkerValueVersion; 3] = [
    MarkerValueVersion::ImplementationVersion,
    MarkerValueVersion::PythonFullVersion,
    MarkerValueVersion::PythonVersion,
];
pub const VKEY_TOK: [&str; 3] = ["iv", "pfv", "pv"];
pub const VKEY_TEXT: [&str; 3] = ["implementation_version", "python_full_version", "python_version"];

pub fn vkey_idx(k: &MarkerValueVersion) -> usize {
    VKEYS.iter().position(|x| x == k).unwrap()
}

/// (token, symbol, star)
pub const VOPS: [(&str, &str, bool); 10] = [
    ("eq", "==", false), ("ne", "!=", false), ("lt", "<", false), ("le", "<=", false),
    ("gt", ">", false), ("ge", ">=", false), ("tilde", "~=", false),
    ("eqs", "==", true), ("nes", "!=", true), ("xeq", "===", false),
];
/// (token, operator, text symbol)
pub const SOPS: [(&str, MarkerOperator, &str); 10] = [
    ("eq", MarkerOperator::Equal, "=="), ("ne", MarkerOperator::NotEqual, "!="),
    ("gt", MarkerOperator::GreaterThan, ">"), ("ge", MarkerOperator::GreaterEqual, ">="),
    ("lt", MarkerOperator::LessThan, "<"), ("le", MarkerOperator::LessEqual, "<="),
    ("in", MarkerOperator::In, "in"), ("notin", MarkerOperator::NotIn, "not in"),
    ("ct", MarkerOperator::Contains, "in"), ("notct", MarkerOperator::NotContains, "not in"),
];

#[derive(Clone, Debug, PartialEq)]
pub enum Bd {
    U,
    I(String),
    E(String),
}

#[derive(Clone, Debug)]
pub enum Term {
    T,
    F,
    /// key index, VOPS index, version text (without `.*`)
    V(usize, usize, String),
    VI(usize, bool, Vec<String>),
    /// key index, SOPS index, value
    S(usize, usize, String),
    X(bool, String),
    And(Box<Term>, Box<Term>),
    Or(Box<Term>, Box<Term>),
    Not(Box<Term>),
    Rx(Vec<String>, Box<Term>),
    Sp(Bd, Bd, Box<Term>),
    Cp(Bd, Bd, Box<Term>),
}

pub fn rel_of(text: &str) -> String {
    let v = Version::from_str(text).unwrap();
    v.release().iter().map(|s| s.to_string()).collect::<Vec<_>>().join(".")
}

pub fn canon_version(v: &Version) -> String {
    let mut rel: Vec<u64> = v.release().to_vec();
    while rel.last() == Some(&0) {
        rel.pop();
    }
    let base = if rel.is_empty() { "0".to_string() } else { rel.iter().map(|s| s.to_string()).collect::<Vec<_>>().join(".") };
    if v.any_prerelease() || v.is_post() || v.is_local() || v.epoch() != 0 {
        // decorations must never survive into a diagram (release-only); make them visible
        format!("{base}!{v}")
    } else {
        base
    }
}

pub fn bd_tok(b: &Bd) -> String {
    match b {
        Bd::U => "u".into(),
        Bd::I(t) => format!("i:{}", rel_of(t)),
        Bd::E(t) => format!("e:{}", rel_of(t)),
    }
}

impl Term {
    pub fn and(a: Term, b: Term) -> Term { Term::And(Box::new(a), Box::new(b)) }
    pub fn or(a: Term, b: Term) -> Term { Term::Or(Box::new(a), Box::new(b)) }
    pub fn not(a: Term) -> Term { Term::Not(Box::new(a)) }

    pub fn size(&self) -> usize {
        match self {
            Term::And(a, b) | Term::Or(a, b) => 1 + a.size() + b.size(),
            Term::Not(a) | Term::Rx(_, a) | Term::Sp(_, _, a) | Term::Cp(_, _, a) => 1 + a.size(),
            _ => 1,
        }
    }

    /// protocol tokens for the Lean driver
    pub fn line(&self) -> String {
        match self {
            Term::T => "T".into(),
            Term::F => "F".into(),
            Term::V(k, op, text) => format!("V {} {} {}", VKEY_TOK[*k], VOPS[*op].0, rel_of(text)),
            Term::VI(k, neg, texts) => {
                let mut s = format!("VI {} {} {}", VKEY_TOK[*k], *neg as u8, texts.len());
                for t in texts {
                    s.push(' ');
                    s.push_str(&rel_of(t));
                }
                s
            }
            Term::S(k, op, v) => format!("S {} {} {}", k, SOPS[*op].0, hex(v)),
            Term::X(neg, text) => match ExtraName::from_str(text) {
                Ok(n) => format!("X {} e {}", *neg as u8, hex(n.as_ref())),
                Err(_) => format!("X {} a {}", *neg as u8, hex(text)),
            },
            Term::And(a, b) => format!("and {} {}", a.line(), b.line()),
            Term::Or(a, b) => format!("or {} {}", a.line(), b.line()),
            Term::Not(a) => format!("not {}", a.line()),
            Term::Rx(names, a) => {
                let mut s = format!("rx {}", names.len());
                for n in names {
                    s.push(' ');
                    s.push_str(&hex(ExtraName::from_str(n).unwrap().as_ref()));
                }
                format!("{s} {}", a.line())
            }
            Term::Sp(lo, hi, a) => format!("sp {} {} {}", bd_tok(lo), bd_tok(hi), a.line()),
            Term::Cp(lo, hi, a) => format!("cp {} {} {}", bd_tok(lo), bd_tok(hi), a.line()),
        }
    }

    /// the expression for an atom, built through the typed constructors (not the parser)
    pub fn expr(&self) -> Option<MarkerExpression> {
        Some(match self {
            Term::V(k, op, text) => {
                let (_, sym, star) = VOPS[*op];
                let spec = VersionSpecifier::from_str(&format!("{sym}{text}{}", if star { ".*" } else { "" }))
                    .unwrap_or_else(|e| panic!("bad specifier {sym}{text}: {e}"));
                MarkerExpression::Version { key: VKEYS[*k].clone(), specifier: spec }
            }
            Term::VI(k, neg, texts) => MarkerExpression::VersionIn {
                key: VKEYS[*k].clone(),
                versions: texts.iter().map(|t| Version::from_str(t).unwrap()).collect(),
                negated: *neg,
            },
            Term::S(k, op, v) => MarkerExpression::String { key: SKEYS[*k].clone(), operator: SOPS[*op].1, value: v.clone() },
            Term::X(neg, text) => MarkerExpression::Extra {
                operator: if *neg { ExtraOperator::NotEqual } else { ExtraOperator::Equal },
                name: match ExtraName::from_str(text) {
                    Ok(n) => MarkerValueExtra::Extra(n),
                    Err(_) => MarkerValueExtra::Arbitrary(text.clone()),
                },
            },
            _ => return None,
        })
    }

    /// run the construction path on the real implementation
    pub fn build(&self) -> MarkerTree {
        match self {
            Term::T => MarkerTree::TRUE,
            Term::F => MarkerTree::FALSE,
            Term::And(a, b) => {
                let mut x = a.build();
                x.and(b.build());
                x
            }
            Term::Or(a, b) => {
                let mut x = a.build();
                x.or(b.build());
                x
            }
            Term::Not(a) => a.build().negate(),
            Term::Rx(names, a) => {
                let names: Vec<ExtraName> = names.iter().map(|n| ExtraName::from_str(n).unwrap()).collect();
                a.build().simplify_extras(&names)
            }
            Term::Sp(lo, hi, a) => {
                let (l, h) = (bound(lo), bound(hi));
                a.build().simplify_python_versions(l.as_ref(), h.as_ref())
            }
            Term::Cp(lo, hi, a) => {
                let (l, h) = (bound(lo), bound(hi));
                a.build().complexify_python_versions(l.as_ref(), h.as_ref())
            }
            atom => MarkerTree::expression(atom.expr().unwrap()),
        }
    }

    /// marker text for terms made of atoms / and / or only
    pub fn text(&self) -> Option<String> {
        Some(match self {
            Term::V(k, op, text) => {
                let (_, sym, star) = VOPS[*op];
                format!("{} {} '{}{}'", VKEY_TEXT[*k], sym, text, if star { ".*" } else { "" })
            }
            Term::VI(k, neg, texts) => format!("{} {} '{}'", VKEY_TEXT[*k], if *neg { "not in" } else { "in" }, texts.join(" ")),
            Term::S(k, op, v) => {
                let q = if v.contains('\'') { '"' } else { '\'' };
                if v.contains('\'') && v.contains('"') {
                    return None;
                }
                match SOPS[*op].0 {
                    "ct" | "notct" => format!("{q}{v}{q} {} {}", SOPS[*op].2, SKEY_TEXT[*k]),
                    _ => format!("{} {} {q}{v}{q}", SKEY_TEXT[*k], SOPS[*op].2),
                }
            }
            Term::X(neg, text) => {
                if text.contains('\'') {
                    return None;
                }
                format!("extra {} '{}'", if *neg { "!=" } else { "==" }, text)
            }
            Term::And(a, b) => format!("({}) and ({})", a.text()?, b.text()?),
            Term::Or(a, b) => format!("({}) or ({})", a.text()?, b.text()?),
            _ => return None,
        })
    }

    pub fn atoms<'a>(&'a self, out: &mut Vec<&'a Term>) {
        match self {
            Term::And(a, b) | Term::Or(a, b) => {
                a.atoms(out);
                b.atoms(out);
            }
            Term::Not(a) | Term::Rx(_, a) | Term::Sp(_, _, a) | Term::Cp(_, _, a) => a.atoms(out),
            Term::T | Term::F => {}
            _ => out.push(self),
        }
    }
}

pub fn bound(b: &Bd) -> Bound<Version> {
    match b {
        Bd::U => Bound::Unbounded,
        Bd::I(t) => Bound::Included(Version::from_str(t).unwrap()),
        Bd::E(t) => Bound::Excluded(Version::from_str(t).unwrap()),
    }
}

// ---------------------------------------------------------------------------------------------
// canonical dump of kind()

fn show_bound<T>(b: &Bound<T>, f: &dyn Fn(&T) -> String) -> String {
    match b {
        Bound::Unbounded => "u".into(),
        Bound::Included(v) => format!("i{}", f(v)),
        Bound::Excluded(v) => format!("e{}", f(v)),
    }
}

fn show_range<T: Ord + Clone>(r: &Ranges<T>, f: &dyn Fn(&T) -> String) -> String {
    // every edge must be ONE interval; anything else becomes a token the model cannot read, so a
    // violation of that invariant shows up in the diff
    let segs: Vec<String> = r.iter().map(|(lo, hi)| format!("{} {}", show_bound(lo, f), show_bound(hi, f))).collect();
    if segs.len() == 1 { segs[0].clone() } else { format!("MULTI[{}] u", segs.join("|").replace(' ', ",")) }
}

/// prefix-token dump of `kind()` (complement bits resolved, version spelling canonicalised)
pub fn dump(t: &MarkerTree) -> String {
    match t.kind() {
        MarkerTreeKind::True => "T".into(),
        MarkerTreeKind::False => "F".into(),
        MarkerTreeKind::Version(m) => {
            let mut s = format!("R v:{} {}", VKEY_TOK[vkey_idx(m.key())], m.edges().len());
            for (r, c) in m.edges() {
                s.push_str(&format!(" {} {}", show_range(r, &|v: &Version| canon_version(v)), dump(&c)));
            }
            s
        }
        MarkerTreeKind::String(m) => {
            let mut s = format!("R s:{} {}", skey_idx(m.key()), m.children().len());
            for (r, c) in m.children() {
                s.push_str(&format!(" {} {}", show_range(r, &|v: &String| format!("h{}", hex(v))), dump(&c)));
            }
            s
        }
        MarkerTreeKind::In(m) => format!("B in:{}:{} {} {}", skey_idx(m.key()), hex(m.value()), dump(&m.edge(true)), dump(&m.edge(false))),
        MarkerTreeKind::Contains(m) => format!("B ct:{}:{} {} {}", skey_idx(m.key()), hex(m.value()), dump(&m.edge(true)), dump(&m.edge(false))),
        MarkerTreeKind::Extra(m) => {
            let name = match m.name() {
                MarkerValueExtra::Extra(e) => format!("x:e:{}", hex(e.as_ref())),
                MarkerValueExtra::Arbitrary(s) => format!("x:a:{}", hex(s)),
            };
            format!("B {} {} {}", name, dump(&m.edge(true)), dump(&m.edge(false)))
        }
    }
}

// ---------------------------------------------------------------------------------------------
// environments

#[derive(Clone, Debug)]
pub struct CEnv {
    pub vers: [String; 3],
    pub strs: [String; 8],
    pub extras: Vec<String>,
}

impl CEnv {
    pub fn default_env() -> CEnv {
        CEnv {
            vers: ["3.8.1".into(), "3.8.1".into(), "3.8".into()],
            strs: ["cpython".into(), "posix".into(), "x86_64".into(), "CPython".into(), "5.4".into(), "Linux".into(), "#1".into(), "linux".into()],
            extras: vec![],
        }
    }
    pub fn env(&self) -> MarkerEnvironment {
        MarkerEnvironment::try_from(MarkerEnvironmentBuilder {
            implementation_name: &self.strs[0],
            implementation_version: &self.vers[0],
            os_name: &self.strs[1],
            platform_machine: &self.strs[2],
            platform_python_implementation: &self.strs[3],
            platform_release: &self.strs[4],
            platform_system: &self.strs[5],
            platform_version: &self.strs[6],
            python_full_version: &self.vers[1],
            python_version: &self.vers[2],
            sys_platform: &self.strs[7],
        })
        .unwrap()
    }
    pub fn extras(&self) -> Vec<ExtraName> {
        self.extras.iter().map(|e| ExtraName::from_str(e).unwrap()).collect()
    }
    pub fn line(&self) -> String {
        let vs: Vec<String> = self.vers.iter().map(|v| rel_of(v)).collect();
        let ss: Vec<String> = self.strs.iter().map(|s| hex(s)).collect();
        let xs: Vec<String> = self.extras().iter().map(|e| hex(e.as_ref())).collect();
        format!("{};{};{}", vs.join(","), ss.join(","), if xs.is_empty() { "-".to_string() } else { xs.join(",") })
    }
    pub fn eval(&self, t: &MarkerTree) -> bool {
        t.evaluate(&self.env(), &self.extras())
    }
}

/// major.minor of a version text
pub fn major_minor(text: &str) -> String {
    let v = Version::from_str(text).unwrap();
    let r = v.release();
    format!("{}.{}", r.first().copied().unwrap_or(0), r.get(1).copied().unwrap_or(0))
}

// ---------------------------------------------------------------------------------------------
// generators

pub struct Pools {
    pub versions: Vec<&'static str>,
    pub strings: Vec<&'static str>,
    pub extras: Vec<&'static str>,
}

pub fn pools() -> Pools {
    Pools {
        // neighbourhoods: a.b / a.b.0 / a.b.c / a.(b±1) / a / decorated
        versions: vec!["3.8", "3.8.0", "3.8.5", "3.9", "3.7", "3", "3.0", "3.10", "4", "2.7", "3.9.0", "3.8rc1", "3.9.post2", "3.8.dev0", "1!3.8", "3.8.5.0", "3.0.0", "0", "3.8.0.1"],
        strings: vec!["linux", "linux2", "lin", "win32", "", "a", "b", "ab", "posix", "nt", "a'b", "x\"y", "é", "Linux"],
        extras: vec!["dev", "test", "Foo_Bar", "foo-bar", "a", "b", "not valid", "x.y", "", "py39", "9x"],
    }
}

pub fn gen_atom(rng: &mut Rng, p: &Pools, allow_invalid_extra: bool) -> Term {
    match rng.below(10) {
        0..=3 => {
            let k = rng.below(3);
            loop {
                let nops = if rng.chance(1, 6) { 10 } else { 9 };   // 9 = `===`, which only the typed constructor can express
                let op = rng.below(nops);
                let text = *rng.pick(&p.versions);
                let (_, sym, star) = VOPS[op];
                // only PEP 440-valid operator/literal combinations
                let decorated = text.contains("rc") || text.contains("post") || text.contains("dev") || text.contains('!');
                if star && decorated {
                    continue;
                }
                if VersionSpecifier::from_str(&format!("{sym}{text}{}", if star { ".*" } else { "" })).is_err() {
                    continue;
                }
                return Term::V(k, op, text.to_string());
            }
        }
        4 => {
            let k = rng.below(3);
            let n = rng.below(4);
            let texts = (0..n).map(|_| rng.pick(&p.versions).to_string()).collect();
            Term::VI(k, rng.chance(1, 2), texts)
        }
        5..=7 => {
            let k = if rng.chance(3, 4) { *rng.pick(&[1usize, 12, 9, 0]) } else { rng.below(14) };
            let op = if rng.chance(3, 4) { rng.below(6) } else { 6 + rng.below(4) };
            Term::S(k, op, rng.pick(&p.strings).to_string())
        }
        _ => loop {
            let e = *rng.pick(&p.extras);
            if !allow_invalid_extra && ExtraName::from_str(e).is_err() {
                continue;
            }
            return Term::X(rng.chance(1, 3), e.to_string());
        },
    }
}

pub fn gen_bd(rng: &mut Rng, p: &Pools) -> Bd {
    match rng.below(3) {
        0 => Bd::U,
        1 => Bd::I(rng.pick(&p.versions).to_string()),
        _ => Bd::E(rng.pick(&p.versions).to_string()),
    }
}

pub fn gen_term(rng: &mut Rng, p: &Pools, depth: usize, unary: bool) -> Term {
    if depth == 0 || rng.chance(1, 5) {
        return match rng.below(30) {
            0 => Term::T,
            1 => Term::F,
            _ => gen_atom(rng, p, true),
        };
    }
    match rng.below(if unary { 14 } else { 10 }) {
        0..=3 => Term::and(gen_term(rng, p, depth - 1, unary), gen_term(rng, p, depth - 1, unary)),
        4..=7 => Term::or(gen_term(rng, p, depth - 1, unary), gen_term(rng, p, depth - 1, unary)),
        8..=9 => Term::not(gen_term(rng, p, depth - 1, unary)),
        10..=11 => {
            let n = 1 + rng.below(2);
            let names = (0..n)
                .map(|_| loop {
                    let e = *rng.pick(&p.extras);
                    if ExtraName::from_str(e).is_ok() {
                        break e.to_string();
                    }
                })
                .collect();
            Term::Rx(names, Box::new(gen_term(rng, p, depth - 1, unary)))
        }
        12 => Term::Sp(gen_bd(rng, p), gen_bd(rng, p), Box::new(gen_term(rng, p, depth - 1, unary))),
        _ => Term::Cp(gen_bd(rng, p), gen_bd(rng, p), Box::new(gen_term(rng, p, depth - 1, unary))),
    }
}

/// Region environments for the literals occurring in `terms`: for every version / string
/// literal one value equal to it and one just above it, plus a minimum, combined at random.
pub fn region_envs(rng: &mut Rng, terms: &[&Term], n: usize) -> Vec<CEnv> {
    let mut vers: Vec<String> = vec!["0".into(), "3.8.1".into(), "99".into()];
    let mut strs: Vec<String> = vec!["".into(), "m".into(), "zzzz".into()];
    let mut extras: Vec<String> = vec![];
    fn lits(t: &Term, vers: &mut Vec<String>, strs: &mut Vec<String>, extras: &mut Vec<String>) {
        match t {
            Term::V(_, _, text) => {
                let r = rel_of(text);
                vers.push(r.clone());
                vers.push(format!("{r}.0.1"));
                vers.push(format!("{}.0", major_minor(text)));
                // minor + 1, patch + 1
                let v = Version::from_str(text).unwrap();
                let rel = v.release();
                vers.push(format!("{}.{}", rel[0], rel.get(1).copied().unwrap_or(0) + 1));
                vers.push(format!("{}.{}.{}", rel[0], rel.get(1).copied().unwrap_or(0), rel.get(2).copied().unwrap_or(0) + 1));
            }
            Term::VI(_, _, texts) => {
                for text in texts {
                    let r = rel_of(text);
                    vers.push(r.clone());
                    vers.push(format!("{r}.0.1"));
                }
            }
            Term::S(_, _, v) => {
                strs.push(v.clone());
                strs.push(format!("{v}!"));
                if v.len() > 1 && v.is_char_boundary(1) {
                    strs.push(v[1..].to_string());
                    strs.push(v[..v.len() - v.chars().last().unwrap().len_utf8()].to_string());
                }
                strs.push(format!("x{v}y"));
            }
            Term::X(_, e) => {
                if ExtraName::from_str(e).is_ok() {
                    extras.push(e.clone());
                }
            }
            Term::And(a, b) | Term::Or(a, b) => {
                lits(a, vers, strs, extras);
                lits(b, vers, strs, extras);
            }
            Term::Not(a) => lits(a, vers, strs, extras),
            Term::Rx(names, a) => {
                extras.extend(names.iter().cloned());
                lits(a, vers, strs, extras)
            }
            Term::Sp(lo, hi, a) | Term::Cp(lo, hi, a) => {
                for b in [lo, hi] {
                    if let Bd::I(t) | Bd::E(t) = b {
                        let r = rel_of(t);
                        vers.push(r.clone());
                        vers.push(format!("{r}.0.1"));
                    }
                }
                lits(a, vers, strs, extras)
            }
            _ => {}
        }
    }
    for t in terms {
        lits(t, &mut vers, &mut strs, &mut extras);
    }
    vers.sort();
    vers.dedup();
    strs.sort();
    strs.dedup();
    extras.sort();
    extras.dedup();
    let mut out = Vec::with_capacity(n);
    for _ in 0..n {
        let pfv = rng.pick(&vers).clone();
        let mut e = CEnv::default_env();
        e.vers = [rng.pick(&vers).clone(), pfv.clone(), major_minor(&pfv)];
        for i in 0..8 {
            e.strs[i] = rng.pick(&strs).clone();
        }
        e.extras = extras.iter().filter(|_| rng.chance(1, 2)).cloned().collect();
        out.push(e);
    }
    out
}
