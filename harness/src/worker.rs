//! Sub-process isolation: a panic inside a marker operation poisons the global interner lock,
//! so anything that may panic runs in a worker process that is recycled when poisoned.
use std::io::{BufRead, BufReader, Write};
use std::process::{Child, ChildStdin, ChildStdout, Command, Stdio};

pub struct Worker {
    child: Child,
    stdin: ChildStdin,
    stdout: BufReader<ChildStdout>,
    mode: String,
    pub restarts: u64,
}

impl Worker {
    pub fn spawn(mode: &str) -> Worker {
        let exe = std::env::current_exe().unwrap();
        let mut child = Command::new(exe)
            .args(["worker", mode])
            .stdin(Stdio::piped())
            .stdout(Stdio::piped())
            .stderr(Stdio::null())
            .spawn()
            .unwrap();
        let stdin = child.stdin.take().unwrap();
        let stdout = BufReader::new(child.stdout.take().unwrap());
        Worker { child, stdin, stdout, mode: mode.to_string(), restarts: 0 }
    }

    /// one request line → one answer line; a dead worker answers `dead`
    pub fn call(&mut self, line: &str) -> String {
        let mut ans = String::new();
        let ok = writeln!(self.stdin, "{line}").is_ok() && self.stdin.flush().is_ok() && self.stdout.read_line(&mut ans).unwrap_or(0) > 0;
        let ans = ans.trim_end().to_string();
        if !ok || ans.ends_with("poisoned") || ans == "dead" {
            let _ = self.child.kill();
            let _ = self.child.wait();
            let restarts = self.restarts + 1;
            *self = Worker::spawn(&self.mode.clone());
            self.restarts = restarts;
            if !ok {
                return "dead".to_string();
            }
        }
        ans
    }
}

impl Drop for Worker {
    fn drop(&mut self) {
        // (coverage runs, `VERIF_GRACEFUL=1`: let the worker leave its loop and exit normally so that it can flush its profile)
        if std::env::var_os("VERIF_GRACEFUL").is_some() {
            let _ = writeln!(self.stdin, "\u{4}__quit__");
            let _ = self.stdin.flush();
            for _ in 0..200 {
                if let Ok(Some(_)) = self.child.try_wait() { return; }
                std::thread::sleep(std::time::Duration::from_millis(10));
            }
        }
        let _ = self.child.kill();
        let _ = self.child.wait();
    }
}

/// worker main loop: `handler` answers one line; it is wrapped in catch_unwind and followed by
/// a liveness probe (a marker operation) after a panic
pub fn serve(handler: &dyn Fn(&str) -> String) {
    std::panic::set_hook(Box::new(|_| {}));
    let stdin = std::io::stdin();
    let mut out = std::io::stdout();
    for line in stdin.lock().lines() {
        let Ok(line) = line else { break };
        if line == "\u{4}__quit__" { break; }
        let r = std::panic::catch_unwind(std::panic::AssertUnwindSafe(|| handler(&line)));
        let ans = match r {
            Ok(a) => a,
            Err(_) => {
                let alive = std::panic::catch_unwind(|| {
                    use std::str::FromStr;
                    let mut m = pep508_rs::MarkerTree::from_str("os_name == 'probe'").unwrap();
                    m.and(pep508_rs::MarkerTree::from_str("sys_platform == 'probe'").unwrap());
                    m.is_false()
                })
                .is_ok();
                if alive { "panic".to_string() } else { "panic poisoned".to_string() }
            }
        };
        if writeln!(out, "{ans}").is_err() || out.flush().is_err() {
            break;
        }
    }
}
