//! Requirement level: C06 (total), C07 (grammar), C08 (round trip), C18 (URL end / expansion),
//! C19 (bare URLs / paths / archives).  Parsing runs in a worker process.
use crate::marker::*;
use crate::mparse::{ext_table, layout, warn_code};
use crate::util::*;
use crate::worker::Worker;
use pep440_rs::VersionSpecifier;
use pep508_rs::{ExtraName, MarkerTree, MarkerWarningKind, PackageName, Pep508Error, Pep508ErrorSource, Requirement, VerbatimUrl, VersionOrUrl};
use std::io::Write;
use std::str::FromStr;

/// process environment of a case: `NAME=value` pairs that are set; everything else matching
/// the names we use is unset
pub const ENV_NAMES: [&str; 7] = ["VP_HOME_DIR", "VP_EMPTY", "VP_TOKEN_1", "PROJECT_ROOT", "VP_N\u{663}", "VP_\u{c9}", "VP_\u{ff11}"];

fn apply_env(vars: &[(String, String)]) {
    for n in ENV_NAMES {
        std::env::remove_var(n);
    }
    for (k, v) in vars {
        std::env::set_var(k, v);
    }
}

pub fn env_field(vars: &[(String, String)]) -> String {
    if vars.is_empty() { "-".into() } else { vars.iter().map(|(k, v)| format!("{k}={}", hex(v))).collect::<Vec<_>>().join(",") }
}

fn parse_env_field(f: &str) -> Vec<(String, String)> {
    if f == "-" { return vec![]; }
    f.split(',').map(|kv| { let (k, v) = kv.split_once('=').unwrap(); (k.to_string(), unhex(v)) }).collect()
}

fn err_kind<T: pep508_rs::Pep508Url>(e: &Pep508Error<T>) -> &'static str {
    match e.message {
        Pep508ErrorSource::String(_) => "string",
        Pep508ErrorSource::UrlError(_) => "url",
        Pep508ErrorSource::UnsupportedRequirement(_) => "unsupported",
    }
}

pub fn vu_field(v: &Option<VersionOrUrl<VerbatimUrl>>) -> String {
    match v {
        None => "none".into(),
        Some(VersionOrUrl::VersionSpecifier(s)) => {
            let mut d: Vec<String> = s.iter().map(|x| x.to_string()).collect();
            d.sort();
            format!("specs:{}", hex(&d.join(",")))
        }
        Some(VersionOrUrl::Url(u)) => format!("url:{}:{}", hex(u.given().unwrap_or("<none>")), hex(&u.to_string())),
    }
}

pub fn req_line(r: &Requirement<VerbatimUrl>, warns: &[char]) -> String {
    let extras: Vec<String> = r.extras.iter().map(|e| hex(e.as_ref())).collect();
    let w: String = if warns.is_empty() { "-".into() } else { warns.iter().collect() };
    format!("ok name={} extras={} vu={} marker={} w={}", hex(r.name.as_ref()), if extras.is_empty() { "-".to_string() } else { extras.join(";") }, vu_field(&r.version_or_url), dump(&r.marker), w)
}

/// worker: `r <hex text> <env>` parse a requirement; `x <hex>` Extras::parse
pub fn worker_handle(line: &str) -> String {
    let parts: Vec<&str> = line.split(' ').collect();
    let text = unhex(parts[1]);
    match parts[0] {
        "r" => {
            apply_env(&parse_env_field(parts[2]));
            let mut warns: Vec<char> = Vec::new();
            let mut reporter = |k: MarkerWarningKind, _m: String| warns.push(warn_code(k));
            // the generic parser (`Requirement<Url>`: any URL the url crate reads, no variable expansion) on the same text
            let generic = std::panic::catch_unwind(|| Requirement::<url::Url>::from_str(&text));
            // … and through its entry points that take a working directory: a plain `Url` has no use for it, so they agree with from_str
            let generic_wd = std::panic::catch_unwind(|| {
                let mut sink = |_k: MarkerWarningKind, _m: String| {};
                (Requirement::<url::Url>::parse(&text, "/work/project"), Requirement::<url::Url>::parse_reporter(&text, "/elsewhere", &mut sink))
            });
            let generic_note = |primary: &Result<Requirement<VerbatimUrl>, Pep508Error<VerbatimUrl>>| -> &'static str {
                match (&generic, &generic_wd) {
                    (Ok(g), Ok((a, b))) => {
                        let same = |x: &Result<Requirement<url::Url>, Pep508Error<url::Url>>| match (g, x) { (Ok(p), Ok(q)) => p == q && p.to_string() == q.to_string(), (Err(p), Err(q)) => p.start == q.start && p.len == q.len, _ => false };
                        if !same(a) || !same(b) { return " GENERIC-DIFFER:working_dir"; }
                    }
                    _ => return " GENERIC-DIFFER:panic",
                }
                if cfg!(feature = "ext") { return ""; }
                let Ok(g) = &generic else { return " GENERIC-DIFFER:panic" };
                match (primary, g) {
                    (Ok(r), Ok(g)) => {
                        let vu_same = match (&r.version_or_url, &g.version_or_url) {
                            (None, None) => true,
                            (Some(VersionOrUrl::VersionSpecifier(a)), Some(VersionOrUrl::VersionSpecifier(b))) => a == b,
                            (Some(VersionOrUrl::Url(a)), Some(VersionOrUrl::Url(b))) => text.contains('$') || a.to_url().as_str() == b.as_str(),
                            _ => false,
                        };
                        // Display of the borrowed view is Display of the owned one; clear_url removes a URL and nothing else
                        let view_same = r.version_or_url.as_ref().map(|v| pep508_rs::VersionOrUrlRef::from(v).to_string() == v.to_string()).unwrap_or(true);
                        let mut cleared = r.clone();
                        cleared.clear_url();
                        let clear_ok = cleared.name == r.name && cleared.extras == r.extras && cleared.marker == r.marker
                            && match &r.version_or_url { Some(VersionOrUrl::Url(_)) => cleared.version_or_url.is_none(), other => cleared.version_or_url == *other };
                        if r.name != g.name || r.extras != g.extras || r.marker != g.marker || !vu_same { " GENERIC-DIFFER:components" }
                        else if !view_same { " GENERIC-DIFFER:VersionOrUrlRef" } else if !clear_ok { " GENERIC-DIFFER:clear_url" } else { "" }
                    }
                    // (plain `Url` does not expand `${NAME}`: a text that is a URL only after expansion is not one for it)
                    (Ok(_), Err(ge)) => if text.contains('$') && matches!(ge.message, Pep508ErrorSource::UrlError(_)) { "" } else { " GENERIC-DIFFER:rejected" },
                    (Err(e), Ok(_)) => if matches!(e.message, Pep508ErrorSource::UrlError(_)) { "" } else { " GENERIC-DIFFER:accepted" },
                    (Err(e), Err(ge)) => if matches!(e.message, Pep508ErrorSource::UrlError(_)) || (e.start == ge.start && e.len == ge.len) { "" } else { " GENERIC-DIFFER:span" },
                }
            };
            let primary = Requirement::<VerbatimUrl>::parse_reporter(&text, "/", &mut reporter);
            let gnote = generic_note(&primary);
            match primary {
                Ok(r) => {
                    // the other entry point must agree
                    let same = match Requirement::<VerbatimUrl>::from_str(&text) { Ok(r2) => r2 == r, Err(_) => false };
                    // the small API of the URL type: every accessor / conversion is the same URL
                    let urlapi = match &r.version_or_url {
                        Some(VersionOrUrl::Url(u)) => {
                            use std::ops::Deref;
                            let plain = u.to_url();
                            let scheme_ok = match pep508_rs::Scheme::parse(plain.scheme()) { Some(sc) => sc.to_string() == plain.scheme() && sc.is_file() == (plain.scheme() == "file"), None => cfg!(feature = "ext") };
                            let reparsed = VerbatimUrl::from_str(&u.to_string());
                            if *u.raw() != plain || u.clone().into_url() != plain || *u.deref() != plain { " URLAPI-DIFFER:raw/into_url/deref" }
                            else if VerbatimUrl::from_url(plain.clone()) != *u || VerbatimUrl::from(plain.clone()) != *u { " URLAPI-DIFFER:from_url" }
                            else if u.partial_cmp(u) != Some(std::cmp::Ordering::Equal) || u.partial_cmp(&VerbatimUrl::from_url(plain.clone())) != Some(u.cmp(&VerbatimUrl::from_url(plain.clone()))) { " URLAPI-DIFFER:partial_cmp" }
                            else if !reparsed.as_ref().is_ok_and(|v| v == u && v.given() == Some(u.to_string().as_str())) { " URLAPI-DIFFER:from_str" }
                            else if { #[cfg(feature = "ext")] { plain.scheme() == "file" && u.as_path().ok() != plain.to_file_path().ok() } #[cfg(not(feature = "ext"))] { false } } { " URLAPI-DIFFER:as_path" }
                            else if !scheme_ok { " URLAPI-DIFFER:scheme" } else { "" }
                        }
                        _ => "",
                    };
                    format!("{}{}{gnote}{urlapi}", req_line(&r, &warns), if same { "" } else { " ENTRYPOINTS-DIFFER" })
                }
                Err(e) if !gnote.is_empty() => {
                    let rendered = std::panic::catch_unwind(std::panic::AssertUnwindSafe(|| e.to_string())).ok();
                    let disp = rendered.is_some();
                    let boundary = e.start <= text.len() && text.is_char_boundary(e.start);
                    format!("err {} {} {} disp={} boundary={}{}{gnote}", err_kind(&e), e.start, e.len, disp as u8, boundary as u8, ul_field(rendered))
                }
                Err(e) => {
                    let rendered = std::panic::catch_unwind(std::panic::AssertUnwindSafe(|| e.to_string())).ok();
                    let disp = rendered.is_some();
                    let boundary = e.start <= text.len() && text.is_char_boundary(e.start);
                    format!("err {} {} {} disp={} boundary={}{}", err_kind(&e), e.start, e.len, disp as u8, boundary as u8, ul_field(rendered))
                }
            }
        }
        #[cfg(feature = "ext")]
        "u" => {
            apply_env(&parse_env_field(parts[2]));
            let mut warns: Vec<char> = Vec::new();
            let mut reporter = |k: MarkerWarningKind, _m: String| warns.push(warn_code(k));
            match pep508_rs::UnnamedRequirement::<VerbatimUrl>::parse(&text, "/work", &mut reporter) {
                Ok(u) => {
                    let extras: Vec<String> = u.extras.iter().map(|e| hex(e.as_ref())).collect();
                    let w: String = if warns.is_empty() { "-".into() } else { warns.iter().collect() };
                    // Display, and the round trip of the rendered text (judged by the parent)
                    let shown = u.to_string();
                    let rt = match std::panic::catch_unwind(|| pep508_rs::UnnamedRequirement::<VerbatimUrl>::parse(&shown, "/work", &mut pep508_rs::TracingReporter)) {
                        Ok(Ok(u2)) => if u2.url == u.url && u2.extras == u.extras && u2.marker == u.marker { "1" } else { "0" },
                        Ok(Err(_)) => "err",
                        Err(_) => "panic",
                    };
                    let mtext = u.marker.contents().map(|c| hex(&c.to_string())).unwrap_or("none".into());
                    let carve = u.marker.is_false();
                    // `FromStr` (no working directory): the same requirement when the text does not depend on one
                    let abs = { let t = text.trim_start(); t.starts_with('/') || t.starts_with("file:///") || t.starts_with("file://localhost/") || scheme_of(t).is_some_and(|sc| sc != "file" && SUPPORTED_SCHEMES.contains(&sc)) };
                    let from_str = std::panic::catch_unwind(|| pep508_rs::UnnamedRequirement::<VerbatimUrl>::from_str(&text));
                    let fs_note = match from_str {
                        Err(_) => " UNNAMED-FROMSTR:panic",
                        Ok(Ok(u2)) => if abs && (u2.url != u.url || u2.extras != u.extras || u2.marker != u.marker || u2.url.given() != u.url.given()) { " UNNAMED-FROMSTR:differs" } else { "" },
                        Ok(Err(_)) => if abs { " UNNAMED-FROMSTR:rejected" } else { "" },
                    };
                    format!("ok given={} url={} extras={} marker={} w={} shown={} mtext={} rt={} carve={}", hex(u.url.given().unwrap_or("")), hex(&u.url.to_string()), if extras.is_empty() { "-".to_string() } else { extras.join(";") }, dump(&u.marker), w, hex(&shown), mtext, rt, format!("{}{fs_note}", carve as u8))
                }
                Err(e) => {
                    let rendered = std::panic::catch_unwind(std::panic::AssertUnwindSafe(|| e.to_string())).ok();
                    let disp = rendered.is_some();
                    let boundary = e.start <= text.len() && text.is_char_boundary(e.start);
                    let kind = match e.message { pep508_rs::Pep508ErrorSource::String(_) => "string", pep508_rs::Pep508ErrorSource::UrlError(_) => "url", pep508_rs::Pep508ErrorSource::UnsupportedRequirement(_) => "unsupported" };
                    format!("err {} {} {} disp={} boundary={}{}", kind, e.start, e.len, disp as u8, boundary as u8, ul_field(rendered))
                }
            }
        }
        "x" => match pep508_rs::Extras::parse::<VerbatimUrl>(&text) {
            Ok(x) => format!("ok {}", hex(&format!("{:?}", x))),
            Err(e) => {
                let disp = std::panic::catch_unwind(std::panic::AssertUnwindSafe(|| e.to_string())).is_ok();
                let boundary = e.start <= text.len() && text.is_char_boundary(e.start);
                format!("err {} {} {} disp={} boundary={}", err_kind(&e), e.start, e.len, disp as u8, boundary as u8)
            }
        },
        _ => "bad".into(),
    }
}

/// turn the model's stage-1 answer into the canonical line by running the recorded external
/// calls through the real crates, in order
pub fn post_process(model: &str, vars: &[(String, String)]) -> String {
    apply_env(vars);
    let Some((calls, then)) = model.split_once('\t') else { return format!("unreadable {model}") };
    let calls = calls.strip_prefix("calls=").unwrap_or("");
    let then = then.strip_prefix("then=").unwrap_or("");
    let mut specs: Vec<String> = Vec::new();
    let mut url: Option<(String, String)> = None;
    if calls != "-" {
        for c in calls.split(',') {
            let p: Vec<&str> = c.split(':').collect();
            let text = unhex(p[1]);
            match p[0] {
                "s" => match VersionSpecifier::from_str(&text) {
                    Ok(s) => specs.push(s.to_string()),
                    Err(_) => return format!("err string {} {}", p[2], p[3]),
                },
                // (the external call runs the real crate in this process: a panic inside it is the implementation's, and the
                //  worker's own answer for the same text reports it with the input)
                _ => match std::panic::catch_unwind(|| <VerbatimUrl as pep508_rs::Pep508Url>::parse_url(&text, Some(std::path::Path::new("/")))) {
                    Ok(Ok(u)) => url = Some((text.clone(), u.to_string())),
                    Ok(Err(_)) => return format!("err url {} {}", p[2], p[3]),
                    Err(_) => return "panic".into(),
                },
            }
        }
    }
    // (F20) a marker follows the URL: the ambiguity check on the parsed URL's text comes first
    let mut then = then;
    let owned;
    if let Some(rest) = then.strip_prefix("urlendsok ") {
        let shown = url.as_ref().map(|u| u.1.clone()).unwrap_or_default();
        let (alts, ok) = rest.split_once(" else:").unwrap_or((rest, ""));
        for alt in alts.split(' ') {
            let p: Vec<&str> = alt.split(':').collect();
            let ch = char::from_u32(p[0].parse().unwrap()).unwrap();
            if shown.ends_with(ch) {
                return format!("err {} {} {}", p[1], p[2], p[3]);
            }
        }
        owned = ok.to_string();
        then = &owned;
    }
    if let Some(rest) = then.strip_prefix("ok ") {
        // name=… extras=… kind=… marker=… w=…
        let kind_pos = rest.find(" kind=").unwrap();
        let marker_pos = rest.find(" marker=").unwrap();
        let kind = &rest[kind_pos + 6..marker_pos];
        let vu = if kind == "none" { "none".to_string() } else if kind == "url" {
            let (g, d) = url.unwrap_or_default();
            format!("url:{}:{}", hex(&g), hex(&d))
        } else {
            specs.sort();
            format!("specs:{}", hex(&specs.join(",")))
        };
        format!("ok {} vu={}{}", &rest[..kind_pos], vu, &rest[marker_pos..])
    } else if let Some(rest) = then.strip_prefix("urlends ") {
        let shown = url.map(|u| u.1).unwrap_or_default();
        for alt in rest.split(' ') {
            let p: Vec<&str> = alt.split(':').collect();
            if p[0] == "else" {
                return format!("err {} {} {}", p[1], p[2], p[3]);
            }
            let ch = char::from_u32(p[0].parse().unwrap()).unwrap();
            if shown.ends_with(ch) {
                return format!("err {} {} {}", p[1], p[2], p[3]);
            }
        }
        "unreadable".into()
    } else if then.starts_with("panic") {
        "panic".into()
    } else {
        then.to_string()
    }
}

/// stage 2 of an `unnamed` case: resolve the recorded URL-building call with the real crate
#[cfg(feature = "ext")]
pub fn post_process_unnamed(model: &str, vars: &[(String, String)]) -> String {
    use pep508_rs::UnnamedRequirementUrl;
    apply_env(vars);
    let Some((call, then)) = model.split_once('\t') else { return format!("unreadable {model}") };
    let call = call.strip_prefix("call=").unwrap_or("");
    let then = then.strip_prefix("then=").unwrap_or("");
    if call == "-" || !then.starts_with("ok ") && !then.starts_with("err ") { return if then.starts_with("panic") { "panic".into() } else { then.to_string() }; }
    let p: Vec<&str> = call.split(':').collect();
    let text = unhex(p[1]);
    let built = std::panic::catch_unwind(|| -> Result<VerbatimUrl, _> { match p[0] {
        "file" => {
            // (the harness's own reading of "drop `//localhost` before a `/`, else `//`" — the Lean `stripHost` is compared with the crate's
            //  `strip_host` separately; using the crate's here would let a slip in it pass unseen)
            let path = strip_host_spec(&text);
            let path = urlencoding::decode(path).map(|c| c.into_owned()).unwrap_or(path.to_string());
            <VerbatimUrl as UnnamedRequirementUrl>::parse_path(&path, "/work")
        }
        "url" => <VerbatimUrl as UnnamedRequirementUrl>::parse_unnamed_url(&text),
        _ => <VerbatimUrl as UnnamedRequirementUrl>::parse_path(&text, "/work"),
    } });
    let Ok(built) = built else { return "panic".into() };
    match built {
        Err(_) => format!("err url {} {}", p[2], p[3]),
        Ok(u) => match then.strip_prefix("ok ") {
            Some(rest) => {
                // given=… extras=… marker=… w=…  →  insert url=… after given
                let (given, tail) = rest.split_once(' ').unwrap_or((rest, ""));
                format!("ok {} url={} {}", given, hex(&u.to_string()), tail)
            }
            None => then.to_string(),
        },
    }
}

/// an unnamed requirement: implementation (worker) vs model (`unnamed` driver op, two-stage)
#[cfg(feature = "ext")]
pub fn unnamed_case(out: &mut Out, w: &mut Worker, rc: &mut ReqCases, text: &str, vars: &[(String, String)]) -> String {
    out.evaluations += 1;
    let ans = w.call(&format!("u {} {}", hex(text), env_field(vars)));
    let (alpha, table) = ext_table(text);
    rc.lines.push(format!("unnamed\t{}\t{}\t{}\t{}\t{}", hex(text), alpha, if table.is_empty() { "-".to_string() } else { table }, env_field(vars), hex(&std::env::current_dir().unwrap().to_string_lossy())));
    rc.envs.push(vars.to_vec());
    out.impl_out.push(corr_part(&ans));
    let input = serde_json::json!({"text": text, "feature": "non-pep508-extensions", "entry": "UnnamedRequirement::parse"});
    if ans.starts_with("panic") || ans == "dead" { out.oracle_fail("C06", "UnnamedRequirement::parse panicked", input.clone()); out.stat("unnamed.panic"); }
    else if ans.starts_with("err ") {
        out.stat("unnamed.err");
        if ans.contains("disp=0") { out.oracle_fail("C06", "UnnamedRequirement error cannot be formatted", input.clone()); }
        if ans.contains("boundary=0") { out.oracle_fail("C06", "UnnamedRequirement error span does not start on a char boundary", input.clone()); }
    } else {
        out.stat("unnamed.ok");
        if let Some((_, why)) = ans.split_once(" UNNAMED-FROMSTR:") { out.oracle_fail("C19", &format!("UnnamedRequirement::from_str and UnnamedRequirement::parse disagree on a text that does not depend on the working directory ({why})"), input.clone()); }
        let field = |k: &str| ans.split(' ').find_map(|f| f.strip_prefix(k)).unwrap_or("").to_string();
        let (given, url, extras, shown, mtext, rt, carve) = (unhex(&field("given=")), field("url="), field("extras="), field("shown="), field("mtext="), field("rt="), field("carve="));
        // Display against its model
        rc.lines.push(format!("showunnamed\t{}\t{}\t{}", url, extras, mtext));
        rc.envs.push(vars.to_vec());
        out.impl_out.push(shown.clone());
        out.evaluations += 1;
        // the rendered text parses back to an equal value (URL texts without brackets; FALSE / deprecated keys by equivalence only)
        let deprecated = ["os.name", "sys.platform", "platform.machine", "platform.python_implementation", "platform.version", "python_implementation"].iter().any(|k| text.contains(k));
        if !given.contains('[') && !given.contains(']') && !unhex(&url).contains('[') && carve != "1" && !deprecated && rt != "1" {
            out.oracle_fail("C19", &format!("the rendered unnamed requirement does not parse back to an equal value (round trip: {rt})"), serde_json::json!({"text": text, "rendered": unhex(&shown), "feature": "non-pep508-extensions"}));
        }
        out.stat(&format!("unnamed.roundtrip_{rt}"));
    }
    ans
}

fn corr_part(ans: &str) -> String {
    if ans.starts_with("err ") {
        ans.split(' ').take(4).collect::<Vec<_>>().join(" ")
    } else if ans.starts_with("panic") || ans == "dead" {
        "panic".to_string()
    } else {
        let a = ans.replace(" ENTRYPOINTS-DIFFER", "");
        let a = match a.find(" GENERIC-DIFFER:") { Some(i) => a[..i].to_string(), None => a };
        let a = match a.find(" URLAPI-DIFFER:") { Some(i) => a[..i].to_string(), None => a };
        match a.find(" shown=") { Some(i) => a[..i].to_string(), None => a }
    }
}

pub struct ReqCases {
    pub lines: Vec<String>,
    pub envs: Vec<Vec<(String, String)>>,
}

/// run one requirement text: worker answer + correspondence line (model side filled later)
pub fn req_case(out: &mut Out, w: &mut Worker, rc: &mut ReqCases, prop: &str, text: &str, vars: &[(String, String)]) -> String {
    out.evaluations += 1;
    let ans = w.call(&format!("r {} {}", hex(text), env_field(vars)));
    let (alpha, table) = ext_table(text);
    let cwd = std::env::current_dir().unwrap().to_string_lossy().to_string();
    rc.lines.push(format!("req\t{}\t{}\t{}\t{}\t{}", hex(text), alpha, if table.is_empty() { "-".to_string() } else { table }, env_field(vars), hex(&cwd)));
    rc.envs.push(vars.to_vec());
    out.impl_out.push(corr_part(&ans));
    let input = serde_json::json!({"text": text, "text_hex": hex(text), "env": env_field(vars), "entry": "Requirement::parse_reporter"});
    if ans.starts_with("panic") || ans == "dead" {
        out.oracle_fail("C06", &format!("parsing a requirement panicked{}", if ans.contains("poisoned") { " and poisoned the interner" } else { "" }), input.clone());
        out.stat("req.panic");
    } else if ans.starts_with("err ") {
        out.stat(&format!("req.err_{}", ans.split(' ').nth(1).unwrap_or("?")));
        if ans.contains("disp=0") { out.oracle_fail("C06", "the returned error cannot be formatted with Display (panic)", input.clone()); }
        if prop == "C06" {
            if let Some((line, ul)) = errdisp_case(text, &ans, 2) {
                out.evaluations += 1;
                rc.lines.push(line);
                rc.envs.push(vars.to_vec());
                out.impl_out.push(ul);
                out.stat("errdisp.cases");
            }
        }
        if ans.contains("boundary=0") { out.oracle_fail("C06", "the error span does not start on a char boundary inside the input", input.clone()); }
    } else {
        out.stat("req.ok");
        // with the extension feature a text after `@` that is not a URL is a path: relative to the working
        // directory `parse_reporter` is given, an error for `from_str`, which has none — a documented difference
        // (with the extension feature a RELATIVE path depends on the working directory one entry point takes and the other
        //  does not; an absolute file URL or path does not)
        let absolute = text.split_once('@').map(|(_, u)| u.trim_start()).is_some_and(|u| u.starts_with("file:///") || u.starts_with("file://localhost/") || u.starts_with('/') || u.starts_with("http://") || u.starts_with("https://"));
        if ans.contains("ENTRYPOINTS-DIFFER") && (!cfg!(feature = "ext") || absolute) { out.oracle_fail(prop, "Requirement::from_str and Requirement::parse_reporter disagree", input.clone()); }
        if let Some((_, why)) = ans.split_once(" URLAPI-DIFFER:") { out.oracle_fail(if prop == "C16" { "C16" } else { "C18" }, &format!("the accessors / conversions of the parsed URL do not agree with one another ({why})"), input.clone()); }
        if let Some((_, why)) = ans.split_once(" GENERIC-DIFFER:") { out.oracle_fail(if prop == "C08" { "C08" } else { "C07" }, &format!("the generic parser Requirement<Url> and Requirement<VerbatimUrl> disagree on the same text ({why})"), input.clone()); }
    }
    ans
}

/// feed all collected case lines to the Lean driver and post-process its answers
pub fn finish(out: &mut Out, rc: ReqCases) {
    // `urlhelpers2` = `urlhelpers` without the archive bit (not public API)
    let driver = std::env::var("VERIF_DRIVER").unwrap_or_else(|_| "/verif/lean/.lake/build/bin/driver".into());
    let mut child = std::process::Command::new(&driver).stdin(std::process::Stdio::piped()).stdout(std::process::Stdio::piped()).spawn().expect("driver");
    {
        let mut stdin = child.stdin.take().unwrap();
        let lines: Vec<String> = rc.lines.iter().map(|l| l.replacen("urlhelpers2\t", "urlhelpers\t", 1)).collect();
        std::thread::spawn(move || {
            for l in lines { let _ = writeln!(stdin, "{l}"); }
        });
    }
    let outp = child.wait_with_output().unwrap();
    let text = String::from_utf8_lossy(&outp.stdout);
    let answers: Vec<&str> = text.lines().collect();
    let mut model = Vec::new();
    for (i, l) in rc.lines.iter().enumerate() {
        let a = answers.get(i).copied().unwrap_or("missing");
        if l.starts_with("unnamed\t") {
            #[cfg(feature = "ext")]
            model.push(post_process_unnamed(a, &rc.envs[i]));
            #[cfg(not(feature = "ext"))]
            model.push(a.to_string());
        } else if l.starts_with("req\t") {
            model.push(post_process(a, &rc.envs[i]));
        } else if l.starts_with("urlhelpers2\t") {
            model.push(a.rsplit_once(" archive=").map(|x| x.0.to_string()).unwrap_or(a.to_string()));
        } else {
            model.push(a.to_string());
        }
        out.cases.push(l.clone());
    }
    out.model_out = Some(model);
}

// ---------------------------------------------------------------------------------------------
// generators

pub struct Deriv {
    pub name: String,
    pub extras: Option<Vec<String>>,
    pub specs: Option<(Vec<String>, bool)>, // (texts, parenthesised)
    pub url: Option<String>,
    pub marker: Option<Term>,
}

fn wsp(rng: &mut Rng, must: bool) -> String {
    match rng.below(if must { 6 } else { 10 }) {
        0..=3 => " ".into(),
        4 => "  ".into(),
        5 => "\t".into(),
        _ => String::new(),
    }
}

pub fn render(rng: &mut Rng, d: &Deriv) -> Option<String> {
    let mut s = String::new();
    s.push_str(&wsp(rng, false));
    s.push_str(&d.name);
    s.push_str(&wsp(rng, false));
    if let Some(ex) = &d.extras {
        s.push('[');
        s.push_str(&wsp(rng, false));
        for (i, e) in ex.iter().enumerate() {
            if i > 0 { s.push_str(&wsp(rng, false)); s.push(','); s.push_str(&wsp(rng, false)); }
            s.push_str(e);
        }
        s.push_str(&wsp(rng, false));
        s.push(']');
        s.push_str(&wsp(rng, false));
    }
    if let Some((specs, paren)) = &d.specs {
        if *paren { s.push('('); s.push_str(&wsp(rng, false)); }
        for (i, sp) in specs.iter().enumerate() {
            if i > 0 { s.push_str(&wsp(rng, false)); s.push(','); s.push_str(&wsp(rng, false)); }
            s.push_str(sp);
        }
        if *paren { s.push_str(&wsp(rng, false)); s.push(')'); }
        s.push_str(&wsp(rng, false));
    }
    if let Some(u) = &d.url {
        s.push('@');
        s.push_str(&wsp(rng, false));
        s.push_str(u);
        if d.marker.is_some() { s.push_str(&wsp(rng, true)); }
    }
    if let Some(m) = &d.marker {
        s.push(';');
        s.push_str(&wsp(rng, false));
        s.push_str(&layout(rng, m, true)?);
    }
    s.push_str(&wsp(rng, false));
    Some(s)
}

pub fn gen_deriv(rng: &mut Rng, p: &Pools) -> Deriv {
    let names = ["requests", "Foo.Bar_baz", "a", "a-b", "numpy2", "x.y-z_w", "A", "zope.interface", "d__e", "b2"];
    let extras = ["security", "tests", "A_b", "x.y", "dev", "E-e"];
    let specs = [">=2.8.1", "==2.8.*", "~=1.0", "!=1.5", "<2", ">1.0.post1", "<= 3.0", "== 1.0", ">=1.0a1", "===1.0", "!=2.*", ">= 1",
        // every part a PEP 440 version may have, in specifiers: epoch (`!` is also an operator character), dev / post / local
        ">=1!2.0", "==1!2.0", "~=2!1.4", "!=2!1.5", "<1!3", "==1.0+local.1", ">=1.0.dev0", "==1.0.post2", "<2.0rc1", "===1!2+x"];
    let urls = ["https://example.org/foo-1.0.whl", "file:///tmp/x.tar.gz", "git+https://github.com/a/b.git@main#egg=b", "https://x.org/a;b", "https://x.org/a#frag",
        "https://x.org/${VP_HOME_DIR}/a", "https://x.org/a%20b", "http://localhost:8080/p?q=1&r=[2]", "https://x.org/${VP_UNSET}/a", "https://user:pw@x.org/a@b",
        // the parsed URL ends in `;` / `#` although the text does not (F20)
        "https://x.org/a;${VP_EMPTY}", "https://x.org/a#${VP_EMPTY}", "https://x.org/a;\u{1}", "https://x.org/b#\u{1f}", "https://x.org/${VP_TOKEN_1}",
        // percent signs in the path and the fragment of file URLs (decoded by the extension feature)
        "file:///tmp/p#x%2541", "file:///tmp/a%2541/b#c%25d", "file:///tmp/p.tar.gz#egg=pkg&subdirectory=python%2Fpkg", "file:///tmp/p%20q#egg=a%20b", "https://x.org/p#x%2541",
        // percent escapes that do not decode to UTF-8 (a lone continuation byte, 0xFF, a truncated sequence, an encoded surrogate)
        "file:///tmp/pkg-%FF.whl", "file:///tmp/a%80b", "file://localhost/tmp/x%E2%82", "file:///tmp/s%ED%A0%80#egg=x", "https://x.org/p%FF",
        // a fragment that looks like a path with `.` / `..` / `//` segments: it is a fragment, not a path
        "file:///srv/pkg.tar.gz#subdirectory=src/./core", "file://localhost/srv/a#b/../c.whl", "file:///srv/x.whl#a//b",
        // more than one `#`: the fragment starts at the FIRST one
        "file:///tmp/p.whl#sha256=abc#egg=demo", "https://x.org/p.whl#a#b"];
    let name = rng.pick(&names).to_string();
    let ex = if rng.chance(1, 2) { None } else { let n = rng.below(3); Some((0..n).map(|_| rng.pick(&extras).to_string()).collect()) };
    let (sp, url) = match rng.below(4) {
        0 => (None, None),
        1 | 2 => { let n = 1 + rng.below(3); (Some(((0..n).map(|_| rng.pick(&specs).to_string()).collect(), rng.chance(1, 3))), None) }
        _ => (None, Some(rng.pick(&urls).to_string())),
    };
    let marker = if rng.chance(1, 2) { None } else { Some(loop {
        let depth = rng_depth(rng);
        let t = gen_term(rng, p, depth, false);
        if only_parseable(&t) { break t; }
    }) };
    Deriv { name, extras: ex, specs: sp, url, marker }
}

fn rng_depth(rng: &mut Rng) -> usize { rng.below(3) }

fn only_parseable(t: &Term) -> bool {
    match t {
        Term::And(a, b) | Term::Or(a, b) => only_parseable(a) && only_parseable(b),
        Term::V(_, 9, _) => false,
        Term::VI(_, _, ts) => !ts.is_empty(),
        Term::V(..) | Term::S(..) | Term::X(..) => true,
        _ => false,
    }
}

fn hostile(rng: &mut Rng, base: &str) -> String {
    let junk = ["é", "\u{3000}", "\u{85}", "\0", "'", "\"", "(", ")", "[", "]", ",", ";", "#", "@", " ", "-", "_", ".", "ü", "漢", "\u{1F600}", "\\", "/", ">=", "~=", "${", "}", "\n", "\r"];
    let mut s: Vec<char> = base.chars().collect();
    for _ in 0..1 + rng.below(3) {
        match rng.below(4) {
            0 => { let i = rng.below(s.len() + 1); for (k, c) in rng.pick(&junk).chars().enumerate() { s.insert((i + k).min(s.len()), c); } }
            1 => if !s.is_empty() { let i = rng.below(s.len()); s.remove(i); },
            2 => if !s.is_empty() { let i = rng.below(s.len()); s.truncate(i); },
            _ => if !s.is_empty() { let i = rng.below(s.len()); let c = s[i]; s.insert(i, c); },
        }
    }
    s.into_iter().collect()
}

fn norm_name(s: &str) -> String {
    let lower = s.to_ascii_lowercase();
    lower.split(|c| c == '-' || c == '_' || c == '.').filter(|p| !p.is_empty()).collect::<Vec<_>>().join("-")
}

pub fn default_vars() -> Vec<(String, String)> {
    vec![("VP_HOME_DIR".into(), "home/ferris".into()), ("VP_EMPTY".into(), "".into()), ("VP_TOKEN_1".into(), "t#".into()),
         // much longer than its `${…}` reference: positions computed on the expanded text fall outside the input
         ("VP_LONG".into(), "/srv/artifacts/python/wheels/2026-09/manylinux_2_28_x86_64/cp312/release".into())]
}

pub fn run(out: &mut Out, tier: &str, seed: u64, prop: &str) {
    let mut rng = Rng::new(seed ^ 0x7e9);
    let big = tier == "thorough";
    let p = pools();
    let mut w = Worker::spawn("req");
    let mut rc = ReqCases { lines: vec![], envs: vec![] };
    let vars = default_vars();
    // ---- C07: leading whitespace never changes what the name is taken to be (archive check on the name itself) ----
    if prop == "C07" {
        for name in ["backports.zipfile", "backports.tarfile", "a.whlx", "x.tar.gzip", "pkg.tgz1", "n.zip-extra", "foo.tar.bz2x",
            // a compression suffix is an archive name only behind `.tar`
            "zope.interface.gz", "ruamel.yaml.xz", "pkg-1.0.bz2", "a.b.lz", "A.B.lzma", "interface.gz", "backports.lzma", "x.tar.y.gz", "x.tgz.gz", "tar.gz", "a.TAR.gz", "a.tar.GZ", "a.zip.x", "a.whl.1"] {
            for k in 0..6usize {
                for lead in [" ".repeat(k), "\t".repeat(k)] {
                    for tail in ["", "[extra]", " ; python_version >= '3.8'", ">=1.0"] {
                        let text = format!("{lead}{name}{tail}");
                        let ans = req_case(out, &mut w, &mut rc, prop, &text, &vars);
                        let want = format!("ok name={} ", hex(&norm_name(name)));
                        if !ans.starts_with(&want) {
                            out.oracle_fail("C07", &format!("a requirement whose name is not an archive file name is rejected / decomposed differently behind leading whitespace: {ans}"), serde_json::json!({"text": text}));
                        }
                        out.stat("c07.leading_ws_names");
                    }
                }
            }
        }
    }
    // ---- C07: every ASCII letter and digit in every position of a name and of an extra (the scanners have their own character
    //      classes, apart from the name constructors') ---------------------------------------------------
    if prop == "C07" {
        for c in ('a'..='z').chain('A'..='Z').chain('0'..='9') {
            for (text, name, extras) in [(format!("pkg[{c}x]"), "pkg".to_string(), vec![format!("{c}x")]), (format!("pkg[x{c}]"), "pkg".into(), vec![format!("x{c}")]), (format!("pkg [ {c} , x-{c}.y ] >= 1"), "pkg".into(), vec![c.to_string(), format!("x-{c}.y")]),
                                         (format!("{c}x[a]"), format!("{c}x"), vec!["a".to_string()]), (format!("x{c} ; os_name == 'a'"), format!("x{c}"), vec![]), (format!("{c}"), c.to_string(), vec![]), (format!("x_{c}-y>=1"), format!("x_{c}-y"), vec![]),
                                         // a one-character first segment before a separator (the fast path of the owned constructors tracks the previous character)
                                         (format!("{c}-x>=1"), format!("{c}-x"), vec![]), (format!("pkg[{c}-y,{c}{c}.z]"), "pkg".into(), vec![format!("{c}-y"), format!("{c}{c}.z")]), (format!("{c}{c}-{c} ; os_name == 'a'"), format!("{c}{c}-{c}"), vec![])] {
                let ans = req_case(out, &mut w, &mut rc, prop, &text, &vars);
                let ex: Vec<String> = extras.iter().map(|e| hex(&norm_name(e))).collect();
                let want = format!("ok name={} extras={} ", hex(&norm_name(&name)), if ex.is_empty() { "-".to_string() } else { ex.join(";") });
                if !ans.starts_with(&want) {
                    out.oracle_fail("C07", &format!("a requirement whose name / extras use the character `{c}` is rejected or decomposed differently: {ans}"), serde_json::json!({"text": text}));
                }
                out.stat("c07.alphabet_sweep");
            }
        }
    }
    // ---- derivations × layouts (C07, and correspondence for everyone) ------------------------------
    let n = if big { 3000 } else { 600 };
    for _ in 0..n {
        let d = gen_deriv(&mut rng, &p);
        let Some(text) = render(&mut rng, &d) else { continue };
        let ans = req_case(out, &mut w, &mut rc, prop, &text, &vars);
        if prop == "C07" {
            let input = serde_json::json!({"text": text});
            // a URL whose parsed form ends in `;` / `#` followed by a marker is the ambiguous case the
            // grammar reading excludes (C18): rejected by design (F20), not a derivation
            let ambiguous = d.marker.is_some() && d.url.as_ref().is_some_and(|u| {
                apply_env(&vars);
                let e = expand_spec(u, &vars);
                let t = e.trim_end_matches(|c: char| c <= ' ');
                t.ends_with(';') || t.ends_with('#')
            });
            if ambiguous {
                out.stat("c07.ambiguous_url_end_with_marker");
                if ans.starts_with("ok ") { out.oracle_fail("C18", "a URL whose parsed form ends in `;` / `#` is followed by a marker and accepted: its Display cannot be parsed back", input.clone()); }
                continue;
            } else if !ans.starts_with("ok ") {
                out.oracle_fail("C07", &format!("a string derivable from the PEP 508 grammar is rejected: {ans}"), input.clone());
                continue;
            }
            out.nontrivial(text.clone());
            // expected components, computed independently
            let name = norm_name(&d.name);
            let extras: Vec<String> = d.extras.clone().unwrap_or_default().iter().map(|e| hex(&norm_name(e))).collect();
            let vu = if let Some((specs, _)) = &d.specs {
                let mut v: Vec<String> = specs.iter().map(|s| VersionSpecifier::from_str(s).unwrap().to_string()).collect();
                v.sort();
                format!("specs:{}", hex(&v.join(",")))
            } else if let Some(u) = &d.url {
                std::env::remove_var("VP_UNSET");
                apply_env(&vars);
                // (expanded by the harness's own reading of `${NAME}`, not by the crate's `expand_env_vars`)
                let expanded = expand_spec(u, &vars);
                format!("url:{}:{}", hex(u), hex(&url::Url::parse(&expanded).map(|x| x.to_string()).unwrap_or_default()))
            } else { "none".into() };
            let marker = match &d.marker { Some(t) => dump(&t.build()), None => "T".into() };
            let want_prefix = format!("ok name={} extras={} vu={} marker={} w=", hex(&name), if extras.is_empty() { "-".to_string() } else { extras.join(";") }, vu, marker);
            // with the extension feature a `file:` URL is rebuilt from its (percent-decoded, normalised) path, so an
            // escape that need not be one (`%2F` in a fragment) comes back literal: there the URL is compared up
            // to percent-decoding — the derivation's URL and the parsed one must still denote the same path / fragment
            let ext_file_same = cfg!(feature = "ext") && d.url.as_ref().is_some_and(|u| u.starts_with("file:")) && {
                let dec = |h: &str| urlencoding::decode(&unhex(h)).map(|c| c.into_owned()).unwrap_or_default();
                let field = |l: &str, i: usize| l.split(' ').find_map(|f| f.strip_prefix("vu=url:")).and_then(|v| v.split(':').nth(i)).map(|x| x.to_string()).unwrap_or_default();
                let strip = |l: &str| l.split(' ').filter(|f| !f.starts_with("vu=")).collect::<Vec<_>>().join(" ");
                out.stat("c07.ext_file_url_compared_decoded");
                // path and fragment are compared SEPARATELY (a `#` that moved from the fragment into the path as `%23` must show)
                let parts = |h: &str| url::Url::parse(&unhex(h)).map(|u| (urlencoding::decode(u.path()).map(|c| c.into_owned()).unwrap_or_default(), u.fragment().map(|f| urlencoding::decode(f).map(|c| c.into_owned()).unwrap_or_default()))).ok();
                let _ = &dec;
                // (escapes that do not decode to UTF-8: the feature keeps such a text literally — `%80` becomes the three characters
                //  `%80` of the file name — which is its documented fallback; the URL is not judged there, the rest is)
                let undecodable = d.url.as_ref().is_some_and(|u| urlencoding::decode(u).is_err());
                if undecodable { out.stat("c07.ext_file_url_undecodable_not_judged"); }
                field(&ans, 0) == field(&want_prefix, 0) && (undecodable || (parts(&field(&ans, 1)).is_some() && parts(&field(&ans, 1)) == parts(&field(&want_prefix, 1)))) && strip(&ans).starts_with(&strip(&want_prefix))
            };
            if !ans.starts_with(&want_prefix) && !ext_file_same {
                out.oracle_fail("C07", "the parsed requirement does not have the derivation's components (name, extras, specifiers/URL, marker)", serde_json::json!({"text": text, "got": ans, "want": want_prefix}));
            }
            // changing only optional whitespace never changes the result
            if let Some(text2) = render(&mut rng, &d) {
                let ans2 = req_case(out, &mut w, &mut rc, prop, &text2, &vars);
                // errors: same kind (spans move with the layout)
                let strip = |a: &str| if a.starts_with("err ") { a.split(' ').take(2).collect::<Vec<_>>().join(" ") } else { a.rsplit_once(" w=").map(|x| x.0.to_string()).unwrap_or(a.to_string()) };
                if strip(&ans2) != strip(&ans) {
                    out.oracle_fail("C07", "two whitespace layouts of one derivation parse differently", serde_json::json!({"text": text, "text2": text2, "a": ans, "b": ans2}));
                }
            }
        }
        if prop == "C08" && ans.starts_with("ok ") {
            round_trip(out, &mut rc, &text, &vars);
        }
    }
    // ---- C08: markers whose rendering goes through the DNF simplifier's negation test (ordering operators on a
    //      string key against one literal, with a guard on a later variable), and quote-bearing values ----------
    if prop == "C08" {
        let ops = ["==", "!=", "<", "<=", ">", ">="];
        let mut texts: Vec<String> = Vec::new();
        for key in ["os_name", "platform_release", "python_full_version"] {
            let (a, b) = if key == "python_full_version" { ("3.8", "3.9") } else { ("a", "b") };
            for o1 in ops { for o2 in ops {
                texts.push(format!("pkg ; ({key} {o1} '{b}' and extra == 'x') or {key} {o2} '{b}'"));
                texts.push(format!("foo[bar]>=1.0,<2 ; {key} {o1} '{a}' and {key} {o2} '{b}' and extra == 'bar'"));
                if o1 < o2 { texts.push(format!("pkg @ https://example.org/p-1.0.tar.gz ; {key} {o1} '{b}' or ({key} {o2} '{b}' and 'x' in platform_machine)")); }
            } }
        }
        // two DIFFERENT keys against the same literal under every pair of operators (a renderer that takes them for negations of one
        // another drops a term: the text is empty or another marker)
        for (k1, k2, v) in [("python_full_version", "implementation_version", "3.8"), ("python_version", "implementation_version", "3.8"), ("implementation_version", "python_full_version", "3.8.*"), ("os_name", "sys_platform", "posix"), ("platform_release", "platform_version", "5.4")] {
            let wild = v.ends_with(".*");
            for o1 in ops { for o2 in ops {
                if wild && !(o1 == "==" || o1 == "!=") || wild && !(o2 == "==" || o2 == "!=") { continue; }
                texts.push(format!("foo ; {k1} {o1} '{v}' or {k2} {o2} '{v}'"));
                texts.push(format!("foo[bar] @ https://example.org/foo.whl ; {k1} {o1} '{v}' or ({k2} {o2} '{v}' and os_name == 'nt')"));
            } }
        }
        for v in ["it's", "x\"y"] { for (l, r) in [("os_name", "in"), ("os_name", "not in")] {
            let q = if v.contains('\'') { '"' } else { '\'' };
            texts.push(format!("pkg ; {q}{v}{q} {r} {l}"));
            texts.push(format!("pkg ; {l} {r} {q}{v}{q} or extra == 'x'"));
        } }
        // `extra` compared with text that is not a valid name (kept verbatim) and contains a quote or escape-sensitive characters
        for v in ["it's", "d'oh", "o'neil\\x", "x\"y", "e\u{301}'", "Not An Extra!"] {
            let q = if v.contains('\'') { '"' } else { '\'' };
            texts.push(format!("foo ; extra == {q}{v}{q}"));
            texts.push(format!("foo[bar]>=1.0 ; os_name == 'posix' and extra != {q}{v}{q}"));
            texts.push(format!("foo @ https://example.org/foo.whl ; {q}{v}{q} == extra"));
            texts.push(format!("foo ; platform_release == {q}C:\\{v}{q}"));
        }
        // two different invalid extra names under opposite operators (different variables of the diagram)
        for (a, b) in [("foo bar", "baz!"), ("a b", "c d"), ("\u{e9}", "\u{fc}")] {
            texts.push(format!("pkg ; extra == '{a}' or extra != '{b}'"));
            texts.push(format!("pkg ; extra == '{a}' or (extra != '{b}' and os_name == 'nt')"));
            texts.push(format!("pkg[x] @ https://example.org/p.whl ; sys_platform == 'win32' and (extra == '{a}' or extra != '{b}')"));
            texts.push(format!("pkg>=1.0,<2 ; extra != '{a}' or extra == '{b}'"));
        }
        // URL texts whose PARSED url ends in `;` / `#` / a blank although the text does not (trimmed C0 controls, a variable that
        // expands to nothing, an escape the extension feature decodes), crossed with every kind of marker — none, constant
        // true, constant false (written back as `python_version < '0'`), ordinary: whatever is accepted renders to a text that parses back
        for url in ["https://host/x;\u{1}", "https://host/x#\u{1f}", "https://host/x;${VP_EMPTY}", "https://host/x#${VP_EMPTY}", "https://host/x;\u{1}\u{2}", "file:///tmp/a%3B", "file:///tmp/a%23", "file:///tmp/a%20",
                    "https://host/x%3B", "https://host/x;a", "https://host/x?q=;\u{1}", "https://host/x#frag;\u{8}", "https://host/x\u{1}", "${VP_EMPTY}https://host/x;${VP_EMPTY}"] {
            for marker in ["", " ; os_name == 'a'", " ; os_name == 'a' and os_name == 'b'", " ; python_version == '3.8.1'", " ; extra == 'a' and extra != 'a'", " ; os_name == 'a' or os_name != 'a'",
                           " ; python_full_version >= '3' or python_full_version < '3'", " ; python_version < '0'", " ; 'a' in os_name and 'a' not in os_name"] {
                texts.push(format!("name @ {url}{marker}"));
                texts.push(format!("name[x] @ {url}{marker}"));
            }
        }
        for text in texts {
            let ans = req_case(out, &mut w, &mut rc, prop, &text, &vars);
            if ans.starts_with("ok ") { round_trip(out, &mut rc, &text, &vars); out.stat("c08.targeted_markers"); }
        }
        // the property quantifies over every ACCEPTED requirement, not only over grammar derivations: near-valid texts (empty or
        // half-empty groups, dangling separators) and hostile mutations of valid ones — whatever the parser lets through has to
        // render to a text that parses back to an equal value
        {
            let near = ["numpy ()", "numpy()", "numpy ( )", "n[x] ( \t ) ; os_name == 'a'", "numpy (>=1.0,)", "numpy (,)", "numpy ( , >=1 )", "numpy >=1,", "numpy >=1,,<2", "numpy[]", "numpy [ ]", "numpy[] ()", "numpy ;", "numpy ; ",
                "numpy @ https://x.org/p ;", "n (>=1)(<2)", "n (>=1) ()", "n[a,]", "n[,a]", "n (>=1 ; os_name == 'a'", "n @ https://x.org/p ()", "n () ; os_name == 'a'", "n ( ) @ https://x.org/p", "foo.whl ()", "n ()()", "n (())"];
            for t in near {
                let ans = req_case(out, &mut w, &mut rc, prop, t, &vars);
                if ans.starts_with("ok ") { round_trip(out, &mut rc, t, &vars); out.stat("c08.near_valid_accepted"); } else { out.stat("c08.near_valid_rejected"); }
            }
            let seeds = ["requests [security,tests] >= 2.8.1, == 2.8.* ; python_version > \"3.8\"", "name @ https://x.org/a ; os_name == 'a'", "a(>=1,<2)", "a[b] @ file:///x", "pkg>=1.0;extra=='x'", "n ( >=1 , <2 ) ; os_name == 'a'"];
            for i in 0..(if big { 4000 } else { 800 }) {
                let seed = rng.pick(&seeds).to_string();
                let text = hostile(&mut rng, &seed);
                let _ = i;
                let ans = req_case(out, &mut w, &mut rc, prop, &text, &vars);
                if ans.starts_with("ok ") { round_trip(out, &mut rc, &text, &vars); out.stat("c08.hostile_accepted"); } else { out.stat("c08.hostile_rejected"); }
            }
        }
    }
    // ---- corpus of minimised past failures, first ------------------------------------------------------
    if prop == "C06" || prop == "C18" {
        for line in std::fs::read_to_string("/verif/corpus/req.txt").unwrap_or_default().lines() {
            if line.starts_with('#') || line.is_empty() { continue; }
            let text = unescape(line);
            req_case(out, &mut w, &mut rc, prop, &text, &vars);
            out.stat("corpus.cases");
        }
    }
    // ---- hostile ---------------------------------------------------------------------------------------
    if prop == "C06" {
        // every whitespace position of error-producing and valid shapes filled with 1-, 2- and 3-byte blanks
        {
            let seeds = ["n[a-\u{1}]", "n[a-\u{1},b]", "n[a\u{1}-]", "n\u{1}[\u{1}a_\u{1}]", "n[a\u{1}\u{e9}]", "n[dev,\u{1}b_\u{1},c]\u{1}>=\u{1}1.0", "n\u{1}@\u{1}https://h/p;\u{1}#x",
                "n\u{1}(\u{1}>=1\u{1},\u{1}<2\u{1})\u{1}x", "n\u{1}>=1\u{1};\u{1}os_name\u{1}==\u{1}'a'\u{1}x", "n[a]\u{1}@\u{1}file:///p\u{1};\u{1}os_name\u{1}~=\u{1}'x'\u{1}y",
                "n-\u{1}>=1", "n_\u{1}[a]", "n.\u{1};x", "n[a,\u{1}]", "n[\u{1},a]", "n\u{1}(\u{1}>=1", "n\u{1}@\u{1}", "n[a]\u{1}\u{1}x"];
            for seed in seeds {
                for blank in [" ", "\u{a0}", "\u{3000}", "\u{2003} ", "\u{a0} ", "\t\u{85}"] {
                    let text = seed.replace('\u{1}', blank);
                    req_case(out, &mut w, &mut rc, prop, &text, &vars);
                    out.evaluations += 1;
                    let a = w.call(&format!("x {}", hex(text.trim_start_matches('n'))));
                    if a.starts_with("panic") || a == "dead" { out.oracle_fail("C06", "Extras::parse panicked", serde_json::json!({"text": text})); }
                    if a.contains("disp=0") || a.contains("boundary=0") { out.oracle_fail("C06", "Extras::parse error not renderable / span off boundary", serde_json::json!({"text": text.trim_start_matches('n')})); }
                    out.stat("blank_width.cases");
                }
            }
        }
        // a 2-, 3- and 4-byte scalar slid through every position of URL, path and extras texts: any slice taken at a fixed
        // byte offset (or an offset computed on another string) lands inside a scalar for one of them
        {
            let bases = ["file://localhost/p/a.whl", "file:///tmp/pkgs/a-1.0.whl", "file://abcdefghij/pkg-1.0-py3-none-any.whl", "file:relative/p.tar.gz", "https://host.example/p/a.whl#sha256=abc", "git+https://h.example/p.git@main#egg=n",
                "./rel/path/x.tar.gz", "/abs/path/x-1.0.zip", "${VP_HOME_DIR}/x/y.whl", "file://${VP_LONG}/x/y.whl", "FILE://LOCALHOST/p", "C:\\dir\\a.whl", "hg+static-http://h.example/p"];
            for base in bases {
                let cuts: Vec<usize> = (0..=base.len()).filter(|i| base.is_char_boundary(*i)).take(44).collect();
                for &cut in &cuts {
                    for ch in ["\u{e9}", "\u{20ac}", "\u{1D11E}"] {
                        let url = format!("{}{}{}", &base[..cut], ch, &base[cut..]);
                        for text in [format!("n @ {url}"), format!("n[a] @ {url} ; os_name == 'a'")] {
                            req_case(out, &mut w, &mut rc, prop, &text, &vars);
                        }
                        #[cfg(feature = "ext")]
                        { unnamed_case(out, &mut w, &mut rc, &format!("{url}[a] ; os_name == 'a'"), &vars); }
                        // the public text helpers are total too
                        out.evaluations += 1;
                        let u2 = url.clone();
                        let helpers = std::panic::catch_unwind(move || {
                            let _ = pep508_rs::split_scheme(&u2);
                            let _ = pep508_rs::split_extras(&u2);
                            let _ = pep508_rs::strip_host(&u2);
                            if let Some((_, rest)) = pep508_rs::split_scheme(&u2) { let _ = pep508_rs::strip_host(rest); }
                        });
                        if helpers.is_err() { out.oracle_fail("C06", "a public URL text helper (split_scheme / split_extras / strip_host) panicked", serde_json::json!({"text": url})); }
                        else { url_helpers_case(out, &mut rc, &url, &vars); }
                        out.stat("sliding_scalar.cases");
                    }
                }
            }
        }
        // very long lines (beyond 2^16 characters) with the mistake at the very end: offsets and echoed text must not be capped
        {
            let long_name = "a".repeat(70_000);
            let long_url = format!("pkg @ https://example.org/{}/pkg-1.0.tar.gz", "d/".repeat(35_000));
            let long_str = "x".repeat(66_000);
            for text in [format!("{long_name} ?"), format!("{long_url} ; os_name =="), format!("pkg ; os_name == '{long_str}' und os_name == 'nt'"), format!("pkg[{}", "e,".repeat(33_000)),
                         format!("pkg >= 1.0 ; {} python_version >= '3'", "os_name == 'a' and ".repeat(4_000)), format!("{}\u{e9} ?", "b".repeat(65_535)), format!("pkg ; os_name == '{long_str}'")] {
                // (the Lean parser model needs about 20 s per such line: the model is compared on them in the thorough tier only)
                if big { req_case(out, &mut w, &mut rc, prop, &text, &vars); }
                else {
                    out.evaluations += 1;
                    let ans = w.call(&format!("r {} {}", hex(&text), env_field(&vars)));
                    let input = serde_json::json!({"text_prefix": text.chars().take(60).collect::<String>(), "text_suffix": text.chars().rev().take(40).collect::<Vec<_>>().into_iter().rev().collect::<String>(), "chars": text.chars().count(), "text_hex": hex(&text)});
                    if ans.starts_with("panic") || ans == "dead" { out.oracle_fail("C06", "parsing a very long requirement line panicked", input.clone()); }
                    if ans.contains("disp=0") { out.oracle_fail("C06", "the error returned for a very long line cannot be formatted with Display (panic)", input.clone()); }
                    if ans.contains("boundary=0") { out.oracle_fail("C06", "the error span of a very long line does not start on a char boundary inside the input", input.clone()); }
                }
                out.stat("long_lines.cases");
            }
        }
        // trailing input of every width mix after a complete marker (char-counted span)
        {
            let alphabet = ["a", "é", "語", "\u{1F600}"];
            let mut frontier = vec![String::new()];
            for _ in 0..4 {
                let mut next = vec![];
                for s in &frontier { for a in alphabet { next.push(format!("{s}{a}")); } }
                for s in &next {
                    req_case(out, &mut w, &mut rc, prop, &format!("numpy ; os_name == 'a' {s}"), &vars);
                    out.stat("trailing.width_mix");
                }
                frontier = next;
            }
        }
        let n = if big { 8000 } else { 1500 };
        let seeds = ["requests [security,tests] >= 2.8.1, == 2.8.* ; python_version > \"3.8\"", "name @ https://x.org/a ; os_name == 'a'", "a(>=1,<2)", "foo[a-]", "name- >=1", "name_[a]", "n.;x", "a[b] @ file:///x", "", " ", "a;", "a@", "a[", "a(", "pkg>=1.0;extra=='x'"];
        for i in 0..n {
            let base = if i % 3 == 0 { let d = gen_deriv(&mut rng, &p); render(&mut rng, &d).unwrap_or_default() } else { rng.pick(&seeds).to_string() };
            let text = if i % 7 == 0 { base } else { hostile(&mut rng, &base) };
            req_case(out, &mut w, &mut rc, prop, &text, &vars);
            if i % 4 == 0 {
                // the extras list entry point
                out.evaluations += 1;
                let a = w.call(&format!("x {}", hex(&text)));
                if a.starts_with("panic") || a == "dead" { out.oracle_fail("C06", "Extras::parse panicked", serde_json::json!({"text": text})); }
                if a.contains("disp=0") || a.contains("boundary=0") { out.oracle_fail("C06", "Extras::parse error not renderable / span off boundary", serde_json::json!({"text": text})); }
            }
        }
    }
    // ---- C18: where the URL ends, verbatim text, variable expansion --------------------------------
    if prop == "C18" {
        let alphabet = ['x', ';', '#', ' ', '\n', '\t', '\r'];
        let max_len = if big { 5 } else { 4 };
        let mut tails: Vec<String> = vec![String::new()];
        let mut cur: Vec<String> = vec![String::new()];
        for _ in 0..max_len {
            let mut next = Vec::new();
            for t in &cur { for a in alphabet { next.push(format!("{t}{a}")); } }
            tails.extend(next.iter().cloned());
            cur = next;
        }
        let contexts = ["", " ; os_name == 'a'", " # c", ";os_name=='a'", "\t;\tos_name=='a'  "];
        for t in &tails {
            for (ci, ctx) in contexts.iter().enumerate() {
                if !big && ci >= 3 && t.len() > 3 { continue; }
                let after_at = format!(" https://h.org/p{t}{ctx}");
                let text = format!("n @{after_at}");
                let ans = req_case(out, &mut w, &mut rc, prop, &text, &vars);
                url_rule_oracle(out, &text, &after_at, &ans, &vars);
            }
        }
        out.notes.push(format!("exhaustive: URL tails of length <= {max_len} over {:?} x {} following contexts", alphabet, contexts.len()));
        // the same with whitespace that is not ASCII whitespace (NBSP, LINE SEPARATOR, VT, IDEOGRAPHIC SPACE, NEL):
        // the rule says "whitespace", and the tokenizer's notion is `char::is_whitespace`
        let wide = ['x', ';', '#', ' ', '\u{a0}', '\u{2028}', '\u{b}', '\u{3000}', '\u{85}'];
        let mut cur: Vec<String> = vec![String::new()];
        for _ in 0..(if big { 4 } else { 3 }) {
            let mut next = Vec::new();
            for t in &cur { for a in wide { next.push(format!("{t}{a}")); } }
            for t in &next {
                if t.is_ascii() { continue; }
                for ctx in ["", " ; os_name == 'a'", "sha256=abc", "\u{a0}; os_name == 'a'"] {
                    let after_at = format!(" https://h.org/p{t}{ctx}");
                    let text = format!("n @{after_at}");
                    let ans = req_case(out, &mut w, &mut rc, prop, &text, &vars);
                    url_rule_oracle(out, &text, &after_at, &ans, &vars);
                    out.stat("c18.non_ascii_whitespace_tails");
                }
            }
            cur = next;
        }
        // variable expansion
        let urls = ["https://h.org/${VP_HOME_DIR}/a", "https://h.org/${VP_UNSET}/a", "https://h.org/${VP_EMPTY}a", "file://${PROJECT_ROOT}/a", "https://h.org/${vp_lower}", "https://h.org/${}",
            "https://h.org/$VP_HOME_DIR", "https://h.org/${VP_HOME_DIR", "https://h.org/${VP_HOME_DIR}${VP_HOME_DIR}", "https://h.org/$${VP_HOME_DIR}}", "https://h.org/${VP_TOKEN_1}@x", "https://${VP_HOME_DIR}",
            "https://h.org/a[1]@b{c}$d", "${VP_HOME_DIR}", "https://h.org/${VP HOME}", "https://h.org/${VP_HOME_DIR}/${VP_UNSET}/${VP_TOKEN_1}",
            "https://h.org/${VP_N\u{663}}/a", "https://h.org/${VP_\u{c9}}/a", "https://h.org/${VP_\u{ff11}}/${VP_HOME_DIR}",
            // schemes outside the supported set (rejected by this URL type; a path with the extension feature — `given()` is still the text as written)
            "ftp://h.org/${VP_HOME_DIR}/a", "ssh://h.org/${VP_TOKEN_1}", "HTTPS://h.org/${VP_HOME_DIR}", "s3://b/${VP_HOME_DIR}/k", "localhost:8080/${VP_HOME_DIR}", "C:\\d\\${VP_HOME_DIR}", "git+ftp://h/${VP_UNSET}/r",
            // file URLs whose FRAGMENT looks like a path with `.` / `..` segments (F23: with the extension feature the path is normalised — the fragment is not part of it)
            "file:///srv/pkg.tar.gz#subdirectory=a/../b", "file:///srv/pkg.tar.gz#subdirectory=src/./core", "file:///srv/pkg.tar.gz#egg=a/../../b", "file://localhost/srv/${VP_HOME_DIR}/p.whl#x/../../y",
            "file:///srv/p.whl#..", "file:///srv/p.whl#a//b/.", "file:localhost/p.whl", "file:localhost/${VP_HOME_DIR}/p.whl", "file:/localhost/p.whl", "file://localhost/localhost/p.whl", "file:localhostx/p", "file:///srv/${VP_EMPTY}p.whl#subdirectory=${VP_HOME_DIR}/../z"];
        let envsets: Vec<Vec<(String, String)>> = vec![
            vec![],
            default_vars(),
            vec![("VP_HOME_DIR".into(), "h".into()), ("VP_TOKEN_1".into(), "t;k#n".into()), ("PROJECT_ROOT".into(), "/proj root".into())],
            vec![("VP_HOME_DIR".into(), "${VP_TOKEN_1}".into()), ("VP_TOKEN_1".into(), "x y".into())],
            // variables whose names contain non-ASCII digits / letters are set, yet must never be expanded
            vec![("VP_N\u{663}".into(), "odd".into()), ("VP_\u{c9}".into(), "acc".into()), ("VP_\u{ff11}".into(), "wide".into()), ("VP_HOME_DIR".into(), "h".into())],
        ];
        for sc in SUPPORTED_SCHEMES {
            for tail in ["//h.org/p", "//h.org/${VP_HOME_DIR}/p ; os_name == 'a'"] {
                let u = if sc == "file" { format!("file:///p{}", &tail[7..]) } else { format!("{sc}:{tail}") };
                let text = format!("n @ {u}");
                let ans = req_case(out, &mut w, &mut rc, prop, &text, &vars);
                if !ans.starts_with("ok ") { out.oracle_fail("C18", &format!("a URL with the supported scheme `{sc}` is rejected: {ans}"), serde_json::json!({"text": text})); }
                url_rule_oracle(out, &text, &format!(" {u}"), &ans, &vars);
                out.stat("c18.supported_schemes");
            }
            // C0 controls around the URL text (not whitespace for the tokenizer, dropped by URL parsing): still that scheme's URL,
            // and `given()` is still the text as written
            for (lead, trail) in [("\u{1}", ""), ("\u{8}", ""), ("\u{e}", ""), ("\u{1b}", ""), ("\u{1f}", ""), ("", "\u{1}"), ("\u{1f}", "\u{1}"), ("\u{0}", ""), ("\u{1}\u{2}", "")] {
                for tail in ["", " ; os_name == 'a'"] {
                    let u = if sc == "file" { format!("{lead}file:///p/h.org/p{trail}") } else { format!("{lead}{sc}://h.org/p{trail}") };
                    let text = format!("n @ {u}{tail}");
                    let ans = req_case(out, &mut w, &mut rc, prop, &text, &vars);
                    if !ans.starts_with("ok ") { out.oracle_fail("C18", &format!("a URL with the supported scheme `{sc}` behind / before a C0 control character is rejected: {ans}"), serde_json::json!({"text": text})); }
                    url_rule_oracle(out, &text, &format!(" {u}{tail}"), &ans, &vars);
                    url_helpers_case(out, &mut rc, &u, &vars);
                    out.stat("c18.c0_controls_around_url");
                }
            }
        }
        for u in urls {
            for vs in &envsets {
                let text = format!("n @ {u}");
                let ans = req_case(out, &mut w, &mut rc, prop, &text, vs);
                url_rule_oracle(out, &text, &format!(" {u}"), &ans, vs);
                // expand_env_vars itself: implementation vs independent reading vs Lean model
                apply_env(vs);
                let got = pep508_rs::expand_env_vars(u).to_string();
                let want = expand_spec(u, vs);
                out.evaluations += 1;
                if got != want {
                    out.oracle_fail("C18", "expand_env_vars differs from `${NAME}` replacement for set variables (names of uppercase letters, digits, underscore)", serde_json::json!({"text": u, "env": env_field(vs), "got": got, "want": want}));
                }
                let cwd = std::env::current_dir().unwrap().to_string_lossy().to_string();
                rc.lines.push(format!("expand\t{}\t{}\t{}", hex(u), env_field(vs), hex(&cwd)));
                rc.envs.push(vs.clone());
                out.impl_out.push(hex(&got));
            }
        }
    }
    // ---- C19: bare URLs, paths and archive names are never taken for package names ---------------------
    if prop == "C19" {
        let shapes = ["https://x.org/a-1.0.whl", "git+https://github.com/a/b.git", "file:///tmp/x", "http://h/p?q=1", "/abs/path", "./rel", "../rel/p.tar.gz", "rel/p", "/abs", "/a", "./a", "a/b", "a\\b", "x/", "/",
            // a first segment that ends in `-` `_` `.` directly before a character that may follow a name in the grammar
            "backup_(1)/pkg-1.0-py3-none-any.whl", "dist-[old]/pkg-1.0-py3-none-any.whl", "user_@example.com/repo.tar.gz", "PKG-~1\\pkg-1.0.tar.gz", "a-=b/c", "build.;x/pkg.whl", "v_<1/p.whl", "n.>x/p", "n-!x/p.zip", "C:\\x\\y", ".", "..",
            "requests-2.26.0.tar.gz", "foo.whl", "x.zip", "a.tar.bz2", "a.tgz", "pkg-1.0.tar.xz", "A.TAR.GZ", "a.tar", "a.tbz", "a.tar.lzma", "dir/a.whl", "~/x", "\\\\server\\share", "foo.tar.gz.sig",
            "${VP_HOME_DIR}/x", "a.tlz", "a.txz", "a.tar.lz", "b.b.zip", "n.gz", "tar.gz", "x.tar.gz2",
            // non-ASCII text: byte lengths and char counts differ
            // percent escapes that do not decode to UTF-8
            "file:///tmp/pkg-%FF.whl", "file://localhost/tmp/x%E2%82", "/tmp/lit-%FF.whl",
            // more than one `#` in a path: the fragment starts at the first one, the file is the part before it
            "/srv/wheels/demo-1.0-py3-none-any.whl#sha256=abc#egg=demo", "./dist/demo-1.0.tar.gz#subdirectory=pkg#frag",
            // a closing bracket that closes nothing (the bracket depth of the token scan must not go below zero)
            "./dir]/pkg.whl", "https://example.org/a]b/pkg-1.0.whl", "/x]]/y.tar.gz",
            // archive file names that are not package names (local version `+`, leading `_`, non-ASCII letter): the archive
            // extension alone decides, with or without an extras suffix
            "torch-2.1.0+cpu-cp310-cp310-linux_x86_64.whl", "_private-1.0.zip", "na\u{ef}ve-1.0.whl", "a+b.tar.gz", "pkg-1.0+local.tar.bz2",
            // whitespace INSIDE the path / URL (one blank, runs of blanks, non-ASCII blanks): the token goes on until a blank is
            // followed by `;`, `#` or the end
            "/srv/wheel house/pkg-1.0-py3-none-any.whl", "/srv/wheel  house/pkg-1.0-py3-none-any.whl", "./a \t b/c.whl", "https://example.org/wheel\u{3000} house/pkg-1.0.whl?tag=\u{e9}", "../x   y\u{a0}\u{a0}z/p.tar.gz",
            "https://x.org/${VP_HOME_DIR}/a.whl", "git+https://h.org/${VP_TOKEN_1}/r.git", "file://${PROJECT_ROOT}/p", "../pr\u{f6}ject/dist", "https://example.org/p/nump\u{f6}.whl", "./\u{65e5}\u{672c}/p.whl", "/abs/\u{1F600}x", "https://example.org/a#egg=nump\u{f6}"];
        let suffixes = ["", "[dev]", " ; os_name == 'a'", "[dev,test] ; python_version > '3'", " [x]", "  ", "\u{a0}; os_name == 'a'", "[dev]\u{3000};os_name == 'a'", "\u{b}", "\u{2003} ", "[dev] ; extra == 'x' and python_version >= '3'"];
        // generated: every scheme form x rest, first path segments that are / are not valid names, and
        // leading whitespace before every shape
        let mut all: Vec<(String, bool)> = shapes.iter().map(|s| (s.to_string(), true)).collect();
        for scheme in ["file", "http", "git+file", "mailto", "C", "x-y.z", "a1", "svn+ssh", "A", "a-", "git-", "x.y.", "a_b-"] {
            for rest in ["editable", "project", "repo.git", "ferris@example.org", "//h/p", "/p", ""] {
                // `_` is not a scheme character: only judged when something else makes it a path
                if scheme.contains('_') && !rest.contains('/') { continue; }
                all.push((format!("{scheme}:{rest}"), false));
            }
        }
        for seg in ["dir", "dir_", "a.", "a-b", "9", "a-", "x_y."] {
            for sep in ["/", "\\"] {
                for tail in ["p", "p.whl", ""] { all.push((format!("{seg}{sep}{tail}"), false)); }
            }
        }
        let n0 = all.len();
        for i in 0..n0 {
            for lead in [" ", "\t ", "  ", "\u{a0}", "\u{3000}", "\u{2003}\u{a0}"] { let (t, _) = all[i].clone(); all.push((format!("{lead}{t}"), false)); }
        }
        for (sh, handpicked) in &all {
            let sh = sh.as_str();
            for suf in suffixes {
                let text = format!("{sh}{suf}");
                let ans = req_case(out, &mut w, &mut rc, prop, &text, &vars);
                out.nontrivial(text.clone());
                let is_shape = !matches!(sh.trim_start(), "foo.tar.gz.sig" | "n.gz" | "tar.gz" | "x.tar.gz2" | "A.TAR.GZ");
                if is_shape {
                    if ans.starts_with("ok ") {
                        out.oracle_fail("C19", "a bare URL / path / archive name was accepted as a named requirement", serde_json::json!({"text": text, "answer": ans}));
                    } else if !ans.starts_with("err unsupported") && !ans.starts_with("panic") {
                        out.oracle_fail("C19", &format!("rejected, but not with the dedicated unsupported-requirement error kind: {ans}"), serde_json::json!({"text": text}));
                    } else { out.stat("c19.unsupported"); }
                }
                #[cfg(feature = "ext")]
                { unnamed_case(out, &mut w, &mut rc, &text, &vars); }
                #[cfg(feature = "ext")]
                if *handpicked { unnamed_oracle(out, &text, sh, suf); }
                let _ = handpicked;
                // url helpers: implementation vs Lean model (and vs the harness's own reading)
                url_helpers_case(out, &mut rc, &text, &vars);
            }
        }
        // the public text helpers on texts that are not requirements: what may start / continue a scheme, where `:` must be,
        // bracket groups that are not at the end, hosts that only resemble `localhost`
        for t in ["1a:b", "+a:b", "-a:b", ".a:b", "a1+-.:b", "a:", ":b", ":", "a", "", "a b:c", "a_b:c", "é:b", "aé:b", "a:b:c", "A:b", " a:b ", "\u{1}a:b\u{1f}", "a\u{a0}:b", "ａ:b",
                  "a[b[c]", "./releases[2024/pkg-1.0.whl[dev]", "pkg+[old/sub[dev]", "x[[a]", "x[a[b[c]", "[[]", "x[a]", "x[a]y", "x[a][b]", "x]", "x[", "[a]", "x[a]]", "x[[a]", "x[a] ", "[]", "x[]", "é[ü]", "x[a]\u{a0}",
                  "localhost/pkg.whl", "localhost", "localhost/", "/localhost/x", "localhostx/y", "localhost//x", "//localhost", "//localhost/", "//localhostx/y", "//LOCALHOST/p", "/localhost/p", "///p", "//", "/", "//h/p", "//localhost//p", "//localhosté/p"] {
            url_helpers_case(out, &mut rc, t, &vars);
            out.stat("c19.helper_only_texts");
        }
    }
    // ---- (extension feature) absolute paths with `.` / `..` / empty segments and path-like fragments: implementation vs model ----
    #[cfg(feature = "ext")]
    if prop == "C19" || prop == "C18" || prop == "C06" {
        // every sequence of up to 4 segments over {a, .., ., empty, é} behind the root, alone and before two kinds of fragment
        let segs = ["a", "..", ".", "", "\u{e9}b"];
        let mut paths: Vec<String> = vec!["/".into()];
        let mut cur: Vec<String> = vec![String::new()];
        for _ in 0..4 {
            let mut next = Vec::new();
            for p in &cur { for sg in segs { next.push(format!("{p}/{sg}")); } }
            paths.extend(next.iter().cloned());
            cur = next;
        }
        for p in &paths {
            path_norm_case(out, &mut rc, p, &vars);
            if p.len() <= 8 {
                for frag in ["x", "subdirectory=a/../b", "../..", "a/./b#c", "", "%41 b", "/abs/../x"] { path_norm_case(out, &mut rc, &format!("{p}#{frag}"), &vars); }
            }
        }
        for t in ["", "rel/x", "./x", "#x", "a#/b", "/srv/pkg.tar.gz#subdirectory=a/../b", "/srv/pkg-1.0.whl#sha256=abc#egg=x", "//srv//x//", "/srv/a b/%41%2F/x.whl", "/../x", "/a/../../x#f", "/a/b/../../../x",
                  "/srv/\u{65e5}\u{672c}/../p.whl#\u{e9}/..", "/srv/p.whl#", "/srv/dir#x/../p.whl", "/.../x", "/..a/b", "/a../b", "/.a/./.b"] {
            path_norm_case(out, &mut rc, t, &vars);
        }
    }
    // ---- the unnamed parser (extension feature) on targeted and hostile texts: implementation vs model -------
    #[cfg(feature = "ext")]
    if prop == "C19" || prop == "C06" {
        let targeted = ["a[b ;c]", "a[b] [c]", "a[[b]]", "a[b]c]", "a[b][c]", "x ; [", "p[a,b,]", "p[,a]", "p[a \u{e9}]", "p[]", "p[ ]", "p[a-]", "p[ a , b ]",
            "${VP_HOME_DIR}/x[dev]", "p[${VP_EMPTY}]", "${VP_EMPTY}", "https://example.org/p.whl# ; 'a' == 'b'", "/srv/p-1.0.tar.gz; ; os_name ~= 'x'", "/srv/x.whl#[tests] ; 'a' == 'b' and python_version >= os_name", "https://example.org/p.whl# ; 'a' == 'b' or os_name == 'nt'", "/srv/p.whl ; 'a' == 'b'",
            "file://localhost/p", "file://localhost", "file:p", "FILE:///p", "file:localhost/pkg-1.0-py3-none-any.whl[extra] ; python_version >= '3.8'", "file:localhost/p", "file:/localhost/p", "file:localhost", "file:./localhost/p", "file:///a%20b#c%2541", "git+https://h/p[x]#egg", "h://x", "hg+static-http://h/p",
            "p;q", "p; q", "p ;q", "p #c", "p# c", "p\n; m", "p\r x", "p\r\n", "", " ", "[x]", "a]", "a[", "p ; os_name == 'a' x", "p;", "p; ", "p#", "p[x]; ", "p[x]# y", "./a b", "./a b ; os_name == 'a'",
            // malformed extras behind a variable whose value is longer / shorter than its reference, ASCII and not
            "${VP_LONG}/foo-1.0-py3-none-any.whl[dev,]", "${VP_LONG}[,]", "${VP_HOME_DIR}/\u{43f}\u{430}\u{43a}\u{435}\u{442}[dev,]", "${VP_EMPTY}\u{65e5}\u{672c}[a b]", "${VP_LONG}/x[\u{e9}]", "${VP_TOKEN_1}\u{e9}\u{e9}[a,,b]", "./${VP_LONG}[dev ; os_name == 'a'",
// leading blanks AND a non-ASCII path before malformed extras (the extras error is re-based past both)
            "  ./\u{e9}[,]", "   ./x\u{65e5}[!]", "\t ./dir/\u{fc}[!]", " \u{a0}./\u{e9}\u{e9}[a,,b]", "  /\u{1F600}[\u{e9}]",
            "p [x]", "p\t[x] ; os_name=='a'", "/\u{65e5}[\u{672c}]", "p[x]\u{3000};os_name=='a'", "p;\u{3000}#x", "/a;[x]\u{3000}#c", "/a#[x]\u{2003}x", "/a;[x] #c", "C:\\a\\b.whl[x]", "a:b", "1a:b", "../x[y] # c"];
        for t in targeted { unnamed_case(out, &mut w, &mut rc, t, &vars); out.nontrivial(format!("unnamed {t}")); }
        // a variable whose VALUE contains another reference: replaced once, the replacement text is not scanned again — for the
        // unnamed form exactly as for `name @ <same text>` (both are compared with the model, and with one another)
        {
            let nested: Vec<(String, String)> = vec![("VP_HOME_DIR".into(), "mirror/${VP_TOKEN_1}".into()), ("VP_TOKEN_1".into(), "nightly".into()), ("VP_EMPTY".into(), "${VP_HOME_DIR}".into())];
            for t in ["https://h.org/${VP_HOME_DIR}/pkg-1.0-py3-none-any.whl", "git+https://h.org/${VP_HOME_DIR}/r.git@main", "https://${VP_EMPTY}.org/p.whl[x] ; os_name == 'a'", "file:///srv/${VP_HOME_DIR}/p.whl", "/srv/${VP_HOME_DIR}/p.whl", "./${VP_HOME_DIR}/p.whl[dev]"] {
                let a = unnamed_case(out, &mut w, &mut rc, t, &nested);
                let b = req_case(out, &mut w, &mut rc, prop, &format!("n @ {}", t.split('[').next().unwrap_or(t).split(" ;").next().unwrap_or(t)), &nested);
                let url_of = |ans: &str, key: &str| ans.split(' ').find_map(|f| f.strip_prefix(key)).map(|x| x.to_string());
                let (ua, ub) = (url_of(&a, "url="), url_of(&b, "vu=url:").and_then(|v| v.split(':').nth(1).map(|x| x.to_string())));
                // (a relative path is resolved against the working directory each entry point is given: not compared)
                if !t.starts_with('.') && a.starts_with("ok ") && b.starts_with("ok ") && ua.is_some() && ua != ub {
                    out.oracle_fail("C19", "the unnamed form and `name @ <same text>` read different URLs from a text whose variable holds another reference", serde_json::json!({"text": t, "unnamed_url": ua.map(|h| unhex(&h)), "named_url": ub.map(|h| unhex(&h)), "feature": "non-pep508-extensions"}));
                }
                out.stat("unnamed.nested_variable_values");
            }
        }
        let bases = ["https://x.org/a-1.0.whl[dev]", "../rel/p.tar.gz ; os_name == 'a'", "/abs/path[dev,test] ; python_version > '3'", "file:///tmp/x[a]", "git+https://github.com/a/b.git@main#egg=b", "${VP_HOME_DIR}/x [x]", "./p # c"];
        let n = if big { 6000 } else { 1200 };
        for i in 0..n {
            let base = rng.pick(&bases).to_string();
            let text = if i % 9 == 0 { base } else { hostile(&mut rng, &base) };
            unnamed_case(out, &mut w, &mut rc, &text, &vars);
        }
    }
    out.stat_n("worker.restarts", w.restarts);
    finish(out, rc);
    let n = out.cases.len();
    if n > 0 {
        out.sample(serde_json::json!({"case": out.cases[n / 2], "impl": out.impl_out[n / 2]}));
        out.sample(serde_json::json!({"case": out.cases[n - 1], "impl": out.impl_out[n - 1]}));
    }
}

/// are two markers equivalent on final-release environments (used only inside the property's
/// carve-out: the FALSE marker and deprecated key spellings)
pub fn marker_equiv(a: &MarkerTree, b: &MarkerTree, seed: u64) -> bool {
    if a == b { return true; }
    let mut rng = Rng::new(seed);
    let p = pools();
    for _ in 0..200 {
        let pfv = format!("{}.0.1", rng.pick(&["0", "2.7", "3", "3.7", "3.8", "3.8.5", "3.9", "3.10", "4"]));
        let mut e = CEnv::default_env();
        let iv = rel_of(p.versions[rng.below(p.versions.len())]);
        e.vers = [iv, pfv.clone(), major_minor(&pfv)];
        for i in 0..8 { e.strs[i] = format!("{}{}", p.strings[rng.below(p.strings.len())], if rng.chance(1, 3) { "!" } else { "" }); }
        e.extras = p.extras.iter().filter(|x| ExtraName::from_str(x).is_ok() && rng.chance(1, 2)).map(|x| x.to_string()).collect();
        if e.eval(a) != e.eval(b) { return false; }
    }
    true
}

/// C08: Display / serde round trip of an accepted requirement (in this process: no panics expected)
fn round_trip(out: &mut Out, rc: &mut ReqCases, text: &str, vars: &[(String, String)]) {
    apply_env(vars);
    let r = match std::panic::catch_unwind(|| Requirement::<VerbatimUrl>::from_str(text)) { Ok(Ok(r)) => r, _ => return };
    out.nontrivial(text.to_string());
    let shown = r.to_string();
    // the Display glue against its Lean model (`showReq`): components as their own printers give them
    {
        let extras: Vec<String> = r.extras.iter().map(|e| hex(&e.to_string())).collect();
        let kind = match &r.version_or_url {
            None => "none".to_string(),
            Some(pep508_rs::VersionOrUrl::VersionSpecifier(v)) => format!("s:{}", v.iter().map(|x| hex(&x.to_string())).collect::<Vec<_>>().join(";")),
            Some(pep508_rs::VersionOrUrl::Url(u)) => format!("u:{}", hex(&u.to_string())),
        };
        let marker = r.marker.contents().map(|c| hex(&c.to_string())).unwrap_or("none".into());
        rc.lines.push(format!("showreq\t{}\t{}\t{}\t{}", hex(&r.name.to_string()), if extras.is_empty() { "-".to_string() } else { extras.join(";") }, kind, marker));
        rc.envs.push(vars.to_vec());
        out.impl_out.push(hex(&shown));
        out.evaluations += 1;
        out.stat("c08.display_model_cases");
    }
    let input = serde_json::json!({"text": text, "rendered": shown});
    // the property's carve-out: FALSE renders as `python_version < '0'`, deprecated keys render under the modern name
    let is_false = r.marker.is_false();
    let deprecated = ["os.name", "sys.platform", "platform.machine", "platform.python_implementation", "platform.version", "python_implementation"].iter().any(|k| text.contains(k));
    let same = |x: &Requirement<VerbatimUrl>| -> bool {
        x.name == r.name && x.extras == r.extras && x.version_or_url == r.version_or_url
            && (x.marker == r.marker || ((is_false || deprecated) && marker_equiv(&x.marker, &r.marker, 7)))
    };
    if is_false || deprecated { out.stat("c08.carve_out_equivalence"); } else { out.stat("c08.strict_equality"); }
    match std::panic::catch_unwind(|| Requirement::<VerbatimUrl>::from_str(&shown)) {
        Ok(Ok(r2)) => {
            if !same(&r2) {
                out.oracle_fail("C08", "to_string() parses back to a different requirement", input.clone());
            }
            // inside the carve-out the re-parsed marker is only equivalent (a deprecated spelling is a distinct
            // variable before rendering and the modern one after): its text is not required to be the same
            if !is_false && !deprecated && r2.to_string() != shown {
                out.oracle_fail("C08", "rendering the re-parsed requirement does not reproduce the text", input.clone());
            }
        }
        Ok(Err(e)) => out.oracle_fail("C08", &format!("to_string() of an accepted requirement does not parse: {}", e.message), input.clone()),
        Err(_) => out.oracle_fail("C08", "panic while re-parsing", input.clone()),
    }
    match serde_json::to_string(&r).ok().and_then(|j| serde_json::from_str::<Requirement<VerbatimUrl>>(&j).ok()) {
        Some(r3) => if !same(&r3) { out.oracle_fail("C08", "serde round trip returns a different requirement", input.clone()); },
        None => out.oracle_fail("C08", "serde round trip fails", input.clone()),
    }
    // the serialized form is the displayed text; reading it back must not depend on how the JSON string is written / owned
    if de_sources::<Requirement<VerbatimUrl>>(&shown).iter().any(|d| !d.as_ref().is_some_and(|x| same(x))) {
        out.oracle_fail("C08", "deserialization of the displayed text depends on how the JSON string is written / owned (plain, escaped, owned value)", input.clone());
    }
    // with the extension feature paths and file URLs are rebuilt relative to a working directory: the same
    // round trip through the entry point that takes one
    #[cfg(feature = "ext")]
    {
        if let Ok(Ok(rw)) = std::panic::catch_unwind(|| Requirement::<VerbatimUrl>::parse(text, "/work")) {
            let shown_w = rw.to_string();
            match std::panic::catch_unwind(|| Requirement::<VerbatimUrl>::parse(&shown_w, "/work")) {
                Ok(Ok(r2)) => {
                    let eq = r2.name == rw.name && r2.extras == rw.extras && r2.version_or_url == rw.version_or_url && (r2.marker == rw.marker || ((is_false || deprecated) && marker_equiv(&r2.marker, &rw.marker, 7)));
                    if !eq { out.oracle_fail("C08", "parse(.., working_dir): to_string() parses back to a different requirement", serde_json::json!({"text": text, "rendered": shown_w, "feature": "non-pep508-extensions"})); }
                }
                _ => out.oracle_fail("C08", "parse(.., working_dir): to_string() of an accepted requirement does not parse", serde_json::json!({"text": text, "rendered": shown_w, "feature": "non-pep508-extensions"})),
            }
            out.stat("c08.working_dir_round_trips");
        }
    }
    let _ = (PackageName::from_str("a"), ExtraName::from_str("a"), MarkerTree::TRUE);
}

/// independent reading of `${NAME}` expansion (C18)
fn expand_spec(s: &str, vars: &[(String, String)]) -> String {
    let b: Vec<char> = s.chars().collect();
    let mut out = String::new();
    let mut i = 0;
    while i < b.len() {
        if b[i] == '$' && i + 1 < b.len() && b[i + 1] == '{' {
            let mut j = i + 2;
            while j < b.len() && (b[j].is_ascii_uppercase() || b[j].is_ascii_digit() || b[j] == '_') { j += 1; }
            if j > i + 2 && j < b.len() && b[j] == '}' {
                let name: String = b[i + 2..j].iter().collect();
                let val = vars.iter().find(|(k, _)| *k == name).map(|(_, v)| v.clone()).or_else(|| if name == "PROJECT_ROOT" { Some(std::env::current_dir().unwrap().to_string_lossy().to_string()) } else { None });
                match val { Some(v) => out.push_str(&v), None => out.extend(&b[i..=j]) }
                i = j + 1;
                continue;
            }
        }
        out.push(b[i]);
        i += 1;
    }
    out
}

/// the schemes `VerbatimUrl` documents as supported for direct-URL requirements (the generic parser,
/// `Requirement<Url>`, takes any URL; the URL type used here takes these, matched exactly as written)
pub const SUPPORTED_SCHEMES: [&str; 25] = ["file", "git+git", "git+http", "git+file", "git+ssh", "git+https", "bzr+http", "bzr+https", "bzr+ssh", "bzr+sftp", "bzr+ftp", "bzr+lp", "bzr+file",
    "hg+file", "hg+http", "hg+https", "hg+ssh", "hg+static-http", "svn+ssh", "svn+http", "svn+https", "svn+svn", "svn+file", "http", "https"];

/// RFC 3986 scheme of a text: ALPHA *( ALPHA / DIGIT / "+" / "-" / "." ) before the first `:`
fn scheme_of(text: &str) -> Option<&str> {
    // (a URL is read after its leading C0 controls and spaces are dropped — WHATWG, and what `Url::parse` does)
    let text = text.trim_start_matches(|c: char| c <= ' ');
    let (s, _) = text.split_once(':')?;
    let mut cs = s.chars();
    if !cs.next()?.is_ascii_alphabetic() { return None; }
    if !cs.all(|c| c.is_ascii_alphanumeric() || matches!(c, '+' | '-' | '.')) { return None; }
    Some(s)
}

/// independent reading of `strip_host`
pub fn strip_host_spec(text: &str) -> &str {
    if let Some(rest) = text.strip_prefix("//localhost") { if rest.starts_with('/') { return rest; } }
    text.strip_prefix("//").unwrap_or(text)
}

/// `strip_host` of the implementation, in hex (`panic` if it panics: an in-process call)
fn strip_host_hex(text: &str) -> String {
    let t = text.to_string();
    std::panic::catch_unwind(move || hex(pep508_rs::strip_host(&t))).unwrap_or_else(|_| "panic".into())
}

/// (extension feature) `VerbatimUrl::from_absolute_path` against the Lean model of `normalize_absolute_path` + `split_fragment`:
/// the file path of the URL, its fragment (decoded once), or the error class
#[cfg(feature = "ext")]
fn path_norm_case(out: &mut Out, rc: &mut ReqCases, text: &str, vars: &[(String, String)]) {
    out.evaluations += 1;
    let t = text.to_string();
    let got = std::panic::catch_unwind(move || match VerbatimUrl::from_absolute_path(&t) {
        Ok(u) => {
            let p = u.to_url().to_file_path().map(|p| p.to_string_lossy().to_string()).unwrap_or_else(|()| "?".into());
            let f = u.to_url().fragment().map(|f| urlencoding::decode(f).map(|c| c.into_owned()).unwrap_or_else(|_| "?".into()));
            format!("ok {} {}", hex(&p), f.map(|f| hex(&f)).unwrap_or("none".into()))
        }
        Err(pep508_rs::VerbatimUrlError::WorkingDirectory(_)) => "relative".to_string(),
        Err(pep508_rs::VerbatimUrlError::Normalization(..)) => "escapes".to_string(),
        Err(e) => format!("err-other {e}"),
    }).unwrap_or_else(|_| "panic".into());
    if got == "panic" { out.oracle_fail("C06", "VerbatimUrl::from_absolute_path panicked", serde_json::json!({"text": text, "feature": "non-pep508-extensions"})); }
    // what the property says directly: the fragment of the text (after the first `#`) is the URL's fragment, whatever it contains
    if let (Some((_, frag)), Some(rest)) = (text.split_once('#'), got.strip_prefix("ok ")) {
        if rest.split(' ').nth(1) != Some(hex(frag).as_str()) {
            out.oracle_fail("C18", "a path's fragment is not kept as written (it took part in the normalisation of the path)", serde_json::json!({"text": text, "answer": got, "feature": "non-pep508-extensions"}));
        }
    }
    rc.lines.push(format!("pathnorm\t{}", hex(text)));
    rc.envs.push(vars.to_vec());
    out.impl_out.push(got);
    out.stat("pathnorm.cases");
}

/// `split_scheme` / `split_extras` of the implementation against the Lean model's, on one text
fn url_helpers_case(out: &mut Out, rc: &mut ReqCases, text: &str, vars: &[(String, String)]) {
    out.evaluations += 1;
    let sch = match pep508_rs::split_scheme(text) { Some((a, b)) => format!("{}:{}", hex(a), hex(b)), None => "none".into() };
    let ext = match pep508_rs::split_extras(text) { Some((a, b)) => format!("{}:{}", hex(a), hex(b)), None => "none".into() };
    // pip's `^(.+)(\[[^]]+])$` as the crate documents it: the text ends in `]`, the group starts at the LAST `[` before it, and no other `]` lies in between
    let spec = (|| { let body = text.strip_suffix(']')?; let j = body.rfind('[')?; if body[j..].contains(']') { return None; } Some(text.split_at(j)) })();
    if pep508_rs::split_extras(text) != spec {
        out.oracle_fail("C19", "split_extras does not split at the last `[` before the final `]` (the extras group of a path / URL is cut at the wrong bracket)", serde_json::json!({"text": text, "got": format!("{:?}", pep508_rs::split_extras(text)), "want": format!("{:?}", spec)}));
    }
    if strip_host_hex(text) != hex(strip_host_spec(text)) {
        out.oracle_fail("C19", "strip_host does not drop exactly `//localhost` before a `/`, or else `//`", serde_json::json!({"text": text}));
    }
    rc.lines.push(format!("urlhelpers2\t{}", hex(text)));
    rc.envs.push(vars.to_vec());
    out.impl_out.push(format!("scheme={sch} extras={ext} strip={}", strip_host_hex(text)));
}

/// the URL-end rule of C18, read from the property statement (not from the code)
fn url_rule_oracle(out: &mut Out, text: &str, after_at: &str, ans: &str, vars: &[(String, String)]) {
    let chars: Vec<(usize, char)> = after_at.char_indices().collect();
    let mut k = 0;
    while k < chars.len() && chars[k].1.is_whitespace() { k += 1; }
    let start = chars.get(k).map(|c| c.0).unwrap_or(after_at.len());
    let mut end = after_at.len();
    let mut ambiguous = false;
    let mut i = k;
    while i < chars.len() {
        let (pos, c) = chars[i];
        if c == '\r' || c == '\n' { end = pos; break; }
        if c.is_whitespace() {
            let mut j = i;
            while j < chars.len() && chars[j].1.is_whitespace() { j += 1; }
            if j == chars.len() || chars[j].1 == ';' || chars[j].1 == '#' { end = pos; break; }
        }
        if (c == ';' || c == '#') && chars.get(i + 1).map(|n| n.1.is_whitespace()).unwrap_or(false) { ambiguous = true; break; }
        i += 1;
    }
    let input = serde_json::json!({"text": text, "env": env_field(vars), "answer": ans});
    if ambiguous {
        if ans.starts_with("ok ") {
            out.oracle_fail("C18", "a `;` or `#` glued to the URL and followed by whitespace was accepted instead of rejected as ambiguous", input);
        } else { out.stat("c18.ambiguous_rejected"); }
        return;
    }
    let url = &after_at[start..end];
    if let Some(rest) = ans.strip_prefix("ok ") {
        let vu = rest.split(' ').find(|f| f.starts_with("vu=url:")).unwrap_or("");
        let mut it = vu.trim_start_matches("vu=url:").split(':');
        let (given, shown) = (unhex(it.next().unwrap_or("-")), unhex(it.next().unwrap_or("-")));
        out.nontrivial(url.to_string());
        if given != url {
            out.oracle_fail("C18", &format!("the URL does not extend to the first whitespace followed by `;`, `#` or the end (given() = {:?}, expected {:?})", given, url), input.clone());
        }
        apply_env(vars);
        let expanded = expand_spec(url, vars);
        let supported = scheme_of(&expanded).is_some_and(|sc| SUPPORTED_SCHEMES.contains(&sc));
        if !supported && !cfg!(feature = "ext") { out.oracle_fail("C18", "accepted although the scheme is not one of the supported schemes of this URL type", input.clone()); }
        if !supported { out.stat("c18.accepted_unsupported_scheme_as_path"); }
        match url::Url::parse(&expanded) {
            // (with the extension feature a text without a supported scheme is a path: the URL is not judged, `given()` is)
            Ok(_) if !supported => {}
            Ok(u) => if u.to_string() != shown { out.oracle_fail("C18", "the parsed URL is not the URL of the text after `${NAME}` expansion", input.clone()); },
            // (with the extension feature such a text is a path, made absolute against the working directory)
            Err(_) => if !cfg!(feature = "ext") { out.oracle_fail("C18", "accepted although the expanded text is not a URL", input.clone()) },
        }
        out.stat("c18.accepted");
    } else {
        out.stat("c18.rejected");
        // a rejection needs a reason the rule names: the expanded text is not a URL, what follows the URL is
        // not `; marker` / nothing, or (F20) the parsed URL ends in `;` / `#` and a marker follows
        apply_env(vars);
        let expanded = expand_spec(url, vars);
        let rest = after_at[end..].trim();
        let parsed = url::Url::parse(&expanded);
        let rest_ok = rest.is_empty() || (rest.starts_with(';') && MarkerTree::from_str(&rest[1..]).is_ok());
        let f20 = !rest.is_empty() && parsed.as_ref().map(|u| { let t = u.to_string(); t.ends_with(';') || t.ends_with('#') }).unwrap_or(false);
        let supported = scheme_of(&expanded).is_some_and(|sc| SUPPORTED_SCHEMES.contains(&sc));
        if !supported { out.stat("c18.rejected_unsupported_scheme"); }
        if !url.is_empty() && parsed.is_ok() && supported && rest_ok && !f20 && !ans.starts_with("panic") {
            out.oracle_fail("C18", &format!("a URL that ends at whitespace followed by `;`, `#` or the end, with a valid remainder, is rejected (expected URL {:?})", url), input.clone());
        }
    }
}

/// `\u{XXXX}` escapes in corpus files
pub fn unescape(s: &str) -> String {
    let mut out = String::new();
    let mut rest = s;
    while let Some(i) = rest.find("\\u{") {
        out.push_str(&rest[..i]);
        let j = rest[i..].find('}').unwrap() + i;
        out.push(char::from_u32(u32::from_str_radix(&rest[i + 3..j], 16).unwrap()).unwrap());
        rest = &rest[j + 1..];
    }
    out.push_str(rest);
    out
}

/// C19 under `non-pep508-extensions`: the unnamed parser accepts the shapes, keeps the verbatim
/// text, recovers extras and marker, and round-trips (texts without stray brackets)
#[cfg(feature = "ext")]
fn unnamed_oracle(out: &mut Out, text: &str, shape: &str, suffix: &str) {
    use pep508_rs::UnnamedRequirement;
    out.evaluations += 1;
    if shape == "." || shape == ".." || shape.starts_with("${") || shape.starts_with('~') { return; }
    // a bracket group separated from the URL by a space is outside the property's quantifier
    // (is the space part of the path?): not judged
    if suffix.starts_with(' ') && suffix.contains('[') { return; }
    let vars = default_vars();
    apply_env(&vars);
    let r = std::panic::catch_unwind(|| UnnamedRequirement::<VerbatimUrl>::parse(text, "/work", &mut pep508_rs::TracingReporter));
    let input = serde_json::json!({"text": text, "feature": "non-pep508-extensions"});
    match r {
        Err(_) => out.oracle_fail("C06", "UnnamedRequirement::parse panicked", input),
        Ok(Err(e)) => {
            let disp = std::panic::catch_unwind(std::panic::AssertUnwindSafe(|| e.to_string())).is_ok();
            if !disp { out.oracle_fail("C06", "UnnamedRequirement error cannot be formatted", input.clone()); }
            out.oracle_fail("C19", &format!("the unnamed-requirement parser rejects a bare URL / path / archive: {}", e.message), input);
        }
        Ok(Ok(u)) => {
            out.stat("c19.unnamed_accepted");
            // the URL itself is recovered: for scheme URLs it is the URL of the text after `${NAME}` expansion
            if shape.starts_with("https://") || shape.starts_with("http://") || shape.starts_with("git+https://") {
                if let Ok(want) = url::Url::parse(&expand_spec(shape, &vars)) {
                    if u.url.to_string() != want.to_string() {
                        out.oracle_fail("C19", &format!("the unnamed parser does not recover the URL: got {}, the expanded text denotes {}", u.url, want), input.clone());
                    }
                }
            }
            // paths: the file is the text before the first `#` (made absolute against the working directory), the rest the fragment
            if shape.starts_with('/') || shape.starts_with("./") {
                let (file, frag) = match shape.split_once('#') { Some((f, g)) => (f, Some(g)), None => (shape, None) };
                let abs = if let Some(rest) = file.strip_prefix("./") { format!("/work/{rest}") } else { file.to_string() };
                let got_path = urlencoding::decode(u.url.to_url().path()).map(|c| c.into_owned()).unwrap_or_default();
                let got_frag = u.url.to_url().fragment().map(|f| urlencoding::decode(f).map(|c| c.into_owned()).unwrap_or_default());
                if !abs.contains("..") && !abs.contains('$') && (got_path != abs || got_frag.as_deref() != frag) {
                    out.oracle_fail("C19", &format!("the unnamed parser does not recover the file / fragment of a path: got path {got_path:?} fragment {got_frag:?}, the text denotes {abs:?} / {frag:?}"), input.clone());
                }
            }
            if u.url.given() != Some(shape) {
                out.oracle_fail("C19", &format!("verbatim text not kept: given() = {:?}", u.url.given()), input.clone());
            }
            let want_extras: Vec<&str> = if suffix.contains("[dev,test]") { vec!["dev", "test"] } else if suffix.contains("[dev]") { vec!["dev"] } else if suffix.contains("[x]") { vec!["x"] } else { vec![] };
            // ` [x]` (space before the bracket) is not an extras suffix of the URL token
            if !suffix.starts_with(' ') || !suffix.contains('[') {
                let got: Vec<String> = u.extras.iter().map(|e| e.to_string()).collect();
                if got != want_extras { out.oracle_fail("C19", &format!("extras not recovered: {:?}", got), input.clone()); }
            }
            // the evaluation wrappers of the unnamed requirement are the marker's (C13 / C01): with an environment, without one,
            // for active extras that differ from the requirement's own bracket extras
            {
                let env = crate::marker::CEnv::default_env().env();
                for active in [vec![], vec!["dev"], vec!["x", "test"], vec!["zzz"]] {
                    let ex: Vec<ExtraName> = active.iter().map(|e| ExtraName::from_str(e).unwrap()).collect();
                    let with_env = (u.evaluate_markers(&env, &ex), u.evaluate_optional_environment(Some(&env), &ex));
                    let without = u.evaluate_optional_environment(None, &ex);
                    if with_env.0 != u.marker.evaluate(&env, &ex) || with_env.1 != with_env.0 {
                        out.oracle_fail("C01", "UnnamedRequirement::evaluate_markers / evaluate_optional_environment(Some) differ from the marker's evaluate", serde_json::json!({"text": text, "active_extras": active}));
                    }
                    if without != u.marker.evaluate_extras(&ex) {
                        out.oracle_fail("C13", "UnnamedRequirement::evaluate_optional_environment(None, extras) differs from the marker's evaluate_extras(extras)", serde_json::json!({"text": text, "active_extras": active}));
                    }
                }
                out.stat("c19.unnamed_evaluation_wrappers");
            }
            let want_marker = suffix.contains(';');
            if want_marker == u.marker.is_true() { out.oracle_fail("C19", "marker not recovered", input.clone()); }
            // round trip of the rendered text
            let shown = u.to_string();
            match std::panic::catch_unwind(|| UnnamedRequirement::<VerbatimUrl>::parse(&shown, "/work", &mut pep508_rs::TracingReporter)) {
                Ok(Ok(u2)) => {
                    if u2.url != u.url || u2.extras != u.extras || u2.marker != u.marker {
                        out.oracle_fail("C19", "the rendered unnamed requirement parses back to a different value", serde_json::json!({"text": text, "rendered": shown}));
                    }
                }
                _ => out.oracle_fail("C19", "the rendered unnamed requirement does not parse", serde_json::json!({"text": text, "rendered": shown})),
            }
        }
    }
}
