//! Suites over the marker algebra (C02, C03, C04, C11, C12, C13, C20).
//!
//! Correspondence cases use *literal* operands: a marker is built through the real API along a
//! random construction path, its `kind()` dump is sent to the model as a literal tree, and one
//! operation is applied on both sides.  A deviation in one operation therefore only shows up in
//! the checks of the properties that involve that operation.
use crate::marker::*;
use crate::util::*;
use pep440_rs::Version;
use pep508_rs::{ExtraName, MarkerTree, MarkerTreeKind, MarkerValueExtra};
use std::collections::{BTreeMap, BTreeSet, HashMap};
use std::hash::{Hash, Hasher};
use std::ops::Bound;
use std::panic::{catch_unwind, AssertUnwindSafe};
use std::str::FromStr;

pub struct Item {
    pub term: Term,
    pub tree: MarkerTree,
    pub dump: String,
}

/// a term with one literal changed (the first one met): a different condition
pub fn lit_twin(t: &Term, done: &mut bool) -> Term {
    if *done { return t.clone(); }
    match t {
        Term::S(k, op, v) => { *done = true; Term::S(*k, *op, format!("{v}x")) }
        Term::V(k, op, v) => { *done = true; Term::V(*k, *op, format!("{}.1", rel_of(v))) }
        Term::VI(k, n, vs) => { *done = true; let mut vs = vs.clone(); vs.push("9.9.9".into()); Term::VI(*k, *n, vs) }
        Term::X(n, v) => { *done = true; Term::X(*n, format!("{v}x")) }
        Term::And(a, b) => { let l = lit_twin(a, done); Term::And(Box::new(l), Box::new(lit_twin(b, done))) }
        Term::Or(a, b) => { let l = lit_twin(a, done); Term::Or(Box::new(l), Box::new(lit_twin(b, done))) }
        Term::Not(a) => Term::Not(Box::new(lit_twin(a, done))),
        other => other.clone(),
    }
}

pub fn try_build(out: &mut Out, prop: &str, t: &Term) -> Option<MarkerTree> {
    match catch_unwind(AssertUnwindSafe(|| t.build())) {
        Ok(m) => Some(m),
        Err(_) => {
            out.oracle_fail(prop, "panic while building a marker through the public API (the interner lock is now poisoned)", serde_json::json!({"term": t.line()}));
            None
        }
    }
}

/// F9 / F10 shapes and friends: generated on purpose, random op trees almost never hit them.
fn targeted(rng: &mut Rng, p: &Pools) -> Term {
    let s = |k: usize, op: usize, v: &str| Term::S(k, op, v.to_string());
    let x = |e: &str| Term::X(false, e.to_string());
    let v = |k: usize, op: usize, t: &str| Term::V(k, op, t.to_string());
    let key = *rng.pick(&[1usize, 12, 9]);
    let (a, b, c) = {
        let mut l: Vec<&str> = vec![*rng.pick(&p.strings), *rng.pick(&p.strings), *rng.pick(&p.strings)];
        l.sort();
        (l[0], l[1], l[2])
    };
    let (e1, e2) = ("dev", "test");
    match rng.below(12) {
        // ≥3 edges whose children coincide only after the op (and / restrict)
        0 => Term::and(
            Term::or(Term::and(s(key, 4, a), x(e1)), Term::and(Term::and(s(key, 3, a), s(key, 4, b)), x(e2))),
            Term::and(x(e1), x(e2)),
        ),
        1 => Term::Rx(
            vec![e1.to_string(), e2.to_string()],
            Box::new(Term::or(Term::and(s(key, 4, a), x(e1)), Term::or(Term::and(Term::and(s(key, 3, a), s(key, 4, b)), x(e2)), Term::and(s(key, 3, b), s(key, 0, c))))),
        ),
        2 => Term::Sp(
            Bd::I("3.8".into()),
            Bd::U,
            Box::new(Term::or(Term::and(s(key, 4, a), v(1, 5, "3.8")), Term::and(Term::and(s(key, 3, a), s(key, 4, b)), v(1, 5, "3.7")))),
        ),
        // python_full_version must end up above later variables
        3 => Term::Cp(gen_bd(rng, p), gen_bd(rng, p), Box::new(s(key, 0, a))),
        4 => Term::Cp(gen_bd(rng, p), gen_bd(rng, p), Box::new(Term::or(x(e1), Term::and(s(key, 0, a), v(0, 5, "3.8"))))),
        5 => Term::Cp(gen_bd(rng, p), gen_bd(rng, p), Box::new(Term::and(v(0, 5, "3.8"), Term::or(v(1, 2, "3.9"), s(key, 1, b))))),
        6 => Term::Sp(gen_bd(rng, p), gen_bd(rng, p), Box::new(Term::and(v(0, 5, "3.8"), Term::or(v(1, 2, "3.9"), v(1, 5, "3.10"))))),
        // implementation_version with >= 3 edges above python_full_version: after the requires-python surgery one
        // branch becomes equal to a neighbour that the surgery leaves unchanged (a fixed point), in either direction
        7 => Term::Sp(Bd::I("3.8".into()), Bd::U, Box::new(Term::or(Term::and(v(0, 2, "1"), v(1, 5, "3.6")), Term::and(v(0, 5, "1"), v(0, 2, "2"))))),
        8 => Term::Cp(Bd::I("3.8".into()), Bd::U, Box::new(Term::or(Term::and(v(0, 2, "1"), v(1, 5, "3.6")), Term::and(Term::and(v(0, 5, "1"), v(0, 2, "2")), v(1, 5, "3.8"))))),
        9 => Term::Sp(Bd::I("3.8".into()), Bd::U, Box::new(Term::or(Term::and(v(0, 2, "1"), x(e1)), Term::or(Term::and(Term::and(v(0, 5, "1"), v(0, 2, "2")), Term::and(v(1, 5, "3.6"), x(e1))), Term::and(v(0, 5, "2"), v(1, 2, "3.7")))))),
        10 => {
            let (op1, op2) = (*rng.pick(&[2usize, 3, 4, 5]), *rng.pick(&[2usize, 3, 4, 5]));
            let (l1, l2) = (*rng.pick(&["3.6", "3.8", "3.9", "3.12"]), *rng.pick(&["3.6", "3.8", "3.9", "3.12"]));
            let body = Term::or(Term::and(v(0, 2, "1"), v(1, op1, l1)), Term::or(Term::and(Term::and(v(0, 5, "1"), v(0, 2, "2")), v(1, op2, l2)), Term::and(v(0, 5, "2"), s(key, 0, a))));
            if rng.chance(1, 2) { Term::Sp(gen_bd(rng, p), gen_bd(rng, p), Box::new(body)) } else { Term::Cp(gen_bd(rng, p), gen_bd(rng, p), Box::new(body)) }
        }
        _ => Term::and(
            Term::or(Term::and(v(1, 2, "3.8"), x(e1)), Term::and(Term::and(v(1, 5, "3.8"), v(1, 2, "3.9")), x(e2))),
            Term::and(x(e1), x(e2)),
        ),
    }
}

pub fn pool(out: &mut Out, prop: &str, rng: &mut Rng, n: usize, unary: bool) -> Vec<Item> {
    let p = pools();
    let mut items = Vec::new();
    for i in 0..n {
        let depth = 1 + rng.below(3);
        let t = if unary && i % 5 == 0 { targeted(rng, &p) } else { gen_term(rng, &p, depth, unary) };
        let Some(tree) = try_build(out, prop, &t) else { break };
        let dump = dump(&tree);
        out.stat(match tree.kind() {
            MarkerTreeKind::True => "pool.true",
            MarkerTreeKind::False => "pool.false",
            MarkerTreeKind::Version(_) => "pool.root_version",
            MarkerTreeKind::String(_) => "pool.root_string",
            _ => "pool.root_bool",
        });
        items.push(Item { term: t, tree, dump });
    }
    items
}

// ---------------------------------------------------------------------------------------------
// direct oracles on the implementation

fn rank(k: &MarkerTreeKind) -> Option<(u8, usize, u8, String)> {
    Some(match k {
        MarkerTreeKind::True | MarkerTreeKind::False => return None,
        MarkerTreeKind::Version(m) => (0, vkey_idx(m.key()), 0, String::new()),
        MarkerTreeKind::String(m) => (1, skey_idx(m.key()), 0, String::new()),
        MarkerTreeKind::In(m) => (2, skey_idx(m.key()), 0, m.value().to_string()),
        MarkerTreeKind::Contains(m) => (3, skey_idx(m.key()), 0, m.value().to_string()),
        MarkerTreeKind::Extra(m) => match m.name() {
            MarkerValueExtra::Extra(e) => (4, 0, 0, e.to_string()),
            MarkerValueExtra::Arbitrary(s) => (4, 0, 1, s.clone()),
        },
    })
}

fn touch<T: PartialEq>(hi: &Bound<T>, lo: &Bound<T>) -> bool {
    match (hi, lo) {
        (Bound::Included(a), Bound::Excluded(b)) | (Bound::Excluded(a), Bound::Included(b)) => a == b,
        _ => false,
    }
}

fn check_edges<T: Ord + Clone>(edges: &[(&version_ranges::Ranges<T>, MarkerTree)]) -> Result<(), String> {
    if edges.len() < 2 {
        return Err(format!("node with {} edge(s)", edges.len()));
    }
    let mut prev_hi: Option<Bound<T>> = None;
    for (i, (r, c)) in edges.iter().enumerate() {
        let segs: Vec<_> = r.iter().collect();
        if segs.len() != 1 {
            return Err(format!("edge {i} is not one contiguous non-empty range ({} segments)", segs.len()));
        }
        let (lo, hi) = (segs[0].0.clone(), segs[0].1.clone());
        match &prev_hi {
            None => {
                if !matches!(lo, Bound::Unbounded) {
                    return Err("first edge does not start at -inf".into());
                }
            }
            Some(ph) => {
                if !touch(ph, &lo) {
                    return Err(format!("edges {} and {i} are not adjacent (gap, overlap or out of order)", i - 1));
                }
                if edges[i - 1].1 == *c {
                    return Err(format!("adjacent edges {} and {i} lead to the same child", i - 1));
                }
            }
        }
        if i + 1 == edges.len() && !matches!(hi, Bound::Unbounded) {
            return Err("last edge does not end at +inf".into());
        }
        if i + 1 < edges.len() && matches!(hi, Bound::Unbounded) {
            return Err(format!("edge {i} is unbounded above but not last"));
        }
        prev_hi = Some(hi);
    }
    if edges.iter().all(|(_, c)| *c == edges[0].1) {
        return Err("all children equal".into());
    }
    Ok(())
}

/// ordered, reduced, partitioning — written from the property text
pub fn wf_check(t: &MarkerTree, above: Option<&(u8, usize, u8, String)>) -> Result<(), String> {
    let k = t.kind();
    let Some(r) = rank(&k) else { return Ok(()) };
    if let Some(a) = above {
        if !(a < &r) {
            return Err(format!("variable order violated: {:?} below {:?}", r, a));
        }
    }
    match k {
        MarkerTreeKind::Version(m) => {
            let es: Vec<_> = m.edges().collect();
            check_edges(&es)?;
            for (_, c) in es {
                wf_check(&c, Some(&r))?;
            }
        }
        MarkerTreeKind::String(m) => {
            let es: Vec<_> = m.children().collect();
            check_edges(&es)?;
            for (_, c) in es {
                wf_check(&c, Some(&r))?;
            }
        }
        MarkerTreeKind::In(m) => {
            if m.edge(true) == m.edge(false) { return Err("boolean node with equal children".into()); }
            wf_check(&m.edge(true), Some(&r))?;
            wf_check(&m.edge(false), Some(&r))?;
        }
        MarkerTreeKind::Contains(m) => {
            if m.edge(true) == m.edge(false) { return Err("boolean node with equal children".into()); }
            wf_check(&m.edge(true), Some(&r))?;
            wf_check(&m.edge(false), Some(&r))?;
        }
        MarkerTreeKind::Extra(m) => {
            if m.edge(true) == m.edge(false) { return Err("boolean node with equal children".into()); }
            wf_check(&m.edge(true), Some(&r))?;
            wf_check(&m.edge(false), Some(&r))?;
        }
        _ => {}
    }
    Ok(())
}

/// choose edges by hand while walking kind(); `None` if no edge of a range node contains the value
pub fn hand_eval(t: &MarkerTree, e: &CEnv) -> Option<bool> {
    let extras = e.extras();
    // the value of a variable is looked up by the PEP 508 name the node SHOWS for its key, in the harness's own record of the
    // environment — not through `MarkerEnvironment::get_string / get_version` (which `evaluate()` uses: a wrong lookup there would
    // be inherited by the walk)
    fn sfield(e: &CEnv, name: &str) -> Option<String> {
        let i = match name {
            "implementation_name" => 0, "os_name" => 1, "platform_machine" => 2, "platform_python_implementation" => 3,
            "platform_release" => 4, "platform_system" => 5, "platform_version" => 6, "sys_platform" => 7, _ => return None,
        };
        Some(e.strs[i].clone())
    }
    fn vfield(e: &CEnv, name: &str) -> Option<Version> {
        let i = match name { "implementation_version" => 0, "python_full_version" => 1, "python_version" => 2, _ => return None };
        Version::from_str(&e.vers[i]).ok()
    }
    fn go(t: &MarkerTree, e: &CEnv, extras: &[ExtraName]) -> Option<bool> {
        match t.kind() {
            MarkerTreeKind::True => Some(true),
            MarkerTreeKind::False => Some(false),
            MarkerTreeKind::Version(m) => {
                let v = vfield(e, &m.key().to_string())?;
                let hits: Vec<_> = m.edges().filter(|(r, _)| r.contains(&v)).collect();
                if hits.len() != 1 { return None; }
                go(&hits[0].1, e, extras)
            }
            MarkerTreeKind::String(m) => {
                let v = sfield(e, &m.key().to_string())?;
                let hits: Vec<_> = m.children().filter(|(r, _)| r.contains(&v)).collect();
                if hits.len() != 1 { return None; }
                go(&hits[0].1, e, extras)
            }
            MarkerTreeKind::In(m) => go(&m.edge(m.value().contains(&sfield(e, &m.key().to_string())?)), e, extras),
            MarkerTreeKind::Contains(m) => go(&m.edge(sfield(e, &m.key().to_string())?.contains(m.value())), e, extras),
            MarkerTreeKind::Extra(m) => {
                let on = match m.name() { MarkerValueExtra::Extra(x) => extras.contains(x), _ => false };
                go(&m.edge(on), e, extras)
            }
        }
    }
    go(t, e, &extras)
}

/// operands on ONE variable with IDENTICAL partitions (three ranges around one constant, children among TRUE / FALSE / an extra / its
/// negation): every ordered pair under `and` / `or`. The result is again such a node, with the children combined pointwise — built
/// directly from atoms it must be the same marker (C03), and the diagram must stay reduced: adjacent ranges with different children (C20)
fn same_partition_pairs(out: &mut Out, prop: &str) {
    #[derive(Clone, Copy, PartialEq)] enum K { T, F, X, N }
    let kand = |a: K, b: K| match (a, b) { (K::F, _) | (_, K::F) => K::F, (K::T, x) | (x, K::T) => x, (x, y) if x == y => x, _ => K::F };
    let kor = |a: K, b: K| match (a, b) { (K::T, _) | (_, K::T) => K::T, (K::F, x) | (x, K::F) => x, (x, y) if x == y => x, _ => K::T };
    let all = [K::T, K::F, K::X, K::N];
    for (is_ver, key, c) in [(true, 1usize, "3.8"), (false, 1usize, "m")] {
        let cmp = |op: usize| if is_ver { Term::V(key, op, c.to_string()) } else { Term::S(key, [0usize, 0, 4, 0, 2][op], c.to_string()) };   // 0 ==, 2 <, 4 >
        let kterm = |k: K| match k { K::T => Term::T, K::F => Term::F, K::X => Term::X(false, "a".into()), K::N => Term::X(true, "a".into()) };
        let node = |ks: [K; 3]| Term::or(Term::or(Term::and(cmp(2), kterm(ks[0])), Term::and(cmp(0), kterm(ks[1]))), Term::and(cmp(4), kterm(ks[2])));
        let mut nodes: Vec<([K; 3], MarkerTree)> = Vec::new();
        for a in all { for b in all { for c2 in all {
            let Some(m) = try_build(out, prop, &node([a, b, c2])) else { return };
            nodes.push(([a, b, c2], m));
        } } }
        for (ka, ma) in &nodes { for (kb, mb) in &nodes {
            for is_and in [true, false] {
                out.evaluations += 1;
                let mut r = ma.clone();
                if is_and { r.and(mb.clone()); } else { r.or(mb.clone()); }
                let f = |i: usize| if is_and { kand(ka[i], kb[i]) } else { kor(ka[i], kb[i]) };
                let expect = nodes.iter().find(|(k, _)| k[0] == f(0) && k[1] == f(1) && k[2] == f(2)).map(|(_, m)| m.clone()).unwrap();
                let input = serde_json::json!({"key": if is_ver { "python_full_version" } else { "os_name" }, "constant": c, "op": if is_and { "and" } else { "or" }, "left": dump(ma), "right": dump(mb), "result": dump(&r), "expected": dump(&expect)});
                if prop == "C20" { if let Err(e) = wf_check(&r, None) { out.oracle_fail("C20", &format!("combining two nodes with identical partitions gives a diagram that is not reduced: {e}"), input.clone()); } }
                if prop == "C03" && r != expect { out.oracle_fail("C03", "combining two nodes with identical partitions gives a marker different from the same function built from atoms", input); }
            }
        } }
        out.stat_n("same_partition_pairs", (nodes.len() * nodes.len() * 2) as u64);
    }
}

// ---------------------------------------------------------------------------------------------
// abstract valuations (C03 / C13): one region index per range variable over the joint bound
// grid, one free boolean per in / contains / extra variable

#[derive(Clone, PartialEq, Eq, PartialOrd, Ord, Debug)]
enum AVal { V(Version), S(String) }

type RVar = (u8, usize);
type BVar = (u8, usize, u8, String);

#[derive(Default)]
struct Grid {
    bounds: BTreeMap<RVar, BTreeSet<AVal>>,
    bools: BTreeSet<BVar>,
}

fn collect_grid(t: &MarkerTree, g: &mut Grid, seen: &mut std::collections::HashSet<MarkerTree>) {
    if !seen.insert(t.clone()) { return; }
    match t.kind() {
        MarkerTreeKind::Version(m) => {
            let e = g.bounds.entry((0, vkey_idx(m.key()))).or_default();
            for (r, _) in m.edges() {
                for (lo, hi) in r.iter() {
                    for b in [lo, hi] {
                        if let Bound::Included(v) | Bound::Excluded(v) = b { e.insert(AVal::V(v.clone())); }
                    }
                }
            }
            for (_, c) in m.edges() { collect_grid(&c, g, seen); }
        }
        MarkerTreeKind::String(m) => {
            let e = g.bounds.entry((1, skey_idx(m.key()))).or_default();
            for (r, _) in m.children() {
                for (lo, hi) in r.iter() {
                    for b in [lo, hi] {
                        if let Bound::Included(v) | Bound::Excluded(v) = b { e.insert(AVal::S(v.clone())); }
                    }
                }
            }
            for (_, c) in m.children() { collect_grid(&c, g, seen); }
        }
        k @ (MarkerTreeKind::In(_) | MarkerTreeKind::Contains(_) | MarkerTreeKind::Extra(_)) => {
            g.bools.insert(rank(&k).unwrap());
            let (h, l) = match &k {
                MarkerTreeKind::In(m) => (m.edge(true), m.edge(false)),
                MarkerTreeKind::Contains(m) => (m.edge(true), m.edge(false)),
                MarkerTreeKind::Extra(m) => (m.edge(true), m.edge(false)),
                _ => unreachable!(),
            };
            collect_grid(&h, g, seen);
            collect_grid(&l, g, seen);
        }
        _ => {}
    }
}

struct Valuation<'a> {
    grid: &'a Grid,
    region: &'a HashMap<RVar, usize>,
    bools: &'a HashMap<BVar, bool>,
}

fn region_in<T>(p: usize, lo: &Bound<T>, hi: &Bound<T>, idx: &dyn Fn(&T) -> usize) -> bool {
    let lo_ok = match lo { Bound::Unbounded => true, Bound::Included(v) => p >= 2 * idx(v) + 1, Bound::Excluded(v) => p >= 2 * idx(v) + 2 };
    let hi_ok = match hi { Bound::Unbounded => true, Bound::Included(v) => p <= 2 * idx(v) + 1, Bound::Excluded(v) => p <= 2 * idx(v) };
    lo_ok && hi_ok
}

fn abs_eval(t: &MarkerTree, val: &Valuation) -> Option<bool> {
    match t.kind() {
        MarkerTreeKind::True => Some(true),
        MarkerTreeKind::False => Some(false),
        MarkerTreeKind::Version(m) => {
            let var = (0u8, vkey_idx(m.key()));
            let p = val.region[&var];
            let vals: Vec<&AVal> = val.grid.bounds[&var].iter().collect();
            let idx = |v: &Version| vals.iter().position(|x| **x == AVal::V(v.clone())).unwrap();
            for (r, c) in m.edges() {
                if r.iter().any(|(lo, hi)| region_in(p, lo, hi, &idx)) { return abs_eval(&c, val); }
            }
            None
        }
        MarkerTreeKind::String(m) => {
            let var = (1u8, skey_idx(m.key()));
            let p = val.region[&var];
            let vals: Vec<&AVal> = val.grid.bounds[&var].iter().collect();
            let idx = |v: &String| vals.iter().position(|x| **x == AVal::S(v.clone())).unwrap();
            for (r, c) in m.children() {
                if r.iter().any(|(lo, hi)| region_in(p, lo, hi, &idx)) { return abs_eval(&c, val); }
            }
            None
        }
        k => {
            let b = val.bools[&rank(&k).unwrap()];
            let c = match &k {
                MarkerTreeKind::In(m) => m.edge(b),
                MarkerTreeKind::Contains(m) => m.edge(b),
                MarkerTreeKind::Extra(m) => m.edge(b),
                _ => unreachable!(),
            };
            abs_eval(&c, val)
        }
    }
}

/// Exhaustive truth tables of a group of markers over the joint abstract grid, if small enough.
/// Returns one table (bit string) per marker, `None` where a walk found no edge.
fn truth_tables(group: &[&MarkerTree], limit: usize) -> Option<Vec<Option<Vec<bool>>>> {
    let mut g = Grid::default();
    let mut seen = Default::default();
    for t in group { collect_grid(t, &mut g, &mut seen); }
    let rvars: Vec<RVar> = g.bounds.keys().cloned().collect();
    let bvars: Vec<BVar> = g.bools.iter().cloned().collect();
    let mut total: usize = 1;
    for v in &rvars { total = total.checked_mul(2 * g.bounds[v].len() + 1)?; if total > limit { return None; } }
    total = total.checked_mul(1usize.checked_shl(bvars.len() as u32)?)?;
    if total > limit { return None; }
    let mut tables: Vec<Option<Vec<bool>>> = vec![Some(Vec::with_capacity(total)); group.len()];
    for n in 0..total {
        let mut rem = n;
        let mut region = HashMap::new();
        for v in &rvars {
            let k = 2 * g.bounds[v].len() + 1;
            region.insert(*v, rem % k);
            rem /= k;
        }
        let mut bools = HashMap::new();
        for b in &bvars {
            bools.insert(b.clone(), rem % 2 == 1);
            rem /= 2;
        }
        let val = Valuation { grid: &g, region: &region, bools: &bools };
        for (i, t) in group.iter().enumerate() {
            match abs_eval(t, &val) {
                Some(b) => { if let Some(tab) = tables[i].as_mut() { tab.push(b) } }
                None => tables[i] = None,
            }
        }
    }
    Some(tables)
}

fn hash_of<T: Hash>(t: &T) -> u64 {
    let mut h = std::collections::hash_map::DefaultHasher::new();
    t.hash(&mut h);
    h.finish()
}

// ---------------------------------------------------------------------------------------------
// one-step operation cases on literal operands

#[derive(Clone, Debug)]
enum OpK { And, Or, Not, Rx(Vec<String>), Sp(Bd, Bd), Cp(Bd, Bd) }

fn op_case(out: &mut Out, prop: &str, op: &OpK, a: &Item, b: Option<&Item>) -> Option<MarkerTree> {
    let la = format!("L {}", a.dump);
    let (line, res) = match op {
        OpK::And | OpK::Or => {
            let b = b.unwrap();
            let name = if matches!(op, OpK::And) { "and" } else { "or" };
            let r = catch_unwind(AssertUnwindSafe(|| {
                let mut x = a.tree.clone();
                if matches!(op, OpK::And) { x.and(b.tree.clone()) } else { x.or(b.tree.clone()) }
                x
            }));
            (format!("dump\t{name} {la} L {}", b.dump), r)
        }
        OpK::Not => (format!("dump\tnot {la}"), Ok(a.tree.negate())),
        OpK::Rx(names) => {
            let ns: Vec<ExtraName> = names.iter().map(|n| ExtraName::from_str(n).unwrap()).collect();
            let toks: Vec<String> = ns.iter().map(|n| hex(n.as_ref())).collect();
            let r = catch_unwind(AssertUnwindSafe(|| a.tree.clone().simplify_extras(&ns)));
            (format!("dump\trx {} {} {la}", ns.len(), toks.join(" ")), r)
        }
        OpK::Sp(lo, hi) | OpK::Cp(lo, hi) => {
            let t = match op { OpK::Sp(..) => Term::Sp(lo.clone(), hi.clone(), Box::new(Term::T)), _ => Term::Cp(lo.clone(), hi.clone(), Box::new(Term::T)) };
            let head = t.line();
            let head = head.strip_suffix(" T").unwrap().to_string();
            let (l, h) = (bound(lo), bound(hi));
            let is_sp = matches!(op, OpK::Sp(..));
            let r = catch_unwind(AssertUnwindSafe(|| {
                if is_sp { a.tree.clone().simplify_python_versions(l.as_ref(), h.as_ref()) } else { a.tree.clone().complexify_python_versions(l.as_ref(), h.as_ref()) }
            }));
            (format!("dump\t{head} {la}"), r)
        }
    };
    out.evaluations += 1;
    match res {
        Ok(m) => {
            let d = dump(&m);
            out.nontrivial(format!("{line}"));
            out.case(line, format!("{d}\twf=1"));
            Some(m)
        }
        Err(_) => {
            out.oracle_fail(prop, &format!("panic in {:?} (the interner lock is now poisoned)", op), serde_json::json!({"case": line}));
            None
        }
    }
}

fn gen_op(rng: &mut Rng, p: &Pools, ops: &[&str]) -> OpK {
    match *rng.pick(ops) {
        "and" => OpK::And,
        "or" => OpK::Or,
        "not" => OpK::Not,
        "rx" => {
            let n = 1 + rng.below(2);
            OpK::Rx((0..n).map(|_| loop {
                let e = *rng.pick(&p.extras);
                if ExtraName::from_str(e).is_ok() { break e.to_string(); }
            }).collect())
        }
        "sp" => OpK::Sp(gen_bd(rng, p), gen_bd(rng, p)),
        _ => OpK::Cp(gen_bd(rng, p), gen_bd(rng, p)),
    }
}

fn ev_case(out: &mut Out, item_dump: &str, tree: &MarkerTree, envs: &[CEnv]) -> Vec<bool> {
    let bits: Vec<bool> = envs.iter().map(|e| e.eval(tree)).collect();
    let line = format!("ev\tL {}\t{}", item_dump, envs.iter().map(|e| e.line()).collect::<Vec<_>>().join("\t"));
    out.case(line, bits.iter().map(|b| if *b { '1' } else { '0' }).collect());
    bits
}

// ---------------------------------------------------------------------------------------------

pub fn run(out: &mut Out, tier: &str, seed: u64, prop: &str) {
    let mut rng = Rng::new(seed ^ hash_of(&prop));
    let big = tier == "thorough";
    let p = pools();
    let n_pool = if big { 1500 } else { 300 };
    let items = pool(out, prop, &mut rng, n_pool, true);
    if items.len() < n_pool { return; }
    let n_ops = if big { 6000 } else { 1200 };
    match prop {
        "C20" => {
            same_partition_pairs(out, "C20");
            // every reachable marker: WF by the property text on the implementation, WF by the Lean
            // predicate on the dump, hand-walk = evaluate; every operation one step from literals
            for it in &items {
                out.evaluations += 1;
                if let Err(e) = wf_check(&it.tree, None) {
                    out.oracle_fail("C20", &format!("diagram not ordered/reduced/partitioning: {e}"), serde_json::json!({"term": it.term.line(), "dump": it.dump}));
                }
                out.case(format!("dump\tL {}", it.dump), format!("{}\twf=1", it.dump));
                let envs = region_envs(&mut rng, &[&it.term], 6);
                for e in &envs {
                    let h = hand_eval(&it.tree, e);
                    if h != Some(e.eval(&it.tree)) {
                        out.oracle_fail("C20", &format!("choosing edges by hand gives {:?}, evaluate() gives {}", h, e.eval(&it.tree)), serde_json::json!({"term": it.term.line(), "env": e.line()}));
                    }
                    // the same with pre / post / dev / local versions in the environment (edges are release-only, the
                    // environment is not): evaluate() must still follow the one edge that contains the version
                    for suffix in ["rc1", ".post1", ".dev0", "+local.1", "a0"] {
                        let mut e2 = CEnv { vers: e.vers.clone(), strs: e.strs.clone(), extras: e.extras.clone() };
                        e2.vers[0] = format!("{}{}", e.vers[0], suffix);
                        e2.vers[1] = format!("{}{}", e.vers[1], suffix);
                        if pep440_rs::Version::from_str(&e2.vers[1]).is_err() { continue; }
                        let h2 = hand_eval(&it.tree, &e2);
                        let ev = e2.eval(&it.tree);
                        out.stat("c20.decorated_env_walks");
                        if h2 != Some(ev) {
                            out.oracle_fail("C20", &format!("environment with a decorated version: choosing edges by hand gives {:?}, evaluate() gives {}", h2, ev), serde_json::json!({"term": it.term.line(), "env": e.line(), "python_full_version": e2.vers[1], "implementation_version": e2.vers[0]}));
                        }
                    }
                }
            }
            for _ in 0..n_ops {
                let op = gen_op(&mut rng, &p, &["and", "or", "not", "rx", "sp", "cp"]);
                let a = &items[rng.below(items.len())];
                let b = &items[rng.below(items.len())];
                let Some(m) = op_case(out, "C20", &op, a, Some(b)) else { return };
                if let Err(e) = wf_check(&m, None) {
                    out.oracle_fail("C20", &format!("diagram not ordered/reduced/partitioning after {:?}: {e}", op), serde_json::json!({"a": a.term.line(), "b": b.term.line(), "op": format!("{:?}", op), "dump": dump(&m)}));
                }
            }
        }
        "C02" => {
            // pointwise under environments whose versions carry pre / post / dev / local parts (the law is purely algebraic, and
            // the edges are release-only while the environment is not): every ordered pair of comparisons against one literal
            {
                let decorate = |e: &CEnv| -> Vec<CEnv> {
                    let mut v = vec![CEnv { vers: e.vers.clone(), strs: e.strs.clone(), extras: e.extras.clone() }];
                    for suffix in ["rc1", ".post1", ".dev0", "+local.1", "a0"] {
                        let mut e2 = CEnv { vers: e.vers.clone(), strs: e.strs.clone(), extras: e.extras.clone() };
                        e2.vers[0] = format!("{}{}", e.vers[0], suffix);
                        e2.vers[1] = format!("{}{}", e.vers[1], suffix);
                        if pep440_rs::Version::from_str(&e2.vers[1]).is_ok() && pep440_rs::Version::from_str(&e2.vers[0]).is_ok() { v.push(e2); }
                    }
                    v
                };
                let mut groups: Vec<Vec<Term>> = Vec::new();
                for k in [1usize, 0] { for lit in ["3.9.1", "3.8"] {
                    let mut g: Vec<Term> = (0..6).map(|op| Term::V(k, op, lit.to_string())).collect();
                    g.push(Term::VI(k, false, vec![lit.to_string(), "3.10".into()]));
                    g.push(Term::VI(k, true, vec![lit.to_string()]));
                    groups.push(g);
                } }
                // WIDE nodes (nine and more edges: in-lists of exact versions, chains of `!=` on one string key) against every
                // comparison at each of their values, both operand orders: any shortcut for large edge lists must stay pointwise
                {
                    let vals = ["3.6.1", "3.7.2", "3.8.3", "3.9.4", "3.10.5"];
                    let svals = ["a", "b", "c", "d", "e"];
                    let mut wide: Vec<(Term, Vec<Term>)> = Vec::new();
                    for k in [1usize, 0] {
                        let list: Vec<String> = vals.iter().map(|v| v.to_string()).collect();
                        let others: Vec<Term> = vals.iter().flat_map(|v| (0..6).map(move |op| Term::V(k, op, v.to_string()))).collect();
                        wide.push((Term::VI(k, false, list.clone()), others.clone()));
                        wide.push((Term::VI(k, true, list[..4].to_vec()), others));
                    }
                    for k in [1usize, 12] {
                        let chain = svals.iter().skip(1).fold(Term::S(k, 1, svals[0].into()), |acc, v| Term::and(acc, Term::S(k, 1, v.to_string())));
                        let others: Vec<Term> = svals.iter().flat_map(|v| (0..6).map(move |op| Term::S(k, op, v.to_string()))).collect();
                        wide.push((chain.clone(), others.clone()));
                        wide.push((Term::not(chain), others));
                    }
                    for (w, others) in &wide {
                        let Some(tw) = try_build(out, "C02", w) else { return };
                        for (n, o) in others.iter().enumerate() {
                            if !big && n % 2 == 1 { continue; }
                            let Some(to) = try_build(out, "C02", o) else { return };
                            let results: Vec<(MarkerTree, bool, bool)> = {
                                let (mut a1, mut a2, mut o1, mut o2) = (to.clone(), tw.clone(), to.clone(), tw.clone());
                                a1.and(tw.clone()); a2.and(to.clone()); o1.or(tw.clone()); o2.or(to.clone());
                                vec![(a1, true, true), (a2, true, false), (o1, false, true), (o2, false, false)]
                            };
                            for e in region_envs(&mut rng, &[w, o], 6) {
                                out.evaluations += 1;
                                let (vo, vw) = (e.eval(&to), e.eval(&tw));
                                out.stat("c02.wide_node_points");
                                for (m, is_and, narrow_first) in &results {
                                    let want = if *is_and { vo && vw } else { vo || vw };
                                    if e.eval(m) != want || e.eval(&m.negate()) == want {
                                        out.oracle_fail("C02", &format!("{} with a wide node is not pointwise ({} operand first): operands {vo}/{vw}, result {}, its negation {}", if *is_and { "and" } else { "or" }, if *narrow_first { "narrow" } else { "wide" }, e.eval(m), e.eval(&m.negate())), serde_json::json!({"a": o.line(), "b": w.line(), "env": e.line()}));
                                    }
                                }
                            }
                        }
                    }
                }
                for g in &groups {
                    for (i, x) in g.iter().enumerate() { for (j, y) in g.iter().enumerate() {
                        if !big && (i * 3 + j) % 2 == 1 { continue; }
                        let (Some(ta), Some(tb)) = (try_build(out, "C02", x), try_build(out, "C02", y)) else { return };
                        let (mut mand, mut mor) = (ta.clone(), ta.clone());
                        mand.and(tb.clone()); mor.or(tb.clone());
                        let nota = ta.negate();
                        for base in region_envs(&mut rng, &[x, y], 4) {
                            for e in decorate(&base) {
                                out.evaluations += 1;
                                let (va, vb) = (e.eval(&ta), e.eval(&tb));
                                out.stat("c02.decorated_env_points");
                                if e.eval(&mand) != (va && vb) || e.eval(&mor) != (va || vb) || e.eval(&nota) == va {
                                    out.oracle_fail("C02", &format!("and / or / negate not pointwise under an environment with a decorated version: operands {va}/{vb}, and {}, or {}, not {}", e.eval(&mand), e.eval(&mor), e.eval(&nota)), serde_json::json!({"a": x.line(), "b": y.line(), "env": e.line(), "python_full_version": e.vers[1], "implementation_version": e.vers[0]}));
                                }
                            }
                        }
                    } }
                }
            }
            for i in 0..n_ops {
                let a = &items[rng.below(items.len())];
                let b = &items[rng.below(items.len())];
                let op = gen_op(&mut rng, &p, &["and", "or", "not"]);
                let Some(m) = op_case(out, "C02", &op, a, Some(b)) else { return };
                let envs = region_envs(&mut rng, &[&a.term, &b.term], 8);
                let (ra, rb): (Vec<bool>, Vec<bool>) = (envs.iter().map(|e| e.eval(&a.tree)).collect(), envs.iter().map(|e| e.eval(&b.tree)).collect());
                let rm: Vec<bool> = if i % 4 == 0 { ev_case(out, &dump(&m), &m, &envs) } else { envs.iter().map(|e| e.eval(&m)).collect() };
                for j in 0..envs.len() {
                    let want = match op { OpK::And => ra[j] && rb[j], OpK::Or => ra[j] || rb[j], _ => !ra[j] };
                    if rm[j] != want {
                        out.oracle_fail("C02", &format!("{:?} is not pointwise: operands evaluate to {}/{}, result to {}", op, ra[j], rb[j], rm[j]), serde_json::json!({"a": a.term.line(), "b": b.term.line(), "env": envs[j].line()}));
                    }
                    if want { out.stat("c02.true_results"); } else { out.stat("c02.false_results"); }
                }
                // related operands after related work: x = a and b implies a; `and` first, then `or` on the same
                // ordered pair (and on the negations, and in the other order) — whatever was combined before
                if i % 3 == 0 {
                    let xt = Term::and(a.term.clone(), b.term.clone());
                    let Some(xtree) = try_build(out, "C02", &xt) else { return };
                    let x = Item { term: xt, dump: dump(&xtree), tree: xtree };
                    let nx = Item { term: Term::not(x.term.clone()), dump: dump(&x.tree.negate()), tree: x.tree.negate() };
                    let na = Item { term: Term::not(a.term.clone()), dump: dump(&a.tree.negate()), tree: a.tree.negate() };
                    let steps: [(&Item, &Item, OpK); 6] = [(&x, a, OpK::And), (&x, a, OpK::Or), (a, &x, OpK::Or), (&nx, &na, OpK::Or), (&na, &nx, OpK::And), (&nx, &na, OpK::And)];
                    let envs2 = region_envs(&mut rng, &[&a.term, &b.term], 6);
                    for (l, r, k) in steps {
                        let Some(m2) = op_case(out, "C02", &k, l, Some(r)) else { return };
                        out.stat("c02.related_history_steps");
                        for e in &envs2 {
                            let (vl, vr) = (e.eval(&l.tree), e.eval(&r.tree));
                            let want = if matches!(k, OpK::And) { vl && vr } else { vl || vr };
                            if e.eval(&m2) != want {
                                out.oracle_fail("C02", &format!("{:?} is not pointwise after related operations on the same operands: operands evaluate to {vl}/{vr}, result to {}", k, !want), serde_json::json!({"a": l.term.line(), "b": r.term.line(), "env": e.line(), "history": "x = a and b; x and a; x or a; a or x; not x or not a; not a and not x; not x and not a"}));
                            }
                        }
                    }
                }
                // identities / annihilators, structurally
                let (mut t1, mut t2, mut t3, mut t4) = (a.tree.clone(), a.tree.clone(), a.tree.clone(), a.tree.clone());
                t1.and(MarkerTree::TRUE); t2.and(MarkerTree::FALSE); t3.or(MarkerTree::FALSE); t4.or(MarkerTree::TRUE);
                let mut t5 = a.tree.clone(); t5.and(a.tree.negate());
                let mut t6 = a.tree.clone(); t6.and(a.tree.clone());
                if t1 != a.tree || !t2.is_false() || t3 != a.tree || !t4.is_true() || !t5.is_false() || t6 != a.tree {
                    out.oracle_fail("C02", "TRUE/FALSE do not act as identity / annihilator, or a and a != a, or a and not a != FALSE", serde_json::json!({"a": a.term.line()}));
                }
            }
        }
        "C04" => {
            let mk = |x: &Item| Item { term: x.term.clone(), tree: x.tree.clone(), dump: x.dump.clone() };
            let mut pairs: Vec<(Item, Item)> = Vec::new();
            // operands with SEVERAL edges each on one variable (two-atom disjunctions over five literals): the edge-level walk has to
            // pair every range of one operand with every range of the other it meets, in both operand orders. Judged here by the
            // verdict's own laws — symmetric, and true exactly when the conjunction is the FALSE marker (C02 / C03 tie `and` to meaning)
            {
                for (is_ver, k) in [(true, 1usize), (false, 1usize)] {
                    let lits: [&str; 5] = if is_ver { ["3.6", "3.7", "3.8", "3.9", "3.10"] } else { ["a", "c", "e", "g", "i"] };
                    let mut atoms: Vec<Term> = Vec::new();
                    for l in lits { for op in [0usize, 2, 4] {
                        atoms.push(if is_ver { Term::V(k, op, l.to_string()) } else { Term::S(k, [0usize, 4, 2][op / 2], l.to_string()) });   // == < >
                    } }
                    let mut ors: Vec<(Term, MarkerTree)> = Vec::new();
                    for i in 0..atoms.len() { for j in (i + 1)..atoms.len() {
                        let t = Term::or(atoms[i].clone(), atoms[j].clone());
                        let Some(m) = try_build(out, "C04", &t) else { return };
                        ors.push((t, m));
                    } }
                    for (ta, a) in &ors { for (tb, b) in &ors {
                        out.evaluations += 1;
                        let (ab, ba) = (a.is_disjoint(b), b.is_disjoint(a));
                        let mut conj = a.clone();
                        conj.and(b.clone());
                        if ab != ba || ab != conj.is_false() {
                            out.oracle_fail("C04", &format!("is_disjoint is {ab} one way, {ba} the other, and the conjunction is{} FALSE", if conj.is_false() { "" } else { " not" }), serde_json::json!({"a": ta.line(), "b": tb.line()}));
                        }
                    } }
                    out.stat_n("c04.multi_edge_pairs", (ors.len() * ors.len()) as u64);
                }
            }
            // operands that touch in exactly one point, or are separated by one point: every ordered pair of
            // comparisons against the same literal on the same key (version keys with inclusive bounds, string
            // keys), bare and under / above other variables
            {
                let mut atoms: Vec<Vec<Term>> = Vec::new();
                for k in [1usize, 2] { for lit in ["3.8", "3.8.1"] { atoms.push((0..6).map(|op| Term::V(k, op, lit.to_string())).collect()); } }
                for k in [1usize, 12] { for lit in ["posix", ""] { atoms.push((0..6).map(|op| Term::S(k, op, lit.to_string())).collect()); } }
                for group in &atoms {
                    for (i, x) in group.iter().enumerate() {
                        for (j, y) in group.iter().enumerate() {
                            let variants: Vec<(Term, Term)> = vec![
                                (x.clone(), y.clone()),
                                (Term::and(x.clone(), Term::X(false, "dev".into())), Term::and(y.clone(), Term::S(0, 0, "nt".into()))),
                                (Term::and(Term::V(0, 5, "3.7".into()), x.clone()), Term::and(Term::V(0, 2, "3.12".into()), Term::or(y.clone(), Term::X(true, "dev".into())))),
                            ];
                            for (vi, (ta, tb)) in variants.into_iter().enumerate() {
                                if vi > 0 && (i + j) % 2 == 1 { continue; }
                                let (Some(tra), Some(trb)) = (try_build(out, "C04", &ta), try_build(out, "C04", &tb)) else { return };
                                let (da, db) = (dump(&tra), dump(&trb));
                                pairs.push((Item { term: ta, tree: tra, dump: da }, Item { term: tb, tree: trb, dump: db }));
                                out.stat("c04.boundary_pairs");
                            }
                        }
                    }
                }
            }
            // comparisons only the typed builder can express (`===`), against point / range conditions on the full version
            {
                for k in [2usize, 1] {
                    for lit in ["3.7", "3.7.0", "3"] {
                        let x = Term::V(k, 9, lit.to_string());
                        let mut ys: Vec<Term> = (0..6).map(|op| Term::V(1, op, "3.7.1".to_string())).collect();
                        ys.extend([Term::V(k, 0, lit.to_string()), Term::V(k, 1, lit.to_string()), Term::V(1, 4, "3.7".to_string()), Term::V(1, 2, "3.8".to_string()), Term::V(2, 1, "3.7".to_string())]);
                        for y in ys {
                            for (ta, tb) in [(x.clone(), y.clone()), (Term::and(x.clone(), Term::X(false, "dev".into())), Term::or(y.clone(), Term::S(1, 0, "nt".into())))] {
                                let (Some(tra), Some(trb)) = (try_build(out, "C04", &ta), try_build(out, "C04", &tb)) else { return };
                                let (da, db) = (dump(&tra), dump(&trb));
                                pairs.push((Item { term: ta, tree: tra, dump: da }, Item { term: tb, tree: trb, dump: db }));
                                out.stat("c04.exact_equal_pairs");
                            }
                        }
                    }
                }
            }
            // markers PARSED from text in random layouts (blanks, tabs and line breaks wherever the grammar allows them, also
            // inside in-lists), judged against the meaning of the text: a verdict about the wrong marker is a wrong verdict
            {
                let pp = pools();
                let mut texts: Vec<Term> = vec![
                    Term::VI(2, false, vec!["3.7".into(), "3.8".into()]), Term::V(2, 0, "3.8".into()), Term::VI(2, true, vec!["3.8".into(), "3.9".into()]), Term::V(2, 0, "3.9".into()),
                    Term::VI(1, false, vec!["3.9.1".into(), "3.10".into(), "3.11.2".into()]), Term::V(1, 0, "3.11.2".into()), Term::VI(0, true, vec!["3.9".into()]), Term::V(0, 0, "3.9".into()),
                ];
                for _ in 0..(if big { 300 } else { 60 }) { texts.push(crate::mparse::gen_parse_term(&mut rng, &pp, 2)); }
                let mut parsed: Vec<Item> = Vec::new();
                for t in &texts {
                    for _ in 0..3 {
                        let Some(text) = crate::mparse::layout(&mut rng, t, true) else { continue };
                        let Ok(Ok(tree)) = catch_unwind(AssertUnwindSafe(|| MarkerTree::from_str(&text))) else { continue };
                        let d = dump(&tree);
                        parsed.push(Item { term: t.clone(), tree, dump: d });
                        out.stat("c04.parsed_from_layout");
                    }
                }
                let n = parsed.len();
                for i in 0..n {
                    for j in [(i + 1) % n, (i + 3) % n, (i * 7 + 5) % n] {
                        pairs.push((mk(&parsed[i]), mk(&parsed[j])));
                    }
                }
            }
            for _ in 0..n_ops {
                let a = mk(&items[rng.below(items.len())]);
                // bias towards related operands
                let b = match rng.below(4) {
                    0 => Item { term: Term::not(a.term.clone()), tree: a.tree.negate(), dump: dump(&a.tree.negate()) },
                    1 => {
                        let c = &items[rng.below(items.len())];
                        let t = Term::and(Term::not(a.term.clone()), c.term.clone());
                        let Some(tree) = try_build(out, "C04", &t) else { return };
                        let d = dump(&tree);
                        Item { term: t, tree, dump: d }
                    }
                    _ => { let c = &items[rng.below(items.len())]; Item { term: c.term.clone(), tree: c.tree.clone(), dump: c.dump.clone() } }
                };
                pairs.push((a, b));
            }
            for (a, b) in &pairs {
                out.evaluations += 1;
                let r = catch_unwind(AssertUnwindSafe(|| {
                    let d1 = a.tree.is_disjoint(&b.tree);
                    let d2 = b.tree.is_disjoint(&a.tree);
                    let mut c = a.tree.clone();
                    c.and(b.tree.clone());
                    (d1, d2, c.is_false())
                }));
                let Ok((d1, d2, cf)) = r else {
                    out.oracle_fail("C04", "panic in is_disjoint / and", serde_json::json!({"a": a.term.line(), "b": b.term.line()}));
                    return;
                };
                out.case(format!("disj\tL {}\tL {}", a.dump, b.dump), format!("{}{}{}", d1 as u8, d2 as u8, cf as u8));
                out.stat(if d1 { "c04.disjoint" } else { "c04.overlapping" });
                if d1 { out.nontrivial(format!("{}|{}", a.dump, b.dump)); }
                let input = serde_json::json!({"a": a.term.line(), "b": b.term.line()});
                if d1 != d2 { out.oracle_fail("C04", "is_disjoint is not symmetric", input.clone()); }
                if d1 != cf { out.oracle_fail("C04", &format!("is_disjoint = {d1} but (a and b).is_false() = {cf}"), input.clone()); }
                let envs = region_envs(&mut rng, &[&a.term, &b.term], 10);
                for e in &envs {
                    let (ea, eb) = (e.eval(&a.tree), e.eval(&b.tree));
                    if d1 && ea && eb { out.oracle_fail("C04", "is_disjoint returned true but an environment satisfies both", serde_json::json!({"a": a.term.line(), "b": b.term.line(), "env": e.line()})); }
                    if a.tree.is_false() && ea { out.oracle_fail("C04", "is_false() but an environment satisfies the marker", serde_json::json!({"a": a.term.line(), "env": e.line()})); }
                    if a.tree.is_true() && !ea { out.oracle_fail("C04", "is_true() but an environment falsifies the marker", serde_json::json!({"a": a.term.line(), "env": e.line()})); }
                    // … and against the meaning of the expressions the markers were built from (read off PEP 508 / PEP 440,
                    // not off the diagram)
                    if let (Some(sa), Some(sb)) = (crate::mparse::term_sem(&a.term, e), crate::mparse::term_sem(&b.term, e)) {
                        out.stat("c04.judged_by_term_meaning");
                        if d1 && sa && sb { out.oracle_fail("C04", "is_disjoint returned true but an environment satisfies both expressions as written", serde_json::json!({"a": a.term.line(), "b": b.term.line(), "env": e.line()})); }
                        if cf && sa && sb { out.oracle_fail("C04", "(a and b).is_false() but an environment satisfies both expressions as written", serde_json::json!({"a": a.term.line(), "b": b.term.line(), "env": e.line()})); }
                        if a.tree.is_false() && sa { out.oracle_fail("C04", "is_false() but an environment satisfies the expression as written", serde_json::json!({"a": a.term.line(), "env": e.line()})); }
                        if a.tree.is_true() && !sa { out.oracle_fail("C04", "is_true() but an environment falsifies the expression as written", serde_json::json!({"a": a.term.line(), "env": e.line()})); }
                    }
                }
            }
        }
        "C03" => {
            // (1) the operations whose results must be canonical, one step from literals
            for _ in 0..n_ops / 2 {
                let op = gen_op(&mut rng, &p, &["and", "or", "not", "rx", "sp", "cp"]);
                let a = &items[rng.below(items.len())];
                let b = &items[rng.below(items.len())];
                if op_case(out, "C03", &op, a, Some(b)).is_none() { return; }
            }
            // (2) laws: different construction paths of one function must give the identical marker
            for _ in 0..n_ops / 2 {
                let (a, b, c) = (&items[rng.below(items.len())], &items[rng.below(items.len())], &items[rng.below(items.len())]);
                let t = |x: &Item| x.term.clone();
                let pairs: Vec<(&str, Term, Term)> = vec![
                    ("and commutes", Term::and(t(a), t(b)), Term::and(t(b), t(a))),
                    ("or commutes", Term::or(t(a), t(b)), Term::or(t(b), t(a))),
                    ("and associates", Term::and(Term::and(t(a), t(b)), t(c)), Term::and(t(a), Term::and(t(b), t(c)))),
                    ("or associates", Term::or(Term::or(t(a), t(b)), t(c)), Term::or(t(a), Term::or(t(b), t(c)))),
                    ("and distributes over or", Term::and(t(a), Term::or(t(b), t(c))), Term::or(Term::and(t(a), t(b)), Term::and(t(a), t(c)))),
                    ("or distributes over and", Term::or(t(a), Term::and(t(b), t(c))), Term::and(Term::or(t(a), t(b)), Term::or(t(a), t(c)))),
                    ("absorption", Term::or(t(a), Term::and(t(a), t(b))), t(a)),
                    ("de morgan", Term::not(Term::and(t(a), t(b))), Term::or(Term::not(t(a)), Term::not(t(b)))),
                    ("double negation", Term::not(Term::not(t(a))), t(a)),
                    ("excluded middle", Term::or(t(a), Term::not(t(a))), Term::T),
                    // restriction returns the canonical marker of the restricted function
                    ("restriction by two extras at once / one after the other", Term::Rx(vec!["dev".into(), "test".into()], Box::new(t(a))), Term::Rx(vec!["dev".into()], Box::new(Term::Rx(vec!["test".into()], Box::new(t(a)))))),
                    ("restriction removes a conjunction of the active extras", Term::Rx(vec!["dev".into(), "test".into()], Box::new(Term::and(Term::and(Term::X(false, "dev".into()), Term::X(false, "test".into())), t(a)))), Term::Rx(vec!["dev".into(), "test".into()], Box::new(t(a)))),
                    ("restriction of `e1 and e2` by both is TRUE", Term::Rx(vec!["a".into(), "b".into()], Box::new(Term::and(Term::X(false, "a".into()), Term::X(false, "b".into())))), Term::T),
                    ("restriction of `not e1 or not e2` by both is FALSE", Term::Rx(vec!["a".into(), "b".into()], Box::new(Term::or(Term::X(true, "a".into()), Term::X(true, "b".into())))), Term::F),
                    ("restriction of `e1 and not e2 and m` by both is FALSE", Term::Rx(vec!["a".into(), "b".into()], Box::new(Term::and(Term::and(Term::X(false, "a".into()), Term::X(true, "b".into())), t(a)))), Term::F),
                    // requires-python surgery returns the canonical marker of the same function
                    ("complexify is conjunction with the range (upper bound)", Term::Cp(Bd::U, Bd::E("3.12".into()), Box::new(t(a))), Term::and(t(a), range_term(&Bd::U, &Bd::E("3.12".into())))),
                    ("complexify is conjunction with the range (both bounds)", Term::Cp(Bd::I("3.8".into()), Bd::I("3.11".into()), Box::new(t(a))), Term::and(t(a), range_term(&Bd::I("3.8".into()), &Bd::I("3.11".into())))),
                    ("complexify is conjunction with the range (lower bound)", Term::Cp(Bd::E("3.9".into()), Bd::U, Box::new(t(a))), Term::and(t(a), range_term(&Bd::E("3.9".into()), &Bd::U))),
                    ("complexify after simplify", Term::Cp(Bd::I("3.8".into()), Bd::E("3.13".into()), Box::new(Term::Sp(Bd::I("3.8".into()), Bd::E("3.13".into()), Box::new(t(a))))), Term::Cp(Bd::I("3.8".into()), Bd::E("3.13".into()), Box::new(t(a)))),
                ];
                // Ordering::Equal exactly for the same function: a marker against markers that share its root
                // test (its negation, and its conjunction / disjunction with another marker)
                {
                    let mut done = false;
                    let variants = [Term::not(t(a)), Term::and(t(a), t(b)), Term::or(t(a), t(b)), lit_twin(&a.term, &mut done)];
                    for v in &variants {
                        let Some(y) = try_build(out, "C03", v) else { return };
                        out.evaluations += 1;
                        out.stat("c03.cmp_pairs");
                        if (a.tree.cmp(&y) == std::cmp::Ordering::Equal) != (a.tree == y) {
                            out.oracle_fail("C03", "cmp returns Equal for two markers that are not the same function (or not Equal for the same)", serde_json::json!({"left": a.term.line(), "right": v.line(), "left_dump": a.dump, "right_dump": dump(&y)}));
                        }
                    }
                }
                let (name, l, r) = &pairs[rng.below(pairs.len())];
                out.evaluations += 1;
                let (Some(x), Some(y)) = (try_build(out, "C03", l), try_build(out, "C03", r)) else { return };
                out.stat("c03.laws");
                if x != y || hash_of(&x) != hash_of(&y) || x.cmp(&y) != std::cmp::Ordering::Equal {
                    out.oracle_fail("C03", &format!("law `{name}`: two construction paths of the same function give different markers"), serde_json::json!({"left": l.line(), "right": r.line(), "left_dump": dump(&x), "right_dump": dump(&y)}));
                }
            }
            same_partition_pairs(out, "C03");
            // (2b) spellings of one comparison: every operator against its negated twin, the wildcard and `~=` forms
            //      against their range forms, literals with and without trailing zero segments — identical markers
            {
                let lits = ["3.7", "3.7.0", "3.7.0.0", "3", "3.0", "3.0.0", "1.2.0.0", "3.10.2", "0", "0.0", "3.7.1", "2.0.1.0"];
                let next = |l: &str| { let mut v: Vec<u64> = l.split('.').map(|x| x.parse().unwrap()).collect(); *v.last_mut().unwrap() += 1; v.iter().map(|x| x.to_string()).collect::<Vec<_>>().join(".") };
                let prefix = |l: &str| { let v: Vec<&str> = l.split('.').collect(); v[..v.len() - 1].join(".") };
                let mut laws: Vec<(String, Term, Term)> = Vec::new();
                for k in 0..3usize {
                    for l in lits {
                        let v = |op: usize, t: &str| Term::V(k, op, t.to_string());
                        laws.push((format!("!= is not =="), v(1, l), Term::not(v(0, l))));
                        laws.push((format!("!= X.* is not == X.*"), v(8, l), Term::not(v(7, l))));
                        laws.push((format!("<= is not >"), v(3, l), Term::not(v(4, l))));
                        laws.push((format!("< is not >="), v(2, l), Term::not(v(5, l))));
                        let m = lits[(l.len() * 7 + k) % lits.len()];
                        laws.push((format!("not in is not in"), Term::VI(k, true, vec![l.to_string(), m.to_string()]), Term::not(Term::VI(k, false, vec![l.to_string(), m.to_string()]))));
                        for op in 0..6 { laws.push((format!("a trailing zero segment does not matter ({})", VOPS[op].1), v(op, l), v(op, &format!("{l}.0")))); }
                        if k < 2 {
                            laws.push((format!("== X.* is the prefix range"), v(7, l), Term::and(v(5, l), v(2, &next(l)))));
                            laws.push((format!("in is the disjunction of =="), Term::VI(k, false, vec![l.to_string(), m.to_string()]), Term::or(v(0, l), v(0, m))));
                            if l.contains('.') { laws.push((format!("~= X.Y is >= X.Y and == X.*"), v(6, l), Term::and(v(5, l), v(7, &prefix(l))))); }
                        }
                    }
                }
                for k in [1usize, 2, 12] {
                    for val in ["posix", "", "a b", "it's"] {
                        let sv = |op: usize| Term::S(k, op, val.to_string());
                        for (a, b, name) in [(1usize, 0usize, "!= is not == (strings)"), (5, 2, "<= is not > (strings)"), (4, 3, "< is not >= (strings)"), (7, 6, "not in is not in (strings)"), (9, 8, "not contains is not contains")] {
                            laws.push((name.to_string(), sv(a), Term::not(sv(b))));
                        }
                    }
                }
                for (name, l, r) in &laws {
                    out.evaluations += 1;
                    let (Some(x), Some(y)) = (try_build(out, "C03", l), try_build(out, "C03", r)) else { return };
                    out.stat("c03.spelling_laws");
                    if x != y || hash_of(&x) != hash_of(&y) {
                        out.oracle_fail("C03", &format!("law `{name}`: two spellings of the same condition give different markers"), serde_json::json!({"left": l.line(), "right": r.line(), "left_dump": dump(&x), "right_dump": dump(&y)}));
                    }
                }
            }
            // (2c) single comparisons on `python_version`: the values of that variable are the X.Y pairs, so the meaning of an atom read
            //      from the text (term_sem) on a grid of X.Y[.Z] environments that contains every boundary decides which function it is —
            //      atoms with the same truth vector must be the SAME marker, an all-false vector must be FALSE, an all-true one TRUE
            {
                let lits = ["3.7", "3.7.0", "3.7.0.0", "3.7.0.1", "3.7.0.0.5", "3.7.1", "3.7.1.0", "3", "3.0", "3.0.1", "3.10", "3.10.0.2", "2.7.18", "4", "3.8"];
                // (no literal equal to version 0: `python_version < '0'` is constantly false without being FALSE — the end point of the
                //  version order, the property's FALSE carve-out, C03b's separation hypothesis)
                let mut grid: Vec<CEnv> = Vec::new();
                for x in 0..=5u64 { for y in 0..=12u64 { for z in [0u64, 3] {
                    let mut e = CEnv::default_env();
                    e.vers[1] = format!("{x}.{y}.{z}");
                    e.vers[2] = format!("{x}.{y}");
                    grid.push(e);
                } } }
                let mut seen: Vec<(Vec<bool>, Term, MarkerTree)> = Vec::new();
                for l in lits {
                    for op in 0..9usize {
                        for flip in [false, true] {
                            let atom = Term::V(2, op, l.to_string());
                            // (pep440_rs has no such specifier: `~=` with one release segment)
                            if op == 6 && !l.contains('.') { out.stat("c03.pyver_atom_not_a_specifier"); continue; }
                            let t = if flip { Term::not(atom) } else { atom };
                            let vec: Option<Vec<bool>> = grid.iter().map(|e| crate::mparse::term_sem(&t, e)).collect();
                            let Some(vec) = vec else { out.stat("c03.pyver_atom_carved_out"); continue };
                            let Some(m) = try_build(out, "C03", &t) else { return };
                            out.evaluations += 1;
                            out.stat("c03.pyver_atoms");
                            if vec.iter().all(|b| !*b) && !m.is_false() { out.oracle_fail("C03", "a python_version comparison that no X.Y satisfies is not the FALSE marker", serde_json::json!({"term": t.line(), "dump": dump(&m)})); }
                            if vec.iter().all(|b| *b) && !m.is_true() { out.oracle_fail("C03", "a python_version comparison that every X.Y satisfies is not the TRUE marker", serde_json::json!({"term": t.line(), "dump": dump(&m)})); }
                            if let Some((_, t0, m0)) = seen.iter().find(|(v, _, _)| *v == vec) {
                                if *m0 != m { out.oracle_fail("C03", "two python_version comparisons with the same meaning on every X.Y are different markers", serde_json::json!({"left": t0.line(), "right": t.line(), "left_dump": dump(m0), "right_dump": dump(&m)})); }
                            } else { seen.push((vec, t, m)); }
                        }
                    }
                }
            }
            // (3) exhaustive truth tables over the joint abstract grid of small groups
            let groups = if big { 400 } else { 80 };
            for _ in 0..groups {
                let small = Pools { versions: vec![*rng.pick(&p.versions), *rng.pick(&p.versions)], strings: vec![*rng.pick(&p.strings), *rng.pick(&p.strings)], extras: vec!["dev", "test"] };
                let mut group: Vec<(Term, MarkerTree)> = Vec::new();
                for k in 0..14 {
                    let t = if k % 7 == 6 { targeted(&mut rng, &small) } else { gen_term_small(&mut rng, &small, 3) };
                    let Some(m) = try_build(out, "C03", &t) else { return };
                    group.push((t, m));
                }
                let trees: Vec<&MarkerTree> = group.iter().map(|g| &g.1).collect();
                let Some(tabs) = truth_tables(&trees, 30_000) else { out.stat("c03.group_too_large"); continue };
                out.stat("c03.groups_exhaustive");
                out.evaluations += group.len() as u64;
                for i in 0..group.len() {
                    for j in 0..i {
                        let (Some(ti), Some(tj)) = (&tabs[i], &tabs[j]) else { continue };
                        let same_fn = ti == tj;
                        let same_id = group[i].1 == group[j].1;
                        if same_fn { out.stat("c03.pairs_same_function"); } else { out.stat("c03.pairs_different_function"); }
                        if same_fn != same_id {
                            out.oracle_fail("C03", &format!("markers denote {} function but compare {}", if same_fn { "the same" } else { "a different" }, if same_id { "equal" } else { "unequal" }), serde_json::json!({"left": group[i].0.line(), "right": group[j].0.line(), "left_dump": dump(&group[i].1), "right_dump": dump(&group[j].1)}));
                        }
                    }
                    if let Some(ti) = &tabs[i] {
                        let m = &group[i].1;
                        if ti.iter().all(|b| *b) != m.is_true() || ti.iter().all(|b| !*b) != m.is_false() {
                            out.oracle_fail("C03", "is_true()/is_false() does not hold exactly for the constant functions", serde_json::json!({"term": group[i].0.line(), "dump": dump(m)}));
                        }
                    }
                }
            }
        }
        "C11" => {
            let mut pe = pools();
            pe.extras = vec!["dev", "test", "Foo_Bar", "foo-bar", "a", "not valid", ""];
            // markers made of extras ONLY (the root of the diagram is an extra node), several of them in E on one path: every
            // and / or shape over ==/!= of three names x every non-empty E x every S — simplify_extras(E)(S) = original(S ∪ E), the
            // result does not depend on any member of E, and the closure form agrees
            {
                let names = ["alpha", "beta", "gamma"];
                let lit = |i: usize, neg: bool| Term::X(neg, names[i].to_string());
                let mut shapes: Vec<Term> = Vec::new();
                for n1 in [false, true] { for n2 in [false, true] {
                    for (i, j) in [(0usize, 1usize), (1, 0), (0, 2), (1, 2)] {
                        shapes.push(Term::and(lit(i, n1), lit(j, n2)));
                        shapes.push(Term::or(lit(i, n1), lit(j, n2)));
                        for n3 in [false, true] {
                            let k = 3 - i - j;
                            shapes.push(Term::and(lit(i, n1), Term::or(lit(j, n2), lit(k, n3))));
                            shapes.push(Term::or(lit(i, n1), Term::and(lit(j, n2), lit(k, n3))));
                            shapes.push(Term::and(Term::and(lit(i, n1), lit(j, n2)), lit(k, n3)));
                        }
                    }
                } }
                for t in &shapes {
                    let Some(m0) = try_build(out, "C11", t) else { return };
                    for emask in 1..8u32 {
                        let e_names: Vec<ExtraName> = (0..3).filter(|i| emask & (1 << i) != 0).map(|i| ExtraName::from_str(names[i]).unwrap()).collect();
                        let simplified = m0.clone().simplify_extras(&e_names);
                        let by_closure = m0.clone().simplify_extras_with(|n| e_names.contains(n));
                        out.evaluations += 1;
                        let input = serde_json::json!({"marker": t.line(), "E": e_names.iter().map(|n| n.to_string()).collect::<Vec<_>>()});
                        if by_closure != simplified { out.oracle_fail("C11", "simplify_extras_with(|n| E.contains(n)) differs from simplify_extras(E)", input.clone()); }
                        let env = CEnv::default_env().env();
                        for smask in 0..8u32 {
                            let set = |mask: u32| -> Vec<ExtraName> { (0..3).filter(|i| mask & (1 << i) != 0).map(|i| ExtraName::from_str(names[i]).unwrap()).collect() };
                            if simplified.evaluate(&env, &set(smask)) != m0.evaluate(&env, &set(smask | emask)) {
                                out.oracle_fail("C11", "simplify_extras(E)(S) differs from original(S ∪ E) on a marker made of extras only", input.clone());
                                break;
                            }
                            for bit in 0..3 { if emask & (1 << bit) != 0 && simplified.evaluate(&env, &set(smask)) != simplified.evaluate(&env, &set(smask ^ (1 << bit))) {
                                out.oracle_fail("C11", "the result of simplify_extras(E) still depends on a member of E", input.clone());
                            } }
                        }
                        out.stat("c11.pure_extras_shapes");
                    }
                }
            }
            for _ in 0..n_ops {
                let a = &items[rng.below(items.len())];
                let op = gen_op(&mut rng, &pe, &["rx"]);
                let OpK::Rx(names) = &op else { unreachable!() };
                let Some(m) = op_case(out, "C11", &op, a, None) else { return };
                // semantics: m on S  ==  a on S ∪ E ; and m no longer mentions E
                let envs = region_envs(&mut rng, &[&a.term, &Term::Rx(names.clone(), Box::new(Term::T))], 8);
                for e in &envs {
                    let mut e2 = e.clone();
                    for n in names { if !e2.extras.iter().any(|x| ExtraName::from_str(x).unwrap() == ExtraName::from_str(n).unwrap()) { e2.extras.push(n.clone()); } }
                    if e.eval(&m) != e2.eval(&a.tree) {
                        out.oracle_fail("C11", "simplify_extras(E)(S) differs from original(S ∪ E)", serde_json::json!({"a": a.term.line(), "E": names, "env": e.line()}));
                    }
                }
                // the closure form is the same operation
                {
                    let ns: Vec<ExtraName> = names.iter().map(|n| ExtraName::from_str(n).unwrap()).collect();
                    let by_closure = a.tree.clone().simplify_extras_with(|n| ns.contains(n));
                    if by_closure != m { out.oracle_fail("C11", "simplify_extras_with(|n| E.contains(n)) differs from simplify_extras(E)", serde_json::json!({"a": a.term.line(), "E": names})); }
                    let none = a.tree.clone().simplify_extras_with(|_| false);
                    if none != a.tree { out.oracle_fail("C11", "simplify_extras_with(|_| false) changed the marker", serde_json::json!({"a": a.term.line()})); }
                }
                // Requirement::with_extra_marker(e): the old marker AND `extra == e`
                for n in names.iter().take(2) {
                    let e = ExtraName::from_str(n).unwrap();
                    let req = pep508_rs::Requirement::<pep508_rs::VerbatimUrl> { name: pep508_rs::PackageName::from_str("n").unwrap(), extras: vec![], version_or_url: None, marker: a.tree.clone(), origin: None };
                    let got = req.clone().with_extra_marker(&e);
                    let mut want = a.tree.clone();
                    want.and(MarkerTree::expression(pep508_rs::MarkerExpression::Extra { operator: pep508_rs::ExtraOperator::Equal, name: pep508_rs::MarkerValueExtra::Extra(e.clone()) }));
                    out.evaluations += 1;
                    if got.marker != want || got.name != req.name || got.extras != req.extras || got.version_or_url != req.version_or_url {
                        out.oracle_fail("C11", "with_extra_marker(e) is not `marker and extra == e` on an otherwise unchanged requirement", serde_json::json!({"a": a.term.line(), "extra": n}));
                    }
                    for env in &envs {
                        let active = env.extras().contains(&e);
                        if env.eval(&got.marker) != (env.eval(&a.tree) && active) {
                            out.oracle_fail("C11", "with_extra_marker(e) does not evaluate as `marker and e active`", serde_json::json!({"a": a.term.line(), "extra": n, "env": env.line()}));
                            break;
                        }
                    }
                    out.stat("c11.with_extra_marker");
                }
                let d = dump(&m);
                for n in names {
                    let tok = format!("x:e:{}", hex(ExtraName::from_str(n).unwrap().as_ref()));
                    if d.split(' ').any(|t| t == tok) {
                        out.oracle_fail("C11", "simplify_extras(E) still depends on an extra of E", serde_json::json!({"a": a.term.line(), "E": names, "dump": d}));
                    }
                }
            }
            // top_level_extra: the model's loop over the model's DNF, on pool markers, on markers gated by an extra
            // (`m and extra == e`, `(m and extra == e) or (m' and extra == e)`) and on ones gated by two different extras
            {
                let mut cands: Vec<Term> = Vec::new();
                for k in 0..(if big { 400 } else { 120 }) {
                    let (a, b) = (&items[rng.below(items.len())], &items[rng.below(items.len())]);
                    let (e1, e2) = (["dev", "test", "foo-bar"][k % 3], ["dev", "a", "test"][(k / 3) % 3]);
                    cands.push(a.term.clone());
                    cands.push(Term::and(a.term.clone(), Term::X(false, e1.into())));
                    cands.push(Term::or(Term::and(a.term.clone(), Term::X(false, e1.into())), Term::and(b.term.clone(), Term::X(false, e1.into()))));
                    cands.push(Term::or(Term::and(a.term.clone(), Term::X(false, e1.into())), Term::and(b.term.clone(), Term::X(false, e2.into()))));
                    cands.push(Term::and(Term::X(false, e1.into()), Term::X(true, e2.into())));
                    cands.push(Term::and(Term::and(Term::X(false, e2.into()), Term::X(false, e1.into())), a.term.clone()));
                }
                for t in &cands {
                    let Some(m) = try_build(out, "C11", t) else { return };
                    let spell = spell_table(&m);
                    if spell == "AMBIGUOUS" { continue; }
                    out.evaluations += 1;
                    let tle = catch_unwind(AssertUnwindSafe(|| m.top_level_extra()));
                    let Ok(tle) = tle else { out.oracle_fail("C11", "panic in top_level_extra", serde_json::json!({"term": t.line()})); continue };
                    out.case(format!("tle\tL {}\t{}", dump(&m), spell), tle.as_ref().map(crate::mparse::expr_line).unwrap_or("none".into()));
                    out.stat(if tle.is_some() { "c11.tle_some" } else { "c11.tle_none" });
                    // meaning, directly: the named extra is active in every satisfying assignment
                    if let Some(pep508_rs::MarkerExpression::Extra { name: pep508_rs::MarkerValueExtra::Extra(x), .. }) = &tle {
                        for e in region_envs(&mut rng, &[t], 6) {
                            if e.eval(&m) && !e.extras().contains(x) {
                                out.oracle_fail("C11", "top_level_extra() names an extra that is not active in a satisfying assignment", serde_json::json!({"term": t.line(), "extra": x.to_string(), "env": e.line()}));
                                break;
                            }
                        }
                    }
                }
            }
            // extra == 'N' atoms in every spelling: expression correspondence + meaning
            // (names that between them use every ASCII letter and digit, in every position; validity and normal form are judged
            //  by the independent reading of the name rules — `names::spec` — not by the crate's own constructors)
            let alphabet_names = ["py39", "9x", "x9", "a0b1c2d3e4f5g6h7i8j9", "klmnopqrstuvwxyz", "ABCDEFGHIJKLMNOPQRSTUVWXYZ", "0-1_2.3", "cp39-CUDA_11.9", "z"];
            let mut c11_extras: Vec<&str> = pe.extras.clone();
            c11_extras.extend(alphabet_names);
            for e in &c11_extras {
                for neg in [false, true] {
                    let t = Term::X(neg, e.to_string());
                    let Some(m) = try_build(out, "C11", &t) else { return };
                    out.evaluations += 1;
                    if pe.extras.contains(e) { out.case(format!("dump\t{}", t.line()), format!("{}\twf=1", dump(&m))); }
                    for active in [vec![], vec!["foo.bar"], vec!["dev", "a"], vec!["FOO-BAR", "test"], vec!["PY39", "9X", "x9"], vec!["a0b1c2d3e4f5g6h7i8j9", "KLMNOPQRSTUVWXYZ", "abcdefghijklmnopqrstuvwxyz"], vec!["0_1-2.3", "cp39.cuda-11_9", "Z"]] {
                        // every active name is valid by the rules: the crate has to agree (else the finding is about names, reported here too)
                        if let Some(bad) = active.iter().find(|a| ExtraName::from_str(a).ok().map(|n| n.to_string()) != crate::names::spec(a)) {
                            out.oracle_fail("C11", "a valid extra name is rejected / normalised differently by ExtraName::from_str", serde_json::json!({"name": bad}));
                            continue;
                        }
                        let mut env = CEnv::default_env();
                        env.extras = active.iter().map(|s| s.to_string()).collect();
                        let member = crate::names::spec(e).map(|n| active.iter().any(|a| crate::names::spec(a).as_deref() == Some(n.as_str()))).unwrap_or(false);
                        if env.eval(&m) != (member != neg) {
                            out.oracle_fail("C11", "extra ==/!= does not mean normalized-name membership", serde_json::json!({"extra": e, "neg": neg, "active": active}));
                        }
                        // … with the active extras read through serde from their raw spellings (a name is the same name however it
                        // was obtained: parsed, constructed or deserialized)
                        if let Ok(de) = serde_json::from_value::<Vec<ExtraName>>(serde_json::json!(active)) {
                            if m.evaluate(&env.env(), &de) != (member != neg) || m.evaluate_extras(&de) != (member != neg) {
                                out.oracle_fail("C11", "extra ==/!= does not match an active extra that was deserialized from its raw spelling", serde_json::json!({"extra": e, "neg": neg, "active": active}));
                            }
                            let via_marker = m.clone().simplify_extras(&de);
                            if member && via_marker != (if neg { MarkerTree::FALSE } else { MarkerTree::TRUE }) {
                                out.oracle_fail("C11", "simplify_extras with a deserialized active extra leaves the atom in place", serde_json::json!({"extra": e, "neg": neg, "active": active}));
                            }
                        }
                        // … through every entry point that takes extras (an atom on `extra` alone depends on nothing else)
                        let ex = env.extras();
                        let set: std::collections::HashSet<ExtraName> = ex.iter().cloned().collect();
                        let pys = [Version::from_str("3.8").unwrap()];
                        let req = pep508_rs::Requirement::<pep508_rs::VerbatimUrl> { name: pep508_rs::PackageName::from_str("n").unwrap(), extras: vec![], version_or_url: None, marker: m.clone(), origin: None };
                        for (name, got) in [
                            ("evaluate_extras", m.evaluate_extras(&ex)),
                            ("evaluate_optional_environment(None)", m.evaluate_optional_environment(None, &ex)),
                            ("evaluate_optional_environment(Some)", m.evaluate_optional_environment(Some(&env.env()), &ex)),
                            ("evaluate_extras_and_python_version", m.evaluate_extras_and_python_version(&set, &pys)),
                            ("evaluate_collect_warnings", m.evaluate_collect_warnings(&env.env(), &ex).0),
                            ("Requirement::evaluate_markers", req.evaluate_markers(&env.env(), &ex)),
                            ("Requirement::evaluate_extras_and_python_version", req.evaluate_extras_and_python_version(&set, &pys)),
                        ] {
                            out.evaluations += 1;
                            if got != (member != neg) {
                                out.oracle_fail("C11", &format!("{name}: extra ==/!= does not mean normalized-name membership"), serde_json::json!({"extra": e, "neg": neg, "active": active, "entry_point": name}));
                            }
                        }
                    }
                }
            }
        }
        "C12" => {
            for _ in 0..n_ops {
                let a = &items[rng.below(items.len())];
                let (lo, hi) = (gen_bd(&mut rng, &p), gen_bd(&mut rng, &p));
                let Some(cx) = op_case(out, "C12", &OpK::Cp(lo.clone(), hi.clone()), a, None) else { return };
                let Some(sx) = op_case(out, "C12", &OpK::Sp(lo.clone(), hi.clone()), a, None) else { return };
                let input = serde_json::json!({"m": a.term.line(), "lo": format!("{:?}", lo), "hi": format!("{:?}", hi)});
                // complexify(m,R) == m AND pfv in R, as the identical marker
                let rterm = range_term(&lo, &hi);
                let Some(want) = try_build(out, "C12", &Term::and(a.term.clone(), rterm.clone())) else { return };
                if cx != want {
                    out.oracle_fail("C12", "complexify(m,R) is not the marker `m and python_full_version in R`", input.clone());
                }
                let (l, h) = (bound(&lo), bound(&hi));
                // markers are release-only: `python_full_version in R` reads R's bounds release-only
                let ro = |b: &Bound<Version>| match b { Bound::Included(v) => Bound::Included(v.only_release()), Bound::Excluded(v) => Bound::Excluded(v.only_release()), Bound::Unbounded => Bound::Unbounded };
                let rng_r = version_ranges::Ranges::from_range_bounds((ro(&l), ro(&h)));
                let nonempty = !rng_r.is_empty();
                if nonempty { out.stat("c12.nonempty_range"); } else { out.stat("c12.empty_or_inverted_range"); }
                let r = catch_unwind(AssertUnwindSafe(|| {
                    let cs = sx.clone().complexify_python_versions(l.as_ref(), h.as_ref());
                    let sc = cx.clone().simplify_python_versions(l.as_ref(), h.as_ref());
                    (cs, sc)
                }));
                let Ok((cs, sc)) = r else { out.oracle_fail("C12", "panic in simplify/complexify", input.clone()); return };
                if nonempty {
                    if cs != cx { out.oracle_fail("C12", "complexify(simplify(m,R),R) != complexify(m,R)", input.clone()); }
                    if sc != sx { out.oracle_fail("C12", "simplify(complexify(m,R),R) != simplify(m,R)", input.clone()); }
                }
                let envs = region_envs(&mut rng, &[&a.term, &rterm], 8);
                for e in &envs {
                    let inside = rng_r.contains(&Version::from_str(&e.vers[1]).unwrap());
                    if inside && e.eval(&sx) != e.eval(&a.tree) {
                        out.oracle_fail("C12", "simplify(m,R) differs from m on an environment inside R", serde_json::json!({"m": a.term.line(), "lo": format!("{:?}", lo), "hi": format!("{:?}", hi), "env": e.line()}));
                    }
                    if e.eval(&cx) != (inside && e.eval(&a.tree)) {
                        out.oracle_fail("C12", "complexify(m,R) does not mean m AND python_full_version in R", serde_json::json!({"m": a.term.line(), "lo": format!("{:?}", lo), "hi": format!("{:?}", hi), "env": e.line()}));
                    }
                }
                // markers that agree on R simplify to the same marker
                if nonempty {
                    let b = &items[rng.below(items.len())];
                    let Some(ab) = try_build(out, "C12", &Term::or(Term::and(a.term.clone(), rterm.clone()), Term::and(b.term.clone(), Term::not(rterm.clone())))) else { return };
                    let r = catch_unwind(AssertUnwindSafe(|| ab.clone().simplify_python_versions(l.as_ref(), h.as_ref())));
                    match r {
                        Ok(s2) => if s2 != sx { out.oracle_fail("C12", "two markers that agree on R simplify differently", serde_json::json!({"m": a.term.line(), "other": b.term.line(), "lo": format!("{:?}", lo), "hi": format!("{:?}", hi)})); },
                        Err(_) => { out.oracle_fail("C12", "panic in simplify", input.clone()); return }
                    }
                }
            }
        }
        "C13" => {
            // comparisons at the end points of the value orders (the empty string, version 0), every operator, alone / negated / with an
            // extra beside them: an edge such as `(-inf, ""]` holds exactly one value and is satisfiable
            let mut items = items;
            let mut endpoint_items: Vec<Item> = Vec::new();
            for (t0, is_ver) in [(Term::S(1, 0, String::new()), false), (Term::S(12, 0, String::new()), false), (Term::S(1, 0, "a".into()), false), (Term::V(1, 0, "0".into()), true), (Term::V(0, 0, "0.0".into()), true)] {
                for op in 0..6usize {
                    let atom = match &t0 { Term::S(k, _, v) => Term::S(*k, op, v.clone()), Term::V(k, _, v) => Term::V(*k, op, v.clone()), _ => unreachable!() };
                    let _ = is_ver;
                    for t in [atom.clone(), Term::not(atom.clone()), Term::and(atom.clone(), Term::X(false, "dev".into())), Term::or(Term::not(atom.clone()), Term::X(false, "test".into())), Term::and(Term::not(atom.clone()), Term::X(true, "dev".into()))] {
                        let Some(tree) = try_build(out, "C13", &t) else { return };
                        endpoint_items.push(Item { dump: dump(&tree), term: t, tree });
                    }
                }
            }
            let n_end = endpoint_items.len();
            items.extend(endpoint_items);
            let n_items = items.len();
            for round in 0..(n_ops + n_end) {
                let a = if round < n_end { &items[n_items - n_end + round] } else { &items[rng.below(n_items - n_end)] };
                let sets: Vec<Vec<&str>> = vec![vec![], vec!["dev"], vec!["test", "foo-bar"], vec!["dev", "test", "a", "b", "x.y", "foo.bar"]];
                let mut bits = String::new();
                let mut toks = Vec::new();
                out.evaluations += 1;
                for s in &sets {
                    let names: Vec<ExtraName> = s.iter().map(|n| ExtraName::from_str(n).unwrap()).collect();
                    let got = a.tree.evaluate_extras(&names);
                    let got2 = a.tree.evaluate_optional_environment(None, &names);
                    let hs: std::collections::HashSet<ExtraName> = names.iter().cloned().collect();
                    bits.push(if got { '1' } else { '0' });
                    toks.push(if names.is_empty() { "-".to_string() } else { names.iter().map(|n| hex(n.as_ref())).collect::<Vec<_>>().join(",") });
                    if got != got2 { out.oracle_fail("C13", "evaluate_optional_environment(None) != evaluate_extras", serde_json::json!({"m": a.term.line(), "extras": s})); }
                    // soundness: if some region environment satisfies the marker with these extras, the answer must be true
                    let envs = region_envs(&mut rng, &[&a.term], 12);
                    for e in &envs {
                        let mut e = e.clone();
                        e.extras = s.iter().map(|x| x.to_string()).collect();
                        if e.eval(&a.tree) {
                            if !got { out.oracle_fail("C13", "evaluate_extras returned false although an environment satisfies the marker", serde_json::json!({"m": a.term.line(), "extras": s, "env": e.line()})); }
                            let pv = Version::from_str(&e.vers[1]).unwrap();
                            if !a.tree.evaluate_extras_and_python_version(&hs, &[Version::from_str("2.7").unwrap(), pv]) {
                                out.oracle_fail("C13", "evaluate_extras_and_python_version returned false although an environment with one of the versions satisfies the marker", serde_json::json!({"m": a.term.line(), "extras": s, "env": e.line()}));
                            }
                            out.stat("c13.witnessed_true");
                        }
                        // the same with a candidate interpreter version that carries a pre / dev / post / local part
                        for suffix in ["rc1", ".dev0", ".post1", "+local.1", "a1"] {
                            let mut e2 = CEnv { vers: e.vers.clone(), strs: e.strs.clone(), extras: e.extras.clone() };
                            e2.vers[1] = format!("{}{}", e.vers[1], suffix);
                            e2.vers[0] = format!("{}{}", e.vers[0], suffix);
                            let (Ok(pv), Ok(_)) = (Version::from_str(&e2.vers[1]), Version::from_str(&e2.vers[0])) else { continue };
                            if e2.eval(&a.tree) {
                                out.evaluations += 1;
                                if !a.tree.evaluate_extras_and_python_version(&hs, &[Version::from_str("2.7").unwrap(), pv.clone()]) || !a.tree.evaluate_extras_and_python_version(&hs, &[pv]) {
                                    out.oracle_fail("C13", "evaluate_extras_and_python_version returned false although an environment with that (decorated) version satisfies the marker", serde_json::json!({"m": a.term.line(), "extras": s, "env": e2.line(), "python_full_version": e2.vers[1]}));
                                }
                                out.stat("c13.witnessed_true_decorated");
                            }
                        }
                    }
                    if got { out.stat("c13.true") } else { out.stat("c13.false") }
                }
                out.nontrivial(a.dump.clone());
                out.case(format!("xev\tL {}\t{}", a.dump, toks.join("\t")), bits);
            }
        }
        "C05" => {
            use std::str::FromStr;
            // shapes the renderer special-cases (`!=`, `!= X.Y.*`, `== X.Y.*`, gaps, point lists), built on
            // purpose around literals with 1-4 release segments and trailing zeros
            let mut items = items;
            {
                let v = |k: usize, op: usize, t: &str| Term::V(k, op, t.to_string());
                let lits = ["3.8", "3.8.1", "3.8.0", "3", "3.0", "3.8.1.2", "3.10", "2.7.18", "3.9"];
                let bump = |t: &str| { let r: Vec<u64> = Version::from_str(t).unwrap().release().to_vec(); format!("{}.{}", r[0], r.get(1).copied().unwrap_or(0) + 1) };
                let mut shapes: Vec<Term> = Vec::new();
                for k in [0usize, 1] {
                    for a in lits {
                        let b = bump(a);
                        shapes.push(Term::or(v(k, 2, a), v(k, 5, &b)));                       // < a or >= next minor
                        shapes.push(Term::and(v(k, 5, a), v(k, 2, &b)));                      // >= a and < next minor
                        shapes.push(Term::or(v(k, 2, a), v(k, 4, a)));                        // < a or > a
                        shapes.push(Term::or(v(k, 3, a), v(k, 5, &b)));                       // <= a or >= next minor
                        shapes.push(Term::or(v(k, 2, a), v(k, 4, &b)));                       // < a or > next minor
                        for c in ["3.9", "3.11", "4"] {
                            shapes.push(Term::and(v(k, 1, a), v(k, 1, c)));                   // != a and != c
                            shapes.push(Term::or(Term::or(v(k, 2, a), Term::and(v(k, 5, &b), v(k, 2, c))), v(k, 5, &bump(c))));
                            shapes.push(Term::and(Term::or(v(k, 2, a), v(k, 5, &b)), Term::S(1, 0, "posix".into())));
                        }
                    }
                }
                for key in [1usize, 12] {
                    for a in ["a", "linux", ""] {
                        shapes.push(Term::or(Term::S(key, 4, a.into()), Term::S(key, 2, a.into())));      // < a or > a
                        shapes.push(Term::and(Term::S(key, 1, a.into()), Term::S(key, 1, "b".into())));
                        shapes.push(Term::and(Term::S(key, 3, a.into()), Term::S(key, 5, "zz".into())));
                    }
                }
                // (atom1 and guard) or atom2 for every pair of comparison operators against the SAME literal, with a
                // guard on a later variable: the point `key == literal` may belong to neither / both clauses
                for (vk, key) in [(true, 1usize), (true, 2), (false, 1), (false, 12)] {
                    let lit = if vk { "3.8" } else { "posix" };
                    let atom = |op: usize| if vk { Term::V(key, op, lit.to_string()) } else { Term::S(key, op, lit.to_string()) };
                    let guards = [Term::X(false, "dev".into()), Term::S(12, 0, "x".into()), Term::S(12, 8, "x".into())];
                    for op1 in 0..6 {
                        for op2 in 0..6 {
                            for (gi, g) in guards.iter().enumerate() {
                                if gi > 0 && (op1 + op2) % 2 == 1 { continue; }
                                shapes.push(Term::or(Term::and(atom(op1), g.clone()), atom(op2)));
                                if gi == 0 { shapes.push(Term::and(atom(op1), Term::or(atom(op2), g.clone()))); }
                            }
                        }
                    }
                }
                // (X or Y or Z) and (P or Q) over related atoms and their negations: clauses from which the simplifier
                // removes two or more terms, where a later term only looks redundant through an already removed one
                {
                    let atoms: Vec<Term> = vec![
                        Term::S(1, 0, "posix".into()), Term::S(1, 1, "nt".into()), Term::S(12, 1, "win32".into()), Term::S(12, 0, "win32".into()),
                        Term::X(true, "b".into()), Term::X(false, "a".into()), Term::X(false, "c".into()),
                    ];
                    let n = atoms.len();
                    for i in 0..n { for j in (i + 1)..n { for k in (j + 1)..n {
                        for p1 in 0..n { for q1 in (p1 + 1)..n {
                            if !big && (i + 2 * j + 3 * k + 5 * p1 + 7 * q1) % 3 != 0 { continue; }
                            shapes.push(Term::and(Term::or(Term::or(atoms[i].clone(), atoms[j].clone()), atoms[k].clone()), Term::or(atoms[p1].clone(), atoms[q1].clone())));
                        } }
                    } } }
                }
                // one variable with SEVERAL gaps of different kinds in one merged edge: excluded points (`!=`, `not in`) next to a gap
                // that is an interval (open, half-open, closed), below it, above it and on both sides
                for (is_ver, k) in [(true, 0usize), (true, 1), (false, 1), (false, 12)] {
                    let (p0, a, b, p1, p2) = if is_ver { ("3.6", "3.8", "3.10", "3.12", "3.7") } else { ("a", "m", "p", "t", "c") };
                    let at = |op: usize, v: &str| if is_ver { Term::V(k, op, v.to_string()) } else { Term::S(k, [0usize, 1, 4, 5, 2, 3][op], v.to_string()) };   // eq ne lt le gt ge
                    for (lo, hi) in [(2usize, 4usize), (3, 4), (2, 5), (3, 5)] {
                        let gap = Term::or(at(lo, a), at(hi, b));
                        for pts in [vec![p0], vec![p1], vec![p0, p1], vec![p2], vec![p0, p2, p1]] {
                            let mut t = gap.clone();
                            for p in &pts { t = Term::and(at(1, p), t); }
                            shapes.push(t.clone());
                            shapes.push(Term::and(t.clone(), Term::X(false, "dev".into())));
                            shapes.push(Term::or(t.clone(), Term::S(if k == 12 { 1 } else { 12 }, 0, "win32".into())));
                            shapes.push(Term::not(t));
                        }
                    }
                }
                // (A and (not X or B)) or (C and not A and X): A a substring test, B a comparison on the SAME key, X an extra, C a test on an
                // earlier variable — a clause that loses its leading term before a later clause is compared with it (the positions of the
                // shared terms then differ between the two clauses)
                for (k, v) in [(3usize, "64"), (12, "win"), (1, "o")] {
                    for (aop, anop) in [(8usize, 9usize), (9, 8), (6, 7), (7, 6)] {
                        let (a, an) = (Term::S(k, aop, v.into()), Term::S(k, anop, v.into()));
                        for bop in [0usize, 1, 4, 3] {
                            let b = Term::S(k, bop, v.into());
                            for xneg in [false, true] {
                                let (x, xn) = (Term::X(xneg, "b".into()), Term::X(!xneg, "b".into()));
                                for c in [Term::S(if k == 1 { 12 } else { 1 }, 1, "nt".into()), Term::S(0, 0, "cpython".into()), Term::V(1, 5, "3.8".into())] {
                                    shapes.push(Term::or(Term::and(a.clone(), Term::or(xn.clone(), b.clone())), Term::and(Term::and(c.clone(), an.clone()), x.clone())));
                                    if bop == 0 { shapes.push(Term::or(Term::and(a.clone(), Term::or(xn.clone(), b.clone())), Term::and(c.clone(), Term::or(an.clone(), x.clone())))); }
                                }
                            }
                        }
                    }
                }
                // two-sided ranges on string keys (two terms pushed for one edge), before another live edge of the same
                // node and nested under another string key whose later value is live too
                for (k1, k2) in [(1usize, 8usize), (8, 12), (1, 12)] {
                    for (a, b, c) in [("5", "6", "9"), ("a", "b", "c"), ("", "m", "z")] {
                        let rng2 = |k: usize| Term::and(Term::S(k, 3, a.into()), Term::S(k, 4, b.into()));       // >= a and < b
                        shapes.push(Term::or(rng2(k2), Term::S(k2, 2, c.into())));                                 // [a,b) or > c
                        shapes.push(Term::or(Term::and(rng2(k2), Term::X(false, "dev".into())), Term::S(k2, 2, c.into())));
                        shapes.push(Term::or(Term::and(Term::S(k1, 0, "nt".into()), rng2(k2)), Term::S(k1, 0, "posix".into())));
                        shapes.push(Term::or(Term::and(Term::S(k1, 0, "nt".into()), rng2(k2)), Term::and(Term::S(k1, 0, "posix".into()), Term::S(k2, 2, c.into()))));
                        shapes.push(Term::and(Term::V(1, 5, "3.8".into()), Term::or(Term::and(Term::S(k1, 0, "nt".into()), rng2(k2)), Term::S(k1, 2, "posix".into()))));
                    }
                }
                // values containing a quote character under every string operator (8 = contains, 9 = not contains:
                // the literal is printed on the left), alone and inside and/or
                for key in [1usize, 2, 12] {
                    for val in ["it's", "O'Neil", "x\"y", "a'", "'", "\"", "x' in os_name or 'y",
                        // an apostrophe TOGETHER with characters an escaping formatter would rewrite (backslash, tab, line break,
                        // control, combining mark, zero-width joiner): marker strings have no escapes
                        "C:\\it's", "it's\\", "a\\b'c", "it's\ttab", "l1'\nl2", "e\u{301}'", "a\u{200d}'b", "\u{1}'", "back\\slash", "tab\there"] {
                        for op in 0..SOPS.len() {
                            shapes.push(Term::S(key, op, val.into()));
                            shapes.push(Term::and(Term::S(key, op, val.into()), Term::S(0, 0, "posix".into())));
                            shapes.push(Term::or(Term::S(key, op, val.into()), Term::X(false, "dev".into())));
                        }
                    }
                }
                // `k < A or k >= B` (and its negation `k >= A and k < B`) for every pair of two-segment bounds around the
                // `!= A.*` rendering: same major / next minor (the only pair that IS a star inequality), other majors with the
                // minor + 1 pattern, same major with a gap, three-segment bounds
                for k in 0..3usize {
                    for (a, b) in [("3.7", "3.8"), ("2.7", "3.8"), ("2.6", "3.7"), ("3.9", "4.10"), ("3.7", "3.9"), ("3.7", "4.8"), ("3.7", "4.0"), ("3.9", "3.10"), ("3.7.1", "3.7.2"), ("3.7", "3.8.0"), ("0.0", "0.1"), ("0.9", "1.10"),
                        // an upper bound that only STARTS with the next minor
                        ("3.8", "3.9.1"), ("3.8", "3.9.0.1"), ("3.8", "3.9.5.2"), ("3.8.0", "3.9.1"), ("2.7", "2.8.10")] {
                        let outside = Term::or(Term::V(k, 2, a.into()), Term::V(k, 5, b.into()));
                        shapes.push(outside.clone());
                        shapes.push(Term::and(outside.clone(), Term::S(1, 0, "posix".into())));
                        shapes.push(Term::or(Term::and(outside.clone(), Term::X(false, "dev".into())), Term::S(12, 0, "win32".into())));
                        shapes.push(Term::not(Term::and(Term::V(k, 5, a.into()), Term::V(k, 2, b.into()))));
                        shapes.push(Term::and(Term::V(k, 5, a.into()), Term::V(k, 2, b.into())));
                    }
                }
                // complementary operators against the SAME literal under DIFFERENT keys / names: they look like a term and
                // its negation only if the key is ignored — `A or B`, `A or (B and guard)`, `(A and guard) or B`
                {
                    let guard = Term::S(12, 0, "nt".into());
                    let mut pairs: Vec<(Term, Term)> = Vec::new();
                    for (k1, k2) in [(0usize, 1usize), (1, 0), (0, 2), (2, 0)] {
                        for lit in ["3.8", "3.10", "2"] {
                            for (o1, o2) in [(5usize, 2usize), (2, 5), (4, 3), (3, 4), (0, 1), (1, 0)] {
                                pairs.push((Term::V(k1, o1, lit.into()), Term::V(k2, o2, lit.into())));
                            }
                        }
                    }
                    for (k1, k2) in [(1usize, 12usize), (12, 1), (3, 8), (0, 9)] {
                        for (o1, o2) in [(0usize, 1usize), (1, 0), (3, 4), (2, 5), (6, 7), (8, 9)] {
                            pairs.push((Term::S(k1, o1, "posix".into()), Term::S(k2, o2, "posix".into())));
                        }
                    }
                    // the two orientations of `in` on the SAME key and string are unrelated variables (`k in 's'` asks whether k is
                    // a substring of s, `'s' in k` whether s is one of k), whatever their polarity
                    for k in [12usize, 1] {
                        for v in ["linux", "a"] {
                            for o1 in [6usize, 7, 8, 9] { for o2 in [6usize, 7, 8, 9] {
                                if o1 != o2 { pairs.push((Term::S(k, o1, v.into()), Term::S(k, o2, v.into()))); }
                            } }
                        }
                    }
                    // two DIFFERENT texts that are both not valid extra names: different variables, whatever they have in common
                    for (a, b) in [("foo bar", "baz!"), ("a b", "c d"), ("\u{e9}", "\u{fc}"), ("", "not valid"), ("Not An Extra!", "not an extra!")] {
                        pairs.push((Term::X(false, a.into()), Term::X(true, b.into())));
                        pairs.push((Term::X(true, a.into()), Term::X(false, b.into())));
                    }
                    pairs.push((Term::X(false, "dev".into()), Term::X(true, "test".into())));
                    pairs.push((Term::X(true, "dev".into()), Term::X(false, "test".into())));
                    pairs.push((Term::VI(0, false, vec!["3.8".into(), "3.9".into()]), Term::VI(1, true, vec!["3.8".into(), "3.9".into()])));
                    for (a, b) in pairs {
                        shapes.push(Term::or(a.clone(), b.clone()));
                        shapes.push(Term::or(a.clone(), Term::and(b.clone(), guard.clone())));
                        shapes.push(Term::or(Term::and(a, guard.clone()), b));
                    }
                }
                // `extra` comparisons whose right-hand side is not a valid extra name are kept verbatim: the same quote
                // characters there, under both operators, alone and inside and/or
                for val in ["it's", "O'Neil", "x\"y", "a'", "'", "\"", "a' or extra == 'b", "Not An Extra!", "a b", "o'neil\\x", "it's\ttab", "e\u{301}'"] {
                    for neg in [false, true] {
                        shapes.push(Term::X(neg, val.into()));
                        shapes.push(Term::and(Term::X(neg, val.into()), Term::S(1, 0, "posix".into())));
                        shapes.push(Term::or(Term::X(neg, val.into()), Term::X(false, "dev".into())));
                    }
                }
                for t in shapes {
                    let Some(tree) = try_build(out, "C05", &t) else { return };
                    let d = dump(&tree);
                    out.stat("c05.targeted_shapes");
                    items.push(Item { term: t, tree, dump: d });
                }
            }
            // the public serde helpers for a marker FIELD (`marker::ser::is_empty` as skip_serializing_if, `::serialize` as
            // serialize_with, read back with `default`): a field is skipped exactly for TRUE, and what is written reads back
            {
                #[derive(serde::Serialize, serde::Deserialize)]
                struct Holder {
                    name: String,
                    #[serde(default, skip_serializing_if = "pep508_rs::marker::ser::is_empty", serialize_with = "pep508_rs::marker::ser::serialize")]
                    marker: MarkerTree,
                }
                let mut probes: Vec<(String, MarkerTree)> = vec![("TRUE".into(), MarkerTree::TRUE), ("FALSE".into(), MarkerTree::FALSE)];
                for t in ["os_name == 'posix' and os_name == 'nt'", "python_version < '0'", "python_full_version >= '3.8' or python_full_version < '3.8'", "extra == 'a' and extra != 'a'"] {
                    if let Ok(m) = MarkerTree::from_str(t) { probes.push((t.to_string(), m)); }
                }
                for it in items.iter().take(if big { 300 } else { 80 }) { probes.push((it.term.line(), it.tree.clone())); }
                for (label, m) in probes {
                    out.evaluations += 1;
                    let input = serde_json::json!({"marker": label, "helpers": "pep508_rs::marker::ser"});
                    if pep508_rs::marker::ser::is_empty(&m) != m.is_true() {
                        out.oracle_fail("C05", "marker::ser::is_empty does not hold exactly for TRUE (the only marker without text)", input.clone());
                    }
                    let h = Holder { name: "n".into(), marker: m.clone() };
                    match catch_unwind(AssertUnwindSafe(|| serde_json::to_string(&h))) {
                        Ok(Ok(j)) => match serde_json::from_str::<Holder>(&j) {
                            Ok(back) => {
                                // (FALSE and deprecated key spellings: by equivalence, as for Display — the property's carve-out)
                                let d = dump(&m);
                                let deprecated = d.split(' ').any(|t| matches!(t, "s:2" | "s:4" | "s:6" | "s:7" | "s:11" | "s:13") || ["in:2:", "in:4:", "in:6:", "in:7:", "in:11:", "in:13:", "ct:2:", "ct:4:", "ct:6:", "ct:7:", "ct:11:", "ct:13:"].iter().any(|p| t.starts_with(p)));
                                let same = back.marker == m || ((m.is_false() || deprecated) && crate::req::marker_equiv(&back.marker, &m, 11));
                                if !same { out.oracle_fail("C05", &format!("a marker field written with the marker::ser helpers reads back as another marker (JSON {j})"), input.clone()); }
                            }
                            Err(e) => out.oracle_fail("C05", &format!("a marker field written with the marker::ser helpers cannot be read back: {e} (JSON {j})"), input.clone()),
                        },
                        _ => out.oracle_fail("C05", "serializing a marker field with the marker::ser helpers fails / panics", input.clone()),
                    }
                    out.stat("c05.ser_helpers");
                    // conversions between a marker and its contents
                    match m.contents() {
                        Some(c) => {
                            let r: &MarkerTree = c.as_ref();
                            if MarkerTree::from(c.clone()) != m || MarkerTree::from(Some(c.clone())) != m || *r != m {
                                out.oracle_fail("C05", "MarkerTree::from(contents) / from(Some(contents)) / contents.as_ref() is not the marker", input.clone());
                            }
                        }
                        None => if MarkerTree::from(None::<pep508_rs::MarkerTreeContents>) != m { out.oracle_fail("C05", "MarkerTree::from(None) is not TRUE", input.clone()); },
                    }
                }
                // the operator table as text: FromStr then Display is the canonical spelling, anything else is rejected
                for (text, want) in [("==", Some("==")), ("!=", Some("!=")), (">", Some(">")), (">=", Some(">=")), ("<", Some("<")), ("<=", Some("<=")), ("~=", Some("~=")), ("in", Some("in")),
                    ("not in", Some("not in")), ("not  in", Some("not in")), ("not\tin", Some("not in")), ("not \t in", Some("not in")), ("notin", None), ("not", None), ("=", None), ("===", None), ("in ", None), ("", None), ("not\u{a0}in", Some("not in"))] {
                    out.evaluations += 1;
                    let got = pep508_rs::MarkerOperator::from_str(text).ok().map(|o| o.to_string());
                    if got.as_deref() != want {
                        out.oracle_fail("C05", &format!("MarkerOperator::from_str({text:?}) then Display gives {got:?}, expected {want:?}"), serde_json::json!({"operator_text": text}));
                    }
                }
                // a single expression displayed and parsed back (`MarkerExpression::from_str`), incl. the in-list form that
                // only the typed constructor makes
                let mut exprs: Vec<pep508_rs::MarkerExpression> = Vec::new();
                for it in items.iter().take(if big { 300 } else { 80 }) { for c in it.tree.to_dnf() { exprs.extend(c); } }
                for k in 0..3usize { for neg in [false, true] { for vs in [vec!["3.8"], vec!["3.8", "3.9.1"], vec!["3.7.0", "3.10", "2.7.18"]] {
                    if let Some(x) = (Term::VI(k, neg, vs.iter().map(|v| v.to_string()).collect())).expr() { exprs.push(x); }
                } } }
                for x in exprs {
                    out.evaluations += 1;
                    let text = x.to_string();
                    let want = MarkerTree::expression(x.clone());
                    let input = serde_json::json!({"expression_text": text});
                    match catch_unwind(AssertUnwindSafe(|| (pep508_rs::MarkerExpression::from_str(&text), MarkerTree::from_str(&text)))) {
                        Ok((Ok(back), Ok(tree))) => {
                            let back_tree = back.map(MarkerTree::expression).unwrap_or(MarkerTree::TRUE);
                            let deprecated = text.contains("python_implementation") && false;
                            if (back_tree != want || tree != want) && !want.is_false() && !deprecated && !crate::req::marker_equiv(&tree, &want, 5) {
                                out.oracle_fail("C05", "a displayed expression parses (MarkerExpression::from_str / MarkerTree::from_str) to another marker", input);
                            }
                        }
                        Ok(_) => out.oracle_fail("C05", "a displayed expression does not parse", input),
                        Err(_) => out.oracle_fail("C05", "panic while parsing a displayed expression", input),
                    }
                    out.stat("c05.expression_roundtrip");
                }
            }
            // first spelling: the interner keeps the FIRST spelling of a bound (`X.Y.0` and `X.Y` are equal versions). A range first
            // written with trailing zeros (`~= 'X.Y.0'`, `== 'X.Y.0.*'`), on version numbers nothing else in this process uses, and
            // then the markers that share its node — its negation, the star inequality, the written-out gap — all have to render
            // to a text that parses back to the same marker
            {
                let mut fresh = 31u64;
                for key in ["python_full_version", "implementation_version", "python_version"] {
                    for spelled in ["{k} ~= '{x}.{y}.0'", "{k} ~= '{x}.{y}.0.0'", "{k} == '{x}.{y}.0.*'", "{k} >= '{x}.{y}.0' and {k} < '{x}.{z}.0'", "'{x}.{y}.0' ~= {k}"] {
                        fresh += 1;
                        let fill = |t: &str| t.replace("{k}", key).replace("{x}", &fresh.to_string()).replace("{y}", "4").replace("{z}", "5");
                        let first = fill(spelled);
                        let Ok(m0) = MarkerTree::from_str(&first) else { out.oracle_fail("C05", "a well-formed marker does not parse", serde_json::json!({"text": first})); continue };
                        let mut later: Vec<(String, MarkerTree)> = vec![(format!("not ({first})"), m0.negate()), (first.clone(), m0.clone())];
                        for t in ["{k} != '{x}.{y}.*'", "{k} < '{x}.{y}' or {k} >= '{x}.{z}'", "{k} != '{x}.{y}'", "{k} < '{x}.{y}' or {k} > '{x}.{y}'", "({k} < '{x}.{y}' or {k} >= '{x}.{z}') and os_name == 'nt'",
                                  "{k} == '{x}.{y}.*' or extra == 'docs'", "{k} >= '{x}.{y}'", "{k} < '{x}.{z}'"] {
                            let t = fill(t);
                            if let Ok(m) = MarkerTree::from_str(&t) { later.push((t.clone(), m.clone())); later.push((format!("not ({t})"), m.negate())); }
                        }
                        for (src, m) in later {
                            out.evaluations += 1;
                            let Some(text) = m.try_to_string() else { continue };
                            let input = serde_json::json!({"first_in_process": first, "then": src, "text": text});
                            match catch_unwind(AssertUnwindSafe(|| MarkerTree::from_str(&text))) {
                                Ok(Ok(back)) => if back != m && !(m.is_false() && crate::req::marker_equiv(&back, &m, 11)) { out.oracle_fail("C05", "after a range was first written with trailing zeros, the displayed text of a marker sharing its node parses to a different marker", input.clone()); },
                                Ok(Err(e)) => out.oracle_fail("C05", &format!("the displayed text does not parse: {}", e.message), input.clone()),
                                Err(_) => out.oracle_fail("C05", "panic while parsing the displayed text", input.clone()),
                            }
                            // and the DNF is the marker again
                            let rebuilt = m.to_dnf().into_iter().fold(MarkerTree::FALSE, |mut acc, clause| { let mut c = MarkerTree::TRUE; for e in clause { c.and(MarkerTree::expression(e)); } acc.or(c); acc });
                            if rebuilt != m && !m.is_true() { out.oracle_fail("C05", "after a range was first written with trailing zeros, the DNF of a marker sharing its node denotes a different marker", input); }
                            out.stat("c05.first_spelling_cases");
                        }
                    }
                }
            }
            for it in &items {
                out.evaluations += 1;
                let m = &it.tree;
                let spell = spell_table(m);
                // (1) DNF and text against the model
                let dnf = match catch_unwind(AssertUnwindSafe(|| m.to_dnf())) { Ok(d) => d, Err(_) => { out.oracle_fail("C05", "panic in to_dnf (debug-profile overflow? see K3)", serde_json::json!({"term": it.term.line()})); continue } };
                let dl = if dnf.is_empty() { "empty".to_string() } else { dnf.iter().map(|c| c.iter().map(crate::mparse::expr_line).collect::<Vec<_>>().join(" & ")).collect::<Vec<_>>().join(" | ") };
                let text = m.try_to_string();
                // one value may be interned under several spellings inside one diagram (K1); the model's
                // spelling table is a function of the value, so such diagrams are compared semantically only
                if spell != "AMBIGUOUS" {
                    out.case(format!("dnf\tL {}\t{}", it.dump, spell), dl);
                    out.case(format!("show\tL {}\t{}", it.dump, spell), match &text { Some(t) => hex(t), None => "none".into() });
                } else { out.stat("c05.spelling_ambiguous_semantic_only"); }
                let Some(text) = text else { continue };
                out.nontrivial(text.clone());
                let input = serde_json::json!({"term": it.term.line(), "text": text});
                // (2) all renderings agree
                if m.contents().map(|c| c.to_string()).as_deref() != Some(&text) || serde_json::to_string(&m.contents().unwrap()).ok() != serde_json::to_string(&text).ok() {
                    out.oracle_fail("C05", "Display / try_to_string / contents() / serde serialization disagree", input.clone());
                }
                // (3) the text parses back to the same marker
                let deprecated = it.dump.split(' ').any(|t| matches!(t, "s:2" | "s:4" | "s:6" | "s:7" | "s:11" | "s:13") || ["in:2:", "in:4:", "in:6:", "in:7:", "in:11:", "in:13:", "ct:2:", "ct:4:", "ct:6:", "ct:7:", "ct:11:", "ct:13:"].iter().any(|p| t.starts_with(p)));
                match catch_unwind(AssertUnwindSafe(|| MarkerTree::from_str(&text))) {
                    Ok(Ok(back)) => {
                        let same = back == *m || ((m.is_false() || deprecated) && crate::req::marker_equiv(&back, m, 11));
                        if !same { out.oracle_fail("C05", "the displayed text parses to a different marker", input.clone()); }
                        if m.is_false() || deprecated { out.stat("c05.carve_out_equivalence") } else { out.stat("c05.strict_equality") }
                        let de: Result<MarkerTree, _> = serde_json::from_str(&serde_json::to_string(&text).unwrap());
                        if de.ok().map(|d| d == back) != Some(true) { out.oracle_fail("C05", "deserialization differs from FromStr", input.clone()); }
                        if de_sources::<MarkerTree>(&text).iter().any(|d| d.as_ref() != Some(&back)) { out.oracle_fail("C05", "deserialization depends on how the JSON string is written / owned (plain, escaped, owned value)", input.clone()); }
                    }
                    Ok(Err(e)) => out.oracle_fail("C05", &format!("the displayed text does not parse: {}", e.message), input.clone()),
                    Err(_) => { out.oracle_fail("C05", "panic while parsing the displayed text", input.clone()); return }
                }
                // (4) the DNF clauses denote the same function
                let envs = region_envs(&mut rng, &[&it.term], 8);
                for e in &envs {
                    let want = e.eval(m);
                    let got = dnf.iter().any(|c| c.iter().all(|x| e.eval(&MarkerTree::expression(x.clone()))));
                    if !m.is_true() && got != want {
                        out.oracle_fail("C05", &format!("to_dnf() evaluates to {got}, the marker to {want}"), serde_json::json!({"term": it.term.line(), "text": text, "env": e.line()}));
                        break;
                    }
                }
                // (5') top_level_extra itself against the model's loop over the model's DNF
                if spell != "AMBIGUOUS" {
                    let tle = m.top_level_extra();
                    out.case(format!("tle\tL {}\t{}", it.dump, spell), tle.as_ref().map(crate::mparse::expr_line).unwrap_or("none".into()));
                    out.stat(if tle.is_some() { "c05.tle_some" } else { "c05.tle_none" });
                }
                // (5) top_level_extra (C11's clause): `extra == e` only if e is active in every satisfying assignment
                if let Some(pep508_rs::MarkerExpression::Extra { name: pep508_rs::MarkerValueExtra::Extra(x), .. }) = m.top_level_extra() {
                    for e in &envs {
                        if e.eval(m) && !e.extras().contains(&x) {
                            out.oracle_fail("C11", "top_level_extra() names an extra that is not active in a satisfying assignment", serde_json::json!({"term": it.term.line(), "extra": x.to_string(), "env": e.line()}));
                        }
                    }
                    out.stat("c05.top_level_extra_some");
                }
            }
        }
        _ => panic!("unknown property {prop}"),
    }
    if let Some(l) = out.cases.last() {
        out.sample(serde_json::json!({"case": l, "impl": out.impl_out.last()}));
    }
    let mid = out.cases.len() / 2;
    if mid > 0 {
        out.sample(serde_json::json!({"case": out.cases[mid], "impl": out.impl_out[mid]}));
    }
}

/// `python_full_version in R` as a marker term
pub fn range_term(lo: &Bd, hi: &Bd) -> Term {
    let l = match lo { Bd::U => Term::T, Bd::I(t) => Term::V(1, 5, rel_of(t)), Bd::E(t) => Term::V(1, 4, rel_of(t)) };
    let h = match hi { Bd::U => Term::T, Bd::I(t) => Term::V(1, 3, rel_of(t)), Bd::E(t) => Term::V(1, 2, rel_of(t)) };
    Term::and(l, h)
}

/// terms over a small variable set (so that joint truth tables stay enumerable)
fn gen_term_small(rng: &mut Rng, p: &Pools, depth: usize) -> Term {
    if depth == 0 || rng.chance(1, 5) {
        return match rng.below(8) {
            0..=2 => Term::V(*rng.pick(&[1usize, 2, 1, 0]), rng.below(9), rng.pick(&p.versions).to_string()),
            3..=4 => Term::S(*rng.pick(&[1usize, 12]), rng.below(6), rng.pick(&p.strings).to_string()),
            5 => Term::S(1, 6 + rng.below(4), rng.pick(&p.strings).to_string()),
            _ => Term::X(rng.chance(1, 3), rng.pick(&p.extras).to_string()),
        }
        .valid_or(Term::T);
    }
    match rng.below(12) {
        0..=3 => Term::and(gen_term_small(rng, p, depth - 1), gen_term_small(rng, p, depth - 1)),
        4..=7 => Term::or(gen_term_small(rng, p, depth - 1), gen_term_small(rng, p, depth - 1)),
        8 => Term::not(gen_term_small(rng, p, depth - 1)),
        9 => Term::Rx(vec!["dev".into()], Box::new(gen_term_small(rng, p, depth - 1))),
        10 => Term::Sp(gen_bd(rng, p), gen_bd(rng, p), Box::new(gen_term_small(rng, p, depth - 1))),
        _ => Term::Cp(gen_bd(rng, p), gen_bd(rng, p), Box::new(gen_term_small(rng, p, depth - 1))),
    }
}

trait ValidOr { fn valid_or(self, alt: Term) -> Term; }
impl ValidOr for Term {
    /// replace PEP 440-invalid operator/literal combinations
    fn valid_or(self, alt: Term) -> Term {
        if let Term::V(_, op, text) = &self {
            let (_, sym, star) = VOPS[*op];
            let decorated = text.contains("rc") || text.contains("post") || text.contains("dev") || text.contains('!');
            if (star && decorated) || pep440_rs::VersionSpecifier::from_str(&format!("{sym}{text}{}", if star { ".*" } else { "" })).is_err() {
                return alt;
            }
        }
        self
    }
}

/// the spelling of every version that occurs in the diagram, as interned in this process
pub fn spell_table(t: &MarkerTree) -> String {
    let mut pairs: std::collections::BTreeMap<String, String> = Default::default();
    fn go(t: &MarkerTree, pairs: &mut std::collections::BTreeMap<String, String>) {
        match t.kind() {
            MarkerTreeKind::Version(m) => {
                for (r, c) in m.edges() {
                    for (lo, hi) in r.iter() {
                        for b in [lo, hi] {
                            if let Bound::Included(v) | Bound::Excluded(v) = b {
                                let spelled: Vec<String> = v.release().iter().map(|s| s.to_string()).collect();
                                if let Some(prev) = pairs.insert(canon_version(v), spelled.join(".")) {
                                    if prev != spelled.join(".") { pairs.insert("AMBIGUOUS".into(), "1".into()); }
                                }
                            }
                        }
                    }
                    go(&c, pairs);
                }
            }
            MarkerTreeKind::String(m) => { for (_, c) in m.children() { go(&c, pairs); } }
            MarkerTreeKind::In(m) => { go(&m.edge(true), pairs); go(&m.edge(false), pairs); }
            MarkerTreeKind::Contains(m) => { go(&m.edge(true), pairs); go(&m.edge(false), pairs); }
            MarkerTreeKind::Extra(m) => { go(&m.edge(true), pairs); go(&m.edge(false), pairs); }
            _ => {}
        }
    }
    go(t, &mut pairs);
    if pairs.contains_key("AMBIGUOUS") { return "AMBIGUOUS".into(); }
    if pairs.is_empty() { "-".into() } else { pairs.iter().map(|(k, v)| format!("{k}={v}")).collect::<Vec<_>>().join(",") }
}
