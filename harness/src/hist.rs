//! C14 (results do not depend on process history), C15 (threads), C16 (Ord / Eq / Hash).
use crate::algebra::{pool, spell_table};
use crate::marker::*;
use crate::mparse::expr_line;
use crate::util::*;
use crate::worker::Worker;
use pep508_rs::MarkerTree;
use std::collections::HashMap;
use std::hash::{Hash, Hasher};
use std::str::FromStr;

fn hash_of<T: Hash>(t: &T) -> u64 {
    let mut h = std::collections::hash_map::DefaultHasher::new();
    t.hash(&mut h);
    h.finish()
}

/// a tiny script language over named markers
/// `p n hex` parse | `and n a b` | `or n a b` | `not n a` | `sx n a hex,hex` simplify_extras |
/// `obs a` | `rel a b`
pub fn exec(store: &mut HashMap<String, MarkerTree>, cmd: &str) -> String {
    let p: Vec<&str> = cmd.split(' ').collect();
    match p[0] {
        "p" => match MarkerTree::from_str(&unhex(p[2])) {
            Ok(m) => { store.insert(p[1].to_string(), m); "ok".into() }
            Err(_) => "err".into(),
        },
        "and" | "or" => {
            let (a, b) = (store[p[2]].clone(), store[p[3]].clone());
            let mut x = a;
            if p[0] == "and" { x.and(b) } else { x.or(b) }
            store.insert(p[1].to_string(), x);
            "ok".into()
        }
        "not" => { let x = store[p[2]].negate(); store.insert(p[1].to_string(), x); "ok".into() }
        "sx" => {
            let names: Vec<pep508_rs::ExtraName> = p[3].split(',').map(|h| pep508_rs::ExtraName::from_str(&unhex(h)).unwrap()).collect();
            let x = store[p[2]].clone().simplify_extras(&names);
            store.insert(p[1].to_string(), x);
            "ok".into()
        }
        // `sp n a lo hi` / `cp n a lo hi`: simplify / complexify_python_versions; bounds `u`, `i<ver>`, `e<ver>`
        "sp" | "cp" => {
            let bound = |t: &str| -> std::ops::Bound<pep440_rs::Version> {
                match t.split_at(1) {
                    ("i", v) => std::ops::Bound::Included(pep440_rs::Version::from_str(v).unwrap()),
                    ("e", v) => std::ops::Bound::Excluded(pep440_rs::Version::from_str(v).unwrap()),
                    _ => std::ops::Bound::Unbounded,
                }
            };
            let (lo, hi) = (bound(p[3]), bound(p[4]));
            let x = if p[0] == "sp" { store[p[2]].clone().simplify_python_versions(lo.as_ref(), hi.as_ref()) } else { store[p[2]].clone().complexify_python_versions(lo.as_ref(), hi.as_ref()) };
            store.insert(p[1].to_string(), x);
            "ok".into()
        }
        // `bulk n salt`: n unrelated markers parsed and conjoined in-process (a resolver that has already walked a
        // large lock file): node ids and memo tables far beyond what the small scripts reach
        "bulk" => {
            let n: usize = p[1].parse().unwrap();
            let mut live = 0usize;
            for i in 0..n {
                let text = match i % 3 {
                    0 => format!("extra == 'w{}x{i}'", p[2]),
                    1 => format!("platform_release == 'w{}r{i}' and extra == 'w{}y{}'", p[2], p[2], i % 97),
                    _ => format!("platform_version != 'v{i}' or platform_release == 'w{}r{}'", p[2], i - 1),
                };
                if let Ok(m) = MarkerTree::from_str(&text) { if !m.is_true() && !m.is_false() { live += 1; } }
            }
            format!("ok {live}")
        }
        // `pairs n salt`: n x n distinct conjunctions (n^2 memoised `and` steps): the size at which a capacity-based clean-up of the
        // interner's tables would start
        "pairs" => {
            let n: usize = p[1].parse().unwrap();
            let left: Vec<MarkerTree> = (0..n).map(|i| MarkerTree::from_str(&format!("extra == 'l{}i{i}'", p[2])).unwrap()).collect();
            let right: Vec<MarkerTree> = (0..n).map(|i| MarkerTree::from_str(&format!("extra == 'r{}i{i}'", p[2])).unwrap()).collect();
            let mut live = 0usize;
            for l in &left { for r in &right { let mut m = l.clone(); m.and(r.clone()); if !m.is_false() { live += 1; } } }
            format!("ok {live}")
        }
        "obs" => {
            let m = &store[p[1]];
            let dnf = m.to_dnf();
            let dl = dnf.iter().map(|c| c.iter().map(expr_line).collect::<Vec<_>>().join(" & ")).collect::<Vec<_>>().join(" | ");
            format!("{}\x1f{}\x1f{}", dump(m), m.try_to_string().map(|t| hex(&t)).unwrap_or("none".into()), dl)
        }
        // `bx n <vkey index> <VOPS token> <version>`: a version comparison built through the typed constructor
        // (`MarkerTree::expression`), including the operators the marker grammar cannot spell (`===`)
        "bx" => {
            let k: usize = p[2].parse().unwrap();
            let sym = VOPS.iter().find(|o| o.0 == p[3]).map(|o| (o.1, o.2)).unwrap();
            let spec = pep440_rs::VersionSpecifier::from_str(&format!("{}{}{}", sym.0, p[4], if sym.1 { ".*" } else { "" })).unwrap();
            store.insert(p[1].to_string(), MarkerTree::expression(pep508_rs::MarkerExpression::Version { key: VKEYS[k].clone(), specifier: spec }));
            "ok".into()
        }
        // `dbg a`: every Debug rendering of a marker (the marker, its `kind()` view, the raw and the graph dumps): they read
        // the interner too, and must return; the texts may mention node ids, so only their being produced is recorded
        "dbg" => {
            let m = &store[p[1]];
            // (`debug_raw()` of the constants TRUE / FALSE panics in the unchanged code — an index underflow in a debugging aid,
            //  outside every property; it is not called on them)
            let raw = if m.is_true() || m.is_false() { 1 } else { format!("{:?}", m.debug_raw()).len() };
            let n = format!("{:?}", m).len() + format!("{:?}", m.kind()).len() + raw + format!("{:?}", m.debug_graph()).len();
            format!("dbg {}", (n > 0) as u8)
        }
        // `dj a b`: is_disjoint both ways, is_true / is_false of the conjunction
        "dj" => {
            let (a, b) = (&store[p[1]], &store[p[2]]);
            let (d1, d2) = (a.is_disjoint(b), b.is_disjoint(a));
            let mut c = a.clone();
            c.and(b.clone());
            format!("{}{}{}{}", d1 as u8, d2 as u8, c.is_false() as u8, c.is_true() as u8)
        }
        "rel" => {
            let (a, b) = (&store[p[1]], &store[p[2]]);
            let c = match a.cmp(b) { std::cmp::Ordering::Less => "lt", std::cmp::Ordering::Equal => "eq", std::cmp::Ordering::Greater => "gt" };
            format!("{} {} {}", (a == b) as u8, c, (hash_of(a) == hash_of(b)) as u8)
        }
        _ => "bad".into(),
    }
}

/// worker `hist`: one command per line, state kept for the life of the process
pub fn worker_hist() {
    let store = std::cell::RefCell::new(HashMap::new());
    crate::worker::serve(&|line: &str| exec(&mut store.borrow_mut(), line));
}

/// worker `threads`: `run <n> <hex script>`: n threads execute the script (each with its own
/// store) at once; answers each thread's transcript digest, or `deadlock`
pub fn worker_threads() {
    crate::worker::serve(&|line: &str| {
        let p: Vec<&str> = line.split(' ').collect();
        if p[0] == "contend" { return contend(p[1].parse().unwrap(), unhex(p[2]).split(';').map(|s| s.to_string()).collect(), p[3].parse().unwrap(), p[4].parse().unwrap(), p[5]); }
        let n: usize = p[1].parse().unwrap();
        let script: Vec<String> = unhex(p[2]).split(';').map(|s| s.to_string()).collect();
        let (tx, rx) = std::sync::mpsc::channel();
        let barrier = std::sync::Arc::new(std::sync::Barrier::new(n));
        for t in 0..n {
            let (tx, script, barrier) = (tx.clone(), script.clone(), barrier.clone());
            std::thread::spawn(move || {
                let r = std::panic::catch_unwind(std::panic::AssertUnwindSafe(|| {
                    let mut store = HashMap::new();
                    barrier.wait();
                    let mut out = Vec::new();
                    for c in &script { out.push(exec(&mut store, c)); }
                    let mut names: Vec<&String> = store.keys().collect();
                    names.sort();
                    let trees: Vec<MarkerTree> = names.iter().map(|n| store[*n].clone()).collect();
                    (out.join("\x1e"), trees)
                }));
                let _ = tx.send((t, r.unwrap_or_else(|_| ("panic".into(), vec![]))));
            });
        }
        let mut res = vec![String::new(); n];
        let mut trees: Vec<Vec<MarkerTree>> = vec![vec![]; n];
        for _ in 0..n {
            match rx.recv_timeout(std::time::Duration::from_secs(60)) {
                Ok((t, (r, tr))) => { res[t] = r; trees[t] = tr; }
                Err(_) => return "deadlock".into(),
            }
        }
        let all_same = res.iter().all(|r| *r == res[0]);
        // the same marker built by different threads is one marker: ==, cmp Equal, same hash — and
        // the same again when rebuilt afterwards on this thread
        let mut after = HashMap::new();
        let _ = std::panic::catch_unwind(std::panic::AssertUnwindSafe(|| { for c in &script { exec(&mut after, c); } }));
        let mut names: Vec<&String> = after.keys().collect();
        names.sort();
        let after_trees: Vec<MarkerTree> = names.iter().map(|n| after[*n].clone()).collect();
        let mut cross = true;
        for tr in &trees {
            if tr.len() != after_trees.len() { cross = false; continue; }
            for (a, b) in tr.iter().zip(after_trees.iter()) {
                if a != b || a.cmp(b) != std::cmp::Ordering::Equal || hash_of(a) != hash_of(b) { cross = false; }
            }
        }
        format!("{}{} {}", all_same as u8, cross as u8, hex(&res[0]))
    });
}


/// `contend <n> <hex script> <k> <rounds> <salt>`: one thread performs LONG single interner operations (the
/// disjunction of k conjunctions `extra == a_i and extra == b_i` with every a before every b has ~2^k nodes, so
/// the last `or` calls hold the lock for a long time) while n threads keep repeating the script; every repetition
/// must give the transcript the script gave sequentially before the threads started.
/// Answers `ok <repetitions>` | `diff <hex cmd> <hex expected> <hex got> <repetition>` | `deadlock` | `panic`
fn contend(n: usize, script: Vec<String>, k: usize, rounds: usize, salt: &str) -> String {
    let mut store = HashMap::new();
    let expected: Vec<String> = script.iter().map(|c| exec(&mut store, c)).collect();
    let done = std::sync::Arc::new(std::sync::atomic::AtomicBool::new(false));
    let (tx, rx) = std::sync::mpsc::channel();
    let barrier = std::sync::Arc::new(std::sync::Barrier::new(n + 1));
    {
        let (done, barrier, tx, salt) = (done.clone(), barrier.clone(), tx.clone(), salt.to_string());
        std::thread::spawn(move || {
            let r = std::panic::catch_unwind(std::panic::AssertUnwindSafe(|| {
                barrier.wait();
                for round in 0..rounds {
                    let mut m = MarkerTree::from_str(&format!("extra == 'h{salt}r{round}a00' and extra == 'h{salt}r{round}b00'")).unwrap();
                    for i in 1..k {
                        m.or(MarkerTree::from_str(&format!("extra == 'h{salt}r{round}a{i:02}' and extra == 'h{salt}r{round}b{i:02}'")).unwrap());
                    }
                    assert!(!m.is_true() && !m.is_false());
                }
            }));
            done.store(true, std::sync::atomic::Ordering::SeqCst);
            let _ = tx.send(if r.is_ok() { "heavy-ok".to_string() } else { "panic".to_string() });
        });
    }
    for _ in 0..n {
        let (done, barrier, tx, script, expected) = (done.clone(), barrier.clone(), tx.clone(), script.clone(), expected.clone());
        std::thread::spawn(move || {
            let r = std::panic::catch_unwind(std::panic::AssertUnwindSafe(|| {
                barrier.wait();
                let mut reps = 0usize;
                loop {
                    let finished = done.load(std::sync::atomic::Ordering::SeqCst);
                    // odd repetitions: the whole script (parsing and combining queue behind the long operation);
                    // even ones: only the queries on markers this thread already holds, back to back
                    let mut store = HashMap::new();
                    for (c, want) in script.iter().zip(expected.iter()) {
                        let got = exec(&mut store, c);
                        if got != *want { return format!("diff {} {} {} {reps}", hex(c), hex(want), hex(&got)); }
                    }
                    reps += 1;
                    for _ in 0..3 {
                        for (c, want) in script.iter().zip(expected.iter()) {
                            if !(c.starts_with("dj ") || c.starts_with("rel ") || c.starts_with("obs ")) { continue; }
                            let got = exec(&mut store, c);
                            if got != *want { return format!("diff {} {} {} {reps}", hex(c), hex(want), hex(&got)); }
                        }
                        reps += 1;
                    }
                    if finished { return format!("ok {reps}"); }
                }
            }));
            let _ = tx.send(r.unwrap_or_else(|_| "panic".to_string()));
        });
    }
    let mut reps = 0usize;
    let mut bad: Option<String> = None;
    for _ in 0..n + 1 {
        match rx.recv_timeout(std::time::Duration::from_secs(120)) {
            Ok(r) => {
                if let Some(x) = r.strip_prefix("ok ") { reps += x.parse::<usize>().unwrap_or(0); }
                else if r != "heavy-ok" && bad.is_none() { bad = Some(r); }
            }
            Err(_) => return "deadlock".into(),
        }
    }
    bad.unwrap_or(format!("ok {reps}"))
}

/// Sibling markers: the same root test above *different non-terminal* sub-markers.  Their order must be
/// the order of the sub-markers themselves, whichever of those happened to be created first.
fn sibling_texts(salt: &str) -> Vec<String> {
    let roots = [
        format!("python_full_version >= '3.{}'", 7 + salt.len() % 5),
        format!("os_name == 'sib{salt}'"),
        format!("sys_platform in 'sib{salt} other'"),
        format!("'sib{salt}' in platform_machine"),
        format!("extra == 'aa{}'", salt.to_lowercase()),
    ];
    let subs = [
        format!("extra == 'omega{}'", salt.to_lowercase()),
        format!("extra == 'beta{}'", salt.to_lowercase()),
        format!("extra != 'gamma{}'", salt.to_lowercase()),
        format!("(extra == 'mu{0}' or extra == 'nu{0}')", salt.to_lowercase()),
    ];
    let mut v = Vec::new();
    for r in &roots {
        for s in &subs {
            v.push(format!("{r} and {s}"));
            v.push(format!("{r} or {s}"));
        }
    }
    // the bare roots and their negations (same root test, terminal children swapped)
    v.push(format!("os_name == 'sib{salt}'"));
    v.push(format!("os_name != 'sib{salt}'"));
    v.push(format!("sys_platform in 'sib{salt} other'"));
    v.push(format!("sys_platform not in 'sib{salt} other'"));
    v.push(format!("'sib{salt}' in platform_machine"));
    v.push(format!("'sib{salt}' not in platform_machine"));
    v.push(format!("extra == 'aa{}'", salt.to_lowercase()));
    v.push(format!("extra != 'aa{}'", salt.to_lowercase()));
    v
}

/// fresh processes that create the same markers in different orders must relate them identically
fn cross_process_order(out: &mut Out, prop: &str, rng: &mut Rng, salt: &str) {
    let texts = sibling_texts(salt);
    let named: Vec<(String, String)> = texts.iter().enumerate().map(|(i, t)| (format!("s{i}"), t.clone())).collect();
    let mut orders: Vec<Vec<usize>> = vec![(0..named.len()).collect(), (0..named.len()).rev().collect()];
    let mut sh: Vec<usize> = (0..named.len()).collect();
    for i in (1..sh.len()).rev() { let j = rng.below(i + 1); sh.swap(i, j); }
    orders.push(sh);
    let mut reference: Option<Vec<String>> = None;
    for (k, ord) in orders.iter().enumerate() {
        let mut w = Worker::spawn("hist");
        // sub-markers alone first, in this order: they get their ids now
        for &i in ord {
            let sub = named[i].1.rsplit_once(if named[i].1.contains(" and ") { " and " } else { " or " }).map(|x| x.1.to_string()).unwrap_or_default();
            w.call(&format!("p t{i} {}", hex(&sub)));
        }
        for &i in ord { w.call(&format!("p {} {}", named[i].0, hex(&named[i].1))); }
        let mut rel = Vec::new();
        for (a, _) in &named { for (b, _) in &named { let r = w.call(&format!("rel {a} {b}")); let f: Vec<&str> = r.split(' ').collect(); rel.push(format!("{} {}", f[0], f.get(1).unwrap_or(&"?"))); } }
        out.evaluations += 1;
        match &reference {
            None => reference = Some(rel),
            Some(r0) => {
                for (idx, (x, y)) in r0.iter().zip(rel.iter()).enumerate() {
                    if x != y {
                        let (i, j) = (idx / named.len(), idx % named.len());
                        out.oracle_fail(prop, "the order / equality of two markers differs between fresh processes that created the same markers in a different order", serde_json::json!({"class": "sibling-order", "a": named[i].1, "b": named[j].1, "first_process": x, "this_process": y, "creation_order": ord, "history": k}));
                        break;
                    }
                }
                out.nontrivial(format!("sib {salt}.{k}"));
            }
        }
    }
}

fn script_for(items: &[(String, String)], ops: &[String]) -> Vec<String> {
    let mut s: Vec<String> = items.iter().map(|(n, t)| format!("p {n} {}", hex(t))).collect();
    s.extend(ops.iter().cloned());
    s
}

pub fn run(out: &mut Out, tier: &str, seed: u64, prop: &str) {
    let mut rng = Rng::new(seed ^ 0xc14);
    let big = tier == "thorough";
    let p = pools();
    match prop {
        "C16" => {
            let items = pool(out, "C16", &mut rng, if big { 800 } else { 250 }, true);
            let n = if big { 6000 } else { 1500 };
            for _ in 0..n {
                let (a, b, c) = (&items[rng.below(items.len())], &items[rng.below(items.len())], &items[rng.below(items.len())]);
                out.evaluations += 1;
                let ab = a.tree.cmp(&b.tree);
                let ba = b.tree.cmp(&a.tree);
                let o = match ab { std::cmp::Ordering::Less => "lt", std::cmp::Ordering::Equal => "eq", std::cmp::Ordering::Greater => "gt" };
                out.case(format!("cmp\tL {}\tL {}", a.dump, b.dump), format!("{o} {}", (a.tree == b.tree) as u8));
                let input = serde_json::json!({"a": a.term.line(), "b": b.term.line(), "c": c.term.line()});
                if (ab == std::cmp::Ordering::Equal) != (a.tree == b.tree) { out.oracle_fail("C16", "cmp returns Equal for != markers (or not Equal for == markers)", input.clone()); }
                if ab != ba.reverse() { out.oracle_fail("C16", "cmp is not antisymmetric", input.clone()); }
                if a.tree == b.tree && hash_of(&a.tree) != hash_of(&b.tree) { out.oracle_fail("C16", "equal markers hash differently", input.clone()); }
                if a.tree.partial_cmp(&b.tree) != Some(ab) { out.oracle_fail("C16", "partial_cmp differs from cmp", input.clone()); }
                {
                    // the view types of `kind()` order like the markers they are views of
                    use pep508_rs::MarkerTreeKind as K;
                    let views = match (a.tree.kind(), b.tree.kind()) {
                        (K::Version(x), K::Version(y)) => Some((x.partial_cmp(&y), x.cmp(&y))),
                        (K::String(x), K::String(y)) => Some((x.partial_cmp(&y), x.cmp(&y))),
                        (K::In(x), K::In(y)) => Some((x.partial_cmp(&y), x.cmp(&y))),
                        (K::Contains(x), K::Contains(y)) => Some((x.partial_cmp(&y), x.cmp(&y))),
                        (K::Extra(x), K::Extra(y)) => Some((x.partial_cmp(&y), x.cmp(&y))),
                        _ => None,
                    };
                    if let Some((p, c)) = views {
                        out.stat("c16.same_kind_views");
                        if p != Some(c) || c != ab { out.oracle_fail("C16", "the kind() views of two markers order differently from the markers (or partial_cmp differs from cmp)", input.clone()); }
                    }
                }
                {
                    // the other public wrappers of a marker: `kind()` as a whole and `contents()` are Eq / Ord / Hash-coherent too
                    let (ka, kb) = (a.tree.kind(), b.tree.kind());
                    if ka.partial_cmp(&kb) != Some(ka.cmp(&kb)) || (ka.cmp(&kb) == std::cmp::Ordering::Equal) != (ka == kb) || (ka == kb) != (a.tree == b.tree) || ka.cmp(&kb) != kb.cmp(&ka).reverse() {
                        out.oracle_fail("C16", "MarkerTreeKind: Eq / Ord / PartialOrd disagree with one another or with the markers' equality", input.clone());
                    }
                    if let (Some(ca), Some(cb)) = (a.tree.contents(), b.tree.contents()) {
                        if ca.cmp(&cb) != ab || ca.partial_cmp(&cb) != Some(ab) || (ca == cb) != (a.tree == b.tree) || (ca == cb && hash_of(&ca) != hash_of(&cb)) {
                            out.oracle_fail("C16", "MarkerTreeContents: Eq / Ord / Hash differ from the marker's", input.clone());
                        }
                    }
                }
                let (bc, ac) = (b.tree.cmp(&c.tree), a.tree.cmp(&c.tree));
                if ab != std::cmp::Ordering::Greater && bc != std::cmp::Ordering::Greater && ac == std::cmp::Ordering::Greater { out.oracle_fail("C16", "cmp is not transitive", input.clone()); }
                if ab != std::cmp::Ordering::Equal { out.nontrivial(format!("{}|{}", a.dump, b.dump)); }
                out.stat(&format!("c16.{o}"));
            }
            // the same marker under the deprecated spelling of its string keys (os.name for os_name, …): these are
            // different variables of the diagram, so != markers — cmp must not call them Equal, at any depth
            {
                fn twin(t: &Term, alt: usize) -> Term {
                    let map = |k: usize| match (k, alt) { (1, _) => 2, (3, _) => 4, (5, 0) => 6, (5, _) => 7, (10, _) => 11, (12, _) => 13, (k, _) => k };
                    match t {
                        Term::S(k, op, v) => Term::S(map(*k), *op, v.clone()),
                        Term::And(a, b) => Term::And(Box::new(twin(a, alt)), Box::new(twin(b, alt))),
                        Term::Or(a, b) => Term::Or(Box::new(twin(a, alt)), Box::new(twin(b, alt))),
                        Term::Not(a) => Term::Not(Box::new(twin(a, alt))),
                        other => other.clone(),
                    }
                }
                // one literal changed (the first one met): a different condition, so a different marker — the order must see
                // the literal of EVERY node kind (version bound, string bound, `in` / contains value, extra name)
                // the same marker with every `extra` comparison built as the verbatim (`Arbitrary`) variant of the public
                // builder, even for valid names: another variable of the diagram, rendered identically
                fn build_arbitrary(t: &Term) -> MarkerTree {
                    match t {
                        Term::X(neg, text) => MarkerTree::expression(pep508_rs::MarkerExpression::Extra {
                            operator: if *neg { pep508_rs::ExtraOperator::NotEqual } else { pep508_rs::ExtraOperator::Equal },
                            name: pep508_rs::MarkerValueExtra::Arbitrary(text.clone()),
                        }),
                        Term::And(a, b) => { let mut x = build_arbitrary(a); x.and(build_arbitrary(b)); x }
                        Term::Or(a, b) => { let mut x = build_arbitrary(a); x.or(build_arbitrary(b)); x }
                        Term::Not(a) => build_arbitrary(a).negate(),
                        other => other.build(),
                    }
                }
                let mut extra_terms: Vec<Term> = vec![
                    Term::S(3, 8, "arm".into()), Term::S(3, 9, "arm".into()), Term::S(1, 6, "nt posix".into()), Term::S(1, 7, "nt posix".into()), Term::X(false, "foo".into()), Term::X(true, "foo".into()),
                    Term::and(Term::V(2, 5, "3.8".into()), Term::and(Term::S(3, 8, "arm".into()), Term::X(false, "simd".into()))),
                    Term::S(1, 0, "posix".into()), Term::S(12, 1, "win32".into()), Term::S(3, 4, "x86_64".into()), Term::S(5, 0, "CPython".into()), Term::S(10, 3, "1".into()),
                    Term::and(Term::V(1, 5, "3.8".into()), Term::S(12, 1, "win32".into())),
                    Term::or(Term::S(1, 0, "nt".into()), Term::and(Term::X(false, "dev".into()), Term::S(5, 0, "PyPy".into()))),
                ];
                for it in items.iter().take(if big { 400 } else { 120 }) { extra_terms.push(it.term.clone()); }
                for t in &extra_terms {
                    for alt in 0..2 {
                        let tw = twin(t, alt);
                        let (Some(x), Some(y)) = (crate::algebra::try_build(out, "C16", t), crate::algebra::try_build(out, "C16", &tw)) else { return };
                        out.evaluations += 1;
                        let (ab, ba) = (x.cmp(&y), y.cmp(&x));
                        let input = serde_json::json!({"a": t.line(), "b": tw.line(), "class": "deprecated-key twin"});
                        if (ab == std::cmp::Ordering::Equal) != (x == y) { out.oracle_fail("C16", "cmp returns Equal for != markers (or not Equal for == markers)", input.clone()); }
                        if ab != ba.reverse() { out.oracle_fail("C16", "cmp is not antisymmetric", input.clone()); }
                        if x == y && hash_of(&x) != hash_of(&y) { out.oracle_fail("C16", "equal markers hash differently", input.clone()); }
                        out.stat(if x == y { "c16.twin_same" } else { "c16.twin_differs" });
                    }
                    let Some(x) = crate::algebra::try_build(out, "C16", t) else { return };
                    let mut done = false;
                    let lt = crate::algebra::lit_twin(t, &mut done);
                    let mut others: Vec<(String, MarkerTree, &str)> = Vec::new();
                    if done { if let Some(y) = crate::algebra::try_build(out, "C16", &lt) { others.push((lt.line(), y, "one literal changed")); } }
                    if let Ok(y) = std::panic::catch_unwind(std::panic::AssertUnwindSafe(|| build_arbitrary(t))) { others.push((format!("{} [extras built as Arbitrary]", t.line()), y, "extras built as the verbatim variant")); }
                    for (line, y, class) in others {
                        out.evaluations += 1;
                        let (ab, ba) = (x.cmp(&y), y.cmp(&x));
                        let input = serde_json::json!({"a": t.line(), "b": line, "class": class});
                        if (ab == std::cmp::Ordering::Equal) != (x == y) { out.oracle_fail("C16", "cmp returns Equal for != markers (or not Equal for == markers)", input.clone()); }
                        if ab != ba.reverse() { out.oracle_fail("C16", "cmp is not antisymmetric", input.clone()); }
                        if x == y && hash_of(&x) != hash_of(&y) { out.oracle_fail("C16", "equal markers hash differently", input.clone()); }
                        out.stat(if x == y { "c16.variant_same" } else { "c16.variant_differs" });
                    }
                }
            }
            // small closed families around ONE atom of every node kind: the atom, its negation, and both combined with a later
            // variable — every triple is checked for transitivity, every pair for antisymmetry and Equal <=> == (a fast path for one
            // shape of node breaks the order only between that shape and its neighbours)
            {
                use crate::marker::Term;
                let atoms = [Term::S(1, 6, "nt posix".into()), Term::S(1, 7, "nt posix".into()), Term::S(1, 8, "x".into()), Term::S(12, 0, "linux".into()), Term::S(12, 4, "linux".into()),
                    Term::V(1, 5, "3.8".into()), Term::V(0, 0, "3.8".into()), Term::VI(1, false, vec!["3.8".into(), "3.9".into()]), Term::X(false, "cli".into())];
                let zs = [Term::X(false, "zz".into()), Term::S(12, 8, "w".into()), Term::S(12, 6, "a b".into())];
                for a in &atoms { for z in &zs {
                    let fam = [a.clone(), Term::not(a.clone()), Term::or(a.clone(), z.clone()), Term::and(a.clone(), z.clone()), Term::or(Term::not(a.clone()), z.clone()), Term::and(Term::not(a.clone()), z.clone()), z.clone(), Term::not(z.clone()), Term::T, Term::F];
                    let trees: Vec<MarkerTree> = fam.iter().filter_map(|t| crate::algebra::try_build(out, "C16", t)).collect();
                    if trees.len() != fam.len() { return; }
                    for (i, x) in trees.iter().enumerate() { for (j, y) in trees.iter().enumerate() {
                        out.evaluations += 1;
                        let xy = x.cmp(y);
                        let input = serde_json::json!({"a": fam[i].line(), "b": fam[j].line()});
                        if xy != y.cmp(x).reverse() || (xy == std::cmp::Ordering::Equal) != (x == y) || x.partial_cmp(y) != Some(xy) { out.oracle_fail("C16", "cmp is not antisymmetric / Equal for != markers / different from partial_cmp (small family around one atom)", input); }
                        for (k, zt) in trees.iter().enumerate() {
                            if xy == std::cmp::Ordering::Less && y.cmp(zt) == std::cmp::Ordering::Less && x.cmp(zt) != std::cmp::Ordering::Less {
                                out.oracle_fail("C16", "cmp is not transitive", serde_json::json!({"a": fam[i].line(), "b": fam[j].line(), "c": fam[k].line()}));
                            }
                        }
                    } }
                    out.stat("c16.atom_families");
                } }
            }
            // markers on ONE string key (and one version key) with different NUMBERS of edges, some with an extra below one edge: an
            // order that compares children before ranges, or stops at the shorter edge list, has cycles only among such triples
            {
                use crate::marker::Term;
                for (is_ver, k, lits) in [(false, 1usize, ["a", "b", "m", "n", "p"]), (true, 1usize, ["3.1", "3.2", "3.6", "3.7", "3.9"])] {
                    let eq = |l: &str| if is_ver { Term::V(k, 0, l.to_string()) } else { Term::S(k, 0, l.to_string()) };
                    let gt = |l: &str| if is_ver { Term::V(k, 4, l.to_string()) } else { Term::S(k, 2, l.to_string()) };
                    let x = Term::X(false, "x".into());
                    let fam = vec![eq(lits[2]), Term::or(eq(lits[3]), eq(lits[4])), Term::or(eq(lits[0]), Term::and(eq(lits[1]), x.clone())), Term::or(eq(lits[0]), eq(lits[1])), eq(lits[0]), gt(lits[2]),
                        Term::or(eq(lits[0]), gt(lits[3])), Term::and(eq(lits[2]), x.clone()), Term::or(Term::and(eq(lits[0]), x.clone()), eq(lits[4])), Term::not(eq(lits[2])), Term::or(Term::or(eq(lits[0]), eq(lits[2])), eq(lits[4])), Term::and(gt(lits[0]), Term::not(eq(lits[3])))];
                    let trees: Vec<MarkerTree> = fam.iter().filter_map(|t| crate::algebra::try_build(out, "C16", t)).collect();
                    if trees.len() != fam.len() { return; }
                    for (i, a) in trees.iter().enumerate() { for (j, b) in trees.iter().enumerate() { for (l, c) in trees.iter().enumerate() {
                        out.evaluations += 1;
                        if a.cmp(b) == std::cmp::Ordering::Less && b.cmp(c) == std::cmp::Ordering::Less && a.cmp(c) != std::cmp::Ordering::Less {
                            out.oracle_fail("C16", "cmp is not transitive (markers on one key with different numbers of edges)", serde_json::json!({"a": fam[i].line(), "b": fam[j].line(), "c": fam[l].line()}));
                        }
                    } } }
                    out.stat("c16.edge_count_families");
                }
            }
            // Requirement and VerbatimUrl: Eq / Ord / Hash agree (VerbatimUrl ignores the verbatim text)
            std::env::set_var("VP_HOME_DIR", "home/ferris");
            let reqs = ["a @ https://x.org/home/ferris/p", "a @ https://x.org/${VP_HOME_DIR}/p", "a @ https://X.ORG/home/ferris/p", "a @ https://x.org/home/ferris/q", "a>=1", "a >= 1", "a>=1,<2", "a<2,>=1",
                "A[x,y]>=1", "a[x,y] >=1", "a[y,x]>=1", "b @ https://x.org/home/ferris/p", "a ; os_name == 'a'", "a;os_name=='a'", "a ; os_name == 'b'", "a ; os.name == 'a'", "a ; python_implementation == 'CPython'", "a ; platform_python_implementation == 'CPython'", "a @ https://x.org/home/ferris/p ; os_name == 'a'"];
            let mut parsed: Vec<pep508_rs::Requirement<pep508_rs::VerbatimUrl>> = reqs.iter().map(|r| pep508_rs::Requirement::from_str(r).unwrap()).collect();
            let mut reqs: Vec<String> = reqs.iter().map(|r| r.to_string()).collect();
            // the same TEXT read under another value of the variable it references: the same verbatim text, another URL — a different
            // value for Eq, Ord and Hash alike (and two URLs given one verbatim text by hand)
            {
                std::env::set_var("VP_HOME_DIR", "elsewhere");
                for t in ["a @ https://x.org/${VP_HOME_DIR}/p", "a @ https://x.org/${VP_HOME_DIR}/p ; os_name == 'a'"] {
                    parsed.push(pep508_rs::Requirement::from_str(t).unwrap());
                    reqs.push(format!("{t}  [VP_HOME_DIR=elsewhere]"));
                }
                std::env::set_var("VP_HOME_DIR", "home/ferris");
                for (u, g) in [("https://x.org/one", "${INDEX}/pkg"), ("https://x.org/two", "${INDEX}/pkg"), ("https://x.org/one", "other text")] {
                    let mut r = pep508_rs::Requirement::<pep508_rs::VerbatimUrl>::from_str("a @ https://x.org/placeholder").unwrap();
                    r.version_or_url = Some(pep508_rs::VersionOrUrl::Url(pep508_rs::VerbatimUrl::parse_url(u).unwrap().with_given(g)));
                    parsed.push(r);
                    reqs.push(format!("a @ {u}  [given {g}]"));
                }
            }
            // the same requirement recorded with different origins (`with_origin`): origins that differ in kind, in path, or ONLY in
            // the project name are different values for Eq, Ord and Hash alike
            {
                use pep508_rs::RequirementOrigin as O;
                let pn = |s: &str| pep508_rs::PackageName::from_str(s).unwrap();
                let origins = [("File(/work/requirements.txt)", O::File("/work/requirements.txt".into())), ("File(/work/pyproject.toml)", O::File("/work/pyproject.toml".into())),
                    ("Project(/work/pyproject.toml, alpha)", O::Project("/work/pyproject.toml".into(), pn("alpha"))), ("Project(/work/pyproject.toml, beta)", O::Project("/work/pyproject.toml".into(), pn("beta"))),
                    ("Project(/other/pyproject.toml, alpha)", O::Project("/other/pyproject.toml".into(), pn("alpha"))), ("Workspace", O::Workspace), ("File((workspace))", O::File("(workspace)".into()))];
                for (i, (a, oa)) in origins.iter().enumerate() {
                    for (j, (b, ob)) in origins.iter().enumerate() {
                        out.evaluations += 1;
                        let (eq, ord) = (oa == ob, oa.cmp(ob));
                        if eq != (i == j) || eq != (ord == std::cmp::Ordering::Equal) || oa.partial_cmp(ob) != Some(ord) || ord != ob.cmp(oa).reverse() || (eq && hash_of(oa) != hash_of(ob)) {
                            out.oracle_fail("C16", "RequirementOrigin: Eq / Ord / PartialOrd / Hash disagree (or two different origins compare equal)", serde_json::json!({"a": a, "b": b}));
                        }
                    }
                }
                for base in ["a>=1", "a @ https://x.org/home/ferris/p"] {
                    for (name, o) in &origins {
                        parsed.push(pep508_rs::Requirement::<pep508_rs::VerbatimUrl>::from_str(base).unwrap().with_origin(o.clone()));
                        reqs.push(format!("{base}  [origin {name}]"));
                    }
                }
            }
            for (i, x) in parsed.iter().enumerate() {
                for (j, y) in parsed.iter().enumerate() {
                    out.evaluations += 1;
                    let (eq, ord) = (x == y, x.cmp(y));
                    let input = serde_json::json!({"a": reqs[i], "b": reqs[j]});
                    if eq != (ord == std::cmp::Ordering::Equal) { out.oracle_fail("C16", "Requirement: Eq and Ord disagree", input.clone()); }
                    if eq && hash_of(x) != hash_of(y) { out.oracle_fail("C16", "Requirement: equal values hash differently", input.clone()); }
                    if ord != y.cmp(x).reverse() { out.oracle_fail("C16", "Requirement: cmp not antisymmetric", input.clone()); }
                    // the comparison operators go through PartialOrd: it has to be the same order as Ord
                    if x.partial_cmp(y) != Some(ord) || (x < y) != (ord == std::cmp::Ordering::Less) || (x <= y) != (ord != std::cmp::Ordering::Greater) { out.oracle_fail("C16", "Requirement: partial_cmp / `<` / `<=` differ from cmp", input.clone()); }
                    if x.version_or_url.partial_cmp(&y.version_or_url) != Some(x.version_or_url.cmp(&y.version_or_url)) { out.oracle_fail("C16", "VersionOrUrl: partial_cmp differs from cmp", input.clone()); }
                    for z in &parsed {
                        if ord != std::cmp::Ordering::Greater && y.cmp(z) != std::cmp::Ordering::Greater && x.cmp(z) == std::cmp::Ordering::Greater { out.oracle_fail("C16", "Requirement: cmp not transitive", input.clone()); }
                    }
                    if let (Some(pep508_rs::VersionOrUrl::Url(u)), Some(pep508_rs::VersionOrUrl::Url(v))) = (&x.version_or_url, &y.version_or_url) {
                        let same_url = u.to_url() == v.to_url();
                        if (u == v) != same_url || (u.cmp(v) == std::cmp::Ordering::Equal) != same_url || (same_url && hash_of(u) != hash_of(v)) {
                            out.oracle_fail("C16", "VerbatimUrl: Eq / Ord / Hash do not all follow the parsed URL only", input.clone());
                        }
                        let given_less = pep508_rs::VerbatimUrl::from_url(v.to_url());
                        if u.partial_cmp(v) != Some(u.cmp(v)) || (u < v) != (u.cmp(v) == std::cmp::Ordering::Less) || u.partial_cmp(&given_less) != Some(u.cmp(&given_less)) || given_less.partial_cmp(u) != Some(given_less.cmp(u)) {
                            out.oracle_fail("C16", "VerbatimUrl: partial_cmp / `<` differ from cmp (the verbatim text takes part in one of them)", input.clone());
                        }
                    }
                }
            }
            // sibling markers, in-process (ids vs structure) and across fresh processes
            {
                let texts = sibling_texts(&format!("P{seed}"));
                let mut idx: Vec<usize> = (0..texts.len()).collect();
                for i in (1..idx.len()).rev() { let j = rng.below(i + 1); idx.swap(i, j); }
                let mut trees: Vec<Option<MarkerTree>> = vec![None; texts.len()];
                for &i in &idx { trees[i] = MarkerTree::from_str(&texts[i]).ok(); }
                for i in 0..texts.len() {
                    for j in 0..texts.len() {
                        let (Some(a), Some(b)) = (&trees[i], &trees[j]) else { continue };
                        out.evaluations += 1;
                        let o = match a.cmp(b) { std::cmp::Ordering::Less => "lt", std::cmp::Ordering::Equal => "eq", std::cmp::Ordering::Greater => "gt" };
                        out.case(format!("cmp\tL {}\tL {}", dump(a), dump(b)), format!("{o} {}", (a == b) as u8));
                        out.stat("c16.sibling_pairs");
                        let input = serde_json::json!({"a": texts[i], "b": texts[j]});
                        if (a.cmp(b) == std::cmp::Ordering::Equal) != (a == b) { out.oracle_fail("C16", "cmp returns Equal for != markers (or not Equal for == markers)", input.clone()); }
                        if a.cmp(b) != b.cmp(a).reverse() { out.oracle_fail("C16", "cmp is not antisymmetric", input.clone()); }
                        if a == b && hash_of(a) != hash_of(b) { out.oracle_fail("C16", "equal markers hash differently", input.clone()); }
                    }
                }
                for r in 0..(if big { 6 } else { 2 }) { cross_process_order(out, "C16", &mut rng, &format!("Q{seed}r{r}")); }
            }
        }
        "C14" => {
            // (1) the id-level model agrees with the diagram-level model whatever the arena holds
            let items = pool(out, "C14", &mut rng, if big { 400 } else { 120 }, true);
            let n = if big { 1200 } else { 300 };
            for _ in 0..n {
                let (a, b) = (&items[rng.below(items.len())], &items[rng.below(items.len())]);
                let warm: Vec<&crate::algebra::Item> = (0..rng.below(4)).map(|_| &items[rng.below(items.len())]).collect();
                out.evaluations += 1;
                let mut x = a.tree.clone();
                x.and(b.tree.clone());
                let mut line = format!("iand\tL {}\tL {}", a.dump, b.dump);
                for w in &warm { line.push_str(&format!("\tL {}", w.dump)); }
                out.case(line, format!("{}\teq=1\thit=1\tcomm=1\tfresh=1\tinj=1", dump(&x)));
                // the other id-level operations on a warmed arena: restrict (simplify_extras) after restrictions under
                // other extras, negation, is_disjoint
                let all = ["dev", "test", "foo-bar", "a", "b", "x-y"];
                let names: Vec<&str> = all.iter().copied().filter(|_| rng.below(3) == 0).collect();
                let ns: Vec<pep508_rs::ExtraName> = names.iter().map(|n| pep508_rs::ExtraName::from_str(n).unwrap()).collect();
                let r = a.tree.clone().simplify_extras(&ns);
                let dj = (a.tree.is_disjoint(&b.tree), b.tree.is_disjoint(&a.tree));
                let mut line = format!("iops\t{}", names.len());
                for n in &names { line.push_str(&format!("\t{}", hex(n))); }
                line.push_str(&format!("\tL {}\tL {}", a.dump, b.dump));
                for w in &warm { line.push_str(&format!("\tL {}", w.dump)); }
                out.case(line, format!("{}\teq=1\tagain=1\tfresh=1\tnot=1\tdisj={}{}\ttree={}", dump(&r), dj.0 as u8, dj.1 as u8, dj.0 as u8));
                out.stat(if names.is_empty() { "c14.iops_no_extras" } else { "c14.iops_with_extras" });
                // requires-python surgery on ids, after the warm-up diagrams went through it under other ranges
                let pl = pools();
                let (lo, hi) = (gen_bd(&mut rng, &pl), gen_bd(&mut rng, &pl));
                let is_sp = rng.chance(1, 2);
                let (l, h) = (bound(&lo), bound(&hi));
                let r = std::panic::catch_unwind(std::panic::AssertUnwindSafe(|| if is_sp { a.tree.clone().simplify_python_versions(l.as_ref(), h.as_ref()) } else { a.tree.clone().complexify_python_versions(l.as_ref(), h.as_ref()) }));
                let Ok(r) = r else { out.oracle_fail("C14", "panic in simplify / complexify_python_versions", serde_json::json!({"marker": a.term.line(), "lo": bd_tok(&lo), "hi": bd_tok(&hi)})); return };
                let mut line = format!("ipy\t{}\t{}\t{}\tL {}", if is_sp { "s" } else { "c" }, bd_tok(&lo), bd_tok(&hi), a.dump);
                for w in &warm { line.push_str(&format!("\tL {}", w.dump)); }
                out.case(line, format!("{}\teq=1\tagain=1\tfresh=1", dump(&r)));
                out.stat(if is_sp { "c14.ipy_simplify" } else { "c14.ipy_complexify" });
            }
            // (2) fresh-process histories
            let rounds = if big { 40 } else { 10 };
            for round in 0..rounds {
                let lits = [("3.8", "3.8.0"), ("3", "3.0"), ("3.10", "3.10.0"), ("4", "4.0.0"), ("2.7", "2.7.0")];
                let (l1, l1b) = lits[rng.below(lits.len())];
                let (l2, _) = lits[rng.below(lits.len())];
                let s1 = p.strings[rng.below(p.strings.len())].replace('\'', "").replace('"', "");
                let q: Vec<(String, String)> = vec![
                    ("a".into(), format!("python_full_version >= '{l1}'")),
                    ("b".into(), format!("python_version < '{l2}' or os_name == '{s1}'")),
                    ("c".into(), format!("python_full_version == '{l1}.*' and extra == 'dev'")),
                    ("d".into(), format!("implementation_version in '{l1} {l2}' or sys_platform != '{s1}'")),
                    ("e".into(), format!("python_full_version < '{l1}' or python_full_version >= '{l2}'")),
                    ("f".into(), format!("'{s1}' in platform_machine and python_version ~= '{l1}.1'")),
                ];
                // (n.. r: the same right operand under an operand and under its complement, both orders — an operation memo
                //  that confuses a node with its complement, or two neighbouring nodes, shows here)
                let ops: Vec<String> = vec!["and g a b".into(), "or h c d".into(), "not i e".into(), "and j g h".into(), "or k i f".into(), "sx l j 646576".into(), "and m b a".into(),
                    "not n a".into(), "and o n b".into(), "or p2 n b".into(), "not q2 b".into(), "and r a q2".into(), "or s2 a q2".into(), "and t2 c b".into(), "and u2 d b".into()];
                let names = ["a", "b", "c", "d", "e", "f", "g", "h", "i", "j", "k", "l", "m", "n", "o", "p2", "q2", "r", "s2", "t2", "u2"];
                // warm-up prefixes
                let mut warmups: Vec<Vec<String>> = vec![vec![]];
                // unrelated work
                warmups.push((0..30).map(|i| format!("p w{i} {}", hex(&gen_text(&mut rng, &p)))).collect());
                // the same literals under other spellings, first
                warmups.push(vec![
                    format!("p w0 {}", hex(&format!("python_full_version >= '{l1b}'"))),
                    format!("p w1 {}", hex(&format!("implementation_version == '{l1b}' or python_full_version < '{l1b}'"))),
                    format!("p w2 {}", hex(&format!("python_full_version in '{l1b} {l2}.0'"))),
                ]);
                // restriction of markers that share nodes with the queries, under OTHER extras sets (a memo keyed by
                // the node alone would leak the earlier answer)
                warmups.push(vec![
                    format!("p w0 {}", hex(&format!("platform_machine == 'w' and extra == 'dev'"))),
                    "sx w1 w0 646f6373".into(),                      // [docs]
                    format!("p w2 {}", hex(&format!("python_full_version == '{l1}.*' and extra == 'dev'"))),
                    "sx w3 w2 74657374,646f6373".into(),             // [test, docs]
                    format!("p w4 {}", hex(&format!("(python_full_version >= '{l1}' and (python_version < '{l2}' or os_name == '{s1}')) or (python_full_version == '{l1}.*' and extra == 'dev')"))),
                    "sx w5 w4 78".into(),                            // [x]
                ]);
                // a long unrelated history (tens of thousands of nodes and memo entries) before the queries
                warmups.push(vec![format!("bulk {} h{round}", [24000usize, 45000, 12000, 90000, 6000, 33000][round % 6])]);
                // the same work in the opposite order
                let mut rev = script_for(&q, &[]);
                rev.reverse();
                warmups.push(rev.iter().map(|c| c.replacen("p ", "p r", 1)).collect());
                let mut reference: Option<(Vec<String>, Vec<String>)> = None;
                for (k, wu) in warmups.iter().enumerate() {
                    let mut w = Worker::spawn("hist");
                    for c in wu { w.call(c); }
                    for c in script_for(&q, &ops) { w.call(&c); }
                    let obs: Vec<String> = names.iter().map(|n| w.call(&format!("obs {n}"))).collect();
                    let mut rel = Vec::new();
                    for a in names { for b in names { rel.push(w.call(&format!("rel {a} {b}"))); } }
                    // hashes are only comparable inside a process: keep eq and cmp, and "eq => same hash"
                    let rel: Vec<String> = rel.iter().map(|r| { let f: Vec<&str> = r.split(' ').collect(); format!("{} {} {}", f[0], f[1], if f[0] == "1" { f[2] } else { "-" }) }).collect();
                    out.evaluations += 1;
                    match &reference {
                        None => reference = Some((obs, rel)),
                        Some((o0, r0)) => {
                            let input = |what: &str, name: &str, x: &str, y: &str| serde_json::json!({"class": what, "query": q, "ops": ops, "warmup": wu, "name": name, "fresh": x, "after_warmup": y, "history": k});
                            for (i, n) in names.iter().enumerate() {
                                let (a, b): (Vec<&str>, Vec<&str>) = (o0[i].split('\x1f').collect(), obs[i].split('\x1f').collect());
                                if a[0] != b[0] {
                                    out.oracle_fail("C14", "the diagram of a marker depends on what the process did before", input("diagram", n, a[0], b[0]));
                                } else if a[1] != b[1] || a[2] != b[2] {
                                    let (ta, tb) = (if a[1] == "none" { String::new() } else { unhex(a[1]) }, if b[1] == "none" { String::new() } else { unhex(b[1]) });
                                    out.oracle_fail("C14", "the displayed text / DNF of the same marker depends on what the process did before (spelling of equal versions)", input("spelling", n, &ta, &tb));
                                }
                            }
                            if *r0 != rel {
                                out.oracle_fail("C14", "equality / ordering between markers depends on what the process did before", input("relations", "-", "", ""));
                            }
                            out.nontrivial(format!("{round}.{k}"));
                        }
                    }
                }
            }
            // (2b) a very long history in the MIDDLE: markers built before it and the same texts built after it are the same
            //      markers (==, same hash, Equal), and everything observable equals what a fresh process shows
            {
                let texts = ["python_version >= '3.8' and os_name == 'posix' or extra == 'test'", "implementation_version < '7.3' and 'x' in platform_machine", "extra == 'a' and extra != 'b'", "sys_platform == 'linux'", "python_full_version ~= '3.9.1' or platform_release > '5'"];
                let sizes: &[usize] = if big { &[300, 520, 1100] } else { &[520] };
                for &n in sizes {
                    let mut w = Worker::spawn("hist");
                    let mut fresh = Worker::spawn("hist");
                    for (i, t) in texts.iter().enumerate() { w.call(&format!("p a{i} {}", hex(t))); }
                    let r = w.call(&format!("pairs {n} m{seed}"));
                    if !r.starts_with("ok ") { out.oracle_fail("C14", "a long run of conjunctions panicked / did not finish", serde_json::json!({"pairs": n, "answer": r})); continue; }
                    for (i, t) in texts.iter().enumerate() {
                        w.call(&format!("p b{i} {}", hex(t)));
                        fresh.call(&format!("p b{i} {}", hex(t)));
                        out.evaluations += 1;
                        let rel = w.call(&format!("rel a{i} b{i}"));
                        let f: Vec<&str> = rel.split(' ').collect();
                        let input = serde_json::json!({"text": t, "between": format!("{n} x {n} distinct conjunctions"), "rel": rel});
                        if f.first() != Some(&"1") || f.get(1) != Some(&"eq") || f.get(2) != Some(&"1") {
                            out.oracle_fail("C14", "a marker built before a long history and the same text built after it are not the same marker (== / cmp / hash)", input.clone());
                        }
                        if w.call(&format!("obs b{i}")) != fresh.call(&format!("obs b{i}")) || w.call(&format!("obs a{i}")) != fresh.call(&format!("obs b{i}")) {
                            out.oracle_fail("C14", "what a marker shows after a long history differs from a fresh process", input);
                        }
                    }
                    out.stat("c14.long_history_in_the_middle");
                }
            }
            for r in 0..(if big { 6 } else { 2 }) { cross_process_order(out, "C14", &mut rng, &format!("H{seed}r{r}")); }
            // (3) plain comparisons (no star, tilde or list; literals with >= 2 segments): the code normalises the
            //     spelling of these, so the text must not depend on which spelling the process saw first —
            //     this is OUTSIDE the recorded finding K1 (single-segment, star-, tilde- and list-derived bounds)
            {
                let pairs = [("0.0", "0.0.0"), ("1.0", "1.0.0"), ("3.8", "3.8.0.0"), ("0.1", "0.1.0"), ("10.0", "10.0.0"), ("2.7.1", "2.7.1.0"), ("0.0", "0.0.0.0")];
                let ops = [">=", "<", "==", "!=", ">", "<="];
                let keys = ["python_full_version", "implementation_version"];
                let rounds = if big { 12 } else { 4 };
                for round in 0..rounds {
                    let mut q: Vec<(String, String)> = Vec::new();
                    let mut warm: Vec<String> = Vec::new();
                    for (i, (short, padded)) in pairs.iter().enumerate() {
                        let key = keys[(i + round) % keys.len()];
                        let op = ops[(i * 5 + round) % ops.len()];
                        q.push((format!("a{i}"), format!("{key} {op} '{short}' and os_name == 'posix'")));
                        if round % 2 == 0 { warm.push(format!("p w{i} {}", hex(&format!("{key} {op} '{padded}'")))); }
                        warm.push(format!("p v{i} {}", hex(&format!("{key} >= '{padded}' or {key} < '{padded}'"))));
                        // … and through the typed constructor, with the operators only it can express
                        let kidx = if key == "python_full_version" { 1 } else { 0 };
                        let tok = match op { ">=" => "ge", "<" => "lt", "==" => "eq", "!=" => "ne", ">" => "gt", _ => "le" };
                        // (the grammar-less operator first: whichever spelling is interned first is the one that would stick)
                        if op == "==" || op == "!=" { warm.insert(warm.len().saturating_sub(if round % 2 == 0 { 0 } else { 1 }), format!("bx y{i} {kidx} xeq {padded}")); }
                        warm.push(format!("bx x{i} {kidx} {tok} {padded}"));
                    }
                    let mut reference: Option<Vec<String>> = None;
                    for (k, wu) in [Vec::new(), warm.clone()].iter().enumerate() {
                        let mut w = Worker::spawn("hist");
                        for c in wu { w.call(c); }
                        for c in script_for(&q, &[]) { w.call(&c); }
                        let obs: Vec<String> = q.iter().map(|(n, _)| w.call(&format!("obs {n}"))).collect();
                        out.evaluations += 1;
                        match &reference {
                            None => reference = Some(obs),
                            Some(o0) => {
                                for (i, (n, text)) in q.iter().enumerate() {
                                    if o0[i] != obs[i] {
                                        let (a, b): (Vec<&str>, Vec<&str>) = (o0[i].split('\x1f').collect(), obs[i].split('\x1f').collect());
                                        let (ta, tb) = (if a.get(1) == Some(&"none") { String::new() } else { unhex(a.get(1).unwrap_or(&"-")) }, if b.get(1) == Some(&"none") { String::new() } else { unhex(b.get(1).unwrap_or(&"-")) });
                                        out.oracle_fail("C14", "a plain comparison is displayed / put in DNF differently after the process parsed another spelling of the same version first", serde_json::json!({"class": "spelling-plain", "query": text, "name": n, "warmup": wu, "fresh": ta, "after_warmup": tb, "history": k}));
                                    }
                                }
                                out.nontrivial(format!("plain {round}.{k}"));
                            }
                        }
                    }
                }
            }
        }
        "C15" => {
            let rounds = if big { 60 } else { 12 };
            let mut w = Worker::spawn("threads");
            let mut stuck = false;
            for round in 0..rounds {
                if stuck { break; }
                let salt = format!("s{}x{}", seed, round);
                let q: Vec<(String, String)> = vec![
                    ("a".into(), format!("python_full_version >= '3.{}' and os_name == '{salt}a'", 5 + round % 7)),
                    ("b".into(), format!("sys_platform == '{salt}b' or extra == '{salt}'")),
                    ("c".into(), format!("'{salt}' in platform_machine or python_version < '3.{}'", 6 + round % 5)),
                    ("d".into(), format!("os_name != '{salt}a' and implementation_name > '{salt}'")),
                ];
                let mut script = script_for(&q, &["and e a b".into(), "or f c d".into(), "not g e".into(), "and h f g".into(), "or i e f".into(), format!("sx j i {}", hex(&salt.to_lowercase())), "and k h j".into(),
                    // requires-python surgery incl. empty, half-open-empty and inverted ranges (every call must return)
                    format!("sp l a i3.{} e3.{}", 5 + round % 7, 5 + round % 7), format!("sp m k e3.{} i3.{}", 6 + round % 5, 6 + round % 5), "sp n i i3.9 e3.12".into(),
                    format!("cp o a e3.{} e3.{}", 5 + round % 7, 5 + round % 7), "cp q c i3.12 i3.8".into(), "cp r f i3.8 u".into(), "and s l r".into()]);
                for n in ["a", "e", "f", "h", "i", "j", "k", "l", "m", "n", "o", "q", "r", "s"] { script.push(format!("obs {n}")); }
                for (a, b) in [("e", "f"), ("h", "k"), ("i", "j"), ("a", "a")] { script.push(format!("rel {a} {b}")); }
                for (a, b) in [("a", "d"), ("e", "g"), ("l", "r"), ("b", "c"), ("h", "j")] { script.push(format!("dj {a} {b}")); }
                for n in ["a", "b", "d", "g", "h", "k", "s"] { script.push(format!("dbg {n}")); }
                let hx = hex(&script.join(";"));
                for n in [2usize, 8, 16] {
                    out.evaluations += 1;
                    // a different salt per thread count, so that the nodes are new each time
                    let hx_n = hx.replace(&hex(&salt), &hex(&format!("{salt}n{n}")));
                    let par = w.call(&format!("run {n} {hx_n}"));
                    let input = serde_json::json!({"threads": n, "script": script, "salt": format!("{salt}n{n}")});
                    if par == "deadlock" || par == "dead" || par.starts_with("panic") {
                        out.oracle_fail("C15", &format!("concurrent marker operations: {par}"), input.clone());
                        if par == "deadlock" {
                            // the stuck threads still hold the interner lock of that process: nothing more can be learnt from it
                            // (nor, within the time budget, from further rounds) — start over with a fresh worker and stop
                            w = Worker::spawn("threads");
                            stuck = true;
                            break;
                        }
                        continue;
                    }
                    let mut seq_worker = Worker::spawn("threads");
                    let seq = seq_worker.call(&format!("run 1 {hx_n}"));
                    let (same, digest) = par.split_once(' ').unwrap();
                    if !same.starts_with('1') { out.oracle_fail("C15", "threads running the same operations observed different results", input.clone()); }
                    if same.len() > 1 && !same.ends_with('1') { out.oracle_fail("C15", "the same marker built by different threads (or rebuilt afterwards) is not one marker: != / cmp / hash differ", input.clone()); }
                    let seq_digest = seq.split_once(' ').map(|x| x.1).unwrap_or("");
                    // hashes of NodeIds are process-history dependent: compare everything except the hash bit of unequal pairs
                    if strip_hash(&unhex(digest)) != strip_hash(&unhex(seq_digest)) {
                        out.oracle_fail("C15", "a concurrent execution observed results that differ from a sequential execution", input.clone());
                    }
                    if unhex(digest).contains("panic") { out.oracle_fail("C15", "a thread panicked", input.clone()); }
                    out.nontrivial(format!("{round}.{n}"));
                }
            }
            // contention: queries while another thread is inside long single operations (the lock must span each
            // operation and a waiting reader must still get the sequential answer)
            for round in 0..(if stuck { 0 } else if big { 4 } else { 1 }) {
                let salt = format!("c{seed}x{round}");
                let q: Vec<(String, String)> = vec![
                    ("a".into(), format!("sys_platform == 'linux' and python_version >= '3.{}'", 8 + round)),
                    ("b".into(), format!("sys_platform == 'win32' and python_version >= '3.{}'", 8 + round)),
                    ("c".into(), format!("os_name == '{salt}' or python_full_version < '3.{}'", 9 + round)),
                    ("d".into(), format!("python_full_version >= '3.{}' and extra == '{salt}'", 9 + round)),
                ];
                let mut script = script_for(&q, &["and e a c".into(), "or f b d".into(), "not g e".into()]);
                for (x, y) in [("a", "b"), ("b", "a"), ("c", "d"), ("e", "g"), ("a", "e"), ("f", "a")] { script.push(format!("dj {x} {y}")); }
                for n in ["a", "e", "f"] { script.push(format!("obs {n}")); }
                for (x, y) in [("a", "b"), ("e", "f")] { script.push(format!("rel {x} {y}")); }
                out.evaluations += 1;
                let mut cw = Worker::spawn("threads");
                let ans = cw.call(&format!("contend 6 {} {} {} {salt}", hex(&script.join(";")), if big { 16 } else { 15 }, if big { 3 } else { 2 }));
                let input = serde_json::json!({"class": "contention", "script": script, "answer": ans});
                if let Some(reps) = ans.strip_prefix("ok ") {
                    out.stat_n("c15.contention_repetitions", reps.parse().unwrap_or(0));
                    out.nontrivial(format!("contend{round}"));
                } else if let Some(rest) = ans.strip_prefix("diff ") {
                    let f: Vec<&str> = rest.split(' ').collect();
                    out.oracle_fail("C15", &format!("while another thread was inside a long operation, `{}` answered `{}` instead of the sequential `{}`", unhex(f[0]), unhex(f[2]).replace('\x1f', " | "), unhex(f[1]).replace('\x1f', " | ")), input);
                } else {
                    out.oracle_fail("C15", &format!("concurrent marker operations under contention: {ans}"), input);
                }
            }
            out.stat_n("worker.restarts", w.restarts);
            let _ = spell_table;
        }
        _ => panic!("unknown property {prop}"),
    }
    let n = out.cases.len();
    if n > 0 { out.sample(serde_json::json!({"case": out.cases[n / 2], "impl": out.impl_out[n / 2]})); }
    else { out.sample(serde_json::json!({"note": "oracle-only suite: fresh-process histories / thread runs"})); }
}

fn strip_hash(transcript: &str) -> String {
    transcript.split('\x1e').map(|r| {
        let f: Vec<&str> = r.split(' ').collect();
        if f.len() == 3 && (f[0] == "0" || f[0] == "1") && matches!(f[1], "lt" | "eq" | "gt") { format!("{} {}", f[0], f[1]) } else { r.to_string() }
    }).collect::<Vec<_>>().join("\x1e")
}

fn gen_text(rng: &mut Rng, p: &Pools) -> String {
    loop {
        let t = gen_term(rng, p, 2, false);
        if let Some(s) = t.text() { return s; }
    }
}
