//! C09 — package / extra names.
use crate::util::*;
use pep508_rs::{ExtraName, PackageName};
use std::str::FromStr;

/// Independent reading of the property (PEP 503/508/685), not of the crate.
pub fn spec(s: &str) -> Option<String> {
    let b = s.as_bytes();
    if b.is_empty() {
        return None;
    }
    let alnum = |c: u8| c.is_ascii_alphanumeric();
    let sep = |c: u8| c == b'-' || c == b'_' || c == b'.';
    if !b.iter().all(|&c| alnum(c) || sep(c)) || !alnum(b[0]) || !alnum(b[b.len() - 1]) {
        return None;
    }
    // lowercase, then split on separator runs and join by '-'
    let lower = s.to_ascii_lowercase();
    let parts: Vec<&str> = lower.split(|c| c == '-' || c == '_' || c == '.').filter(|p| !p.is_empty()).collect();
    Some(parts.join("-"))
}

fn show(r: &Option<String>) -> String {
    match r {
        None => "err".to_string(),
        Some(s) => format!("ok:{}", hex(s)),
    }
}

pub fn one(out: &mut Out, s: &str) {
    out.evaluations += 1;
    let owned = PackageName::new(s.to_string()).ok().map(|n| n.to_string());
    let refd = PackageName::from_str(s).ok().map(|n| n.to_string());
    let e_owned = ExtraName::new(s.to_string()).ok().map(|n| n.to_string());
    let e_ref = ExtraName::from_str(s).ok().map(|n| n.to_string());
    let json = serde_json::to_string(s).unwrap();
    let de: Option<String> = serde_json::from_str::<PackageName>(&json).ok().map(|n| n.to_string());
    let e_de: Option<String> = serde_json::from_str::<ExtraName>(&json).ok().map(|n| n.to_string());
    // … and from JSON sources that cannot lend a borrowed string (escaped literal, owned value)
    let (p3, e3) = (de_sources::<PackageName>(s).map(|o| o.map(|n| n.to_string())), de_sources::<ExtraName>(s).map(|o| o.map(|n| n.to_string())));
    if p3.iter().any(|x| *x != de) || e3.iter().any(|x| *x != e_de) {
        out.oracle_fail("C09", &format!("deserialization depends on how the JSON string is written / owned: PackageName {:?}, ExtraName {:?}", p3, e3), serde_json::json!({"name_hex": hex(s), "name": s}));
    }
    let dist = PackageName::from_str(s).ok().map(|n| n.as_dist_info_name().to_string());
    let want = spec(s);

    let input = serde_json::json!({"name_hex": hex(s), "name": s});
    if refd != want {
        out.oracle_fail("C09", &format!("PackageName::from_str gives {:?}, the PEP reading gives {:?}", refd, want), input.clone());
    }
    if owned != refd || de != refd || e_owned != refd || e_ref != refd || e_de != refd {
        out.oracle_fail("C09", &format!("constructors disagree: new={:?} from_str={:?} de={:?} extra new={:?} from_str={:?} de={:?}", owned, refd, de, e_owned, e_ref, e_de), input.clone());
    }
    if let Some(r) = &refd {
        let again = PackageName::new(r.clone()).ok().map(|n| n.to_string());
        if again.as_ref() != Some(r) {
            out.oracle_fail("C09", &format!("not idempotent: {:?} -> {:?}", r, again), input.clone());
        }
        if dist.as_deref() != Some(&r.replace('-', "_")) {
            out.oracle_fail("C09", &format!("dist-info name {:?} for {:?}", dist, r), input.clone());
        }
        // equality is equality of normal forms
        out.stat("accepted");
        if r != s { out.stat("accepted_changed"); }
        out.nontrivial(s.to_string());
    } else {
        out.stat("rejected");
    }
    let d = dist.map(|d| hex(&d)).unwrap_or_else(|| "-".into());
    out.case(
        format!("name\t{}", hex(s)),
        format!("ref={}\towned={}\tdist={}", show(&refd), show(&owned), d),
    );
}

pub fn run(out: &mut Out, tier: &str, seed: u64) {
    // bounded-exhaustive over one representative per character class
    let alphabet = ["a", "Z", "7", "-", "_", ".", " ", "é"];
    let max_len = if tier == "thorough" { 6 } else { 5 };
    let mut cur: Vec<String> = vec![String::new()];
    one(out, "");
    for _len in 1..=max_len {
        let mut next = Vec::with_capacity(cur.len() * alphabet.len());
        for p in &cur {
            for a in &alphabet {
                let s = format!("{p}{a}");
                one(out, &s);
                next.push(s);
            }
        }
        cur = next;
    }
    out.notes.push(format!("exhaustive: all strings of length <= {max_len} over {:?}", alphabet));
    // class boundaries: every string of length <= 3 over the first / last character of each class and
    // their ASCII neighbours
    let edges = ["a", "z", "A", "Z", "0", "9", "-", "_", ".", "/", ":", "@", "[", "`", "{", "~"];
    let mut cur: Vec<String> = vec![String::new()];
    for _ in 0..3 {
        let mut next = Vec::new();
        for p in &cur { for a in &edges { let s = format!("{p}{a}"); one(out, &s); next.push(s); } }
        cur = next;
    }
    // non-ASCII text: every byte of a name is judged as a byte — characters whose UTF-8 bytes read as Latin-1
    // letters / digits (ê = C3 AA, µ = C2 B5, ² = C2 B2, ¼ = C2 BC …) beside ones that do not (é, α, 日)
    let multi = ["a", "A", "_", "-", "\u{ea}", "\u{b5}", "\u{b2}", "\u{bc}", "\u{f5}", "\u{aa}", "\u{e9}", "\u{3b1}", "\u{65e5}", "\u{1F600}"];
    let mut cur: Vec<String> = vec![String::new()];
    for _ in 0..3 {
        let mut next = Vec::new();
        for p in &cur { for a in &multi { let s = format!("{p}{a}"); one(out, &s); next.push(s); } }
        cur = next;
    }
    // non-ASCII characters that Unicode relates to ASCII: every scalar whose lower- or upper-case mapping is pure
    // ASCII (K = U+212A KELVIN SIGN, ſ, ı …, found by scanning all scalars), and full-width / compatibility forms
    // of the name characters — none of them may be accepted or folded onto an ASCII name
    {
        let mut related: Vec<char> = (0x80u32..=0x10FFFF).filter_map(char::from_u32)
            .filter(|c| c.to_lowercase().all(|x| x.is_ascii()) || c.to_uppercase().all(|x| x.is_ascii())).collect();
        related.extend(['\u{FF21}', '\u{FF41}', '\u{FF10}', '\u{FF0D}', '\u{FF3F}', '\u{FF0E}', '\u{2010}', '\u{2024}', '\u{0130}', '\u{00DF}', '\u{FB01}', '\u{2160}', '\u{00B9}']);
        out.notes.push(format!("case-related scalars found: {:?}", related.iter().take(8).collect::<Vec<_>>()));
        for c in related {
            for s in [format!("{c}"), format!("a{c}"), format!("{c}a"), format!("a{c}b"), format!("a-{c}"), format!("{c}-9"), format!("a_{c}.b"), format!("flas{c}"), format!("{c}{c}")] {
                one(out, &s);
                out.stat("c09.case_related_non_ascii");
            }
        }
    }
    // random long names over a wider alphabet (mostly valid + hostile)
    let mut rng = Rng::new(seed);
    let wide: Vec<char> = "abcxyzABCXYZ0189---___...".chars().collect();
    let hostile: Vec<char> = " \t/@[]~é\u{3000}\u{0}+".chars().collect();
    let n = if tier == "thorough" { 60_000 } else { 6_000 };
    for _ in 0..n {
        let len = 1 + rng.below(40);
        let mut s = String::new();
        let bad = rng.chance(1, 6);
        for _ in 0..len {
            if bad && rng.chance(1, 10) {
                s.push(*rng.pick(&hostile));
            } else {
                s.push(*rng.pick(&wide));
            }
        }
        one(out, &s);
    }
    out.sample(serde_json::json!({"case": out.cases[out.cases.len()-1], "impl": out.impl_out[out.impl_out.len()-1]}));
    out.sample(serde_json::json!({"case": out.cases[1000.min(out.cases.len()-1)], "impl": out.impl_out[1000.min(out.cases.len()-1)]}));
}
