//! Marker text level: C06 (total parsing), C17 (meaningless comparisons), C01 (text = meaning),
//! C07's marker grammar.  Parsing runs in a worker process (panics poison the interner).
use crate::marker::*;
use crate::pyver::spec_sem;
use crate::util::*;
use crate::worker::Worker;
use pep440_rs::{Version, VersionPattern};
use pep508_rs::{MarkerExpression, MarkerTree, MarkerWarningKind, Pep508Error};
use std::str::FromStr;

pub fn warn_code(k: MarkerWarningKind) -> char {
    match k {
        MarkerWarningKind::DeprecatedMarkerName => 'D',
        MarkerWarningKind::ExtraInvalidComparison => 'X',
        MarkerWarningKind::LexicographicComparison => 'L',
        MarkerWarningKind::MarkerMarkerComparison => 'M',
        MarkerWarningKind::Pep440Error => 'P',
        MarkerWarningKind::StringStringComparison => 'S',
    }
}

fn err_line(e: &Pep508Error, input: &str) -> String {
    // rendering must not panic; the span must start on a char boundary inside the input or at its end
    let rendered = std::panic::catch_unwind(std::panic::AssertUnwindSafe(|| e.to_string())).ok();
    let disp = rendered.is_some();
    let boundary = e.start <= input.len() && input.is_char_boundary(e.start);
    format!("err {} {} disp={} boundary={}{}", e.start, e.len, disp as u8, boundary as u8, ul_field(rendered))
}

/// worker side: `m <hex>` parse a marker tree, `e <hex>` a marker expression
pub fn worker_handle(line: &str) -> String {
    let (mode, h) = line.split_once(' ').unwrap();
    let text = unhex(h);
    let mut warns: Vec<char> = Vec::new();
    let mut reporter = |k: MarkerWarningKind, _m: String| warns.push(warn_code(k));
    match mode {
        "m" => {
            let primary = MarkerTree::parse_reporter(&text, &mut reporter);
            // the other entry points for the same text: FromStr, parse_str, serde
            let same = |other: Result<MarkerTree, (usize, usize)>| match (&primary, other) {
                (Ok(a), Ok(b)) => *a == b,
                (Err(a), Err((s, l))) => a.start == s && a.len == l,
                _ => false,
            };
            let span = |e: pep508_rs::Pep508Error<pep508_rs::VerbatimUrl>| (e.start, e.len);
            let differ = if !same(MarkerTree::from_str(&text).map_err(span)) { " ENTRYPOINTS-DIFFER:from_str" }
                else if !same(MarkerTree::parse_str::<pep508_rs::VerbatimUrl>(&text).map_err(span)) { " ENTRYPOINTS-DIFFER:parse_str" }
                else {
                    let de: Result<MarkerTree, _> = serde_json::from_str(&serde_json::to_string(&text).unwrap());
                    if de.is_ok() != primary.is_ok() || de.ok().zip(primary.as_ref().ok()).is_some_and(|(a, b)| a != *b) { " ENTRYPOINTS-DIFFER:deserialize" } else { "" }
                };
            match primary {
                Ok(t) => {
                    let w: String = if warns.is_empty() { "-".into() } else { warns.iter().collect() };
                    format!("ok {} w={}{differ}", dump(&t), w)
                }
                Err(e) => format!("{}{differ}", err_line(&e, &text)),
            }
        }
        _ => match MarkerExpression::parse_reporter(&text, &mut reporter) {
            Ok(x) => {
                let w: String = if warns.is_empty() { "-".into() } else { warns.iter().collect() };
                match x {
                    Some(x) => format!("ok {} w={}", expr_line(&x), w),
                    None => format!("ok none w={}", w),
                }
            }
            Err(e) => err_line(&e, &text),
        },
    }
}

pub fn expr_line(x: &MarkerExpression) -> String {
    match x {
        MarkerExpression::Version { key, specifier } => {
            let op = match specifier.operator() {
                pep440_rs::Operator::Equal => "eq", pep440_rs::Operator::ExactEqual => "xeq", pep440_rs::Operator::NotEqual => "ne",
                pep440_rs::Operator::TildeEqual => "tilde", pep440_rs::Operator::LessThan => "lt", pep440_rs::Operator::LessThanEqual => "le",
                pep440_rs::Operator::GreaterThan => "gt", pep440_rs::Operator::GreaterThanEqual => "ge",
                pep440_rs::Operator::EqualStar => "eqs", pep440_rs::Operator::NotEqualStar => "nes",
            };
            let rel: Vec<String> = specifier.version().release().iter().map(|s| s.to_string()).collect();
            format!("V {} {} {}", VKEY_TOK[vkey_idx(key)], op, rel.join("."))
        }
        MarkerExpression::VersionIn { key, versions, negated } => {
            let mut s = format!("VI {} {} {}", VKEY_TOK[vkey_idx(key)], *negated as u8, versions.len());
            for v in versions {
                s.push(' ');
                s.push_str(&v.release().iter().map(|x| x.to_string()).collect::<Vec<_>>().join("."));
            }
            s
        }
        MarkerExpression::String { key, operator, value } => {
            let op = SOPS.iter().find(|o| o.1 == *operator).map(|o| o.0).unwrap_or("tilde");
            format!("S {} {} {}", skey_idx(key), op, hex(value))
        }
        MarkerExpression::Extra { operator, name } => {
            let neg = matches!(operator, pep508_rs::ExtraOperator::NotEqual) as u8;
            match name {
                pep508_rs::MarkerValueExtra::Extra(e) => format!("X {neg} e {}", hex(e.as_ref())),
                pep508_rs::MarkerValueExtra::Arbitrary(s) => format!("X {neg} a {}", hex(s)),
            }
        }
    }
}

/// the table of external answers (pep440_rs) for every candidate literal inside `text`
pub fn ext_table(text: &str) -> (String, String) {
    let chars: Vec<(usize, char)> = text.char_indices().collect();
    let mut cands: Vec<String> = Vec::new();
    for (a, &(i, q)) in chars.iter().enumerate() {
        if q != '\'' && q != '"' {
            continue;
        }
        for &(j, q2) in chars.iter().skip(a + 1) {
            if q2 == q {
                let s = &text[i + 1..j];
                cands.push(s.to_string());
                for piece in s.split(char::is_whitespace) {
                    if !piece.is_empty() {
                        cands.push(piece.to_string());
                    }
                }
                break; // a quoted string ends at the first matching quote
            }
        }
    }
    cands.sort();
    cands.dedup();
    let mut entries = Vec::new();
    for c in cands.iter().take(64) {
        let rel = |v: &Version| v.release().iter().map(|s| s.to_string()).collect::<Vec<_>>().join(".");
        let ver = match Version::from_str(c) {
            Ok(v) => format!("{}/{}", rel(&v), v.is_local() as u8),
            Err(_) => "-".into(),
        };
        let pat = match VersionPattern::from_str(c) {
            Ok(p) => {
                let star = p.is_wildcard();
                let v = p.into_version();
                format!("{}/{}/{}", rel(&v), v.is_local() as u8, star as u8)
            }
            Err(_) => "-".into(),
        };
        entries.push(format!("{}:{}:{}", hex(c), ver, pat));
    }
    let alpha: String = {
        let mut a: Vec<char> = text.chars().filter(|c| !c.is_ascii() && c.is_alphabetic()).collect();
        a.sort();
        a.dedup();
        a.into_iter().collect()
    };
    (hex(&alpha), entries.join(" "))
}

/// first three fields of a worker answer are what the model must reproduce
fn corr_part(ans: &str) -> String {
    if ans.starts_with("err ") {
        ans.split(' ').take(3).collect::<Vec<_>>().join(" ")
    } else if ans.starts_with("panic") || ans == "dead" {
        "panic".to_string()
    } else {
        ans.to_string()
    }
}

pub struct Parsed {
    pub answer: String,
}

/// run one text through the worker, record correspondence + C06 oracle
pub fn parse_case(out: &mut Out, w: &mut Worker, prop: &str, mode: &str, text: &str) -> Parsed {
    out.evaluations += 1;
    let ans = w.call(&format!("{mode} {}", hex(text)));
    // FromStr / parse_str / Deserialize must agree with parse_reporter (C01: every entry point, C05: deserialization)
    let ans = match ans.split_once(" ENTRYPOINTS-DIFFER:") {
        Some((a, which)) => {
            out.oracle_fail(if prop == "C05" { "C05" } else { "C01" }, &format!("MarkerTree::{which} and MarkerTree::parse_reporter disagree on the same text"), serde_json::json!({"text": text, "text_hex": hex(text), "entry": which}));
            a.to_string()
        }
        None => ans,
    };
    let (alpha, table) = ext_table(text);
    let cmd = if mode == "m" { "mparse" } else { "eparse" };
    let model_view = corr_part(&ans);
    // a model panic is reported as `panic <site>`; compare only the class
    out.case(format!("{cmd}\t{}\t{}\t{}", hex(text), alpha, table), model_view);
    let input = serde_json::json!({"text": text, "text_hex": hex(text), "entry": if mode == "m" { "MarkerTree::parse_reporter" } else { "MarkerExpression::parse_reporter" }});
    if ans.starts_with("panic") || ans == "dead" {
        out.oracle_fail(if prop == "C17" { "C17" } else { "C06" }, &format!("parsing panicked{}", if ans.contains("poisoned") { " and poisoned the interner: later marker operations in the process fail" } else { "" }), input.clone());
        out.stat("parse.panic");
    } else if ans.starts_with("err ") {
        out.stat("parse.err");
        if ans.contains("disp=0") {
            out.oracle_fail("C06", "the returned error cannot be formatted with Display (panic)", input.clone());
        }
        if ans.contains("boundary=0") {
            out.oracle_fail("C06", "the error span does not start on a char boundary inside the input", input.clone());
        }
        // the underline `Display` prints, against the Lean model of its slicing
        if prop == "C06" {
            if let Some((line, ul)) = errdisp_case(text, &ans, 1) { out.evaluations += 1; out.case(line, ul); out.stat("errdisp.cases"); }
        }
    } else {
        out.stat("parse.ok");
        if ans.contains("w=-") { out.stat("parse.ok_no_warning"); } else { out.stat("parse.ok_with_warning"); }
    }
    Parsed { answer: ans }
}

// ---------------------------------------------------------------------------------------------
// text generation

fn ws(rng: &mut Rng, must: bool) -> String {
    // (every ASCII character `char::is_whitespace` accepts — blank, tab, LF, VT, FF, CR — and some non-ASCII ones)
    let pool = [" ", "  ", "\t", " \t ", "\n", "\u{3000}", "\u{85}", "\u{a0} ", "\u{b}", "\u{c}", "\r", "\u{b}\u{c}"];
    match rng.below(if must { 10 } else { 14 }) {
        0..=6 => " ".to_string(),
        7..=9 => pool[rng.below(pool.len())].to_string(),
        _ => String::new(),
    }
}

/// render a term as marker text with a random layout: optional whitespace everywhere the grammar
/// allows it (including none between and/or and a parenthesis or quote), redundant parentheses,
/// either quote style, either operand order
pub fn layout(rng: &mut Rng, t: &Term, top: bool) -> Option<String> {
    let atom = |rng: &mut Rng, l: String, op: &str, r: String, word_op: bool| {
        // `in` / `not in` need whitespace before them when preceded by a key, not after a quote
        let pre = if word_op && !l.ends_with('\'') && !l.ends_with('"') { ws(rng, true) } else { ws(rng, false) };
        let post = if word_op && !r.starts_with('\'') && !r.starts_with('"') { ws(rng, true) } else { ws(rng, false) };
        format!("{l}{pre}{op}{post}{r}")
    };
    let q = |rng: &mut Rng, v: &str| -> Option<String> {
        let (has_s, has_d) = (v.contains('\''), v.contains('"'));
        if has_s && has_d { return None; }
        let quote = if has_s { '"' } else if has_d { '\'' } else if rng.chance(1, 2) { '"' } else { '\'' };
        Some(format!("{quote}{v}{quote}"))
    };
    Some(match t {
        Term::V(k, op, text) => {
            let (_, sym, star) = VOPS[*op];
            if *op == 9 { return None; }
            let lit = q(rng, &format!("{text}{}", if star { ".*" } else { "" }))?;
            if !star && rng.chance(1, 3) {
                let inv = match sym { "<" => ">", "<=" => ">=", ">" => "<", ">=" => "<=", s => s };
                atom(rng, lit, inv, VKEY_TEXT[*k].to_string(), false)
            } else {
                atom(rng, VKEY_TEXT[*k].to_string(), sym, lit, false)
            }
        }
        Term::VI(k, neg, texts) => {
            if texts.is_empty() { return None; }
            let sep = [" ", "  ", "\t", " \n "];
            let mut body = String::new();
            for (i, t) in texts.iter().enumerate() {
                if i > 0 { body.push_str(sep[rng.below(sep.len())]); }
                body.push_str(t);
            }
            if rng.chance(1, 4) { body = format!(" {body} "); }
            let op = if *neg { format!("not{}in", [" ", "  ", "\t"][rng.below(3)]) } else { "in".to_string() };
            let lit = q(rng, &body)?;
            atom(rng, VKEY_TEXT[*k].to_string(), &op, lit, true)
        }
        Term::S(k, op, v) => {
            let (tok, _, sym) = SOPS[*op];
            let lit = q(rng, v)?;
            let key = SKEY_TEXT[*k].to_string();
            match tok {
                "ct" | "notct" => {
                    let op = if tok == "ct" { "in".to_string() } else { format!("not{}in", [" ", "  "][rng.below(2)]) };
                    atom(rng, lit, &op, key, true)
                }
                "in" | "notin" => {
                    let op = if tok == "in" { "in".to_string() } else { format!("not{}in", [" ", "\t"][rng.below(2)]) };
                    atom(rng, key, &op, lit, true)
                }
                _ => {
                    if rng.chance(1, 3) {
                        let inv = match sym { "<" => ">", "<=" => ">=", ">" => "<", ">=" => "<=", s => s };
                        atom(rng, lit, inv, key, false)
                    } else {
                        atom(rng, key, sym, lit, false)
                    }
                }
            }
        }
        Term::X(neg, e) => {
            let lit = q(rng, e)?;
            let sym = if *neg { "!=" } else { "==" };
            if rng.chance(1, 3) { atom(rng, lit, sym, "extra".into(), false) } else { atom(rng, "extra".into(), sym, lit, false) }
        }
        Term::And(a, b) | Term::Or(a, b) => {
            let is_and = matches!(t, Term::And(..));
            let kw = if is_and { "and" } else { "or" };
            let side = |rng: &mut Rng, x: &Term| -> Option<String> {
                let s = layout(rng, x, false)?;
                // `and` binds tighter than `or`: parenthesise an `or` under `and`; otherwise parentheses are optional
                let need = is_and && matches!(x, Term::Or(..));
                // keep the AST: a same-operator child on the right is grouped explicitly
                Some(if need || rng.chance(1, 3) { format!("({}{s}{})", ws(rng, false), ws(rng, false)) } else { s })
            };
            let (l, r) = (side(rng, a)?, side(rng, b)?);
            // no whitespace is required between the keyword and a parenthesis / quote
            let pre = if l.ends_with(')') || l.ends_with('\'') || l.ends_with('"') { ws(rng, false) } else { ws(rng, true) };
            let post = if r.starts_with('(') || r.starts_with('\'') || r.starts_with('"') { ws(rng, false) } else { ws(rng, true) };
            let s = format!("{l}{pre}{kw}{post}{r}");
            if !top && !is_and { format!("({s})") } else { s }
        }
        _ => return None,
    })
}

/// meaning of a term read directly from PEP 508 / PEP 440 (`None` = carved out by the property)
pub fn term_sem(t: &Term, e: &CEnv) -> Option<bool> {
    let rel = |s: &str| Version::from_str(s).unwrap().release().to_vec();
    Some(match t {
        Term::T => true,
        Term::F => false,
        Term::V(k, op, text) => {
            let lit = rel(text);
            let star = VOPS[*op].2;
            if *k == 2 && star && lit.len() > 2 { return None; }
            spec_sem(VOPS[*op].0, &lit, &rel(&e.vers[*k]))
        }
        Term::VI(k, neg, texts) => {
            if *k == 2 && texts.iter().any(|t| rel(t).len() > 2) { return None; }
            let cand = rel(&e.vers[*k]);
            texts.iter().any(|t| spec_sem("eq", &rel(t), &cand)) != *neg
        }
        Term::S(k, op, v) => {
            let s = &e.strs[SKEY_FIELD[*k]];
            match SOPS[*op].0 {
                "eq" => s == v, "ne" => s != v, "gt" => s.as_str() > v.as_str(), "ge" => s.as_str() >= v.as_str(),
                "lt" => s.as_str() < v.as_str(), "le" => s.as_str() <= v.as_str(),
                "in" => v.contains(s.as_str()), "notin" => !v.contains(s.as_str()),
                "ct" => s.contains(v.as_str()), _ => !s.contains(v.as_str()),
            }
        }
        Term::X(neg, text) => {
            // (validity and normal form by the independent reading of the name rules, not by the crate's constructor)
            let member = crate::names::spec(text).map(|n| e.extras.iter().any(|a| crate::names::spec(a).as_deref() == Some(n.as_str()))).unwrap_or(false);
            member != *neg
        }
        Term::And(a, b) => match (term_sem(a, e), term_sem(b, e)) {
            (Some(false), _) | (_, Some(false)) => false,
            (Some(x), Some(y)) => x && y,
            _ => return None,
        },
        Term::Or(a, b) => match (term_sem(a, e), term_sem(b, e)) {
            (Some(true), _) | (_, Some(true)) => true,
            (Some(x), Some(y)) => x || y,
            _ => return None,
        },
        Term::Not(a) => !term_sem(a, e)?,
        _ => return None,
    })
}

pub fn gen_parse_term(rng: &mut Rng, p: &Pools, depth: usize) -> Term {
    if depth == 0 || rng.chance(1, 4) {
        loop {
            let a = gen_atom(rng, p, true);
            if matches!(&a, Term::V(_, 9, _)) { continue; }
            if let Term::VI(_, _, t) = &a { if t.is_empty() { continue; } }
            return a;
        }
    }
    if rng.chance(1, 2) { Term::and(gen_parse_term(rng, p, depth - 1), gen_parse_term(rng, p, depth - 1)) } else { Term::or(gen_parse_term(rng, p, depth - 1), gen_parse_term(rng, p, depth - 1)) }
}

fn hostile(rng: &mut Rng, base: &str) -> String {
    let junk = ["é", "\u{3000}", "\u{85}", "\0", "'", "\"", "(", ")", "~=", "===", " not ", " in ", "and", "or", "ü", "漢", "\u{1F600}", "\\", ";", ",", "<", ">=", "not", "notin"];
    let mut s: Vec<char> = base.chars().collect();
    for _ in 0..1 + rng.below(3) {
        match rng.below(4) {
            0 => { let i = rng.below(s.len() + 1); for (k, c) in rng.pick(&junk).chars().enumerate() { s.insert((i + k).min(s.len()), c); } }
            1 => if !s.is_empty() { let i = rng.below(s.len()); s.remove(i); },
            2 => if !s.is_empty() { let i = rng.below(s.len()); s.truncate(i); },
            _ => if !s.is_empty() { let i = rng.below(s.len()); let c = s[i]; s.insert(i, c); },
        }
    }
    s.into_iter().collect()
}


/// a marker text with uninterpretable comparisons inserted at arbitrary positions, together with the
/// same text without them (`None`: nothing remains).  kind: 0 leaf, 1 and, 2 or
fn gen_with_dropped(rng: &mut Rng, depth: usize, inserted: &mut usize) -> (String, Option<String>, u8) {
    let meaningful = ["os_name == 'nt'", "python_version >= '3.8'", "extra == 'dev'", "sys_platform != 'win32'", "'arm' in platform_machine", "python_full_version < '3.10.2'", "implementation_name == 'cpython'"];
    let dropped = ["'a' == 'b'", "os_name == sys_platform", "python_version == 'abc'", "'abc' <= python_version", "os_name ~= 'x'", "'x' ~= os_name", "extra < 'x'", "'x' in extra", "extra in 'x'", "python_version >= os_name", "extra == os_name", "'1' not in '2'"];
    let wrap = |rng: &mut Rng, t: (String, Option<String>, u8), must: bool| -> (String, Option<String>) {
        let k = if must { 1 + rng.below(2) } else { match rng.below(5) { 0 => 1, 1 => 2, _ => 0 } };
        let (mut w, mut wo) = (t.0, t.1);
        for _ in 0..k { w = format!("({w})"); wo = wo.map(|x| format!("({x})")); }
        (w, wo)
    };
    if depth == 0 || rng.chance(1, 4) {
        if rng.chance(2, 5) { *inserted += 1; return (rng.pick(&dropped).to_string(), None, 0); }
        let m = rng.pick(&meaningful).to_string();
        return (m.clone(), Some(m), 0);
    }
    let is_and = rng.chance(1, 2);
    let l = gen_with_dropped(rng, depth - 1, inserted);
    let r = gen_with_dropped(rng, depth - 1, inserted);
    let (lk, rk) = (l.2, r.2);
    let (lw, lwo) = wrap(rng, l, is_and && lk == 2);
    let (rw, rwo) = wrap(rng, r, is_and && rk == 2);
    let op = if is_and { "and" } else { "or" };
    let wo = match (lwo, rwo) {
        (Some(a), Some(b)) => Some(format!("({a}) {op} ({b})")),
        (Some(a), None) | (None, Some(a)) => Some(a),
        (None, None) => None,
    };
    (format!("{lw} {op} {rw}"), wo, if is_and { 1 } else { 2 })
}

/// every kind of operand for the C17 table
fn operand_texts() -> Vec<(&'static str, Vec<&'static str>)> {
    vec![
        ("verkey", vec!["python_version", "python_full_version", "implementation_version"]),
        ("strkey", vec!["os_name", "sys.platform", "platform_machine"]),
        ("extra", vec!["extra"]),
        ("quoted", vec!["'3.8'", "\"linux\"", "'3.8.*'", "'not a version'", "'dev'", "'3.8 3.9'", "''", "'1.0+local'", "'3'"]),
    ]
}

pub fn run(out: &mut Out, tier: &str, seed: u64, prop: &str) {
    let mut rng = Rng::new(seed ^ 0x5151);
    let big = tier == "thorough";
    let p = pools();
    let mut w = Worker::spawn("mparse");
    // ---- (1) the dispatch table: every operand kind × operator × operand kind, both orders ----
    if prop == "C17" || prop == "C06" {
        let ops = ["==", "!=", "<", "<=", ">", ">=", "~=", "in", "not in", "===", "not  in"];
        let kinds = operand_texts();
        for (lk, ls) in &kinds {
            for (rk, rs) in &kinds {
                for op in ops {
                    for l in ls {
                        for r in rs {
                            let text = format!("{l} {op} {r}");
                            let pa = parse_case(out, &mut w, prop, "e", &text);
                            let pm = parse_case(out, &mut w, prop, "m", &format!("os_name == 'a' and {text}"));
                            out.nontrivial(format!("{lk} {op} {rk}"));
                            if prop == "C17" { c17_oracle(out, &mut w, lk, op, rk, l, r, &text, &pa.answer, &pm.answer); }
                        }
                    }
                }
            }
        }
    }
    // ---- uninterpretable comparisons at any position, inside any parenthesised group --------------
    if prop == "C17" {
        let n = if big { 6000 } else { 1500 };
        for _ in 0..n {
            let mut inserted = 0;
            let depth = 1 + rng.below(3);
            let (with, without, _) = gen_with_dropped(&mut rng, depth, &mut inserted);
            if inserted == 0 { continue; }
            let pa = parse_case(out, &mut w, prop, "m", &with);
            let input = serde_json::json!({"text": with, "without": without, "answer": pa.answer});
            let Some(d) = pa.answer.strip_prefix("ok ") else {
                out.oracle_fail("C17", "a marker containing an uninterpretable comparison is rejected instead of parsed with a warning", input);
                continue;
            };
            let (got, warns) = d.rsplit_once(" w=").unwrap_or((d, "-"));
            let want = match &without { Some(t) => MarkerTree::from_str(t).map(|m| dump(&m)).unwrap_or_default(), None => dump(&MarkerTree::TRUE) };
            if got != want {
                out.oracle_fail("C17", "the marker is not the marker with exactly the uninterpretable comparisons removed", input.clone());
            }
            if warns == "-" { out.oracle_fail("C17", "an uninterpretable comparison was dropped without any warning", input.clone()); }
            // collecting evaluation warnings (marker level and requirement level, whose bracket extras differ from
            // the active ones) never changes an evaluation result
            if out.stats_get("c17.positions") % 3 == 0 {
                use std::str::FromStr;
                let r = std::panic::catch_unwind(|| pep508_rs::Requirement::<pep508_rs::VerbatimUrl>::from_str(&format!("pkg[dev,zzz] ; {with}")));
                if let Ok(Ok(req)) = r {
                    for xs in [vec![], vec!["dev"], vec!["x"], vec!["dev", "zzz"], vec!["test", "foo-bar"]] {
                        let mut e = CEnv::default_env();
                        e.extras = xs.iter().map(|x| x.to_string()).collect();
                        let (env, extras) = (e.env(), e.extras());
                        let plain = req.evaluate_markers(&env, &extras);
                        let (collected, _w) = req.evaluate_markers_and_report(&env, &extras);
                        let m1 = req.marker.evaluate(&env, &extras);
                        let m2 = req.marker.evaluate_collect_warnings(&env, &extras).0;
                        let mut sink = |_k: MarkerWarningKind, _m: String| {};
                        let m3 = req.marker.evaluate_reporter(&env, &extras, &mut sink);
                        out.evaluations += 1;
                        if plain != collected || m1 != m2 || m1 != m3 || plain != m1 {
                            out.oracle_fail("C17", &format!("collecting evaluation warnings / the choice of reporter changes the result: evaluate_markers {plain}, evaluate_markers_and_report {collected}, marker evaluate {m1}, _collect_warnings {m2}, _reporter {m3}"), serde_json::json!({"text": format!("pkg[dev,zzz] ; {with}"), "active_extras": xs}));
                        }
                    }
                    out.stat("c17.requirement_level_evaluations");
                }
            }
            // the same warnings reach the reporter a REQUIREMENT parser was given (named; unnamed with the extension feature)
            {
                let codes = |f: &mut dyn FnMut(&mut dyn FnMut(MarkerWarningKind, String))| -> String { let mut v: Vec<char> = Vec::new(); f(&mut |k, _m| v.push(warn_code(k))); v.into_iter().collect() };
                let named = codes(&mut |rep| { let mut r = |k: MarkerWarningKind, m: String| rep(k, m); let _ = std::panic::catch_unwind(std::panic::AssertUnwindSafe(|| pep508_rs::Requirement::<pep508_rs::VerbatimUrl>::parse_reporter(&format!("pkg>=1 ; {with}"), "/work", &mut r))); });
                out.evaluations += 1;
                if named != warns { out.oracle_fail("C17", &format!("Requirement::parse_reporter passes other warnings to the supplied reporter ({named:?}) than MarkerTree::parse_reporter reports for the marker ({warns:?})"), input.clone()); }
                #[cfg(feature = "ext")]
                {
                    // … behind URLs of several shapes (also ones that end in `#` / `;`, or carry extras): accepted, the marker is the marker
                    // with the comparisons removed, the same warnings
                    for url in ["https://example.org/p-1.0-py3-none-any.whl", "https://example.org/p.whl#", "/srv/p-1.0.tar.gz;", "/srv/x.whl#[tests]", "./rel/p.whl[a,b]"] {
                        let mut parsed: Option<Result<String, String>> = None;
                        let unnamed = codes(&mut |rep| { let mut r = |k: MarkerWarningKind, m: String| rep(k, m);
                            parsed = std::panic::catch_unwind(std::panic::AssertUnwindSafe(|| pep508_rs::UnnamedRequirement::<pep508_rs::VerbatimUrl>::parse(&format!("{url} ; {with}"), "/work", &mut r))).ok().map(|r| r.map(|u| dump(&u.marker)).map_err(|e| e.message.to_string())); });
                        out.evaluations += 1;
                        let uinput = serde_json::json!({"text": format!("{url} ; {with}"), "feature": "non-pep508-extensions"});
                        match parsed {
                            Some(Ok(m)) => if m != want { out.oracle_fail("C17", "UnnamedRequirement::parse: the marker is not the marker with exactly the uninterpretable comparisons removed", uinput.clone()); },
                            Some(Err(e)) => out.oracle_fail("C17", &format!("UnnamedRequirement::parse rejects a requirement whose marker contains an uninterpretable comparison: {e}"), uinput.clone()),
                            None => out.oracle_fail("C06", "UnnamedRequirement::parse panicked", uinput.clone()),
                        }
                        if unnamed != warns { out.oracle_fail("C17", &format!("UnnamedRequirement::parse passes other warnings to the supplied reporter ({unnamed:?}) than MarkerTree::parse_reporter reports for the marker ({warns:?})"), uinput.clone()); }
                    }
                    out.stat("c17.unnamed_reporter");
                }
            }
            out.stat("c17.positions");
            out.nontrivial(with.clone());
        }
    }
    // ---- corpus of minimised past failures / recorded findings, first ----------------------------
    if prop == "C06" || prop == "C07" || prop == "C17" {
        for line in std::fs::read_to_string("/verif/corpus/marker.txt").unwrap_or_default().lines() {
            if line.starts_with('#') || line.is_empty() { continue; }
            let (tag, rest) = line.split_once('\t').unwrap_or(("any", line));
            if tag != "any" && tag != prop { continue; }
            let text = crate::req::unescape(rest);
            let pa = parse_case(out, &mut w, prop, "m", &text);
            out.stat("corpus.cases");
            if prop == "C07" && tag == "C07" && !pa.answer.starts_with("ok ") {
                out.oracle_fail("C07", &format!("a marker derivable from the PEP 508 grammar is rejected: {}", pa.answer), serde_json::json!({"text": text, "class": "corpus"}));
            }
        }
    }
    // ---- trailing input of every width mix after a complete marker: the error span is counted in
    //      chars there, so its end can land 1, 2 or 3 bytes inside a character ------------------------
    if prop == "C06" {
        let alphabet = ["a", "é", "語", "\u{1F600}"];
        let maxlen = if big { 6 } else { 5 };
        let mut seqs: Vec<String> = vec![String::new()];
        let mut frontier = seqs.clone();
        for _ in 0..maxlen {
            let mut next = vec![];
            for s in &frontier { for a in alphabet { next.push(format!("{s}{a}")); } }
            seqs.extend(next.iter().cloned());
            frontier = next;
        }
        for s in seqs.iter().skip(1) {
            for (mode, pre) in [("m", "os_name == 'a' "), ("e", "os_name == 'a' "), ("m", "(os_name == 'a')x")] {
                parse_case(out, &mut w, prop, mode, &format!("{pre}{s}"));
                out.stat("trailing.width_mix");
            }
            out.nontrivial(format!("trail {}", s.chars().map(|c| c.len_utf8().to_string()).collect::<String>()));
        }
    }
    // ---- (2) derivations × layouts --------------------------------------------------------------
    let n = if big { 4000 } else { 700 };
    let mut terms: Vec<Term> = Vec::new();
    for _ in 0..n { let depth = rng.below(4); terms.push(gen_parse_term(&mut rng, &p, depth)); }
    if prop == "C01" {
        // and / or as boolean connectives over REPEATED boolean atoms (extra, in, contains) of either polarity:
        // (±A o1 ±B) o2 (±A o3 ±B) for every pair of atoms, every sign pattern, every operator pattern
        let atoms: Vec<(Term, Term)> = vec![
            (Term::X(false, "a".into()), Term::X(true, "a".into())),
            (Term::X(false, "b".into()), Term::X(true, "b".into())),
            (Term::S(1, 6, "nt java".into()), Term::S(1, 7, "nt java".into())),
            (Term::S(12, 8, "lin".into()), Term::S(12, 9, "lin".into())),
        ];
        let pick = |a: &(Term, Term), pos: bool| if pos { a.0.clone() } else { a.1.clone() };
        let bin = |is_and: bool, l: Term, r: Term| if is_and { Term::and(l, r) } else { Term::or(l, r) };
        for i in 0..atoms.len() {
            for j in (i + 1)..atoms.len() {
                for signs in 0..16u32 {
                    for ops in 0..8u32 {
                        if !big && (signs + ops + (i + j) as u32) % 3 != 0 { continue; }
                        let l = bin(ops & 1 != 0, pick(&atoms[i], signs & 1 != 0), pick(&atoms[j], signs & 2 != 0));
                        let r = bin(ops & 4 != 0, pick(&atoms[i], signs & 4 != 0), pick(&atoms[j], signs & 8 != 0));
                        terms.push(bin(ops & 2 != 0, l, r));
                        out.stat("c01.repeated_boolean_atoms");
                    }
                }
            }
        }
    }
    if prop == "C01" {
        // the environment API: an environment assembled field by field with the `with_*` setters (in any order, from
        // any other environment) is the environment the builder makes; every accessor and `get_string` / `get_version`
        // answer the field of that name; setting a field on a clone leaves the original alone; serde round trip
        use pep508_rs::{MarkerValueString as MS, MarkerValueVersion as MV, StringVersion};
        let probes: Vec<Term> = (0..24).map(|_| gen_parse_term(&mut rng, &p, 2)).collect();
        for round in 0..(if big { 200 } else { 40 }) {
            let envs = region_envs(&mut rng, &probes.iter().collect::<Vec<_>>(), 2);
            if envs.len() < 2 { continue; }
            let (c1, c2) = (&envs[0], &envs[1]);
            let (e1, want) = (c1.env(), c2.env());
            let before = e1.clone();
            let sv = |t: &str| StringVersion::from_str(t).unwrap();
            let mut order: Vec<usize> = (0..11).collect();
            for i in (1..order.len()).rev() { let j = rng.below(i + 1); order.swap(i, j); }
            let mut got = e1.clone();
            for f in &order {
                got = match f {
                    0 => got.with_implementation_name(c2.strs[0].clone()),
                    1 => got.with_implementation_version(sv(&c2.vers[0])),
                    2 => got.with_os_name(c2.strs[1].clone()),
                    3 => got.with_platform_machine(c2.strs[2].clone()),
                    4 => got.with_platform_python_implementation(c2.strs[3].clone()),
                    5 => got.with_platform_release(c2.strs[4].clone()),
                    6 => got.with_platform_system(c2.strs[5].clone()),
                    7 => got.with_platform_version(c2.strs[6].clone()),
                    8 => got.with_python_full_version(sv(&c2.vers[1])),
                    9 => got.with_python_version(sv(&c2.vers[2])),
                    _ => got.with_sys_platform(c2.strs[7].clone()),
                };
            }
            out.evaluations += 1;
            let input = serde_json::json!({"from": c1.line(), "to": c2.line(), "order": order, "round": round});
            if got != want { out.oracle_fail("C01", "an environment assembled with the with_* setters differs from the one the builder makes from the same values", input.clone()); }
            if e1 != before { out.oracle_fail("C01", "setting fields on a clone of an environment changed the original", input.clone()); }
            let acc = [got.implementation_name(), got.os_name(), got.platform_machine(), got.platform_python_implementation(), got.platform_release(), got.platform_system(), got.platform_version(), got.sys_platform()];
            if acc.iter().zip(c2.strs.iter()).any(|(a, b)| *a != b.as_str()) { out.oracle_fail("C01", "an accessor of the environment does not return the field of its name", input.clone()); }
            let by_key = [(MS::ImplementationName, 0usize), (MS::OsName, 1), (MS::OsNameDeprecated, 1), (MS::PlatformMachine, 2), (MS::PlatformMachineDeprecated, 2), (MS::PlatformPythonImplementation, 3),
                (MS::PlatformPythonImplementationDeprecated, 3), (MS::PythonImplementationDeprecated, 3), (MS::PlatformRelease, 4), (MS::PlatformSystem, 5), (MS::PlatformVersion, 6), (MS::PlatformVersionDeprecated, 6),
                (MS::SysPlatform, 7), (MS::SysPlatformDeprecated, 7)];
            for (k, i) in by_key { if got.get_string(&k) != c2.strs[i] { out.oracle_fail("C01", &format!("get_string({k}) does not return the field of that name"), input.clone()); } }
            for (k, i) in [(MV::ImplementationVersion, 0usize), (MV::PythonFullVersion, 1), (MV::PythonVersion, 2)] {
                if *got.get_version(&k) != pep440_rs::Version::from_str(&c2.vers[i]).unwrap() { out.oracle_fail("C01", &format!("get_version({k}) does not return the field of that name"), input.clone()); }
            }
            if got.implementation_version().to_string() != c2.vers[0] || got.python_full_version().to_string() != c2.vers[1] || got.python_version().to_string() != c2.vers[2] {
                out.oracle_fail("C01", "a version accessor of the environment does not return the text it was given", input.clone());
            }
            {
                // StringVersion: the text as given, the version it parses to, and the conversion from a version
                use std::ops::Deref;
                let v = pep440_rs::Version::from_str(&c2.vers[1]).unwrap();
                let svv = StringVersion::from(v.clone());
                if svv.string != v.to_string() || *svv.deref() != v || got.python_full_version().deref() != &v || got.python_full_version().string != c2.vers[1] {
                    out.oracle_fail("C01", "StringVersion: text / version / From<Version> / Deref disagree", input.clone());
                }
            }
            match serde_json::to_string(&got).ok().and_then(|j| serde_json::from_str::<pep508_rs::MarkerEnvironment>(&j).ok()) {
                Some(back) => if back != got { out.oracle_fail("C01", "an environment does not survive its serde round trip", input.clone()); },
                None => out.oracle_fail("C01", "an environment cannot be serialized and read back", input.clone()),
            }
            {
                // the JSON form uses the PEP 508 names, each with the text of that field (an environment is exchanged between
                // processes and tools in this form: the round trip inside one process cannot see two crossed names)
                let named: Vec<(&str, &str)> = vec![("implementation_name", &c2.strs[0]), ("implementation_version", &c2.vers[0]), ("os_name", &c2.strs[1]), ("platform_machine", &c2.strs[2]),
                    ("platform_python_implementation", &c2.strs[3]), ("platform_release", &c2.strs[4]), ("platform_system", &c2.strs[5]), ("platform_version", &c2.strs[6]),
                    ("python_full_version", &c2.vers[1]), ("python_version", &c2.vers[2]), ("sys_platform", &c2.strs[7])];
                let literal: serde_json::Value = serde_json::Value::Object(named.iter().map(|(k, v)| (k.to_string(), serde_json::Value::String(v.to_string()))).collect());
                match serde_json::to_value(&got) {
                    Ok(j) => if j != literal { out.oracle_fail("C01", "the JSON form of an environment does not carry each field under its PEP 508 name", serde_json::json!({"env": c2.line(), "json": j, "expected": literal})); },
                    Err(_) => out.oracle_fail("C01", "an environment cannot be serialized", input.clone()),
                }
                match serde_json::from_value::<pep508_rs::MarkerEnvironment>(literal.clone()) {
                    Ok(e) => if e != want { out.oracle_fail("C01", "an environment read from JSON written with the PEP 508 names is not the environment with those values", serde_json::json!({"env": c2.line(), "json": literal})); },
                    Err(err) => out.oracle_fail("C01", &format!("an environment written with the PEP 508 names cannot be read: {err}"), serde_json::json!({"json": literal})),
                }
            }
            if serde_json::to_value(&got).ok().and_then(|v| serde_json::from_value::<pep508_rs::MarkerEnvironment>(v).ok()).as_ref() != Some(&got) {
                out.oracle_fail("C01", "an environment does not survive serialization to an owned JSON value", input.clone());
            }
            for t in &probes {
                let m = t.build();
                if got.clone().eq(&want) && m.evaluate(&got, &c2.extras()) != m.evaluate(&want, &c2.extras()) { out.oracle_fail("C01", "equal environments evaluate differently", input.clone()); }
            }
            out.stat("c01.environment_api");
        }
        // field values with blanks, tabs and line breaks at either end (as `platform.version()` output may have): every way of
        // making an environment — builder, setter, serde — keeps the text exactly, and evaluation reads exactly that text
        for field in 0..8usize {
            for val in ["x\n", "\nx", "x ", " x", "x\r\n", "\t", "x\u{a0}", "\n", "#1 SMP Fri Apr 25 13:07:35 EDT 2014\n", " \u{3000}x\u{3000} "] {
                let mut c = CEnv::default_env();
                c.strs[field] = val.to_string();
                let built = c.env();
                let via_setter = {
                    let base = CEnv::default_env().env();
                    match field { 0 => base.with_implementation_name(val), 1 => base.with_os_name(val), 2 => base.with_platform_machine(val), 3 => base.with_platform_python_implementation(val),
                        4 => base.with_platform_release(val), 5 => base.with_platform_system(val), 6 => base.with_platform_version(val), _ => base.with_sys_platform(val) }
                };
                let via_serde = serde_json::to_value(&via_setter).ok().and_then(|v| serde_json::from_value::<pep508_rs::MarkerEnvironment>(v).ok());
                let read = |e: &pep508_rs::MarkerEnvironment| -> String { [e.implementation_name(), e.os_name(), e.platform_machine(), e.platform_python_implementation(), e.platform_release(), e.platform_system(), e.platform_version(), e.sys_platform()][field].to_string() };
                out.evaluations += 1;
                let fname = ["implementation_name", "os_name", "platform_machine", "platform_python_implementation", "platform_release", "platform_system", "platform_version", "sys_platform"][field];
                let input = serde_json::json!({"field": fname, "value": val});
                if read(&built) != val || read(&via_setter) != val || via_serde.as_ref().map(|e| read(e)) != Some(val.to_string()) || built != via_setter {
                    out.oracle_fail("C01", "an environment field with whitespace at an end is not kept exactly by the builder / the setter / serde (or the three disagree)", input.clone());
                }
                // key index of the canonical spelling of that field in the harness's key table
                let key = [0usize, 1, 3, 5, 8, 9, 10, 12][field];
                for (t, want) in [(Term::S(key, 0, val.to_string()), true), (Term::S(key, 1, val.to_string()), false), (Term::S(key, 0, val.trim().to_string()), val.trim() == val)] {
                    let m = t.build();
                    if m.evaluate(&built, &[]) != want { out.oracle_fail("C01", "a comparison with a field value that has whitespace at an end is evaluated against another text", input.clone()); }
                }
                out.stat("c01.environment_whitespace_values");
            }
        }
    }
    for t in terms {
        let Some(text) = layout(&mut rng, &t, true) else { continue };
        let pa = parse_case(out, &mut w, prop, "m", &text);
        if prop == "C01" || prop == "C07" {
            // accepted, and equal to the marker built from the AST through the typed API
            if !pa.answer.starts_with("ok ") {
                out.oracle_fail(prop, &format!("a marker derivable from the PEP 508 grammar is rejected: {}", pa.answer), serde_json::json!({"text": text, "ast": t.line()}));
                continue;
            }
            let built = match std::panic::catch_unwind(std::panic::AssertUnwindSafe(|| t.build())) { Ok(m) => m, Err(_) => { out.oracle_fail(prop, "panic building the AST", serde_json::json!({"ast": t.line()})); return } };
            let want = dump(&built);
            let got = pa.answer[3..].rsplit_once(" w=").map(|x| x.0).unwrap_or("");
            if got != want {
                out.oracle_fail(prop, "the parsed marker differs from the marker denoted by the derivation (layout / parentheses / operand order / quotes must not matter)", serde_json::json!({"text": text, "ast": t.line(), "parsed": got, "expected": want}));
            }
            out.nontrivial(text.clone());
            if prop == "C01" {
                // every entry point agrees with the PEP reading of the AST on region environments
                let envs = region_envs(&mut rng, &[&t], 12);
                for e in &envs {
                    let Some(want) = term_sem(&t, e) else { out.stat("c01.carved_out"); continue };
                    let env = e.env();
                    let xs = e.extras();
                    let r1 = built.evaluate(&env, &xs);
                    let mut sink = |_k: MarkerWarningKind, _m: String| {};
                    let r2 = built.evaluate_reporter(&env, &xs, &mut sink);
                    let r3 = built.evaluate_collect_warnings(&env, &xs).0;
                    let r4 = built.evaluate_optional_environment(Some(&env), &xs);
                    // … and through a requirement that carries the marker: one without extras of its own, one requested WITH extras (among
                    // them the ones the marker mentions) — the extras a dependency is requested with are not the active extras
                    let own: Vec<pep508_rs::ExtraName> = ["dev", "test", "a", "b", "py39", "foo-bar"].iter().map(|n| pep508_rs::ExtraName::from_str(n).unwrap()).collect();
                    let mk = |extras: Vec<pep508_rs::ExtraName>| pep508_rs::Requirement::<pep508_rs::VerbatimUrl> { name: pep508_rs::PackageName::from_str("pkg").unwrap(), extras, version_or_url: None, marker: built.clone(), origin: None };
                    let (q0, q1) = (mk(vec![]), mk(own));
                    let r5 = [q0.evaluate_markers(&env, &xs), q1.evaluate_markers(&env, &xs), q1.evaluate_markers(&env, &[]) == built.evaluate(&env, &[]), q1.evaluate_markers_and_report(&env, &xs).0];
                    if r5[0] != want || r5[1] != want || !r5[2] || r5[3] != want {
                        out.oracle_fail("C01", "Requirement::evaluate_markers (on a requirement with / without extras of its own) differs from the PEP 508 reading of its marker", serde_json::json!({"text": text, "env": e.line(), "answers": format!("{r5:?}"), "want": want}));
                        break;
                    }
                    if r1 != want || r2 != want || r3 != want || r4 != want {
                        out.oracle_fail("C01", &format!("evaluation gives {r1}/{r2}/{r3}/{r4} (evaluate / _reporter / _collect_warnings / _optional_environment), the PEP 508 reading of the text gives {want}"), serde_json::json!({"text": text, "ast": t.line(), "env": e.line()}));
                        break;
                    }
                    if want { out.stat("c01.true") } else { out.stat("c01.false") }
                }
            }
        }
    }
    // ---- (2c) a stray token where `and` / `or` / the end is expected: ASCII and not, alone, glued to a keyword, and FOLLOWED by a
    //      blank, a parenthesis or a quote (the keyword probe measures the token; what follows decides which length it takes)
    if prop == "C06" {
        for prefix in ["os_name == 'a' ", "(os_name == 'a' ", "python_version >= '3.8' and os_name == 'a' ", "'x' in os_name "] {
            for stray in ["\u{e9}", "and\u{e9}", "or\u{e9}", "\u{fc}", "x\u{301}", "\u{1F600}", "\u{65e5}\u{672c}", "a\u{e9}b", "\u{e9}\u{e9}\u{e9}", "and\u{1F600}", "\u{2013}", "andx", "x"] {
                for follower in ["", " b", " os_name == 'b'", "(os_name == 'b')", "'b' == os_name", "\"b\" == os_name", ")", " )", "\t(", " \u{e9}"] {
                    let text = format!("{prefix}{stray}{follower}");
                    let pa = parse_case(out, &mut w, prop, "m", &text);
                    let _ = pa;
                    out.stat("c06.stray_token_cases");
                }
            }
        }
    }
    // ---- (3) hostile inputs -----------------------------------------------------------------------
    if prop == "C06" || prop == "C17" {
        let n = if big { 6000 } else { 1200 };
        let seeds = ["os_name == 'a'", "python_version >= '3.8' and (sys_platform == \"linux\" or extra == 'dev')", "'3.8' < python_full_version", "os_name not in 'ab'", "'x' in os_name", "", "(", "os_name", "python_version in '3.8 3.9'"];
        for i in 0..n {
            let base = if i % 3 == 0 { let t = gen_parse_term(&mut rng, &p, 2); layout(&mut rng, &t, true).unwrap_or_default() } else { rng.pick(&seeds).to_string() };
            let text = hostile(&mut rng, &base);
            parse_case(out, &mut w, prop, if i % 5 == 0 { "e" } else { "m" }, &text);
        }
    }
    out.stat_n("worker.restarts", w.restarts);
    let n = out.cases.len();
    if n > 0 {
        out.sample(serde_json::json!({"case": out.cases[n / 2], "impl": out.impl_out[n / 2]}));
        out.sample(serde_json::json!({"case": out.cases[n - 1], "impl": out.impl_out[n - 1]}));
    }
}

/// C17: an uninterpretable comparison is reported (matching kind) and dropped
#[allow(clippy::too_many_arguments)]
fn c17_oracle(out: &mut Out, _w: &mut Worker, lk: &str, op: &str, rk: &str, l: &str, r: &str, text: &str, expr_ans: &str, tree_ans: &str) {
    if !expr_ans.starts_with("ok ") {
        return; // operator not in the grammar (`===`) etc.: a syntax error, not a meaningless comparison
    }
    let warns = expr_ans.rsplit_once(" w=").map(|x| x.1).unwrap_or("-");
    let dropped = expr_ans.starts_with("ok none");
    let word_op = op.contains("in");
    let order = ["==", "!=", "<", "<=", ">", ">=", "~="].contains(&op);
    // which warning kind the property names for each uninterpretable shape
    let expect: Option<char> = match (lk, rk) {
        ("quoted", "quoted") => Some('S'),
        ("verkey", k) | (k, "verkey") if k != "quoted" => Some(if lk == "verkey" { 'P' } else if lk == "strkey" { 'M' } else { 'X' }),
        ("strkey", "strkey") | ("strkey", "extra") => Some('M'),
        ("extra", "strkey") | ("extra", "extra") => Some('X'),
        ("strkey", "quoted") | ("quoted", "strkey") if op == "~=" => Some('L'),
        ("extra", "quoted") | ("quoted", "extra") if op != "==" && op != "!=" => Some('X'),
        _ => None,
    };
    let _ = (word_op, order);
    let input = serde_json::json!({"text": text, "answer": expr_ans});
    // a version key against a wildcard literal: PEP 440 has `== X.*` / `!= X.*` with the key on the LEFT only;
    // the reversed spelling and every other operator are not comparisons — reported (P) and dropped
    {
        let (key_left, lit) = if lk == "verkey" && rk == "quoted" { (true, r) } else if lk == "quoted" && rk == "verkey" { (false, l) } else { (true, "") };
        if lit.contains(".*") && !word_op && (!key_left || !(op == "==" || op == "!=")) {
            if !dropped { out.oracle_fail("C17", "a wildcard literal in a position PEP 440 does not define was kept instead of dropped", input.clone()); }
            if !warns.contains('P') { out.oracle_fail("C17", &format!("a wildcard literal in a position PEP 440 does not define was not reported (warnings `{warns}`)"), input.clone()); }
            out.stat("c17.wildcard_misplaced");
        }
    }
    if let Some(k) = expect {
        if !dropped {
            out.oracle_fail("C17", "an uninterpretable comparison was kept instead of dropped", input.clone());
        }
        if !warns.contains(k) {
            out.oracle_fail("C17", &format!("no warning of the matching kind `{k}` reached the reporter (got `{warns}`)"), input.clone());
        }
        // the surrounding marker equals the marker with exactly that comparison removed
        if let Some(d) = tree_ans.strip_prefix("ok ") {
            let want = dump(&MarkerTree::from_str("os_name == 'a'").unwrap());
            let got = d.rsplit_once(" w=").map(|x| x.0).unwrap_or("");
            if got != want {
                out.oracle_fail("C17", "the marker is not the marker with exactly the meaningless comparison removed", serde_json::json!({"text": format!("os_name == 'a' and {text}"), "answer": tree_ans}));
            }
        }
        out.stat("c17.uninterpretable");
    } else {
        // version key against a non-version, invalid operator/version combination: reported as P and dropped
        let verside = (lk == "verkey" && rk == "quoted") || (lk == "quoted" && rk == "verkey");
        if dropped {
            if !verside || !warns.contains('P') {
                out.oracle_fail("C17", &format!("a comparison was dropped without a matching warning (warnings `{warns}`)"), input.clone());
            }
            out.stat("c17.version_side_dropped");
        } else {
            // meaningful: nothing is reported at parse time, except an invalid extra name (reported, kept, never matches)
            let extra_side = (lk == "extra" && rk == "quoted") || (lk == "quoted" && rk == "extra");
            let lit = if lk == "quoted" { l } else { r };
            let invalid_extra = extra_side && pep508_rs::ExtraName::from_str(&lit[1..lit.len() - 1]).is_err();
            if warns != "-" && !(invalid_extra && warns == "X") {
                out.oracle_fail("C17", &format!("a meaningful comparison reported `{warns}` at parse time"), input.clone());
            }
            if invalid_extra && warns != "X" {
                out.oracle_fail("C17", "extra compared with text that is not a valid extra name must be reported", input.clone());
            }
            out.stat("c17.meaningful");
        }
    }
}
