mod algebra;
mod hist;
mod marker;
mod mparse;
mod worker;
mod names;
mod pyver;
mod req;
mod util;

fn main() {
    let args: Vec<String> = std::env::args().collect();
    if args.len() >= 3 && args[1] == "worker" {
        match args[2].as_str() {
            "mparse" => worker::serve(&mparse::worker_handle),
            "req" => worker::serve(&req::worker_handle),
            "hist" => hist::worker_hist(),
            "threads" => hist::worker_threads(),
            _ => {}
        }
        return;
    }
    if args.len() < 5 {
        eprintln!("usage: verif-harness <suite> <tier> <seed> <outdir> [extra…]");
        std::process::exit(2);
    }
    let (suite, tier, seed, dir) = (&args[1], &args[2], args[3].parse::<u64>().unwrap_or(0), &args[4]);
    let mut out = util::Out::default();
    match suite.as_str() {
        "names" => names::run(&mut out, tier, seed),
        "algebra" => algebra::run(&mut out, tier, seed, &args[5]),
        "pyver" => pyver::run(&mut out, tier, seed, &args[5]),
        "mparse" => mparse::run(&mut out, tier, seed, &args[5]),
        "req" => req::run(&mut out, tier, seed, &args[5]),
        "hist" => hist::run(&mut out, tier, seed, &args[5]),
        "name1" => names::one(&mut out, &util::unhex(&args[5])),
        _ => {
            eprintln!("unknown suite {suite}");
            std::process::exit(2);
        }
    }
    out.write(dir);
}
