//! Shared plumbing: PRNG, hex, case/oracle/report collection.
use std::collections::BTreeMap;
use std::fmt::Write as _;
use std::io::Write as _;

/// xorshift64* — every random choice of a run derives from one seed.
pub struct Rng(pub u64);
impl Rng {
    pub fn new(seed: u64) -> Self {
        Rng(seed.wrapping_mul(0x9E3779B97F4A7C15) ^ 0xD1B54A32D192ED03 | 1)
    }
    pub fn next(&mut self) -> u64 {
        let mut x = self.0;
        x ^= x >> 12;
        x ^= x << 25;
        x ^= x >> 27;
        self.0 = x;
        x.wrapping_mul(0x2545F4914F6CDD1D)
    }
    pub fn below(&mut self, n: usize) -> usize {
        if n == 0 { 0 } else { (self.next() % n as u64) as usize }
    }
    pub fn chance(&mut self, num: u32, den: u32) -> bool {
        (self.next() % den as u64) < num as u64
    }
    pub fn pick<'a, T>(&mut self, xs: &'a [T]) -> &'a T {
        &xs[self.below(xs.len())]
    }
}

pub fn hex(s: &str) -> String {
    if s.is_empty() {
        return "-".to_string();
    }
    let mut out = String::with_capacity(s.len() * 2);
    for b in s.bytes() {
        write!(out, "{:02x}", b).unwrap();
    }
    out
}

pub fn unhex(s: &str) -> String {
    if s == "-" {
        return String::new();
    }
    let bytes: Vec<u8> = (0..s.len() / 2)
        .map(|i| u8::from_str_radix(&s[2 * i..2 * i + 2], 16).unwrap())
        .collect();
    String::from_utf8(bytes).unwrap()
}

#[derive(Default)]
pub struct Out {
    pub cases: Vec<String>,
    pub impl_out: Vec<String>,
    pub stats: BTreeMap<String, u64>,
    pub samples: Vec<serde_json::Value>,
    pub oracle_failures: Vec<serde_json::Value>,
    pub evaluations: u64,
    pub nontrivial: std::collections::BTreeSet<String>,
    pub notes: Vec<String>,
    /// model answers already computed (and post-processed) by the suite itself
    pub model_out: Option<Vec<String>>,
}

impl Out {
    /// A correspondence case: the protocol line and what the implementation answered.
    pub fn case(&mut self, line: String, impl_out: String) {
        debug_assert!(!line.contains('\n') && !impl_out.contains('\n'));
        self.cases.push(line);
        self.impl_out.push(impl_out);
    }
    pub fn stats_get(&self, k: &str) -> u64 { self.stats.get(k).copied().unwrap_or(0) }
    pub fn stat(&mut self, k: &str) {
        *self.stats.entry(k.to_string()).or_insert(0) += 1;
    }
    pub fn stat_n(&mut self, k: &str, n: u64) {
        *self.stats.entry(k.to_string()).or_insert(0) += n;
    }
    pub fn sample(&mut self, v: serde_json::Value) {
        if self.samples.len() < 12 {
            self.samples.push(v);
        }
    }
    /// The implementation itself contradicts the property on `input`.
    pub fn oracle_fail(&mut self, property: &str, what: &str, input: serde_json::Value) {
        if self.oracle_failures.len() < 200 {
            self.oracle_failures.push(serde_json::json!({
                "property": property, "what": what, "input": input
            }));
        }
        self.stat("oracle_failures");
    }
    pub fn nontrivial(&mut self, key: String) {
        if self.nontrivial.len() < 2_000_000 {
            self.nontrivial.insert(key);
        }
    }
    pub fn write(&self, dir: &str) {
        std::fs::create_dir_all(dir).unwrap();
        let mut f = std::io::BufWriter::new(std::fs::File::create(format!("{dir}/cases.txt")).unwrap());
        for c in &self.cases {
            writeln!(f, "{c}").unwrap();
        }
        let mut f = std::io::BufWriter::new(std::fs::File::create(format!("{dir}/impl.txt")).unwrap());
        for c in &self.impl_out {
            writeln!(f, "{c}").unwrap();
        }
        if let Some(m) = &self.model_out {
            let mut f = std::io::BufWriter::new(std::fs::File::create(format!("{dir}/model.txt")).unwrap());
            for c in m {
                writeln!(f, "{c}").unwrap();
            }
        }
        let report = serde_json::json!({
            "evaluations": self.evaluations,
            "distinct_nontrivial": self.nontrivial.len(),
            "stats": self.stats,
            "samples": self.samples,
            "oracle_failures": self.oracle_failures,
            "notes": self.notes,
            "correspondence_cases": self.cases.len(),
        });
        std::fs::write(format!("{dir}/report.json"), serde_json::to_string_pretty(&report).unwrap()).unwrap();
    }
}

/// the last line of a rendered `Pep508Error`: (number of leading blanks, number of carets)
pub fn underline_of(rendered: &str) -> (usize, usize) {
    let last = rendered.rsplit('\n').next().unwrap_or("");
    (last.chars().take_while(|c| *c == ' ').count(), last.chars().filter(|c| *c == '^').count())
}

/// ` ul=a:b` for an error (or ` ul=panic`)
pub fn ul_field(rendered: Option<String>) -> String {
    match rendered { Some(r) => { let (a, b) = underline_of(&r); format!(" ul={a}:{b}") } None => " ul=panic".into() }
}

/// the per-char display widths of a text, as the `errdisp` case wants them
pub fn width_field(text: &str) -> String {
    if text.is_empty() { return "-".into(); }
    text.chars().map(|c| match unicode_width::UnicodeWidthChar::width(c) { Some(w) => char::from_digit(w as u32, 10).unwrap_or('9'), None => 'n' }).collect()
}

/// from an `err …` answer: the `errdisp` case line and the implementation's underline
pub fn errdisp_case(text: &str, ans: &str, start_field: usize) -> Option<(String, String)> {
    let f: Vec<&str> = ans.split(' ').collect();
    let ul = f.iter().find_map(|x| x.strip_prefix("ul="))?;
    let (start, len) = (f.get(start_field)?, f.get(start_field + 1)?);
    Some((format!("errdisp\t{}\t{}\t{}\t{}", hex(text), start, len, width_field(text)), if ul == "panic" { "panic".to_string() } else { format!("ul={ul}") }))
}


/// every way a JSON string can reach a `Deserialize` impl: a plain literal (the deserializer can lend a borrowed `&str`),
/// a literal written with `\uXXXX` escapes and an owned `Value` (it cannot) — all three must give the same answer
pub fn de_sources<T: serde::de::DeserializeOwned>(s: &str) -> [Option<T>; 3] {
    let plain = serde_json::to_string(s).unwrap();
    let mut escaped = String::from("\"");
    for u in s.encode_utf16() { escaped.push_str(&format!("\\u{:04x}", u)); }
    escaped.push('"');
    [serde_json::from_str::<T>(&plain).ok(), serde_json::from_str::<T>(&escaped).ok(), serde_json::from_value::<T>(serde_json::Value::String(s.to_string())).ok()]
}
