//! C10 — python_version comparisons behave as PEP 440 on major.minor; C01's expression layer.
use crate::marker::*;
use crate::util::*;
use pep440_rs::Version;
use pep508_rs::MarkerTree;
use std::panic::{catch_unwind, AssertUnwindSafe};
use std::str::FromStr;

fn cmp_rel(a: &[u64], b: &[u64]) -> std::cmp::Ordering {
    let n = a.len().max(b.len());
    for i in 0..n {
        let (x, y) = (a.get(i).copied().unwrap_or(0), b.get(i).copied().unwrap_or(0));
        if x != y {
            return x.cmp(&y);
        }
    }
    std::cmp::Ordering::Equal
}

/// PEP 440 release-segment comparison `cand OP lit`, written from the PEP (not from the crate)
pub fn spec_sem(op: &str, lit: &[u64], cand: &[u64]) -> bool {
    use std::cmp::Ordering::*;
    let prefix = |p: &[u64]| (0..p.len()).all(|i| cand.get(i).copied().unwrap_or(0) == p[i]);
    match op {
        "eq" | "xeq" => cmp_rel(cand, lit) == Equal,
        "ne" => cmp_rel(cand, lit) != Equal,
        "lt" => cmp_rel(cand, lit) == Less,
        "le" => cmp_rel(cand, lit) != Greater,
        "gt" => cmp_rel(cand, lit) == Greater,
        "ge" => cmp_rel(cand, lit) != Less,
        "tilde" => cmp_rel(cand, lit) != Less && prefix(&lit[..lit.len() - 1]),
        "eqs" => prefix(lit),
        "nes" => !prefix(lit),
        _ => unreachable!(),
    }
}

fn rel(text: &str) -> Vec<u64> {
    Version::from_str(text).unwrap().release().to_vec()
}

pub fn run(out: &mut Out, tier: &str, seed: u64, prop: &str) {
    let mut rng = Rng::new(seed);
    let big = tier == "thorough";
    let lits: Vec<&str> = vec![
        "3", "3.0", "3.0.0", "3.7", "3.7.0", "3.7.1", "3.8", "3.8.0", "3.8.5", "3.9", "3.9.0", "3.10", "3.10.0", "3.11", "4", "4.0", "4.0.0", "2.7", "2.7.18",
        "3.8rc1", "3.9.post2", "3.8.dev0", "1!3.8", "3.8+local", "3.8.0.0", "3.8.0.1", "0", "3.13", "3.7.0.0",
    ];
    let keys: &[usize] = if prop == "C10" { &[2] } else { &[0, 1, 2] };
    let mut grid: Vec<(u64, u64, u64)> = Vec::new();
    for x in [2u64, 3, 4] {
        for y in 0..=13u64 {
            for z in [0u64, 1, 9] {
                grid.push((x, y, z));
            }
        }
    }
    let build = |out: &mut Out, t: &Term| -> Option<MarkerTree> {
        match catch_unwind(AssertUnwindSafe(|| t.build())) {
            Ok(m) => Some(m),
            Err(_) => {
                out.oracle_fail(prop, "panic while building a version expression", serde_json::json!({"term": t.line()}));
                None
            }
        }
    };
    // ---- comparison operators ------------------------------------------------------------------
    for &k in keys {
        for (opi, (tok, sym, star)) in VOPS.iter().enumerate() {
            for lit in &lits {
                let decorated = lit.contains("rc") || lit.contains("post") || lit.contains("dev") || lit.contains('!') || lit.contains('+');
                let text = format!("{sym}{lit}{}", if *star { ".*" } else { "" });
                if pep440_rs::VersionSpecifier::from_str(&text).is_err() || (*star && decorated) {
                    continue;
                }
                let t = Term::V(k, opi, lit.to_string());
                let Some(m) = build(out, &t) else { return };
                out.evaluations += 1;
                out.case(format!("dump\t{}", t.line()), format!("{}\twf=1", dump(&m)));
                let l = rel(lit);
                // carve-out (pinned by the suite): python_version against a wildcard with > 2 segments
                let carved = k == 2 && *star && l.len() > 2;
                let mut n_true = 0;
                for &(x, y, z) in &grid {
                    let mut e = CEnv::default_env();
                    let full = format!("{x}.{y}.{z}");
                    e.vers = [full.clone(), full.clone(), format!("{x}.{y}")];
                    let cand: Vec<u64> = if k == 2 { vec![x, y] } else { vec![x, y, z] };
                    let got = e.eval(&m);
                    if got { n_true += 1; }
                    if !carved && got != spec_sem(tok, &l, &cand) {
                        out.oracle_fail(prop, &format!("`{} {}` is {} for interpreter {}, PEP 440 on {} says {}", VKEY_TEXT[k], text, got, full, if k == 2 { "major.minor" } else { "the release" }, !got),
                            serde_json::json!({"key": VKEY_TEXT[k], "specifier": text, "python_full_version": full}));
                        break;
                    }
                }
                if n_true > 0 && n_true < grid.len() { out.nontrivial(format!("{k} {text}")); }
                out.stat(if n_true == 0 { "expr.always_false_on_grid" } else if n_true == grid.len() { "expr.always_true_on_grid" } else { "expr.mixed" });
                // negation clause, carved-out literals included: != is the negation of ==
                if matches!(*tok, "eq" | "eqs") {
                    let nt = Term::V(k, if *star { 8 } else { 1 }, lit.to_string());
                    let Some(nm) = build(out, &nt) else { return };
                    if nm != m.negate() {
                        out.oracle_fail(prop, "`!=` is not the negation of `==`", serde_json::json!({"key": VKEY_TEXT[k], "specifier": text}));
                    }
                }
                // text level, both operand orders (non-star only for the inverted form)
                let fwd = format!("{} {} '{}{}'", VKEY_TEXT[k], sym, lit, if *star { ".*" } else { "" });
                if *tok != "xeq" {
                    match catch_unwind(AssertUnwindSafe(|| MarkerTree::from_str(&fwd))) {
                        Ok(Ok(pm)) => if pm != m { out.oracle_fail(prop, "parsed text differs from the typed expression", serde_json::json!({"text": fwd})); },
                        Ok(Err(e)) => out.oracle_fail(prop, &format!("valid marker text rejected: {e}"), serde_json::json!({"text": fwd})),
                        Err(_) => { out.oracle_fail(prop, "panic while parsing", serde_json::json!({"text": fwd})); return }
                    }
                    if !*star {
                        let inv = match *sym { "<" => ">", "<=" => ">=", ">" => "<", ">=" => "<=", s => s };
                        let bwd = format!("\"{}\" {} {}", lit, inv, VKEY_TEXT[k]);
                        match catch_unwind(AssertUnwindSafe(|| MarkerTree::from_str(&bwd))) {
                            Ok(Ok(pm)) => if pm != m { out.oracle_fail(prop, "inverted operand order gives a different marker", serde_json::json!({"text": bwd, "forward": fwd})); },
                            Ok(Err(e)) => out.oracle_fail(prop, &format!("valid marker text rejected: {e}"), serde_json::json!({"text": bwd})),
                            Err(_) => { out.oracle_fail(prop, "panic while parsing (the interner lock is now poisoned)", serde_json::json!({"text": bwd})); return }
                        }
                    }
                }
            }
        }
    }
    // ---- in / not in lists -----------------------------------------------------------------------
    let n_lists = if big { 600 } else { 150 };
    for i in 0..n_lists {
        let k = *rng.pick(keys);
        let n = if i < 20 { 1 } else { rng.below(4) };
        let members: Vec<String> = (0..n).map(|j| if i < 20 { lits[(i + j) % lits.len()].to_string() } else { rng.pick(&lits).to_string() }).collect();
        let (tin, tnot) = (Term::VI(k, false, members.clone()), Term::VI(k, true, members.clone()));
        let (Some(min), Some(mnot)) = (build(out, &tin), build(out, &tnot)) else { return };
        out.evaluations += 1;
        out.case(format!("dump\t{}", tin.line()), format!("{}\twf=1", dump(&min)));
        out.case(format!("dump\t{}", tnot.line()), format!("{}\twf=1", dump(&mnot)));
        let input = serde_json::json!({"key": VKEY_TEXT[k], "list": members});
        if mnot != min.negate() {
            out.oracle_fail(prop, "`not in` is not the negation of `in`", input.clone());
        }
        let carved = k == 2 && members.iter().any(|m| rel(m).len() > 2);
        if !carved {
            for &(x, y, z) in &grid {
                let mut e = CEnv::default_env();
                let full = format!("{x}.{y}.{z}");
                e.vers = [full.clone(), full.clone(), format!("{x}.{y}")];
                let cand: Vec<u64> = if k == 2 { vec![x, y] } else { vec![x, y, z] };
                let want = members.iter().any(|m| spec_sem("eq", &rel(m), &cand));
                if e.eval(&min) != want {
                    out.oracle_fail(prop, &format!("`in` list is {} for interpreter {full}, membership by PEP 440 `==` says {}", !want, want), input.clone());
                    break;
                }
            }
        }
        // the list text in several whitespace layouts (the list is whitespace-separated: blanks and tabs before, between and after
        // its members do not change it), `in` and `not in`
        if !members.is_empty() {
            for (lead, sep, trail) in [("", "  ", ""), (" ", " ", ""), ("", " ", " "), ("\t", "\t", "\t"), ("  ", " \t ", "  "), ("\u{b}", "\u{b}", "\u{b}"), ("", "\u{c}", ""), ("\n", "\r\n", "\n"), ("\u{a0}", "\u{3000}", "\u{85}")] {
                for (op, want) in [("in", &min), ("not in", &mnot)] {
                    let txt = format!("{} {} '{}{}{}'", VKEY_TEXT[k], op, lead, members.join(sep), trail);
                    out.evaluations += 1;
                    match catch_unwind(AssertUnwindSafe(|| MarkerTree::from_str(&txt))) {
                        Ok(Ok(pm)) => if pm != *want { out.oracle_fail(prop, "a parsed in-list differs from the typed expression with the same members (whitespace around the members changed it)", serde_json::json!({"text": txt})); },
                        Ok(Err(e)) => out.oracle_fail(prop, &format!("valid marker text rejected: {e}"), serde_json::json!({"text": txt})),
                        Err(_) => { out.oracle_fail(prop, "panic while parsing", serde_json::json!({"text": txt})); return }
                    }
                }
            }
        }
    }
    // ---- python_version and python_full_version combine and cancel ---------------------------------
    if keys.contains(&2) {
        for (a, b, want_false) in [
            ("python_version >= '3.8'", "python_full_version < '3.8'", true),
            ("python_version < '3.8'", "python_full_version >= '3.8'", true),
            ("python_version == '3.8'", "python_full_version >= '3.9'", true),
            ("python_version > '3.8'", "python_full_version < '3.9'", true),
            ("python_version <= '3.8'", "python_full_version >= '3.9'", true),
            ("python_version ~= '3.8'", "python_full_version < '3.8'", true),
            ("python_version == '3.8'", "python_full_version == '3.8.5'", false),
        ] {
            let (x, y) = (MarkerTree::from_str(a).unwrap(), MarkerTree::from_str(b).unwrap());
            let mut c = x.clone();
            c.and(y.clone());
            if c.is_false() != want_false {
                out.oracle_fail(prop, "python_version and python_full_version constraints do not combine/cancel", serde_json::json!({"a": a, "b": b}));
            }
        }
        for (a, b) in [
            ("python_version >= '3.8'", "python_full_version >= '3.8'"),
            ("python_version == '3.8'", "python_full_version == '3.8.*'"),
            ("python_version > '3.8'", "python_full_version >= '3.9'"),
            ("python_version <= '3.8'", "python_full_version < '3.9'"),
            ("python_version != '3.8'", "python_full_version != '3.8.*'"),
            ("python_version ~= '3.8'", "python_full_version >= '3.8' and python_full_version < '4'"),
            ("python_version < '3.8.5'", "python_full_version < '3.9'"),
        ] {
            let (x, y) = (MarkerTree::from_str(a).unwrap(), MarkerTree::from_str(b).unwrap());
            if x != y {
                out.oracle_fail(prop, "python_version expression is not the equivalent python_full_version marker", serde_json::json!({"a": a, "b": b}));
            }
        }
    }
    let n = out.cases.len();
    out.sample(serde_json::json!({"case": out.cases[n / 3], "impl": out.impl_out[n / 3]}));
    out.sample(serde_json::json!({"case": out.cases[n - 1], "impl": out.impl_out[n - 1]}));
}
