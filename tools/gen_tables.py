#!/usr/bin/env python3
"""tools/gen_tables.py — a small TRANSLATOR: reads the lookup tables of /repo's current sources (enum declaration
orders, key names, Display names, operator tokens, invert / negate / to_pep440_operator, the archive extension lists,
get_string / get_version) and writes them as Lean data to lean/Pep508/Generated/Tables.lean.  Theorems/Tables.lean proves
(by `decide`) that the hand-written model agrees with every generated row, so a change to a table in the Rust source
breaks a proof obligation on the next run.  Prints `tables-ok` or `tables-error: <what>`; never guesses.
"""
import os
import re
import sys

REPO = os.environ.get("VERIF_REPO", "/repo")
OUT = os.path.join(os.path.dirname(os.path.dirname(os.path.abspath(__file__))), "lean", "Pep508", "Generated", "Tables.lean")


class TableError(Exception):
    pass


def block(src, header, what):
    """the text of the brace block that follows `header` (a regex)"""
    m = re.search(header, src)
    if not m:
        raise TableError(f"{what}: `{header}` not found")
    i = src.index("{", m.end() - 1) if src[m.end() - 1] != "{" else m.end() - 1
    depth, j = 0, i
    while j < len(src):
        if src[j] == "{":
            depth += 1
        elif src[j] == "}":
            depth -= 1
            if depth == 0:
                return src[i + 1:j]
        j += 1
    raise TableError(f"{what}: unbalanced braces")


def strip_comments(s):
    return re.sub(r"//[^\n]*", "", s)


def enum_variants(src, name):
    body = strip_comments(block(src, r"pub enum " + name + r"\s*\{", f"enum {name}"))
    vs = re.findall(r"^\s*([A-Z]\w*)\s*(?:\([^)]*\))?\s*,", body, re.M)
    if not vs:
        raise TableError(f"enum {name}: no variants")
    return vs


def fn_body(src, impl_header, fn_name, what):
    imp = block(src, impl_header, what)
    return strip_comments(block(imp, r"fn " + fn_name + r"\b[^{]*\{", what))


def arms_variant_to_variant(body, what):
    """`Self::A | Self::B => Self::C,` / `=> return None` / `=> Some(X::C)` / `_ => None`"""
    rows = []
    for lhs, rhs in re.findall(r"((?:(?:Self|\w+)::\w+\s*\|?\s*)+|_)\s*=>\s*([^,]+),", body):
        lhs_v = re.findall(r"::(\w+)", lhs) or ["_"]
        rhs = rhs.strip()
        if re.search(r"\bNone\b", rhs):
            tgt = None
        else:
            t = re.findall(r"::(\w+)\)?\s*$", rhs)
            if not t:
                raise TableError(f"{what}: cannot read the right-hand side `{rhs}`")
            tgt = t[-1]
        for v in lhs_v:
            rows.append((v, tgt))
    if not rows:
        raise TableError(f"{what}: no arms")
    return rows


def lean_str(s):
    return '"' + s.replace("\\", "\\\\").replace('"', '\\"') + '"'


def lean_opt(s):
    return "none" if s is None else f"some {lean_str(s)}"


def main():
    tree = open(os.path.join(REPO, "src/marker/tree.rs"), encoding="utf-8").read()
    envs = open(os.path.join(REPO, "src/marker/environment.rs"), encoding="utf-8").read()
    lib = open(os.path.join(REPO, "src/lib.rs"), encoding="utf-8").read()
    out = []

    # enum declaration orders (the derived Ord of these enums is the variable order of the diagram)
    skeys = enum_variants(tree, "MarkerValueString")
    vkeys = enum_variants(tree, "MarkerValueVersion")
    mops = enum_variants(tree, "MarkerOperator")

    # the variables of the diagram: declaration order of the enum and of the fields of its struct variants (derived Ord)
    algebra = open(os.path.join(REPO, "src/marker/algebra.rs"), encoding="utf-8").read()
    vbody = strip_comments(block(algebra, r"pub\(crate\) enum Variable\s*\{", "enum Variable"))
    variable_variants = re.findall(r"^\s{4}([A-Z]\w*)\s*[({,]", vbody, re.M)
    variable_fields = []
    for name, fields in re.findall(r"^\s{4}([A-Z]\w*)\s*\{([^}]*)\}", vbody, re.M | re.S):
        variable_fields.append((name, ",".join(re.findall(r"(\w+)\s*:", fields))))
    if len(variable_variants) < 3:
        raise TableError("enum Variable: cannot read the variants")
    derives = re.search(r"#\[derive\(([^)]*)\)\]\s*pub\(crate\) enum Variable", algebra)
    if not derives or "Ord" not in derives.group(1):
        raise TableError("enum Variable: Ord is not derived any more (the variable order is defined elsewhere)")
    extra_variants = enum_variants(tree, "MarkerValueExtra")

    # key names: impl FromStr for MarkerValue
    body = strip_comments(block(block(tree, r"impl FromStr for MarkerValue\s*\{", "FromStr for MarkerValue"), r"fn from_str\b[^{]*\{", "MarkerValue::from_str"))
    key_names = []
    for name, rhs in re.findall(r'"([^"]+)"\s*=>\s*\{?\s*(Self::[^,}]+)', body):
        m = re.search(r"Self::(MarkerEnvString|MarkerEnvVersion)\(\s*(MarkerValueString|MarkerValueVersion)::(\w+)\s*\)", rhs)
        if m:
            key_names.append((name, "S" if m.group(1) == "MarkerEnvString" else "V", m.group(3)))
        elif re.search(r"Self::Extra\b", rhs):
            key_names.append((name, "X", "Extra"))
        else:
            raise TableError(f"MarkerValue::from_str: cannot read `{rhs}`")
    if len(key_names) < 5:
        raise TableError("MarkerValue::from_str: too few arms")

    # Display names of the keys
    def display_table(type_name):
        b = fn_body(tree, r"impl Display for " + type_name + r"\s*\{", "fmt", f"Display for {type_name}")
        rows = []
        for lhs, text in re.findall(r"((?:Self::\w+\s*\|?\s*)+)=>\s*\{?\s*f\.write_str\(\s*\"([^\"]*)\"\s*,?\s*\)", b):
            for v in re.findall(r"Self::(\w+)", lhs):
                rows.append((v, text))
        if not rows:
            raise TableError(f"Display for {type_name}: no arms")
        return rows
    skey_display = display_table("MarkerValueString")
    vkey_display = display_table("MarkerValueVersion")

    # operators
    b = fn_body(tree, r"impl FromStr for MarkerOperator\s*\{", "from_str", "MarkerOperator::from_str")
    op_tokens = re.findall(r'"([^"]+)"\s*=>\s*Self::(\w+)', b)
    if len(op_tokens) < 8:
        raise TableError("MarkerOperator::from_str: too few literal arms")
    b = fn_body(tree, r"impl Display for MarkerOperator\s*\{", "fmt", "Display for MarkerOperator")
    op_display = []
    for lhs, text in re.findall(r'((?:Self::\w+\s*\|?\s*)+)=>\s*"([^"]*)"', b):
        for v in re.findall(r"Self::(\w+)", lhs):
            op_display.append((v, text))
    if len(op_display) != len(mops):
        raise TableError("Display for MarkerOperator: an operator has no text")
    invert = arms_variant_to_variant(fn_body(tree, r"impl MarkerOperator\s*\{", "invert", "MarkerOperator::invert"), "invert")
    negate = arms_variant_to_variant(fn_body(tree, r"impl MarkerOperator\s*\{", "negate", "MarkerOperator::negate"), "negate")
    to440 = arms_variant_to_variant(fn_body(tree, r"impl MarkerOperator\s*\{", "to_pep440_operator", "MarkerOperator::to_pep440_operator"), "to_pep440_operator")

    # which field of the environment a key reads
    def getter(fn_name):
        b = fn_body(envs, r"impl MarkerEnvironment\s*\{", fn_name, f"MarkerEnvironment::{fn_name}")
        rows = []
        for lhs, field in re.findall(r"((?:\w+::\w+\s*\|?\s*)+)=>\s*\{?\s*&?self\.(\w+)\(\)", b):
            for v in re.findall(r"::(\w+)", lhs):
                rows.append((v, field))
        if not rows:
            raise TableError(f"{fn_name}: no arms")
        return rows
    get_string = getter("get_string")
    get_version = getter("get_version")

    # archive extensions
    b = strip_comments(block(lib, r"fn looks_like_archive\b[^{]*\{", "looks_like_archive"))
    m = re.search(r"\(\s*_\s*,\s*((?:\"[^\"]+\"\s*\|?\s*)+)\)\s*\|\s*\(\s*Some\(\"(\w+)\"\)\s*,\s*((?:\"[^\"]+\"\s*\|?\s*)+)\)", b)
    if not m:
        raise TableError("looks_like_archive: cannot read the extension pattern")
    arch_single = re.findall(r'"([^"]+)"', m.group(1))
    arch_pre = m.group(2)
    arch_double = re.findall(r'"([^"]+)"', m.group(3))

    # supported URL schemes: Scheme::parse and Display for Scheme
    vurl = open(os.path.join(REPO, "src/verbatim_url.rs"), encoding="utf-8").read()
    b = fn_body(vurl, r"impl Scheme\s*\{", "parse", "Scheme::parse")
    scheme_parse = re.findall(r'"([^"]+)"\s*=>\s*Some\(Self::(\w+)\)', b)
    b = fn_body(vurl, r"impl std::fmt::Display for Scheme\s*\{", "fmt", "Display for Scheme")
    scheme_display = re.findall(r'Self::(\w+)\s*=>\s*\{?\s*write!\(\s*f,\s*"([^"]+)"\s*,?\s*\)', b)
    scheme_variants = enum_variants(vurl, "Scheme")
    if len(scheme_parse) < 3 or len(scheme_display) < 3:
        raise TableError("Scheme: cannot read parse / Display")

    def by_decl(rows, order, col):
        """rows sorted by the declaration order of the variant in column `col` (the order of match arms is not semantic)"""
        pos = {v: i for i, v in enumerate(order)}
        return sorted(rows, key=lambda r: (pos.get(r[col], len(order)), r))

    key_names = sorted(key_names)
    skey_display = by_decl(skey_display, skeys, 0)
    vkey_display = by_decl(vkey_display, vkeys, 0)
    get_string = by_decl(get_string, skeys, 0)
    get_version = by_decl(get_version, vkeys, 0)
    op_tokens = by_decl(op_tokens, mops, 1)
    op_display = by_decl(op_display, mops, 0)
    invert = by_decl(invert, mops, 0)
    negate = by_decl(negate, mops, 0)
    to440 = by_decl(to440, mops, 0)
    scheme_parse = by_decl(scheme_parse, scheme_variants, 1)
    scheme_display = by_decl(scheme_display, scheme_variants, 0)

    def pairs(rows):
        return "[" + ", ".join(f"({lean_str(a)}, {lean_str(b)})" for a, b in rows) + "]"

    def opt_pairs(rows):
        return "[" + ", ".join(f"({lean_str(a)}, {lean_opt(b)})" for a, b in rows) + "]"

    def strs(xs):
        return "[" + ", ".join(lean_str(x) for x in xs) + "]"

    out.append("/-\nGENERATED by tools/gen_tables.py from /repo's current sources on every run — do not edit.\n"
               "The lookup tables of src/marker/tree.rs, src/marker/environment.rs and src/lib.rs as Lean data;\n"
               "Theorems/Tables.lean proves that the hand-written model agrees with every row.\n-/")
    out.append("namespace Pep508.Generated\n")
    out.append(f"def stringKeyVariants : List String := {strs(skeys)}")
    out.append(f"def versionKeyVariants : List String := {strs(vkeys)}")
    out.append(f"def operatorVariants : List String := {strs(mops)}")
    out.append(f"def variableVariants : List String := {strs(variable_variants)}")
    out.append(f"def variableFields : List (String × String) := {pairs(variable_fields)}")
    out.append(f"def extraValueVariants : List String := {strs(extra_variants)}")
    out.append("/-- (marker key text, S = string key / V = version key / X = extra, variant) -/")
    out.append("def keyNames : List (String × String × String) := [" + ", ".join(f"({lean_str(n)}, {lean_str(k)}, {lean_str(v)})" for n, k, v in key_names) + "]")
    out.append(f"def stringKeyDisplay : List (String × String) := {pairs(skey_display)}")
    out.append(f"def versionKeyDisplay : List (String × String) := {pairs(vkey_display)}")
    out.append(f"def operatorTokens : List (String × String) := {pairs(op_tokens)}")
    out.append(f"def operatorDisplay : List (String × String) := {pairs(op_display)}")
    out.append(f"def operatorInvert : List (String × Option String) := {opt_pairs(invert)}")
    out.append(f"def operatorNegate : List (String × Option String) := {opt_pairs(negate)}")
    out.append(f"def operatorToPep440 : List (String × Option String) := {opt_pairs(to440)}")
    out.append(f"def getString : List (String × String) := {pairs(get_string)}")
    out.append(f"def getVersion : List (String × String) := {pairs(get_version)}")
    out.append(f"def schemeVariants : List String := {strs(scheme_variants)}")
    out.append(f"def schemeParse : List (String × String) := {pairs(scheme_parse)}")
    out.append(f"def schemeDisplay : List (String × String) := {pairs(scheme_display)}")
    out.append(f"def archiveSingle : List String := {strs(arch_single)}")
    out.append(f"def archivePre : String := {lean_str(arch_pre)}")
    out.append(f"def archiveDouble : List String := {strs(arch_double)}")
    out.append("\nend Pep508.Generated")
    text = "\n".join(out) + "\n"
    os.makedirs(os.path.dirname(OUT), exist_ok=True)
    old = open(OUT, encoding="utf-8").read() if os.path.exists(OUT) else None
    if old != text:
        with open(OUT, "w", encoding="utf-8") as f:
            f.write(text)
    print("tables-ok")


if __name__ == "__main__":
    try:
        main()
    except TableError as e:
        print(f"tables-error: {e}")
        sys.exit(3)
