#!/bin/sh
# usage: tools/run_mutant.sh <patch.diff> <Cxx> [<Cyy> ...]
# applies the patch to /repo, runs the given checks (quick), restores /repo.
set -u
PATCH="$1"; shift
EVBAK=$(mktemp -d); cp -r /verif/evidence "$EVBAK/"; cp /verif/lean/Pep508/Generated/Tables.lean "$EVBAK/"
cd /repo && git apply "$PATCH" || { echo "patch does not apply"; exit 2; }
cd /verif
for P in "$@"; do
  python3 check.py "$P" "${TIER:-quick}" 2>&1 | grep -E "VIOLATION|KNOWN-FINDING|$P (quick|thorough):|ERROR" | cut -c1-260
done
cd /repo && git checkout -- . && git status --short | head -3
# the runs above were against a modified tree: put the evidence of the unchanged tree and the generated tables back
rm -rf /verif/evidence && cp -r "$EVBAK/evidence" /verif/evidence && cp "$EVBAK/Tables.lean" /verif/lean/Pep508/Generated/Tables.lean && rm -rf "$EVBAK"
