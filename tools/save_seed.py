#!/usr/bin/env python3
"""tools/save_seed.py <id> <mutdir> <property> <needs> <detected_by> <ran>  — store a confirmed seeded change"""
import json, os, shutil, sys
sid, mut, prop, needs, detected, ran = sys.argv[1:7]
d = f"/verif/seeded/{sid}"
os.makedirs(d, exist_ok=True)
shutil.copy(os.path.join(mut, "mutant.diff"), os.path.join(d, "patch.diff"))
demo = os.path.join(d, "demo")
shutil.rmtree(demo, ignore_errors=True)
shutil.copytree(os.path.join(mut, "demo"), demo)
json.dump({"id": sid, "breaks_property": prop, "needs_to_manifest": needs, "detected_by": detected.split(","),
           "what_was_run": ran}, open(os.path.join(d, "meta.json"), "w"), indent=1)
print("saved", d)
