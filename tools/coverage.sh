#!/bin/sh
# tools/coverage.sh — line coverage of /repo/src under the quick suites (extension build of the harness).
# Needs the nightly toolchain's llvm-tools; builds into a scratch directory under /tmp and removes it afterwards.
# Not a registered check: a measurement used to find code no generator reaches.
set -e
B=$(ls -d /root/.rustup/toolchains/nightly-x86_64-unknown-linux-gnu/lib/rustlib/*/bin | head -1)
T=$(mktemp -d /tmp/verifcov.XXXXXX)
cd /verif/harness
export CARGO_NET_OFFLINE=true
RUSTFLAGS="-C instrument-coverage" CARGO_TARGET_DIR=$T/target cargo +nightly build --offline --quiet --features ext
export VERIF_GRACEFUL=1 LLVM_PROFILE_FILE=$T/prof/h-%p-%m.profraw VERIF_DRIVER=/verif/lean/.lake/build/bin/driver
H=$T/target/debug/verif-harness
for s in "pyver C01" "mparse C01" "algebra C02" "algebra C03" "algebra C04" "algebra C05" "mparse C06" "req C06" "req C07" "mparse C07" "req C08" "names" "pyver C10" "algebra C11" "algebra C12" "algebra C13" "hist C14" "hist C15" "hist C16" "mparse C17" "req C18" "req C19" "algebra C20"; do
  set -- $s; n=$1; shift
  $H $n ${TIER:-quick} 1 $T/work/$n-$1 "$@" > /dev/null 2>&1 || true
done
$B/llvm-profdata merge -sparse $T/prof/*.profraw -o $T/cov.profdata
$B/llvm-cov report $H -instr-profile=$T/cov.profdata /repo/src | awk '{printf "%-28s %8s %8s %8s\n", $1, $8, $9, $10}'
if [ -n "$1" ]; then $B/llvm-cov show $H -instr-profile=$T/cov.profdata /repo/src/$1 | grep -E "^ +[0-9]+\| +0\|"; fi
rm -rf "$T"
