#!/usr/bin/env python3
"""tools/mechanical_mutants.py <n> <seed> [<out.jsonl>] — mechanical mutation testing of the checks.

Works on a PRIVATE instance (a git worktree of /repo and a copy of /verif under /tmp/mm, removed at the end), so /repo and
/verif are not touched.  Picks <n> random single-token mutations of /repo/src (comparison / boolean operators, `true`/`false`,
`Included`/`Excluded`, `any`/`all`, `break`/`continue`, `+ 1`/`- 1`, dropped `!`, `is_some`/`is_none`, `min`/`max` …), keeps the
ones that compile AND pass the crate's own tests under both feature sets, and runs the 20 quick checks on each until one of them
reports a violation.  Prints one JSON line per surviving-the-test-suite mutant: which check caught it, or `"caught_by": null`
for a mutant no check reports (either an equivalent mutant or a hole — to be read by hand).
"""
import json
import os
import random
import re
import shutil
import signal
import subprocess
import sys

N = int(sys.argv[1]) if len(sys.argv) > 1 else 40
SEED = int(sys.argv[2]) if len(sys.argv) > 2 else 1
OUT = sys.argv[3] if len(sys.argv) > 3 else "/tmp/mm_results.jsonl"
BASE = "/tmp/mm"
REPO = f"{BASE}/repo"
VERIF = f"{BASE}/verif"
ENV = dict(os.environ, CARGO_NET_OFFLINE="true", VERIF_REPO=REPO)

RULES = [
    (r"==", "!="), (r"!=", "=="), (r"<=", "<"), (r">=", ">"), (r"(?<![<=>-])<(?![<=])", "<="), (r"(?<![<=>-])>(?![>=])", ">="),
    (r"&&", "||"), (r"\|\|", "&&"), (r"\btrue\b", "false"), (r"\bfalse\b", "true"),
    (r"Bound::Included", "Bound::Excluded"), (r"Bound::Excluded", "Bound::Included"),
    (r"\.any\(", ".all("), (r"\.all\(", ".any("), (r"\bbreak;", "continue;"), (r"\bcontinue;", "break;"),
    (r"\+ 1\b", "- 1"), (r"\+ 1\b", "+ 0"), (r"- 1\b", "+ 1"), (r"\.is_some\(\)", ".is_none()"), (r"\.is_none\(\)", ".is_some()"),
    (r"\.min\(", ".max("), (r"\.max\(", ".min("), (r"\.is_empty\(\)", ".is_empty() == false"), (r"if !", "if "),
    (r"\.first\(\)", ".last()"), (r"\.last\(\)", ".first()"), (r"Ordering::Less", "Ordering::Greater"), (r"Ordering::Greater", "Ordering::Less"),
    (r"\.negate\(([a-z_]+)\)", r""), (r"\.not\(\)", ""), (r"saturating_sub", "saturating_add"), (r"\.rev\(\)", ""),
    (r"Self::TRUE", "Self::FALSE"), (r"NodeId::TRUE", "NodeId::FALSE"), (r"NodeId::FALSE", "NodeId::TRUE"),
    (r"high", "low"), (r"\blower\b", "upper"), (r"\bstart\b", "end"),
]


def sh(cmd, cwd=None, timeout=1800):
    p = subprocess.Popen(cmd, shell=True, cwd=cwd, env=ENV, stdout=subprocess.PIPE, stderr=subprocess.STDOUT, text=True, start_new_session=True)
    try:
        o, _ = p.communicate(timeout=timeout)
        return p.returncode, o
    except subprocess.TimeoutExpired:
        # a mutant that makes the crate's tests (or a check) hang: kill the whole group and report it as such
        os.killpg(p.pid, signal.SIGKILL)
        p.communicate()
        return 124, "error: timeout"


def setup():
    shutil.rmtree(BASE, ignore_errors=True)
    os.makedirs(BASE)
    sh(f"git -C /repo worktree prune; git -C /repo worktree add -q --detach {REPO} HEAD")
    sh(f"rsync -a --exclude .git --exclude replays /verif/ {VERIF}/")
    p = f"{VERIF}/harness/Cargo.toml"
    s = open(p).read().replace('path = "/repo"', f'path = "{REPO}"')
    open(p, "w").write(s)


def candidates():
    out = []
    for dp, _, fns in os.walk(f"{REPO}/src"):
        for fn in fns:
            if not fn.endswith(".rs") or fn == "tests.rs":
                continue
            path = os.path.join(dp, fn)
            in_tests = False
            for ln, line in enumerate(open(path, encoding="utf-8").read().split("\n")):
                st = line.strip()
                if st.startswith("#[cfg(test)]") or st.startswith("mod tests"):
                    in_tests = True
                if in_tests or st.startswith("//") or st.startswith("#[") or "debug_assert" in st or "format!" in st or 'write!(' in st:
                    continue
                code = line.split("//")[0]
                for ri, (pat, rep) in enumerate(RULES):
                    for m in re.finditer(pat, code):
                        out.append((path, ln, m.start(), m.end(), ri))
    return out


def apply(c):
    path, ln, a, b, ri = c
    lines = open(path, encoding="utf-8").read().split("\n")
    pat, rep = RULES[ri]
    old = lines[ln]
    seg = re.sub(pat, rep, old[a:b], count=1)
    lines[ln] = old[:a] + seg + old[b:]
    open(path, "w", encoding="utf-8").write("\n".join(lines))
    return old.strip(), lines[ln].strip()


def main():
    setup()
    rng = random.Random(SEED)
    cands = candidates()
    rng.shuffle(cands)
    props = [f"C{i:02d}" for i in range(1, 21)]
    done = compiled = passed = 0
    with open(OUT, "a") as out:
        for c in cands:
            if passed >= N:
                break
            sh("git checkout -- .", cwd=REPO)
            old, new = apply(c)
            done += 1
            rc, o = sh("cargo test --offline --quiet --workspace 2>&1 | grep -E '^test result|error' | head -3", cwd=REPO, timeout=400)
            if "error" in o or "test result: ok" not in o or "FAILED" in o:
                continue
            compiled += 1
            rc, o2 = sh("cargo test --offline --quiet --workspace --features non-pep508-extensions 2>&1 | grep -E '^test result|error' | head -3", cwd=REPO, timeout=400)
            if "error" in o2 or "test result: ok" not in o2 or "FAILED" in o2:
                continue
            passed += 1
            caught = None
            detail = ""
            # the checks most likely to see a change in that file first
            order = props
            rel = os.path.relpath(c[0], REPO)
            first = {"src/marker/algebra.rs": ["C02", "C03", "C04", "C20", "C12", "C10", "C11", "C14"], "src/marker/tree.rs": ["C01", "C05", "C16", "C13", "C11", "C04"],
                     "src/marker/simplify.rs": ["C05", "C08"], "src/marker/parse.rs": ["C01", "C17", "C06", "C07"], "src/lib.rs": ["C07", "C06", "C08", "C18", "C19"],
                     "src/verbatim_url.rs": ["C18", "C19", "C08", "C07", "C16"], "src/unnamed.rs": ["C19", "C06", "C08"], "src/cursor.rs": ["C06", "C07", "C01"],
                     "src/normalize/mod.rs": ["C09"], "src/marker/environment.rs": ["C01"], "src/path.rs": ["C19", "C08", "C06"]}.get(rel, [])
            order = first + [p for p in props if p not in first]
            for p in order:
                rc, o3 = sh(f"python3 check.py {p} quick 2>&1 | grep -E 'VIOLATION|ERROR' | head -2", cwd=VERIF, timeout=1800)
                if "VIOLATION" in o3 or "ERROR" in o3 or rc == 124:
                    caught = p
                    detail = o3.strip().split("\n")[0][:160]
                    break
            rec = {"file": rel, "line": c[1] + 1, "old": old, "new": new, "caught_by": caught, "detail": detail}
            out.write(json.dumps(rec) + "\n")
            out.flush()
            print(json.dumps(rec), flush=True)
    sh("git checkout -- .", cwd=REPO)
    sh(f"git -C /repo worktree remove --force {REPO}; git -C /repo worktree prune")
    shutil.rmtree(BASE, ignore_errors=True)
    print(f"tried {done}, passing the crate's tests {passed}", flush=True)


if __name__ == "__main__":
    main()
