#!/bin/sh
# run every claimed check (quick by default) and summarise
cd /verif
for P in $(python3 -c "import sys; sys.path.insert(0,'/verif'); from props import PROPS; print(' '.join(sorted(PROPS)))"); do
  python3 check.py $P ${1:-quick} 2>&1 | grep -E "VIOLATION|$P (quick|thorough):|ERROR|Traceback" | cut -c1-200
done
