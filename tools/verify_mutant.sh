#!/bin/sh
# usage: tools/verify_mutant.sh <Cxx-dir under /tmp/mut>   (confirms: builds, suite passes, demo fails with / passes without)
set -u
D="$1"; cd "$D" || exit 2
export CARGO_NET_OFFLINE=true
git diff --stat -- src | tail -1
echo "== suite with mutant:"; cargo test --workspace --offline 2>&1 | grep -E "^test result" | head -3
mkdir -p tests; cp demo/*.rs tests/ 2>/dev/null
T=$(ls demo/*.rs | head -1 | xargs -n1 basename | sed 's/\.rs$//')
echo "== demo with mutant:"; cargo test --offline --test "$T" 2>&1 | grep -E "^test result" | head -3
git apply -R mutant.diff
echo "== demo without mutant:"; cargo test --offline --test "$T" 2>&1 | grep -E "^test result" | head -3
git apply mutant.diff
rm -rf tests
