#!/bin/sh
# usage: tools/triage.sh <mutant dir> [--ext] <Cxx> [<Cyy> ...]  — verify the mutant, then run the given checks against it (concise)
D="$1"; shift
FEAT=""; TIERX="quick"
if [ "$1" = "--ext" ]; then FEAT="--features non-pep508-extensions"; TIERX="thorough"; shift; fi
# --extq: the demonstration needs the feature, but the property's quick tier already runs the extension build (ext_in_quick)
if [ "$1" = "--extq" ]; then FEAT="--features non-pep508-extensions"; shift; fi
cd "$D" || exit 2
export CARGO_NET_OFFLINE=true
S=$(cargo test --workspace --offline 2>&1 | grep -E "^test result" | head -1 | cut -c14-40)
mkdir -p tests; cp demo/*.rs tests/ 2>/dev/null
T=$(ls demo/*.rs | head -1 | xargs -n1 basename | sed 's/\.rs$//')
W=$(cargo test --offline $FEAT --test "$T" 2>&1 | grep -E "^test result" | head -1 | cut -c14-45)
git apply -R mutant.diff
O=$(cargo test --offline $FEAT --test "$T" 2>&1 | grep -E "^test result" | head -1 | cut -c14-45)
git apply mutant.diff; rm -rf tests
echo "suite[$S] demo-with[$W] demo-without[$O]"
EVBAK=$(mktemp -d); cp -r /verif/evidence "$EVBAK/"; cp /verif/lean/Pep508/Generated/Tables.lean "$EVBAK/"
cd /repo && git apply "$D/mutant.diff" || { echo "patch does not apply"; exit 2; }
cd /verif
for P in "$@"; do
  python3 check.py "$P" "$TIERX" 2>&1 | grep -v KNOWN | grep -E "VIOLATION|$P (quick|thorough):" | awk '!/VIOLATION/ || ++c<=1' | cut -c1-175
done
cd /repo && git checkout -- .
# the runs above were against a modified tree: put the evidence of the unchanged tree and the generated tables back
rm -rf /verif/evidence && cp -r "$EVBAK/evidence" /verif/evidence && cp "$EVBAK/Tables.lean" /verif/lean/Pep508/Generated/Tables.lean && rm -rf "$EVBAK"
