#!/usr/bin/env python3
"""Regenerate MANIFEST.json from props.py (claimed checks) and properties.jsonl."""
import json, os, sys
ROOT = os.path.dirname(os.path.abspath(__file__))
sys.path.insert(0, ROOT)
from props import PROPS, MANIFEST_TEXT, NOT_APPLICABLE

props = [json.loads(l) for l in open(os.path.join(ROOT, "properties.jsonl"))]
claimed = sorted(PROPS)
m = {
    "version": 1,
    "setup_cmd": "./setup.sh",
    "hooks": {
        "guard": "konstin_pep508_rs_verif",
        "enable": "none needed: every observable is reachable through the public API (no hook commits in /repo)",
        "baseline_off_cmd": "cd /repo && cargo test --workspace --no-fail-fast --offline",
        "source_commits": [],
        "add_only": True,
    },
    "engines": [
        {"name": "lean-model", "path": "lean/", "serves_properties": claimed,
         "kind_free_text": "Lean 4 model (Pep508/Model), helper lemmas (Pep508/Proofs), property theorems (Pep508/Theorems), native driver (Main.lean)"},
        {"name": "harness", "path": "harness/", "serves_properties": claimed,
         "kind_free_text": "Rust correspondence harness + direct oracles, linked against /repo's working tree; check.py orchestrates"},
    ],
    "checks": [],
    "not_applicable": [],
    "notes": "check.py <id> quick|thorough [--replay file]; DESIGN.md describes the approach; known_findings.json lists findings and fixed defects.",
}
for pid in claimed:
    t = MANIFEST_TEXT[pid]
    m["checks"].append({
        "property_id": pid,
        "quick_cmd": f"python3 check.py {pid} quick",
        "thorough_cmd": f"python3 check.py {pid} thorough",
        "evidence_file": f"evidence/{pid}.json",
        "replay_cmd_template": f"python3 check.py {pid} quick --replay {{path}}",
        "engine": "lean-model",
        "technique": t["technique"],
        "level_claimed": {"category": "proof", "text": t["text"], "design_ref": f"DESIGN.md §7 {pid}"},
        "level_note": t["note"],
    })
for p in props:
    if p["id"] not in PROPS:
        m["not_applicable"].append({"property_id": p["id"], "reason": NOT_APPLICABLE.get(p["id"],
            "not yet claimed at this commit: model / theorems under construction (same Lean technique planned; DESIGN.md §7)")})
json.dump(m, open(os.path.join(ROOT, "MANIFEST.json"), "w"), indent=1)
print("claimed:", claimed)
