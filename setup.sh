#!/bin/sh
# Build the framework from files on disk only (offline).
set -e
cd "$(dirname "$0")"
export CARGO_NET_OFFLINE=true
python3 tools/gen_tables.py
(cd lean && lake build Pep508 driver)
(cd harness && CARGO_TARGET_DIR=target cargo build --offline --quiet)
(cd harness && CARGO_TARGET_DIR=target-ext cargo build --offline --quiet --features ext)
echo setup-ok
