#!/usr/bin/env python3
"""
check.py <Cxx> [quick|thorough] [--replay FILE]

One property check = (1) the Lean theorems of the property still build and depend on no
axiom beyond {propext, Classical.choice, Quot.sound}; (2) the hand-written Lean model still
*is* the code: the Rust harness (linked against /repo's working tree) generates cases, runs
the real API, the compiled Lean driver runs the model on the same protocol lines, outputs are
diffed; (3) a direct oracle in the harness evaluates the property itself on the implementation.

exit 0  property held on everything explored (KNOWN-FINDING lines are informational)
exit 1  "VIOLATION property=<id> replay=<path>[ no-failing-input-found]"
"""
import json, os, re, subprocess, sys, time, hashlib, shutil

ROOT = os.path.dirname(os.path.abspath(__file__))
LEAN = os.path.join(ROOT, "lean")
HARN = os.path.join(ROOT, "harness")
WORK = os.path.join(ROOT, ".work")
ALLOWED_AXIOMS = {"propext", "Classical.choice", "Quot.sound"}

sys.path.insert(0, ROOT)
from props import PROPS  # noqa: E402


def run(cmd, cwd=None, env=None, timeout=None, stdin=None):
    e = dict(os.environ)
    e["CARGO_NET_OFFLINE"] = "true"
    if env:
        e.update(env)
    p = subprocess.run(cmd, cwd=cwd, env=e, stdout=subprocess.PIPE, stderr=subprocess.STDOUT,
                       timeout=timeout, stdin=stdin, text=True, errors="replace")
    return p.returncode, p.stdout


def lean_build(targets):
    rc, out = run(["lake", "build"] + targets, cwd=LEAN, timeout=3600)
    return rc, out


def audit_axioms(pid, theorems, imports):
    """#print axioms on every property theorem; returns {thm: [axioms]} and raw text."""
    os.makedirs(WORK, exist_ok=True)
    path = os.path.join(WORK, f"Audit_{pid}.lean")
    with open(path, "w") as f:
        for m in imports:
            f.write(f"import {m}\n")
        for t in theorems:
            f.write(f"#print axioms {t}\n")
    rc, out = run(["lake", "env", "lean", path], cwd=LEAN, timeout=1800)
    res = {}
    # "'name' depends on axioms: [a, b]"  |  "'name' does not depend on any axioms"
    for m in re.finditer(r"'(\S+)' depends on axioms: \[([^\]]*)\]", out, re.S):
        res[m.group(1)] = [a.strip() for a in m.group(2).replace("\n", " ").split(",") if a.strip()]
    for m in re.finditer(r"'(\S+)' does not depend on any axioms", out):
        res[m.group(1)] = []
    return rc, res, out


def grep_sources():
    """sorry/admit/axiom/native_decide/… outside comments in the Lean sources."""
    bad = []
    pat = re.compile(r"\b(sorry|admit|native_decide|bv_decide|implemented_by|unsafe)\b|^\s*axiom\s|maxHeartbeats\s+0\b")
    for dp, _, fns in os.walk(os.path.join(LEAN, "Pep508")):
        for fn in fns:
            if not fn.endswith(".lean"):
                continue
            txt = open(os.path.join(dp, fn), encoding="utf-8").read()
            txt = re.sub(r"/-.*?-/", lambda m: "\n" * m.group(0).count("\n"), txt, flags=re.S)
            for i, line in enumerate(txt.split("\n"), 1):
                line = line.split("--")[0]
                if pat.search(line):
                    bad.append(f"{fn}:{i}: {line.strip()}")
    return bad


def harness_build(features):
    tdir = os.path.join(HARN, "target-ext" if features else "target")
    cmd = ["cargo", "build", "--offline", "--quiet"]
    if features:
        cmd += ["--features", features]
    rc, out = run(cmd, cwd=HARN, env={"CARGO_TARGET_DIR": tdir}, timeout=3600)
    return rc, out, os.path.join(tdir, "debug", "verif-harness")


def known_findings():
    p = os.path.join(ROOT, "known_findings.json")
    if not os.path.exists(p):
        return []
    return json.load(open(p)).get("findings", [])


def match_known(pid, failure, known):
    blob = json.dumps(failure.get("input"), sort_keys=True, ensure_ascii=False)
    for k in known:
        if k.get("property") != pid or k.get("status", "open") != "open":
            continue
        if re.search(k["match"], blob) and re.search(k.get("what_match", ""), failure.get("what", "")):
            return k
    return None


def main():
    args = [a for a in sys.argv[1:]]
    replay = None
    if "--replay" in args:
        i = args.index("--replay")
        replay = args[i + 1]
        del args[i:i + 2]
    pid = args[0]
    tier = args[1] if len(args) > 1 else os.environ.get("VERIF_TIER", "quick")
    if tier not in ("quick", "thorough"):
        tier = "quick"
    seed = int(os.environ.get("VERIF_SEED", "1") or "1")
    from props import PENDING
    spec = PROPS.get(pid) or PENDING[pid]
    t0 = time.time()
    work = os.path.join(WORK, pid)
    shutil.rmtree(work, ignore_errors=True)
    os.makedirs(work, exist_ok=True)
    os.makedirs(os.path.join(ROOT, "replays"), exist_ok=True)
    os.makedirs(os.path.join(ROOT, "evidence"), exist_ok=True)

    violations = []        # (replay_path, suffix)
    known_lines = []
    notes = []

    def write_replay(kind, payload):
        name = f"{pid}_{kind}_{hashlib.sha1(json.dumps(payload, sort_keys=True).encode()).hexdigest()[:10]}.json"
        path = os.path.join(ROOT, "replays", name)
        with open(path, "w") as f:
            json.dump({"property": pid, "kind": kind, "seed": seed, "tier": tier,
                       "replay": f"VERIF_SEED={seed} python3 check.py {pid} {tier}", **payload}, f, indent=1, ensure_ascii=False)
        return os.path.relpath(path, ROOT)

    # ---- 0. translator: the lookup tables of the current sources, regenerated as Lean data -----------
    uses_tables = "Pep508.Theorems.Tables" in spec["lean_targets"]
    rc_t, out_t = run([sys.executable, os.path.join(ROOT, "tools", "gen_tables.py")], cwd=ROOT, timeout=120)
    if rc_t != 0 or "tables-ok" not in out_t:
        notes.append("translator: " + out_t.strip()[-300:])
        if uses_tables:
            rp = write_replay("translator", {"broken": "tools/gen_tables.py (the tables of the current sources could not be read)", "raw": out_t[-2000:]})
            violations.append((rp, " no-failing-input-found"))
    elif uses_tables:
        notes.append("translator: lean/Pep508/Generated/Tables.lean regenerated from /repo's sources")

    # ---- 1. proofs -----------------------------------------------------------------------
    targets = spec["lean_targets"] + ["driver"]
    rc, out = lean_build(targets)
    obligations = len(spec["theorems"])
    discharged = 0
    axioms_seen = {}
    if rc != 0:
        errs = [l for l in out.split("\n") if "error" in l][:20]
        rp = write_replay("proof", {"broken": "lake build " + " ".join(targets), "errors": errs})
        violations.append((rp, " no-failing-input-found"))
    else:
        rc2, axioms_seen, raw = audit_axioms(pid, spec["theorems"], spec["lean_targets"])
        for t in spec["theorems"]:
            ax = axioms_seen.get(t)
            if ax is not None and set(ax) <= ALLOWED_AXIOMS:
                discharged += 1
            else:
                rp = write_replay("proof", {"broken": t, "axioms": ax, "raw": raw[-2000:]})
                violations.append((rp, " no-failing-input-found"))
        bad = grep_sources()
        if bad:
            rp = write_replay("proof", {"broken": "source audit", "hits": bad})
            violations.append((rp, " no-failing-input-found"))
    if tier == "thorough" and rc == 0:
        for m in spec["lean_targets"]:
            rc3, out3 = run(["lake", "env", "leanchecker", m], cwd=LEAN, timeout=3600)
            if rc3 != 0:
                rp = write_replay("proof", {"broken": "leanchecker " + m, "raw": out3[-2000:]})
                violations.append((rp, " no-failing-input-found"))
            else:
                notes.append(f"leanchecker {m}: ok")

    # ---- 2/3. correspondence + oracle -----------------------------------------------------
    known = known_findings()
    evaluations = 0
    nontrivial = 0
    corr_cases = 0
    mismatches = []
    samples = []
    stats = {}
    suites_run = []
    oracle_unlisted = []
    known_hex = set()
    suites = list(spec["suites"])
    if tier == "thorough" or spec.get("ext_in_quick"):
        # "all other properties hold unchanged under both feature configurations" (C19); the properties with a
        # clause about the extension feature itself (unnamed requirements) run that build in the quick tier too
        suites += [dict(su, features="ext") for su in spec["suites"] if su["name"] in ("req", "mparse", "algebra", "pyver")]
    for suite in suites:
        feats = suite.get("features", "")
        rc, out, exe = harness_build(feats)
        if rc != 0:
            print(out[-4000:])
            print(f"ERROR: harness does not build against /repo (features='{feats}')")
            rp = write_replay("build", {"broken": "cargo build harness", "raw": out[-3000:]})
            violations.append((rp, " no-failing-input-found"))
            continue
        sdir = os.path.join(work, suite["name"] + "-" + "-".join(suite.get("args", [])) + ("-ext" if feats else ""))
        cmd = [exe, suite["name"], tier, str(seed), sdir] + suite.get("args", [])
        rc, out = run(cmd, cwd=HARN, timeout=suite.get("timeout", 3000),
                      env={"VERIF_DRIVER": os.path.join(LEAN, ".lake/build/bin/driver")})
        if rc != 0 or not os.path.exists(os.path.join(sdir, "report.json")):
            rp = write_replay("harness", {"broken": " ".join(cmd), "raw": out[-3000:]})
            violations.append((rp, " no-failing-input-found"))
            continue
        rep = json.load(open(os.path.join(sdir, "report.json")))
        suites_run.append(suite["name"] + ("[ext]" if feats else ""))
        evaluations += rep["evaluations"]
        nontrivial += rep["distinct_nontrivial"]
        for k, v in rep["stats"].items():
            stats[f"{suite['name']}.{k}"] = v
        samples += rep["samples"][:4]
        notes += rep.get("notes", [])
        # model side
        cases = os.path.join(sdir, "cases.txt")
        if os.path.getsize(cases) > 0:
            class _P:  # the suite ran the driver itself (two-stage protocols) and post-processed its answers
                returncode = 0
                stderr = b""
            p = _P()
            if not os.path.exists(os.path.join(sdir, "model.txt")):
                with open(cases) as fin, open(os.path.join(sdir, "model.txt"), "w") as fout:
                    p = subprocess.run([os.path.join(LEAN, ".lake/build/bin/driver")], stdin=fin, stdout=fout,
                                       stderr=subprocess.PIPE, timeout=3000)
            cl = open(cases).read().split("\n")
            il = open(os.path.join(sdir, "impl.txt")).read().split("\n")
            ml = open(os.path.join(sdir, "model.txt")).read().split("\n")
            n = len(cl) - 1
            corr_cases += n
            if p.returncode != 0 or len(ml) != len(il):
                mismatches.append({"suite": suite["name"], "case": "<driver crashed or line count differs>",
                                   "impl": str(len(il)), "model": str(len(ml)) + " " + p.stderr.decode()[-500:]})
            for i in range(min(n, len(ml) - 1)):
                mi = "panic" if ml[i].startswith("panic") else ml[i]
                if il[i] != mi:
                    mismatches.append({"suite": suite["name"], "case": cl[i], "impl": il[i], "model": ml[i]})
        for f in rep["oracle_failures"]:
            k = match_known(pid, f, known)
            if k:
                known_lines.append((k["id"], k["what"]))
                hx = (f.get("input") or {}).get("text_hex")
                if hx:
                    known_hex.add(hx)
            else:
                oracle_unlisted.append({"suite": suite["name"], **f})

    for kid, what in sorted(set(known_lines)):
        print(f"KNOWN-FINDING: property={pid} {kid}: {what}")

    if oracle_unlisted:
        # one replay per distinct 'what' class (first 5)
        seen = set()
        for f in oracle_unlisted:
            key = re.sub(r"[0-9a-f]{6,}|\".*?\"", "", f["what"])[:80]
            if key in seen or len(seen) >= 5:
                continue
            seen.add(key)
            rp = write_replay("oracle", {"failure": f, "all_count": len(oracle_unlisted)})
            violations.append((rp, ""))
    # an input recorded as a known finding may also differ from the model (e.g. the implementation panics there)
    mismatches = [m for m in mismatches if not any(h in m["case"] for h in known_hex)]
    if mismatches:
        # the model no longer matches the code; the oracle above is the search for a failing input
        rp = write_replay("correspondence", {"broken": "model/implementation correspondence",
                                             "count": len(mismatches), "first": mismatches[:10]})
        if not oracle_unlisted:
            violations.append((rp, " no-failing-input-found"))
        else:
            notes.append(f"correspondence also broken: {rp}")

    # a proof obligation / the translator / the correspondence broke AND the search found a failing input: the input is the
    # replay (the broken obligations are named inside it); `no-failing-input-found` is only for a search that found none
    if oracle_unlisted:
        breaks = [(rp, sfx) for rp, sfx in violations if sfx]
        if breaks:
            broken = []
            for rp, _ in breaks:
                try:
                    broken.append({"replay": rp, "broken": json.load(open(os.path.join(ROOT, rp))).get("broken")})
                except Exception:
                    broken.append({"replay": rp})
            for rp, sfx in violations:
                if not sfx:
                    try:
                        d = json.load(open(os.path.join(ROOT, rp)))
                        d["also_broken"] = broken
                        json.dump(d, open(os.path.join(ROOT, rp), "w"), indent=1, ensure_ascii=False)
                    except Exception:
                        pass
            violations = [(rp, sfx) for rp, sfx in violations if not sfx]
            notes.append("obligations that no longer check (a failing input was found, see the oracle replays): " + ", ".join(str(b.get("broken"))[:80] for b in broken))

    wall = time.time() - t0
    ev = {
        "property_id": pid, "tier": tier, "seed": seed, "level": "proof",
        "coverage": {
            "obligations": obligations, "discharged": discharged,
            "checker_cmd": f"cd lean && lake build {' '.join(targets)} && lake env lean .work/Audit_{pid}.lean  (#print axioms on each property theorem"
                           + ("; lake env leanchecker on the theorem modules)" if tier == "thorough" else ")"),
            "trusted_base": [
                "Lean 4.33 kernel; axioms allowed: propext, Classical.choice, Quot.sound (audited per theorem with #print axioms)",
                "the hand-written Lean model is tied to /repo by differential correspondence (sampled, not proved): see evaluations / traces_validated_against_impl",
                "harness canonicalisation + driver protocol parsing",
            ] + spec.get("trusted", []),
            "theorems": {t: axioms_seen.get(t) for t in spec["theorems"]},
            "evaluations": evaluations, "distinct_nontrivial": nontrivial,
            "rule": spec["rule"],
            "samples": samples[:8] if samples else [{"note": "no cases generated"}],
            "traces_validated_against_impl": corr_cases,
            "correspondence_mismatches": len(mismatches),
            "oracle_failures_unlisted": len(oracle_unlisted),
            "known_findings_seen": sorted(set(k for k, _ in known_lines)),
            "suites": suites_run, "distribution": stats, "notes": notes[:30],
            "exhaustive": False,
        },
        "assumptions": spec.get("assumptions", []),
        "wall_s": round(wall, 2),
        "violations": len(violations),
    }
    with open(os.path.join(ROOT, "evidence", f"{pid}.json"), "w") as f:
        json.dump(ev, f, indent=1, ensure_ascii=False)

    for rp, suffix in violations:
        print(f"VIOLATION property={pid} replay={rp}{suffix}")
    print(f"{pid} {tier}: theorems {discharged}/{obligations}, cases {evaluations}, correspondence {corr_cases} "
          f"(mismatch {len(mismatches)}), oracle failures unlisted {len(oracle_unlisted)}, {wall:.1f}s")
    sys.exit(1 if violations else 0)


if __name__ == "__main__":
    main()
