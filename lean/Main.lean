import Pep508.Driver.Names
open Pep508.Driver

def step (line : String) : String :=
  match fields line with
  | "name" :: args => runName args
  | _ => "bad-op"

partial def loop (h : IO.FS.Stream) (out : IO.FS.Stream) : IO Unit := do
  let line ← h.getLine
  if line.isEmpty then return ()
  out.putStrLn (step line)
  loop h out

def main : IO Unit := do
  let stdin ← IO.getStdin
  let stdout ← IO.getStdout
  loop stdin stdout
  stdout.flush
