import Pep508.Driver.Names
import Pep508.Driver.Marker
import Pep508.Driver.Parse
open Pep508.Driver

def step (line : String) : String :=
  match fields line with
  | "name" :: args => runName args
  | "dump" :: args => runDump args
  | "ev" :: args => runEv args
  | "disj" :: args => runDisj args
  | "xev" :: args => runXev args
  | "mparse" :: args => runMparse args
  | "eparse" :: args => runEparse args
  | "req" :: args => runReq args
  | "showreq" :: args => runShowReq args
  | "unnamed" :: args => runUnnamed args
  | "showunnamed" :: args => runShowUnnamed args
  | "errdisp" :: args => runErrDisp args
  | "dnf" :: args => runDnf args
  | "tle" :: args => runTle args
  | "iand" :: args => runIand args
  | "iops" :: args => runIops args
  | "ipy" :: args => runIpy args
  | "cmp" :: args => runCmp args
  | "show" :: args => runShow args
  | "expand" :: args => runExpand args
  | "urlhelpers" :: args => runUrlHelpers args
  | "pathnorm" :: args => runPathNorm args
  | _ => "bad-op"

partial def loop (h : IO.FS.Stream) (out : IO.FS.Stream) : IO Unit := do
  let line ← h.getLine
  if line.isEmpty then return ()
  out.putStrLn (step line)
  loop h out

def main : IO Unit := do
  let stdin ← IO.getStdin
  let stdout ← IO.getStdout
  loop stdin stdout
  stdout.flush
