def hello := "world"
