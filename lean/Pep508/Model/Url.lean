/-
Model of the string helpers of `src/verbatim_url.rs` and `src/lib.rs` used by the requirement
parser: `expand_env_vars` (leftmost non-overlapping `${[A-Z0-9_]+}`), `split_scheme`,
`split_extras`, and `looks_like_archive` (with the `std::path` extension rules on a string that
contains no path separator).
-/
namespace Pep508

/-- process environment as seen by `std::env::var`, plus the working directory used for the
    reserved name `PROJECT_ROOT` -/
structure ProcEnv where
  vars : List (List Char × List Char)
  cwd : List Char

def isVarChar (c : Char) : Bool :=
  (c.toNat ≥ 65 && c.toNat ≤ 90) || (c.toNat ≥ 48 && c.toNat ≤ 57) || c == '_'

/-- at the start of `s`: `${NAME}` with `NAME ∈ [A-Z0-9_]+`; returns the name and what follows -/
def matchVar (s : List Char) : Option (List Char × List Char) :=
  match s with
  | '$' :: '{' :: rest =>
    let name := rest.takeWhile isVarChar
    match rest.dropWhile isVarChar with
    | '}' :: after => if name.isEmpty then none else some (name, after)
    | _ => none
  | _ => none

def lookupVar (env : ProcEnv) (name : List Char) : Option (List Char) :=
  match env.vars.find? (·.1 == name) with
  | some (_, v) => some v
  | none => if name == "PROJECT_ROOT".toList then some env.cwd else none

/-- `expand_env_vars` (fuel = length of the input; every step consumes at least one char) -/
def expandEnvVarsF (env : ProcEnv) : Nat → List Char → List Char
  | 0, s => s
  | _ + 1, [] => []
  | fuel + 1, c :: rest =>
    match matchVar (c :: rest) with
    | some (name, after) =>
      (match lookupVar env name with
       | some v => v
       | none => '$' :: '{' :: name ++ ['}']) ++ expandEnvVarsF env fuel after
    | none => c :: expandEnvVarsF env fuel rest

def expandEnvVars (env : ProcEnv) (s : List Char) : List Char := expandEnvVarsF env (s.length + 1) s

/-- `split_extras`: the string ends with `]`; going backwards find `[` before any other `]` -/
def splitExtras (s : List Char) : Option (List Char × List Char) :=
  match s.reverse with
  | ']' :: revRest =>
    let inner := revRest.takeWhile (fun c => c != ']')      -- reversed text after the candidate `[`
    match inner.span (fun c => c != '[') with
    | (afterBracket, '[' :: _) =>
      let n := s.length - (afterBracket.length + 2)
      some (s.take n, s.drop n)
    | _ => none
  | _ => none

/-- `split_scheme` -/
def splitScheme (s : List Char) : Option (List Char × List Char) :=
  let ctl (c : Char) : Bool := c.toNat ≤ 32
  let t := ((s.dropWhile ctl).reverse.dropWhile ctl).reverse
  match t with
  | [] => none
  | c :: _ =>
    if !(c.toNat < 128 && c.isAlpha) then none
    else
      let ok (c : Char) : Bool := (c.toNat < 128 && c.isAlphanum) || c == '+' || c == '-' || c == '.'
      match t.dropWhile ok with
      | ':' :: rest => some (t.takeWhile ok, rest)
      | _ => none

/-- `s` without the prefix `p`, when it has it (`str::strip_prefix`) -/
def stripPrefix? : List Char → List Char → Option (List Char)
  | s, [] => some s
  | [], _ :: _ => none
  | c :: s, d :: p => if c == d then stripPrefix? s p else none

/-- `strip_host`: the text after `file:` without its `//localhost` host (only when a `/` follows), else without `//` -/
def stripHost (s : List Char) : List Char :=
  match stripPrefix? s "//localhost".toList with
  | some ('/' :: rest) => '/' :: rest
  | _ =>
    match stripPrefix? s "//".toList with
    | some rest => rest
    | none => s

/-- split at the last `.` : (before, after); `none` if there is no `.` -/
def rsplitDot (s : List Char) : Option (List Char × List Char) :=
  let after := (s.reverse.takeWhile (· != '.')).reverse
  if after.length == s.length then none
  else some (s.take (s.length - after.length - 1), after)

/-- `Path::extension` for a file name without separators that is not `..` -/
def pathExtension (s : List Char) : Option (List Char) :=
  match rsplitDot s with
  | none => none
  | some (before, after) => if before.isEmpty then none else some after

/-- `Path::file_stem` likewise -/
def pathStem (s : List Char) : List Char :=
  match rsplitDot s with
  | none => s
  | some (before, _) => if before.isEmpty then s else before

/-- `looks_like_archive` -/
def looksLikeArchive (file : List Char) : Bool :=
  if file.isEmpty || file == "..".toList then false else
  match pathExtension file with
  | none => false
  | some ext =>
    let e := String.ofList ext
    let pre := (pathExtension (pathStem file)).map String.ofList
    e == "whl" || e == "tbz" || e == "txz" || e == "tlz" || e == "zip" || e == "tgz" || e == "tar" ||
      (pre == some "tar" && (e == "bz2" || e == "xz" || e == "lz" || e == "lzma" || e == "gz"))

end Pep508
