/-
`Ord for MarkerTree`: the structural comparison of `kind()` views (`src/marker/tree.rs`:
derived `Ord` on `MarkerTreeKind`, hand-written `Ord` on the five node views) with the bound
comparison of `version-ranges` (`cmp_bounds_start`, `cmp_bounds_end`, `Ranges: Ord`).
-/
import Pep508.Model.Tree
namespace Pep508

section
variable {νr νb α : Type} [LT α] [DecidableLT α] [LT νr] [DecidableLT νr] [LT νb] [DecidableLT νb]

def cmpOfLt {β : Type} [LT β] [DecidableLT β] (a b : β) : Ordering :=
  if a < b then .lt else if b < a then .gt else .eq

/-- `cmp_bounds_start` -/
def cmpLo (l r : Bnd α) : Ordering :=
  match l, r with
  | .unb, .unb => .eq
  | .incl _, .unb => .gt
  | .excl _, .unb => .gt
  | .unb, .incl _ => .lt
  | .incl a, .incl b => cmpOfLt a b
  | .excl a, .incl b => if a < b then .lt else .gt
  | .unb, .excl _ => .lt
  | .incl a, .excl b => if b < a then .gt else .lt
  | .excl a, .excl b => cmpOfLt a b

/-- `cmp_bounds_end` -/
def cmpHi (l r : Bnd α) : Ordering :=
  match l, r with
  | .unb, .unb => .eq
  | .incl _, .unb => .lt
  | .excl _, .unb => .lt
  | .unb, .incl _ => .gt
  | .incl a, .incl b => cmpOfLt a b
  | .excl a, .incl b => if b < a then .gt else .lt
  | .unb, .excl _ => .gt
  | .incl a, .excl b => if a < b then .lt else .gt
  | .excl a, .excl b => cmpOfLt a b

/-- `Ranges: Ord` on single-segment ranges -/
def cmpIvl (a b : Ivl α) : Ordering := (cmpLo a.lo b.lo).then (cmpHi a.hi b.hi)

mutual
/-- `MarkerTree::cmp` -/
def Tree.cmp : Tree νr νb α → Tree νr νb α → Ordering
  | .leaf a, .leaf b => if a == b then .eq else if a then .lt else .gt      -- True < False
  | .leaf _, _ => .lt
  | .rng _ _, .leaf _ => .gt
  | .rng v es, .rng w fs => (cmpOfLt v w).then (es.cmp fs)
  | .rng _ _, .bool _ _ _ => .lt
  | .bool _ _ _, .leaf _ => .gt
  | .bool _ _ _, .rng _ _ => .gt
  | .bool v h l, .bool w h' l' => (cmpOfLt v w).then ((h.cmp h').then (l.cmp l'))
/-- lexicographic comparison of `(range, child)` sequences -/
def Edges.cmp : Edges νr νb α → Edges νr νb α → Ordering
  | .nil, .nil => .eq
  | .nil, .cons _ _ _ => .lt
  | .cons _ _ _, .nil => .gt
  | .cons iv t r, .cons iv' t' r' => (cmpIvl iv iv').then ((t.cmp t').then (r.cmp r'))
end

end
end Pep508
