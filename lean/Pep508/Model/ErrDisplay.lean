/-
Model of `impl Display for Pep508Error` (src/lib.rs:82-113): the two slices of `input` it takes.
`none` = the Rust slice expression panics.  The display widths (`unicode_width`) are external:
the model returns the sliced texts, the harness applies the width function.
-/
import Pep508.Model.Cursor
namespace Pep508

/-- `str::is_char_boundary` -/
def isCharBoundary (input : List Char) (n : Nat) : Bool := (dropBytes input n).isSome

/-- `while !input.is_char_boundary(end) { end -= 1 }` (0 is always a boundary) -/
def clampEnd (input : List Char) : Nat → Nat
  | 0 => 0
  | n + 1 => if isCharBoundary input (n + 1) then n + 1 else clampEnd input n

/-- the text before the span, and the underlined text (`none`: "one past the input", a single caret) -/
def errDisplaySlices (input : List Char) (start len : Nat) : Option (List Char × Option (List Char)) :=
  match sliceBytes input 0 start with            -- `self.input[..self.start]`
  | none => none
  | some pre =>
    if start == strLen input then some (pre, none)
    else
      let end_ := clampEnd input (min (start + len) (strLen input))
      let e := max end_ start
      match sliceBytes input start (e - start) with   -- `self.input[self.start..end.max(self.start)]`
      | none => none
      | some u => some (pre, some u)

end Pep508
