/-
Bounds, single intervals and normalised range sets: the part of the `version-ranges` crate
(`Ranges<V>`) that pep508_rs uses, on the representation pep508_rs keeps in its diagrams
(every edge is ONE interval) plus sorted lists of intervals for expression construction.
Generic in the value type `α` (only `<` and `=` are used).  No imports.
-/
namespace Pep508

inductive Bnd (α : Type) where
  | unb
  | incl (v : α)
  | excl (v : α)
  deriving DecidableEq, Repr

/-- one segment `(lo, hi)` of a `Ranges` -/
structure Ivl (α : Type) where
  lo : Bnd α
  hi : Bnd α
  deriving DecidableEq, Repr

section
variable {α : Type} [LT α] [DecidableLT α] [DecidableEq α]

/-- does `x` satisfy the lower bound -/
def Bnd.loOk (b : Bnd α) (x : α) : Bool :=
  match b with
  | .unb => true
  | .incl v => !decide (x < v)
  | .excl v => decide (v < x)

/-- does `x` satisfy the upper bound -/
def Bnd.hiOk (b : Bnd α) (x : α) : Bool :=
  match b with
  | .unb => true
  | .incl v => !decide (v < x)
  | .excl v => decide (x < v)

/-- `Ranges::contains` for one segment -/
def Ivl.mem (iv : Ivl α) (x : α) : Bool := iv.lo.loOk x && iv.hi.hiOk x

/-- version-ranges `valid_segment`: the segment is kept (is "non-empty") -/
def Ivl.valid (iv : Ivl α) : Bool :=
  match iv.lo, iv.hi with
  | .unb, _ => true
  | _, .unb => true
  | .incl s, .incl e => !decide (e < s)
  | .incl s, .excl e => decide (s < e)
  | .excl s, .incl e => decide (s < e)
  | .excl s, .excl e => decide (s < e)

/-- the tighter of two lower bounds -/
def Bnd.maxLo (a b : Bnd α) : Bnd α :=
  match a, b with
  | .unb, b => b
  | a, .unb => a
  | .incl x, .incl y => if x < y then .incl y else .incl x
  | .incl x, .excl y => if y < x then .incl x else .excl y
  | .excl x, .incl y => if x < y then .incl y else .excl x
  | .excl x, .excl y => if x < y then .excl y else .excl x

/-- the tighter of two upper bounds -/
def Bnd.minHi (a b : Bnd α) : Bnd α :=
  match a, b with
  | .unb, b => b
  | a, .unb => a
  | .incl x, .incl y => if y < x then .incl y else .incl x
  | .incl x, .excl y => if x < y then .incl x else .excl y
  | .excl x, .incl y => if y < x then .incl y else .excl x
  | .excl x, .excl y => if y < x then .excl y else .excl x

/-- `Ranges::intersection` of two single segments (the result may be invalid = empty) -/
def Ivl.inter (a b : Ivl α) : Ivl α := ⟨Bnd.maxLo a.lo b.lo, Bnd.minHi a.hi b.hi⟩

/-- algebra.rs `can_conjoin`: `a` ends exactly where `b` starts, without gap or overlap -/
def Ivl.canConjoin (a b : Ivl α) : Bool :=
  match a.hi, b.lo with
  | .incl v1, .excl v2 => decide (v1 = v2)
  | .excl v1, .incl v2 => decide (v1 = v2)
  | _, _ => false

/-- `range.union(&intersection)` when `can_conjoin` holds: the hull -/
def Ivl.conjoin (a b : Ivl α) : Ivl α := ⟨a.lo, b.hi⟩

/-- the lower bound that starts right after the upper bound `b` (`none` after +∞) -/
def Bnd.flipHi : Bnd α → Option (Bnd α)
  | .unb => none
  | .incl v => some (.excl v)
  | .excl v => some (.incl v)

/-- the upper bound that ends right before the lower bound `b` (`none` before -∞) -/
def Bnd.flipLo : Bnd α → Option (Bnd α)
  | .unb => none
  | .incl v => some (.excl v)
  | .excl v => some (.incl v)

/-! ### normalised range sets (sorted, disjoint, non-touching valid segments) -/

abbrev Ranges (α : Type) := List (Ivl α)

def Ranges.mem (r : Ranges α) (x : α) : Bool := r.any (·.mem x)

/-- is upper bound `h` strictly below lower bound `l` with a gap between (neither overlapping
    nor touching)?  -/
def Bnd.gapBefore (h : Bnd α) (l : Bnd α) : Bool :=
  match h, l with
  | .unb, _ => false
  | _, .unb => false
  | .incl x, .incl y => decide (x < y)
  | .incl x, .excl y => decide (x < y)
  | .excl x, .incl y => decide (x < y)
  | .excl x, .excl y => decide (x < y) || decide (x = y)

/-- the looser of two lower bounds -/
def Bnd.minLo (a b : Bnd α) : Bnd α :=
  match a, b with
  | .unb, _ => .unb
  | _, .unb => .unb
  | .incl x, .incl y => if y < x then .incl y else .incl x
  | .incl x, .excl y => if y < x then .excl y else .incl x
  | .excl x, .incl y => if x < y then .excl x else .incl y
  | .excl x, .excl y => if y < x then .excl y else .excl x

/-- the looser of two upper bounds -/
def Bnd.maxHi (a b : Bnd α) : Bnd α :=
  match a, b with
  | .unb, _ => .unb
  | _, .unb => .unb
  | .incl x, .incl y => if x < y then .incl y else .incl x
  | .incl x, .excl y => if x < y then .excl y else .incl x
  | .excl x, .incl y => if y < x then .excl x else .incl y
  | .excl x, .excl y => if x < y then .excl y else .excl x

/-- insert one valid segment into a normalised list, merging everything it overlaps or touches
    (`Ranges::union` with a single-segment operand) -/
def Ranges.insert (s : Ivl α) : Ranges α → Ranges α
  | [] => [s]
  | t :: rest =>
    if Bnd.gapBefore s.hi t.lo then s :: t :: rest
    else if Bnd.gapBefore t.hi s.lo then t :: Ranges.insert s rest
    else Ranges.insert ⟨Bnd.minLo s.lo t.lo, Bnd.maxHi s.hi t.hi⟩ rest

/-- `Ranges::union`, folding the segments of the second operand into the first -/
def Ranges.union (a b : Ranges α) : Ranges α :=
  b.foldl (fun acc s => if s.valid then Ranges.insert s acc else acc) a

/-- `Ranges::complement` on a normalised list: the gaps.  `cur` is the lower bound of the
    not-yet-covered remainder (`none` = nothing remains). -/
def Ranges.gaps : Option (Bnd α) → Ranges α → Ranges α
  | none, _ => []
  | some cur, [] => [⟨cur, .unb⟩]
  | some cur, s :: rest =>
    match s.lo.flipLo with
    | none => Ranges.gaps s.hi.flipHi rest                      -- segment starts at -∞
    | some h => ⟨cur, h⟩ :: Ranges.gaps s.hi.flipHi rest

def Ranges.complement (r : Ranges α) : Ranges α := Ranges.gaps (some .unb) r

/-- `Ranges::from_range_bounds` -/
def Ranges.ofBounds (lo hi : Bnd α) : Ranges α :=
  if (Ivl.mk lo hi).valid then [⟨lo, hi⟩] else []

def Ranges.singleton (v : α) : Ranges α := [⟨.incl v, .incl v⟩]

end
end Pep508
