/-
Model of the unnamed-requirement parser of `src/unnamed.rs` (feature `non-pep508-extensions`):
`parse_unnamed_requirement`, `parse_unnamed_url` (scan with bracket depth), `preprocess_unnamed_url`
(extras split BEFORE expansion, extras parsed on their own cursor with re-based error spans, `${VAR}`
expansion, scheme classification).  Building the URL value from the classified text (`file:` path →
`strip_host`, percent-decoding, `from_path`; known scheme → `Url::parse`; anything else → path joined to
the working directory) is external: a recorded call (`UCall`) that the harness resolves with the real
crate; its failure yields the URL error with the span of the whole scanned token.
-/
import Pep508.Model.ReqParse
namespace Pep508

inductive UKind where
  | file      -- `file:` + path (text after the colon)
  | url       -- a known scheme: the whole expanded text
  | path      -- no scheme / unknown scheme: the whole expanded text
  deriving Repr, DecidableEq

structure UCall where
  kind : UKind
  text : List Char
  start : Nat
  len : Nat

structure UOk where
  given : List Char
  extras : List (List Nat)
  marker : MTree
  warns : List WarnKind

inductive UThen where
  | ok (r : UOk)
  | err (e : PErr)
  | panic (site : String)

structure UOut where
  call : Option UCall
  fin : UThen

/-- `Scheme::parse(..).is_some()` -/
def knownScheme (s : List Char) : Bool :=
  [ "file", "git+git", "git+http", "git+file", "git+ssh", "git+https", "bzr+http", "bzr+https", "bzr+ssh",
    "bzr+sftp", "bzr+ftp", "bzr+lp", "bzr+file", "hg+file", "hg+http", "hg+https", "hg+ssh", "hg+static-http",
    "svn+ssh", "svn+http", "svn+https", "svn+svn", "svn+file", "http", "https" ].any (fun k => k.toList == s)

/-- the scanning loop of `parse_unnamed_url`: byte length of the token and the cursor after the loop -/
def unnamedScan : Nat → Cursor → Nat → Nat → Nat × Cursor
  | 0, c, len, _ => (len, c)
  | fuel + 1, c, len, depth =>
    match c.next with
    | none => (len, c)
    | some ((_, ch), c1) =>
      if ch == '\r' || ch == '\n' then (len, c1)
      else
        let depth' := if ch == '[' then depth + 1 else if ch == ']' then depth - 1 else depth
        let stopWs := depth' == 0 && isWs ch &&
          (match c1.eatWhitespace.peekChar with
           | none => true
           | some n => n == ';' || n == '#')
        if stopWs then (len, c1)
        else
          let len' := len + utf8Len ch
          let glued := depth' == 0 && (ch == ';' || ch == '#') &&
            (match c1.peekChar with | some n => isWs n | none => false)
          if glued then (len', c1) else unnamedScan fuel c1 len' depth'

/-- `parse_unnamed_url` + `preprocess_unnamed_url` up to the external call -/
def parseUnnamedUrl (env : ProcEnv) (c : Cursor) : Res ((UCall × List Char × List (List Nat) × Nat) × Cursor) :=
  let c0 := c.eatWhitespace
  let start := c0.pos
  let (len, c1) := unnamedScan (c0.rest.length + 1) c0 0 0
  match Res.ofSlice (c1.slice start len) with
  | .panic s => .panic s
  | .err e => .err e
  | .ok tok =>
    if tok.isEmpty then serr start len
    else
      let (u, ex) := match splitExtras tok with
        | some (u, e) => (u, some e)
        | none => (tok, none)
      let extrasRes : Res (List (List Nat)) :=
        match ex with
        | none => .ok []
        | some e =>
          match parseExtras (Cursor.new e) with
          | .ok (xs, _) => .ok xs
          | .err er => .err ⟨er.kind, start + strLen u + er.start, er.len⟩
          | .panic s => .panic s
      match extrasRes with
      | .panic s => .panic s
      | .err e => .err e
      | .ok extras =>
        let expanded := expandEnvVars env u
        let call : UCall :=
          match splitScheme expanded with
          | some (scheme, path) =>
            if scheme == "file".toList then ⟨.file, path, start, len⟩
            else if knownScheme scheme then ⟨.url, expanded, start, len⟩
            else ⟨.path, expanded, start, len⟩
          | none => ⟨.path, expanded, start, len⟩
        .ok ((call, u, extras, start + len), c1)

/-- `parse_unnamed_requirement` -/
def parseUnnamed (env : ProcEnv) (x : Ext) (input : List Char) : UOut :=
  let c := (Cursor.new input).eatWhitespace
  match parseUnnamedUrl env c with
  | .err e => ⟨none, .err e⟩
  | .panic s => ⟨none, .panic s⟩
  | .ok ((call, given, extras, requirementEnd), c) =>
    -- (F22) the end of the URL text, not the cursor (which may be past the blank that ended the URL)
    let c := c.eatWhitespace
    let markerRes : Res (Option MTree × List WarnKind × Cursor) :=
      if c.peekChar == some ';' then
        match c.next with
        | none => .panic "unreachable"
        | some (_, c1) =>
          match parseMarkersCursor x (4 * input.length + 16) c1 with
          | .ok st => .ok (st.tree, st.warns, st.cur)
          | .err e => .err e
          | .panic s => .panic s
      else .ok (none, [], c)
    match markerRes with
    | .err e => ⟨some call, .err e⟩
    | .panic s => ⟨some call, .panic s⟩
    | .ok (marker, warns, c) =>
      let c := c.eatWhitespace
      match c.next with
      | some ((pos, ch), _) =>
        if marker.isNone && given.getLast? == some ';' then ⟨some call, .err ⟨.string, requirementEnd - 1, 1⟩⟩
        else if marker.isNone && given.getLast? == some '#' then ⟨some call, .err ⟨.string, requirementEnd - 1, 1⟩⟩
        else ⟨some call, .err ⟨.string, pos, utf8Len ch⟩⟩
      | none => ⟨some call, .ok ⟨given, extras, marker.getD (.leaf true), warns⟩⟩

/-- `Display for UnnamedRequirement` over rendered components -/
def showUnnamed (url : List Char) (extras : List (List Char)) (marker : Option (List Char)) : List Char :=
  url ++ (if extras.isEmpty then [] else '[' :: (extras.foldl (fun acc e => if acc.isEmpty then e else acc ++ ',' :: e) []) ++ [']']) ++
  (match marker with | none => [] | some m => [' ', ';', ' '] ++ m)

end Pep508
