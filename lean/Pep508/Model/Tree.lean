/-
The decision diagram as seen through `MarkerTree::kind()`: complement bits resolved, ids
replaced by structure.  (`NodeId` equality *is* structural equality of this view — that is what
the unique table and the complement normalisation are for; the id-level refinement is
`Pep508.Model.Interner`.)

`νr` : variables with range edges (version / string keys) — `Edges::Version` / `Edges::String`
`νb` : variables with boolean edges (`in`, `contains`, `extra`) — `Edges::Boolean`
Every `νr` variable orders before every `νb` variable (`Variable`'s derived `Ord`).
-/
import Pep508.Model.Bound
namespace Pep508

mutual
inductive Tree (νr νb α : Type) where
  | leaf (b : Bool)
  | rng (v : νr) (es : Edges νr νb α)
  | bool (v : νb) (hi lo : Tree νr νb α)
inductive Edges (νr νb α : Type) where
  | nil
  | cons (iv : Ivl α) (t : Tree νr νb α) (rest : Edges νr νb α)
end
deriving instance DecidableEq, Repr for Tree, Edges

/-- environment: a value for each range variable, a truth value for each boolean variable -/
structure Env (νr νb α : Type) where
  rv : νr → α
  bv : νb → Bool

section
variable {νr νb α : Type}

def Edges.toList : Edges νr νb α → List (Ivl α × Tree νr νb α)
  | .nil => []
  | .cons iv t rest => (iv, t) :: rest.toList

def Edges.ofList : List (Ivl α × Tree νr νb α) → Edges νr νb α
  | [] => .nil
  | (iv, t) :: rest => .cons iv t (Edges.ofList rest)

mutual
def Tree.size : Tree νr νb α → Nat
  | .leaf _ => 1
  | .rng _ es => 1 + es.size
  | .bool _ h l => 1 + h.size + l.size
def Edges.size : Edges νr νb α → Nat
  | .nil => 0
  | .cons _ t rest => 1 + t.size + rest.size
end

mutual
/-- `NodeId::not` seen through `kind()`: the same diagram with both terminals swapped -/
def Tree.not : Tree νr νb α → Tree νr νb α
  | .leaf b => .leaf (!b)
  | .rng v es => .rng v es.not
  | .bool v h l => .bool v h.not l.not
def Edges.not : Edges νr νb α → Edges νr νb α
  | .nil => .nil
  | .cons iv t rest => .cons iv t.not rest.not
end

variable [LT α] [DecidableLT α] [DecidableEq α]

mutual
/-- `evaluate_reporter_impl`: first edge whose range contains the value; `false` if none -/
def Tree.eval (ρ : Env νr νb α) : Tree νr νb α → Bool
  | .leaf b => b
  | .rng v es => es.eval ρ (ρ.rv v)
  | .bool v h l => if ρ.bv v then h.eval ρ else l.eval ρ
def Edges.eval (ρ : Env νr νb α) (x : α) : Edges νr νb α → Bool
  | .nil => false
  | .cons iv t rest => if iv.mem x then t.eval ρ else rest.eval ρ x
end

/-! ### the C20 predicate, executable -/

/-- position of a node's variable in the global order -/
inductive Rank (νr νb : Type) where
  | r (v : νr)
  | b (v : νb)

variable [LT νr] [DecidableLT νr] [LT νb] [DecidableLT νb]

def Rank.lt : Rank νr νb → Rank νr νb → Bool
  | .r x, .r y => decide (x < y)
  | .r _, .b _ => true
  | .b _, .r _ => false
  | .b x, .b y => decide (x < y)

/-- the root variable of `t` (if any) comes strictly after `k` -/
def Tree.rootGt (k : Rank νr νb) : Tree νr νb α → Bool
  | .leaf _ => true
  | .rng v _ => k.lt (.r v)
  | .bool v _ _ => k.lt (.b v)

variable [DecidableEq νr] [DecidableEq νb]

/-- edges of one node: each valid; consecutive ones touch exactly and lead to different children;
    `cur` is the lower bound the next edge must start with -/
def partitionFrom (cur : Bnd α) : List (Ivl α × Tree νr νb α) → Bool
  | [] => false
  | [(iv, _)] => decide (iv.lo = cur) && iv.valid && decide (iv.hi = .unb)
  | (iv, t) :: (iv2, t2) :: rest =>
    decide (iv.lo = cur) && iv.valid && decide (t ≠ t2) &&
      (match iv.hi.flipHi with
       | none => false
       | some nxt => partitionFrom nxt ((iv2, t2) :: rest))

mutual
/-- ordered, reduced, partitioning (C20) -/
def Tree.wf : Tree νr νb α → Bool
  | .leaf _ => true
  | .rng v es =>
    decide (2 ≤ es.toList.length) && partitionFrom .unb es.toList && es.wfAll (.r v)
  | .bool v h l => decide (h ≠ l) && h.wf && l.wf && h.rootGt (.b v) && l.rootGt (.b v)
def Edges.wfAll (k : Rank νr νb) : Edges νr νb α → Bool
  | .nil => true
  | .cons _ t rest => t.wf && t.rootGt k && rest.wfAll k
end

end
end Pep508
