/-
Model of `src/marker/parse.rs` (marker grammar: operator / value lexing, typed dispatch with
report-then-drop, and/or/parenthesis descent) on top of the cursor and algebra models.

Panics are values (`Res.panic`): `Cursor::slice` off a char boundary, `unreachable!`, `expect`.
External grammars are parameters (`Ext`): `Version::from_str`, `VersionPattern::from_str`
(pep440_rs) and `char::is_alphabetic`; extra names go through the `Names` model.

Mirrors the code after the `fix:` commits F2 (peek_while in bytes), F7 (inverted `~=` on a
string key is reported and dropped), F13 (`and`/`or` recognised before `(` and quotes).
-/
import Pep508.Model.Cursor
import Pep508.Model.Marker
import Pep508.Model.Names
namespace Pep508

/-- `Pep508Error` without the message: error class and byte span -/
inductive ErrKind where
  | string | url | unsupported
  deriving DecidableEq, Repr

structure PErr where
  kind : ErrKind
  start : Nat
  len : Nat
  deriving DecidableEq, Repr

/-- outcome of a parsing function: value, `Err(Pep508Error)`, or a Rust panic at a named site -/
inductive Res (β : Type) where
  | ok (b : β)
  | err (e : PErr)
  | panic (site : String)
  deriving Repr

instance : Monad Res where
  pure := .ok
  bind x f := match x with
    | .ok b => f b
    | .err e => .err e
    | .panic s => .panic s

def Res.ofSlice (o : Option (List Char)) : Res (List Char) :=
  match o with
  | some s => .ok s
  | none => .panic "slice"

def serr {β : Type} (start len : Nat) : Res β := .err ⟨.string, start, len⟩

/-- `MarkerWarningKind` -/
inductive WarnKind where
  | deprecatedMarkerName | extraInvalidComparison | lexicographicComparison
  | markerMarkerComparison | pep440Error | stringStringComparison
  deriving DecidableEq, Repr

/-- what pep440_rs says about a version text -/
structure VerInfo where
  rel : List Nat
  isLocal : Bool
  deriving DecidableEq, Repr

/-- external functions -/
structure Ext where
  ver : List Char → Option VerInfo                 -- `Version::from_str`
  pat : List Char → Option (VerInfo × Bool)        -- `VersionPattern::from_str` (version, wildcard)
  alpha : Char → Bool                              -- `char::is_alphabetic`

/-- `MarkerValue` -/
inductive MValue where
  | verKey (k : VKey)
  | strKey (k : SKey)
  | extra
  | quoted (s : List Char)
  deriving DecidableEq, Repr

/-- `MarkerOperator` -/
inductive MOp where
  | eq | ne | gt | ge | lt | le | tilde | isIn | notIn | contains | notContains
  deriving DecidableEq, Repr

def MOp.invert : MOp → MOp
  | .lt => .gt | .le => .ge | .gt => .lt | .ge => .le
  | .eq => .eq | .ne => .ne | .tilde => .tilde
  | .isIn => .contains | .notIn => .notContains | .contains => .isIn | .notContains => .notIn

def MOp.toPep440 : MOp → Option Op
  | .eq => some .eq | .ne => some .ne | .gt => some .gt | .ge => some .ge
  | .lt => some .lt | .le => some .le | .tilde => some .tilde
  | _ => none

def MOp.toSOp : MOp → Option SOp
  | .eq => some .eq | .ne => some .ne | .gt => some .gt | .ge => some .ge
  | .lt => some .lt | .le => some .le | .isIn => some .isIn | .notIn => some .notIn
  | .contains => some .contains | .notContains => some .notContains
  | .tilde => none

/-- `MarkerValue::from_str` -/
def keyOfName (s : String) : Option MValue :=
  match s with
  | "implementation_name" => some (.strKey ⟨0⟩)
  | "implementation_version" => some (.verKey .implVer)
  | "os_name" => some (.strKey ⟨1⟩)
  | "os.name" => some (.strKey ⟨2⟩)
  | "platform_machine" => some (.strKey ⟨3⟩)
  | "platform.machine" => some (.strKey ⟨4⟩)
  | "platform_python_implementation" => some (.strKey ⟨5⟩)
  | "platform.python_implementation" => some (.strKey ⟨6⟩)
  | "python_implementation" => some (.strKey ⟨7⟩)
  | "platform_release" => some (.strKey ⟨8⟩)
  | "platform_system" => some (.strKey ⟨9⟩)
  | "platform_version" => some (.strKey ⟨10⟩)
  | "platform.version" => some (.strKey ⟨11⟩)
  | "python_full_version" => some (.verKey .pfv)
  | "python_version" => some (.verKey .pyVer)
  | "sys_platform" => some (.strKey ⟨12⟩)
  | "sys.platform" => some (.strKey ⟨13⟩)
  | "extra" => some .extra
  | _ => none

/-- `MarkerOperator::from_str` on a token without whitespace -/
def opOfToken (s : String) : Option MOp :=
  match s with
  | "==" => some .eq | "!=" => some .ne | ">" => some .gt | ">=" => some .ge
  | "<" => some .lt | "<=" => some .le | "~=" => some .tilde | "in" => some .isIn
  | _ => none

/-- `Cursor::next_expect_char` -/
def nextExpectChar (c : Cursor) (expected : Char) (spanStart : Nat) : Res Cursor :=
  match c.next with
  | none => serr spanStart 1
  | some ((pos, v), c') => if v == expected then .ok c' else serr pos (utf8Len v)

/-- `parse_marker_operator` -/
def parseMarkerOperator (x : Ext) (c : Cursor) : Res (MOp × Cursor) :=
  let isAlpha := match c.peekChar with
    | some ch => x.alpha ch
    | none => false
  let ((start, len), c1) :=
    if isAlpha then c.takeWhile (fun ch => !isWs ch && ch != '\'' && ch != '"')
    else c.takeWhile (fun ch => ch == '<' || ch == '=' || ch == '>' || ch == '~' || ch == '!')
  match Res.ofSlice (c1.slice start len) with
  | .panic s => .panic s
  | .err e => .err e
  | .ok operator =>
    if String.ofList operator == "not" then
      match c1.next with
      | none => serr c1.pos 1
      | some ((pos, w), c2) =>
        if isWs w then
          let c3 := c2.eatWhitespace
          match nextExpectChar c3 'i' c3.pos with
          | .ok c4 =>
            match nextExpectChar c4 'n' c4.pos with
            | .ok c5 => .ok (.notIn, c5)
            | .err e => .err e
            | .panic s => .panic s
          | .err e => .err e
          | .panic s => .panic s
        else serr pos (utf8Len w)
    else
      match opOfToken (String.ofList operator) with
      | some op => .ok (op, c1)
      | none => serr start len

/-- `parse_marker_value` -/
def parseMarkerValue (c : Cursor) : Res (MValue × Cursor) :=
  match c.peek with
  | none => serr c.pos 1
  | some (startPos, q) =>
    if q == '"' || q == '\'' then
      match c.next with
      | none => .panic "unreachable"
      | some (_, c1) =>
        let ((start, len), c2) := c1.takeWhile (fun ch => ch != q)
        match Res.ofSlice (c2.slice start len) with
        | .panic s => .panic s
        | .err e => .err e
        | .ok value =>
          match nextExpectChar c2 q startPos with
          | .ok c3 => .ok (.quoted value, c3)
          | .err e => .err e
          | .panic s => .panic s
    else
      let ((start, len), c1) := c.takeWhile (fun ch =>
        !isWs ch && !(ch == '>' || ch == '=' || ch == '<' || ch == '!' || ch == '~' || ch == ')'))
      match Res.ofSlice (c1.slice start len) with
      | .panic s => .panic s
      | .err e => .err e
      | .ok key =>
        match keyOfName (String.ofList key) with
        | some v => .ok (v, c1)
        | none => serr start len

/-! ### typed dispatch -/

def bytesOfChars (s : List Char) : List Nat := (String.ofList s).toUTF8.toList.map (·.toNat)

def stringOfByteList (bs : List Nat) : String :=
  String.ofList (bs.map fun b => Char.ofNat b)

/-- `VersionSpecifier::from_version` checks -/
def fromVersion (op : Op) (v : VerInfo) : Option Spec :=
  let localCompatible := match op with
    | .gt | .ge | .lt | .le | .tilde | .eqStar | .neStar => false
    | _ => true
  if v.isLocal && !localCompatible then none
  else if op == .tilde && v.rel.length < 2 then none
  else some ⟨op, v.rel⟩

/-- `parse_extra_expr` -/
def parseExtraExpr (op : MOp) (value : List Char) : Option MExpr × List WarnKind :=
  let (name, w1) := match Names.validateRef (bytesOfChars value) with
    | some n => (ExtraVal.extra (stringOfByteList n), [])
    | none => (ExtraVal.arbitrary (String.ofList value), [WarnKind.extraInvalidComparison])
  match op with
  | .eq => (some (.extra false name), w1)
  | .ne => (some (.extra true name), w1)
  | _ => (none, w1 ++ [.extraInvalidComparison])

/-- the version-list loop of `parse_version_in_expr`; `none` = a member is not a version -/
def splitVersions (x : Ext) : Nat → List Char → List (List Nat) → Option (List (List Nat))
  | 0, _, _ => none
  | fuel + 1, s, acc =>
    let s1 := s.dropWhile isWs
    let piece := s1.takeWhile (fun ch => !isWs ch)
    if piece.isEmpty then some acc.reverse
    else
      match x.ver piece with
      | none => none
      | some v => splitVersions x fuel (s1.dropWhile (fun ch => !isWs ch)) (v.rel :: acc)

/-- `parse_version_expr` -/
def parseVersionExpr (x : Ext) (key : VKey) (op : MOp) (value : List Char) : Option MExpr × List WarnKind :=
  match x.pat value with
  | none => (none, [.pep440Error])
  | some (v, star) =>
    match op.toPep440 with
    | none => (none, [.pep440Error])
    | some o =>
      let o' : Option Op := if star then (match o with | .eq => some .eqStar | .ne => some .neStar | _ => none) else some o
      match o' with
      | none => (none, [.pep440Error])
      | some o'' =>
        match fromVersion o'' v with
        | none => (none, [.pep440Error])
        | some spec => (some (.version key spec), [])

/-- `parse_inverted_version_expr` -/
def parseInvertedVersionExpr (x : Ext) (value : List Char) (op : MOp) (key : VKey) :
    Option MExpr × List WarnKind :=
  match x.ver value with
  | none => (none, [.pep440Error])
  | some v =>
    match op.invert.toPep440 with
    | none => (none, [.pep440Error])
    | some o =>
      match fromVersion o v with
      | none => (none, [.pep440Error])
      | some spec => (some (.version key spec), [])

/-- the `match l_value { … }` of `parse_marker_key_op_value` -/
def dispatch (x : Ext) (l : MValue) (op : MOp) (r : MValue) : Option MExpr × List WarnKind :=
  match l with
  | .verKey key =>
    match r with
    | .quoted value =>
      if op == .isIn || op == .notIn then
        match splitVersions x (value.length + 1) value [] with
        | some vs => (some (.versionIn key vs (op == .notIn)), [])
        | none =>
          -- reported once by `parse_version_in_expr`, then `parse_version_expr` runs and reports again
          let (e, w) := parseVersionExpr x key op value
          (e, .pep440Error :: w)
      else parseVersionExpr x key op value
    | _ => (none, [.pep440Error])
  | .strKey key =>
    match r with
    | .quoted value =>
      match op.toSOp with
      | none => (none, [.lexicographicComparison])            -- `~=`
      | some sop => (some (.string key sop (String.ofList value)), [])
    | _ => (none, [.markerMarkerComparison])
  | .extra =>
    match r with
    | .quoted value => parseExtraExpr op value
    | _ => (none, [.extraInvalidComparison])
  | .quoted lstr =>
    match r with
    | .verKey key => parseInvertedVersionExpr x lstr op key
    | .strKey key =>
      match op.invert.toSOp with
      | none => (none, [.lexicographicComparison])            -- (F7) inverted `~=`
      | some sop => (some (.string key sop (String.ofList lstr)), [])
    | .extra => parseExtraExpr op lstr
    | .quoted _ => (none, [.stringStringComparison])

/-- `parse_marker_key_op_value` -/
def parseKeyOpValue (x : Ext) (c : Cursor) : Res ((Option MExpr × List WarnKind) × Cursor) :=
  match parseMarkerValue c.eatWhitespace with
  | .panic s => .panic s
  | .err e => .err e
  | .ok (l, c1) =>
    match parseMarkerOperator x c1.eatWhitespace with
    | .panic s => .panic s
    | .err e => .err e
    | .ok (op, c2) =>
      match parseMarkerValue c2.eatWhitespace with
      | .panic s => .panic s
      | .err e => .err e
      | .ok (r, c3) => .ok (dispatch x l op r, c3)

/-! ### and / or / parentheses -/

/-- result of a sub-parser: optional tree (None = everything was dropped), warnings so far -/
structure PState where
  tree : Option MTree
  warns : List WarnKind
  cur : Cursor

/-- the keyword test of `parse_marker_op` (F13): the run up to whitespace, `(` or a quote -/
def kwStop (ch : Char) : Bool := isWs ch || ch == '(' || ch == '\'' || ch == '"'

def combine (isAnd : Bool) (acc : Option MTree) (e : Option MTree) : Option MTree :=
  match acc, e with
  | some t, some u => some (if isAnd then Tree.and t u else Tree.or t u)
  | none, some u => some u
  | acc, none => acc

mutual
/-- `parse_marker_expr` -/
def parseExpr (x : Ext) : Nat → Cursor → List WarnKind → Res PState
  | 0, _, _ => .panic "stack"
  | fuel + 1, c, w =>
    let c0 := c.eatWhitespace
    match c0.eatChar '(' with
    | some (startPos, c1) =>
      match parseOp x false fuel c1 w with
      | .ok st =>
        match nextExpectChar st.cur ')' startPos with
        | .ok c2 => .ok { st with cur := c2 }
        | .err e => .err e
        | .panic s => .panic s
      | .err e => .err e
      | .panic s => .panic s
    | none =>
      match parseKeyOpValue x c0 with
      | .ok ((e, w'), c1) => .ok ⟨e.map expression, w ++ w', c1⟩
      | .err e => .err e
      | .panic s => .panic s
/-- `parse_marker_op` with `op = "and"` (inner = expr) or `"or"` (inner = and) -/
def parseOp (x : Ext) (isAnd : Bool) : Nat → Cursor → List WarnKind → Res PState
  | 0, _, _ => .panic "stack"
  | fuel + 1, c, w =>
    match (if isAnd then parseExpr x fuel c w else parseOp x true fuel c w) with
    | .ok st => parseOpLoop x isAnd fuel st
    | .err e => .err e
    | .panic s => .panic s
/-- the `loop { … }` of `parse_marker_op` -/
def parseOpLoop (x : Ext) (isAnd : Bool) : Nat → PState → Res PState
  | 0, _ => .panic "stack"
  | fuel + 1, st =>
    let c := st.cur.eatWhitespace
    let (start, len) := c.peekWhile (fun ch => !kwStop ch)
    match Res.ofSlice (c.slice start len) with
    | .panic s => .panic s
    | .err e => .err e
    | .ok word =>
      if String.ofList word == (if isAnd then "and" else "or") then
        let c1 := (c.takeWhile (fun ch => !kwStop ch)).2
        match (if isAnd then parseExpr x fuel c1 st.warns else parseOp x true fuel c1 st.warns) with
        | .ok st' => parseOpLoop x isAnd fuel ⟨combine isAnd st.tree st'.tree, st'.warns, st'.cur⟩
        | .err e => .err e
        | .panic s => .panic s
      else .ok { st with cur := c }
end

/-- `parse_markers_cursor` (fuel bounds nesting depth and chain length) -/
def parseMarkersCursor (x : Ext) (fuel : Nat) (c : Cursor) : Res PState :=
  match parseOp x false fuel c [] with
  | .ok st =>
    let c1 := st.cur.eatWhitespace
    match c1.next with
    | some ((pos, _), c2) => serr pos c2.remaining
    | none => .ok { st with cur := c1 }
  | .err e => .err e
  | .panic s => .panic s

/-- `parse_markers` -/
def parseMarkers (x : Ext) (input : List Char) : Res (MTree × List WarnKind) :=
  match parseMarkersCursor x (4 * input.length + 16) (Cursor.new input) with
  | .ok st => .ok (st.tree.getD (.leaf true), st.warns)
  | .err e => .err e
  | .panic s => .panic s

/-- `MarkerExpression::parse_reporter` -/
def parseExpression (x : Ext) (input : List Char) : Res (Option MExpr × List WarnKind) :=
  match parseKeyOpValue x (Cursor.new input) with
  | .ok (r, c) =>
    let c1 := c.eatWhitespace
    match c1.next with
    | some ((pos, _), c2) => serr pos c2.remaining
    | none => .ok r
  | .err e => .err e
  | .panic s => .panic s

end Pep508
