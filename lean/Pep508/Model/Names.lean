/-
Model of `src/normalize/mod.rs` (+ `PackageName::as_dist_info_name`).
Names are modelled as lists of byte values (`Nat`; the Rust iterates `.bytes()`).
No imports: this file is linked into the native driver.
-/
namespace Pep508.Names

def isUpper (b : Nat) : Bool := 65 ≤ b && b ≤ 90
def isLower (b : Nat) : Bool := 97 ≤ b && b ≤ 122
def isDigit (b : Nat) : Bool := 48 ≤ b && b ≤ 57
def isSep (b : Nat) : Bool := b == 45 || b == 95 || b == 46
def isAlnum (b : Nat) : Bool := isUpper b || isLower b || isDigit b

/-- `last` in the Rust loops is `Option<u8>`; only "is it a separator / is it none" matters. -/
inductive Last | none | sep | other
deriving DecidableEq, Repr

def Last.of (b : Nat) : Last := if isSep b then .sep else .other

/-- The `for char in name.bytes()` loop of `validate_and_normalize_ref`.
    Returns `none` for `Err(InvalidNameError)`, else the normalized bytes (appended to `acc`)
    and the final `last`. -/
def refLoop : List Nat → Last → List Nat → Option (List Nat × Last)
  | [], last, acc => some (acc, last)
  | b :: rest, last, acc =>
    if isUpper b then refLoop rest (Last.of b) (acc ++ [b + 32])
    else if isLower b || isDigit b then refLoop rest (Last.of b) (acc ++ [b])
    else if isSep b then
      match last with
      | .none => none                                  -- names can't start with punctuation
      | .sep => refLoop rest (Last.of b) acc
      | .other => refLoop rest (Last.of b) (acc ++ [45])
    else none

/-- `validate_and_normalize_ref` (with the empty-name rejection of the F1 repair). -/
def validateRef (s : List Nat) : Option (List Nat) :=
  if s.isEmpty then none else
  match refLoop s .none [] with
  | none => none
  | some (acc, last) => if last == .sep then none else some acc

/-- Result of `is_normalized`: `Err`, `Ok(false)`, `Ok(true)`. -/
inductive IsNorm | err | no | yes
deriving DecidableEq, Repr

/-- the loop of `is_normalized` -/
def isNormLoop : List Nat → Last → (dash : Bool) → IsNorm
  | [], last, _ => if last == .sep then .err else .yes
  | b :: rest, last, _ =>
    if isUpper b then .no
    else if isLower b || isDigit b then isNormLoop rest (Last.of b) false
    else if b == 95 || b == 46 then .no
    else if b == 45 then
      match last with
      | .none => .err
      | .sep => .no          -- (only `-` can be the previous separator here)
      | .other => isNormLoop rest (Last.of b) true
    else .err

def isNormalized (s : List Nat) : IsNorm :=
  if s.isEmpty then .err else isNormLoop s .none false

/-- `validate_and_normalize_owned` -/
def validateOwned (s : List Nat) : Option (List Nat) :=
  match isNormalized s with
  | .err => none
  | .yes => some s
  | .no => validateRef s

/-- `PackageName::as_dist_info_name`: find the first dash, copy the prefix, push `_`,
    map the rest. -/
def distInfo (s : List Nat) : List Nat :=
  match s.idxOf? 45 with
  | none => s
  | some i => s.take i ++ [95] ++ (s.drop (i + 1)).map (fun c => if c == 45 then 95 else c)

end Pep508.Names
