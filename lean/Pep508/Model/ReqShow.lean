/-
Model of `impl Display for Requirement` (src/lib.rs:149-181): the components are already texts —
the normalized name, the normalized extras, the specifiers / the URL as their own `Display`
prints them (external printers: pep440_rs, url), the marker as `MarkerTree::contents()` prints
it (`none` for TRUE).  What is modelled is the glue: `[a,b]`, `,` without blank, ` @ `, ` ; `.
-/
import Pep508.Model.ReqParse
namespace Pep508

inductive ShowKind where
  | none
  | specs (texts : List (List Char))
  | url (text : List Char)

structure ReqVal where
  name : List Char
  extras : List (List Char)
  kind : ShowKind
  marker : Option (List Char)

/-- `",".join(parts)` -/
def joinComma : List (List Char) → List Char
  | [] => []
  | [a] => a
  | a :: rest => a ++ ',' :: joinComma rest

/-- `Display for Requirement` -/
def showReq (r : ReqVal) : List Char :=
  r.name ++
  (if r.extras.isEmpty then [] else '[' :: joinComma r.extras ++ [']']) ++
  (match r.kind with
   | .none => []
   | .specs ts => joinComma ts
   | .url u => [' ', '@', ' '] ++ u) ++
  (match r.marker with
   | none => []
   | some m => [' ', ';', ' '] ++ m)

end Pep508
