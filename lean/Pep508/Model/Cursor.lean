/-
Model of `src/cursor.rs`: a cursor over a `&str`, i.e. over a list of chars with *byte*
positions (UTF-8).  Slicing is the only operation that can panic in Rust (index not on a char
boundary / out of range); it is an explicit `none` here.
Mirrors the code after the `fix:` commit F2 (`peek_while` counts bytes, not chars).
-/
namespace Pep508

/-- `char::len_utf8` -/
def utf8Len (c : Char) : Nat := c.utf8Size

def strLen (s : List Char) : Nat := (s.map utf8Len).sum

/-- `char::is_whitespace` (Unicode `White_Space`) -/
def isWs (c : Char) : Bool :=
  let n := c.toNat
  (9 ≤ n && n ≤ 13) || n == 32 || n == 0x85 || n == 0xA0 || n == 0x1680 ||
  (0x2000 ≤ n && n ≤ 0x200A) || n == 0x2028 || n == 0x2029 || n == 0x202F || n == 0x205F || n == 0x3000

/-- `&input[start..]` as chars, `none` unless `start` is a char boundary ≤ len -/
def dropBytes : List Char → Nat → Option (List Char)
  | s, 0 => some s
  | [], _ + 1 => none
  | c :: rest, n + 1 => if utf8Len c ≤ n + 1 then dropBytes rest (n + 1 - utf8Len c) else none

/-- `&s[..len]` as chars, `none` unless `len` is a char boundary ≤ len -/
def takeBytes : List Char → Nat → Option (List Char)
  | _, 0 => some []
  | [], _ + 1 => none
  | c :: rest, n + 1 =>
    if utf8Len c ≤ n + 1 then (takeBytes rest (n + 1 - utf8Len c)).map (c :: ·) else none

/-- `&input[start..start+len]`; `none` = the Rust slice panics -/
def sliceBytes (input : List Char) (start len : Nat) : Option (List Char) :=
  match dropBytes input start with
  | none => none
  | some s => takeBytes s len

structure Cursor where
  input : List Char
  rest : List Char
  pos : Nat
  deriving Repr

namespace Cursor

def new (input : List Char) : Cursor := ⟨input, input, 0⟩

/-- `Cursor::at`: `none` = `self.input[pos..]` panics -/
def at_ (c : Cursor) (pos : Nat) : Option Cursor :=
  (dropBytes c.input pos).map fun r => ⟨c.input, r, pos⟩

def slice (c : Cursor) (start len : Nat) : Option (List Char) := sliceBytes c.input start len

def peek (c : Cursor) : Option (Nat × Char) :=
  match c.rest with
  | [] => none
  | ch :: _ => some (c.pos, ch)

def peekChar (c : Cursor) : Option Char := c.rest.head?

def next (c : Cursor) : Option ((Nat × Char) × Cursor) :=
  match c.rest with
  | [] => none
  | ch :: r => some ((c.pos, ch), ⟨c.input, r, c.pos + utf8Len ch⟩)

/-- `eat_char`: position of the eaten token -/
def eatChar (c : Cursor) (tok : Char) : Option (Nat × Cursor) :=
  match c.rest with
  | ch :: r => if ch == tok then some (c.pos, ⟨c.input, r, c.pos + utf8Len ch⟩) else none
  | [] => none

def skipWhile (p : Char → Bool) : List Char → Nat → List Char × Nat
  | [], pos => ([], pos)
  | ch :: r, pos => if p ch then skipWhile p r (pos + utf8Len ch) else (ch :: r, pos)

def eatWhitespace (c : Cursor) : Cursor :=
  let (r, p) := skipWhile isWs c.rest c.pos
  ⟨c.input, r, p⟩

/-- `remaining`: number of *chars* left -/
def remaining (c : Cursor) : Nat := c.rest.length

/-- `take_while`: `(start, len)` in bytes and the advanced cursor -/
def takeWhile (c : Cursor) (p : Char → Bool) : (Nat × Nat) × Cursor :=
  let (r, q) := skipWhile p c.rest c.pos
  ((c.pos, q - c.pos), ⟨c.input, r, q⟩)

/-- `peek_while` (after F2: a byte count, like `take_while`) -/
def peekWhile (c : Cursor) (p : Char → Bool) : Nat × Nat :=
  (c.takeWhile p).1

end Cursor
end Pep508
