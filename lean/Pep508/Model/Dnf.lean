/-
Model of `src/marker/simplify.rs` (`to_dnf`: path collection with `collect_edges`, inequality /
star-range recognition, redundant term and clause elimination) and of the rendering in
`src/marker/tree.rs` (`Display for MarkerExpression`, `Display for MarkerTreeContents`).

Versions inside diagrams are normalised release lists; the *spelling* the implementation prints
(and tests with `release().len() == 2`) is the first spelling interned in the process — a
parameter `spell` here, with `stripZeros (spell v) = v` (known finding K1).
Rendering mirrors the code after F8 (values containing `'` are written in double quotes).
-/
import Pep508.Model.Marker
namespace Pep508

abbrev Spell := List Nat → List Nat

def Val.verOf : Val → List Nat
  | .ver v => v
  | .str _ => []

def Val.strOf : Val → String
  | .str s => s
  | .ver _ => ""

/-- `collect_edges`: union the ranges of edges that lead to the same subtree, first-seen order -/
def collectEdges : List (Ivl Val × MTree) → List (MTree × Ranges Val) → List (MTree × Ranges Val)
  | [], acc => acc
  | (iv, t) :: rest, acc =>
    if acc.any (fun p => p.1 == t) then
      collectEdges rest (acc.map fun p => if p.1 == t then (p.1, Ranges.union p.2 [iv]) else p)
    else collectEdges rest (acc ++ [(t, [iv])])

/-- `range_inequality`: the excluded points if the range is everything except finitely many points -/
def rangeInequality : Ranges Val → Option (List Val)
  | [] => none
  | first :: rest =>
    let last := (first :: rest).getLast?.getD first
    if first.lo != .unb || last.hi != .unb then none
    else
      let rec go : Ivl Val → List (Ivl Val) → Option (List Val)
        | _, [] => some []
        | prev, s :: more =>
          match prev.hi, s.lo with
          | .excl v1, .excl v2 => if v1 == v2 then (go s more).map (v1 :: ·) else none
          | _, _ => none
      go first rest

/-- `star_range_inequality`: `< X.Y or >= X.(Y+1)` as `!= X.Y.*` -/
def starRangeInequality (spell : Spell) : Ranges Val → Option Spec
  | [⟨.unb, .excl v1⟩, ⟨.incl v2, .unb⟩] =>
    match spell v1.verOf with
    | [a, b] => if spell v2.verOf == [a, b + 1] then some ⟨.neStar, [a, b]⟩ else none
    | _ => none
  | _ => none

/-- `VersionSpecifier::from_release_only_bounds` for one segment -/
def specsOfBounds (spell : Spell) (iv : Ivl Val) : List Spec :=
  let eqCase : Option (List Spec) :=
    match iv.lo, iv.hi with
    | .incl v1, .incl v2 => if v1 == v2 then some [⟨.eq, spell v1.verOf⟩] else none
    | .incl v1, .excl v2 =>
      (match spell v1.verOf with
       | [a, b] => if spell v2.verOf == [a, b + 1] then some [⟨.eqStar, [a, b]⟩] else none
       | _ => none)
    | _, _ => none
  match eqCase with
  | some l => l
  | none =>
    (match iv.lo with
     | .incl v => [⟨.ge, spell v.verOf⟩]
     | .excl v => [⟨.gt, spell v.verOf⟩]
     | .unb => []) ++
    (match iv.hi with
     | .incl v => [⟨.le, spell v.verOf⟩]
     | .excl v => [⟨.lt, spell v.verOf⟩]
     | .unb => [])

/-- `MarkerOperator::from_bounds` -/
def strOpsOfBounds (iv : Ivl Val) : List (SOp × String) :=
  let eqCase : Option (List (SOp × String)) :=
    match iv.lo, iv.hi with
    | .incl v1, .incl v2 => if v1 == v2 then some [(.eq, v1.strOf)] else none
    | .excl v1, .excl v2 => if v1 == v2 then some [(.ne, v1.strOf)] else none
    | _, _ => none
  match eqCase with
  | some l => l
  | none =>
    (match iv.lo with
     | .incl v => [(SOp.ge, v.strOf)]
     | .excl v => [(SOp.gt, v.strOf)]
     | .unb => []) ++
    (match iv.hi with
     | .incl v => [(SOp.le, v.strOf)]
     | .excl v => [(SOp.lt, v.strOf)]
     | .unb => [])

/-- the clause prefixes one (subtree, range) pair of a range node contributes -/
def rangeTerms (spell : Spell) (v : VarR) (r : Ranges Val) : List (List MExpr) :=
  match v with
  | .ver k =>
    match rangeInequality r with
    | some excluded => [excluded.map fun x => .version k ⟨.ne, spell x.verOf⟩]
    | none =>
      match starRangeInequality spell r with
      | some s => [[.version k s]]
      | none => r.map fun seg => (specsOfBounds spell seg).map fun s => .version k s
  | .str k =>
    match rangeInequality r with
    | some excluded => [excluded.map fun x => .string k .ne x.strOf]
    | none => r.map fun seg => (strOpsOfBounds seg).map fun p => .string k p.1 p.2

def boolTerm (v : VarB) (value : Bool) : MExpr :=
  match v with
  | .isIn k s => .string k (if value then .isIn else .notIn) s
  | .contains k s => .string k (if value then .contains else .notContains) s
  | .extra e => .extra (!value) e

/-- `collect_dnf` (fuel ≥ depth of the tree; `t.size` suffices) -/
def collectDnf (spell : Spell) : Nat → MTree → List MExpr → List (List MExpr)
  | 0, _, _ => []
  | _ + 1, .leaf false, _ => []
  | _ + 1, .leaf true, path => if path.isEmpty then [] else [path]
  | fuel + 1, .rng v es, path =>
    (collectEdges es.toList []).flatMap fun p =>
      (rangeTerms spell v p.2).flatMap fun terms => collectDnf spell fuel p.1 (path ++ terms)
  | fuel + 1, .bool v h l, path =>
    collectDnf spell fuel h (path ++ [boolTerm v true]) ++ collectDnf spell fuel l (path ++ [boolTerm v false])

/-- `Operator::negate` (pep440_rs) -/
def Op.negate : Op → Option Op
  | .eq => some .ne | .eqStar => some .neStar | .exactEq => some .ne | .ne => some .eq
  | .neStar => some .eqStar | .tilde => none | .lt => some .ge | .le => some .gt
  | .gt => some .le | .ge => some .lt

/-- `MarkerOperator::negate` on the operators that occur in string expressions -/
def SOp.negate : SOp → SOp
  | .eq => .ne | .ne => .eq | .lt => .ge | .le => .gt | .gt => .le | .ge => .lt
  | .isIn => .notIn | .notIn => .isIn | .contains => .notContains | .notContains => .contains

/-- `is_negation` -/
def isNegation (l r : MExpr) : Bool :=
  match l, r with
  | .version k s, .version k2 s2 => k == k2 && s.rel == s2.rel && s.op.negate == some s2.op
  | .versionIn k vs n, .versionIn k2 vs2 n2 => k == k2 && vs == vs2 && n != n2
  | .string k op v, .string k2 op2 v2 => k == k2 && v == v2 && op.negate == op2
  | .extra n e, .extra n2 e2 => e == e2 && n != n2
  | _, _ => false

/-- the `'term` loop: indices of redundant terms of `clause` (position `i`), in discovery order -/
def redundantTerms (dnf : List (List MExpr)) (i : Nat) (clause : List MExpr) :
    List (Nat × MExpr) → List Nat → List Nat
  | [], red => red
  | (skipped, term) :: rest, red =>
    let hit := (dnf.zipIdx).any fun (other, j) =>
      j != i && other.all fun t =>
        t != term && (isNegation t term ||
          (match clause.idxOf? t with
           | some p => !red.contains p
           | none => false))
    redundantTerms dnf i clause rest (if hit then red ++ [skipped] else red)

def removeIdxs (l : List MExpr) (idxs : List Nat) : List MExpr :=
  (l.zipIdx.filter fun (_, i) => !idxs.contains i).map (·.1)

/-- first phase of `simplify`: clause by clause, in place -/
def simplifyTerms : Nat → Nat → List (List MExpr) → List (List MExpr)
  | 0, _, dnf => dnf
  | fuel + 1, i, dnf =>
    match dnf[i]? with
    | none => dnf
    | some clause =>
      let red := redundantTerms dnf i clause (clause.zipIdx.map fun (t, k) => (k, t)) []
      simplifyTerms fuel (i + 1) (dnf.set i (removeIdxs clause red))

/-- second phase: indices of clauses that contain another (not yet eliminated) clause -/
def redundantClauses (dnf : List (List MExpr)) : List Nat → List Nat → List Nat
  | [], red => red
  | i :: rest, red =>
    let clause := dnf[i]?.getD []
    let hit := (dnf.zipIdx).any fun (other, j) =>
      j != i && !red.contains j && other.all fun t => clause.contains t
    redundantClauses dnf rest (if hit then red ++ [i] else red)

/-- `simplify` -/
def simplifyDnf (dnf : List (List MExpr)) : List (List MExpr) :=
  let d1 := simplifyTerms (dnf.length + 1) 0 dnf
  let red := redundantClauses d1 (List.range d1.length) []
  (d1.zipIdx.filter fun (_, i) => !red.contains i).map (·.1)

/-- `to_dnf` -/
def toDnf (spell : Spell) (t : MTree) : List (List MExpr) :=
  simplifyDnf (collectDnf spell (t.size + 1) t [])

/-! ### rendering -/

def showRelDots (r : List Nat) : String := ".".intercalate (r.map toString)

def vkeyText : VKey → String
  | .implVer => "implementation_version" | .pfv => "python_full_version" | .pyVer => "python_version"

/-- `Display for MarkerValueString` (deprecated spellings print under the modern name) -/
def skeyText (k : SKey) : String :=
  ["implementation_name", "os_name", "os_name", "platform_machine", "platform_machine",
   "platform_python_implementation", "platform_python_implementation", "platform_python_implementation",
   "platform_release", "platform_system", "platform_version", "platform_version", "sys_platform",
   "sys_platform"].getD k.idx ""

def opText : Op → String
  | .eq | .eqStar => "==" | .exactEq => "===" | .ne | .neStar => "!=" | .tilde => "~="
  | .lt => "<" | .le => "<=" | .gt => ">" | .ge => ">="

def sopText : SOp → String
  | .eq => "==" | .ne => "!=" | .gt => ">" | .ge => ">=" | .lt => "<" | .le => "<="
  | .isIn | .contains => "in" | .notIn | .notContains => "not in"

/-- (F8) single quotes unless the value contains one -/
def quoted (v : String) : String :=
  if v.toList.contains '\'' then "\"" ++ v ++ "\"" else "'" ++ v ++ "'"

/-- `Display for MarkerExpression` -/
def showExpr : MExpr → String
  | .version k s =>
    if s.op.isStar then s!"{vkeyText k} {opText s.op} '{showRelDots s.rel}.*'"
    else s!"{vkeyText k} {opText s.op} '{showRelDots s.rel}'"
  | .versionIn k vs neg =>
    s!"{vkeyText k} {if neg then "not in" else "in"} '{" ".intercalate (vs.map showRelDots)}'"
  | .string k op v =>
    match op with
    | .contains | .notContains => s!"{quoted v} {sopText op} {skeyText k}"
    | _ => s!"{skeyText k} {sopText op} {quoted v}"
  | .extra neg e =>
    let name := match e with | .extra n => n | .arbitrary n => n
    s!"extra {if neg then "!=" else "=="} {quoted name}"

/-- `Display for MarkerTreeContents` -/
def showMarker (spell : Spell) (t : MTree) : String :=
  if t == .leaf false then "python_version < '0'"
  else
    let dnf := toDnf spell t
    let conj (c : List MExpr) : String := " and ".intercalate (c.map showExpr)
    match dnf with
    | [c] => conj c
    | _ => " or ".intercalate (dnf.map fun c => if c.length == 1 then conj c else "(" ++ conj c ++ ")")

end Pep508
