/-
The two remaining id-level operations of `src/marker/algebra.rs` (`impl InternerGuard`):
`simplify_python_versions` and `complexify_python_versions`, on the same arena as `and`
(`Model/Interner.lean`) and `restrict` (`Model/InternerOps.lean`).  Tree level: `Tree.simplifyPy`,
`Tree.complexifyPy` (`Model/Algebra.lean`).

Both mirror the *unmodified* Rust code (after F9 / F10, like the tree model): no memo table;
early exits in the order of the code; `self.shared.node(i)` = `s.nodes[i]?`; every node whose
variable is not `python_full_version` (`pv`) is rebuilt bottom-up from its simplified children
through `Edges::map` (complement bit of the parent resolved on each child, range edges coalesced,
boolean edges low first) and `create_node`; the `python_full_version` node is rebuilt from its RAW
stored edges (complement bit NOT resolved) and the complement bit of the operand is put back on the
result: `create_node(..).negate(i)`.  In `complexify` the id that "means FALSE under the parent" is
`NodeId::FALSE.negate(i)`, compared with the raw child ids and planted on the new outer edges.

Panic sites: `new.first().unwrap()` (simplify) and `assert!(!new.is_empty())` (complexify) fire when
no edge of the node meets the Python range.  As everywhere in this model (`createNodeR`,
`createNodeI`) the model answers FALSE there — for the whole call, i.e. before the final
`.negate(i)`, exactly like `Tree.simplifyPy` / `Tree.complexifyPy` (whose `createNodeR v []` is
`leaf false` whatever the complement of the operand).  Unreachable for partitions
(`simplifyEdges_ne_nil`, WfUnary.lean).

Fuel: `simplifyPyI` needs `size (denotation) ≤ fuel`; `complexifyPyI` calls `andI` with its own
current fuel in the `var > python_full_version` branch and needs `size (denotation) + 7 < fuel`
(`7` = size of the largest range node `Edges::from_range` can give for one interval).
-/
import Pep508.Model.InternerOps
namespace Pep508

section
variable {νr νb α : Type}
variable [DecidableEq νr] [DecidableEq νb] [DecidableEq α]
variable [LT α] [DecidableLT α] [LT νr] [DecidableLT νr] [LT νb] [DecidableLT νb]

/-! ### edge surgery on raw id edges (the id-level twins of `setFirstLo` … `complexifyEdges`) -/

def setFirstLoI (lo : Bnd α) : List (Ivl α × Id) → List (Ivl α × Id)
  | [] => []
  | (iv, c) :: rest => (⟨lo, iv.hi⟩, c) :: rest

def setLastHiI (hi : Bnd α) : List (Ivl α × Id) → List (Ivl α × Id)
  | [] => []
  | [(iv, c)] => [(⟨iv.lo, hi⟩, c)]
  | e :: rest => e :: setLastHiI hi rest

/-- the `python_full_version` node case of `simplify_python_versions`, on the stored edges -/
def simplifyEdgesI (lo hi : Bnd α) (es : List (Ivl α × Id)) : List (Ivl α × Id) :=
  let new := es.filterMap fun e =>
    let o := e.1.inter ⟨lo, hi⟩
    if o.valid then some (o, e.2) else none
  setLastHiI .unb (setFirstLoI .unb new)

/-- `Edges::from_range` with terminal ids -/
def fromRangeGoI : Option (Bnd α) → Ranges α → List (Ivl α × Id)
  | none, _ => []
  | some cur, [] => [(⟨cur, .unb⟩, .ff)]
  | some cur, s :: rest =>
    match s.lo.flipLo with
    | none => (s, .tt) :: fromRangeGoI s.hi.flipHi rest
    | some h => (⟨cur, h⟩, .ff) :: (s, .tt) :: fromRangeGoI s.hi.flipHi rest

def fromRangeI (r : Ranges α) : List (Ivl α × Id) := fromRangeGoI (some .unb) r

/-- lower fix-up of `complexify_python_versions`; `excl` = `NodeId::FALSE.negate(i)` -/
def complexifyLoI (excl : Id) (lo : Bnd α) (new : List (Ivl α × Id)) : List (Ivl α × Id) :=
  match lo.flipLo, new with
  | none, _ => new
  | _, [] => []
  | some below, (iv, c) :: rest =>
    if c = excl then (⟨.unb, iv.hi⟩, c) :: rest
    else (⟨.unb, below⟩, excl) :: (⟨lo, iv.hi⟩, c) :: rest

def complexifyHiGoI (excl : Id) (hi above : Bnd α) : List (Ivl α × Id) → List (Ivl α × Id)
  | [] => []
  | [(iv, c)] =>
    if c = excl then [(⟨iv.lo, .unb⟩, c)]
    else [(⟨iv.lo, hi⟩, c), (⟨above, .unb⟩, excl)]
  | e :: rest => e :: complexifyHiGoI excl hi above rest

def complexifyHiI (excl : Id) (hi : Bnd α) (new : List (Ivl α × Id)) : List (Ivl α × Id) :=
  match hi.flipHi with
  | none => new
  | some above => complexifyHiGoI excl hi above new

/-- the `python_full_version` node case of `complexify_python_versions`, on the stored edges -/
def complexifyEdgesI (excl : Id) (lo hi : Bnd α) (es : List (Ivl α × Id)) : List (Ivl α × Id) :=
  let new := es.filter fun e => ((Ivl.mk lo hi).inter e.1).valid
  complexifyHiI excl hi (complexifyLoI excl lo new)

/-- `create_node(python_full_version, Edges::from_range(&py_range))` -/
def pyRangeNodeI (pv : νr) (lo hi : Bnd α) (s : IState νr νb α) : IState νr νb α × Id :=
  createNodeI s (.rng pv (fromRangeI [⟨lo, hi⟩]))

/-! ### `simplify_python_versions` -/

/-- `InternerGuard::simplify_python_versions` on ids, with fuel (`size (denotation)` suffices;
    terminals need none).  `pv` = `python_full_version`, `lo` / `hi` = `py_lower` / `py_upper`. -/
def simplifyPyI (pv : νr) (lo hi : Bnd α) : Nat → IState νr νb α → Id → IState νr νb α × Id
  | _, s, .tt => (s, .tt)
  | _, s, .ff => (s, .ff)
  | 0, s, .ref _ _ => (s, .ff)                             -- out of fuel
  | n + 1, s, .ref i c =>
    if lo = .unb ∧ hi = .unb then (s, .ref i c)
    else
      match s.nodes[i]? with
      | none => (s, .ff)                                   -- dangling id: not reachable
      | some (.bool v h l) =>
        let (s1, l') := simplifyPyI pv lo hi n s (l.negate (.ref i c))
        let (s2, h') := simplifyPyI pv lo hi n s1 (h.negate (.ref i c))
        createNodeI s2 (.bool v h' l')
      | some (.rng v es) =>
        if v = pv then
          if (Ivl.mk lo hi).valid then
            let new := simplifyEdgesI lo hi es
            if new.isEmpty then (s, .ff)                   -- `new.first().unwrap()` panic site
            else
              let (s1, r) := createNodeI s (.rng v new)
              (s1, r.negate (.ref i c))
          else (s, .ff)                                    -- `py_range.is_empty()`
        else
          let (s1, es') := mapEdgesI (simplifyPyI pv lo hi n) (.ref i c) s es
          createNodeI s1 (.rng v (coalesceI es'))

/-! ### `complexify_python_versions` -/

/-- `InternerGuard::complexify_python_versions` on ids, with fuel
    (`size (denotation) + 7 < fuel` suffices; terminals need none). -/
def complexifyPyI (pv : νr) (lo hi : Bnd α) : Nat → IState νr νb α → Id → IState νr νb α × Id
  | _, s, .ff => (s, .ff)
  | _, s, .tt =>
    if lo = .unb ∧ hi = .unb then (s, .tt)
    else if ¬ (Ivl.mk lo hi).valid then (s, .ff)
    else
      let (s1, r) := pyRangeNodeI pv lo hi s
      (s1, r.negate .tt)
  | 0, s, .ref _ _ => (s, .ff)                             -- out of fuel
  | n + 1, s, .ref i c =>
    if lo = .unb ∧ hi = .unb then (s, .ref i c)
    else if ¬ (Ivl.mk lo hi).valid then (s, .ff)
    else
      match s.nodes[i]? with
      | none => (s, .ff)                                   -- dangling id: not reachable
      | some (.bool _ _ _) =>                              -- boolean variables order after `pv`
        let (s1, range) := pyRangeNodeI pv lo hi s
        andI (n + 1) s1 (.ref i c) range
      | some (.rng v es) =>
        if v = pv then
          let new := complexifyEdgesI (Id.ff.negate (.ref i c)) lo hi es
          if new.isEmpty then (s, .ff)                     -- `assert!(!new.is_empty())` panic site
          else
            let (s1, r) := createNodeI s (.rng v new)
            (s1, r.negate (.ref i c))
        else if pv < v then                                -- F10: `node.var > python_full_version`
          let (s1, range) := pyRangeNodeI pv lo hi s
          andI (n + 1) s1 (.ref i c) range
        else
          let (s1, es') := mapEdgesI (complexifyPyI pv lo hi n) (.ref i c) s es
          createNodeI s1 (.rng v (coalesceI es'))

end
end Pep508
