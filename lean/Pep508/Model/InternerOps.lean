/-
The other id-level operations of `src/marker/algebra.rs` that go through the same arena as
`and` (`Model/Interner.lean`): `restrict` (used by `simplify_extras`), negation, `is_disjoint`.

`restrictI` mirrors the *unmodified* Rust code: no memo table; a terminal is returned as it is,
a boolean node whose variable is fixed by `f` is replaced by the restriction of the chosen child
(with the parent's complement bit resolved: `child.negate(parent)`), every other node is rebuilt
bottom-up from its restricted children (`Edges::map`, which for range edges coalesces) through
`create_node`.

`restrictMemoI` is a model of the SEEDED BUG: the same function with a memo table keyed by the
node id alone (the result depends on `f` too).  It is here only for the negative result in
`Proofs/InternerOps.lean` (`restrictMemoI_not_refines`).
-/
import Pep508.Model.Interner
namespace Pep508

section
variable {νr νb α : Type}
variable [DecidableEq νr] [DecidableEq νb] [DecidableEq α]
variable [LT α] [DecidableLT α] [LT νr] [DecidableLT νr] [LT νb] [DecidableLT νb]

/-- `InternerGuard::restrict` on ids, with fuel (`size (denotation)` suffices; terminals need none).
    Boolean `Edges::map` computes `low` first, then `high` (as in `andI`). -/
def restrictI (f : νb → Option Bool) : Nat → IState νr νb α → Id → IState νr νb α × Id
  | _, s, .tt => (s, .tt)
  | _, s, .ff => (s, .ff)
  | 0, s, .ref _ _ => (s, .ff)
  | n + 1, s, .ref i c =>
    match s.nodes[i]? with
    | none => (s, .ff)                                   -- dangling id: not reachable
    | some (.bool v h l) =>
      match f v with
      | some true => restrictI f n s (h.negate (.ref i c))
      | some false => restrictI f n s (l.negate (.ref i c))
      | none =>
        let (s1, l') := restrictI f n s (l.negate (.ref i c))
        let (s2, h') := restrictI f n s1 (h.negate (.ref i c))
        createNodeI s2 (.bool v h' l')
    | some (.rng v es) =>
      let (s1, es') := mapEdgesI (restrictI f n) (.ref i c) s es
      createNodeI s1 (.rng v (coalesceI es'))

/-- `NodeId::not`: no node creation, no state change -/
def notI (s : IState νr νb α) (x : Id) : IState νr νb α × Id := (s, x.not)

/-! ### `is_disjoint` on ids (read-only: the arena is not changed, no memo table) -/

def disjRowI (f : Id → Id → Bool) (lp rp : Id) (l : Ivl α × Id) : List (Ivl α × Id) → Bool
  | [] => true
  | r :: rs =>
    (if (r.1.inter l.1).valid then f (l.2.negate lp) (r.2.negate rp) else true) &&
      disjRowI f lp rp l rs

def disjRangesI (f : Id → Id → Bool) (lp rp : Id) : List (Ivl α × Id) → List (Ivl α × Id) → Bool
  | [], _ => true
  | l :: ls, rs => disjRowI f lp rp l rs && disjRangesI f lp rp ls rs

/-- `InternerGuard::is_disjoint` on ids, with fuel -/
def isDisjointI : Nat → IState νr νb α → Id → Id → Bool
  | 0, _, _, _ => false
  | n + 1, s, xi, yi =>
    if xi = .ff ∨ yi = .ff then true
    else if xi = .tt ∨ yi = .tt then false
    else if xi = yi then false
    else if xi.not = yi then true
    else
      match s.node? xi, s.node? yi with
      | some (.rng vx ex), some (.rng vy ey) =>
        if vx < vy then ex.all (fun e => isDisjointI n s (e.2.negate xi) yi)
        else if vy < vx then ey.all (fun e => isDisjointI n s (e.2.negate yi) xi)
        else disjRangesI (isDisjointI n s) xi yi ex ey
      | some (.rng _ ex), some (.bool _ _ _) => ex.all (fun e => isDisjointI n s (e.2.negate xi) yi)
      | some (.bool _ _ _), some (.rng _ ey) => ey.all (fun e => isDisjointI n s (e.2.negate yi) xi)
      | some (.bool vx hx lx), some (.bool vy hy ly) =>
        if vx < vy then isDisjointI n s (hx.negate xi) yi && isDisjointI n s (lx.negate xi) yi
        else if vy < vx then isDisjointI n s (hy.negate yi) xi && isDisjointI n s (ly.negate yi) xi
        else isDisjointI n s (hx.negate xi) (hy.negate yi) && isDisjointI n s (lx.negate xi) (ly.negate yi)
      | _, _ => false                                    -- dangling id: not reachable

/-! ### the seeded bug: `restrict` with a memo table keyed by the node id ALONE -/

/-- the interner plus the extra (buggy) memo table `NodeId ↦ NodeId` -/
structure MState (νr νb α : Type) where
  st : IState νr νb α
  memo : List (Id × Id)

/-- `Edges::map` with the extended state threaded through -/
def mapEdgesM (f : MState νr νb α → Id → MState νr νb α × Id) (parent : Id) :
    MState νr νb α → List (Ivl α × Id) → MState νr νb α × List (Ivl α × Id)
  | s, [] => (s, [])
  | s, (iv, c) :: rest =>
    let (s1, c') := f s (c.negate parent)
    let (s2, rest') := mapEdgesM f parent s1 rest
    (s2, (iv, c') :: rest')

/-- `restrictI` + a memo table looked up / filled by the id only (NOT by `(f, id)`) -/
def restrictMemoI (f : νb → Option Bool) : Nat → MState νr νb α → Id → MState νr νb α × Id
  | _, s, .tt => (s, .tt)
  | _, s, .ff => (s, .ff)
  | 0, s, .ref _ _ => (s, .ff)
  | n + 1, s, .ref i c =>
    match s.memo.find? (fun e => e.1 == .ref i c) with
    | some e => (s, e.2)
    | none =>
      let (s', r) : MState νr νb α × Id :=
        match s.st.nodes[i]? with
        | none => (s, .ff)
        | some (.bool v h l) =>
          match f v with
          | some true => restrictMemoI f n s (h.negate (.ref i c))
          | some false => restrictMemoI f n s (l.negate (.ref i c))
          | none =>
            let (s1, l') := restrictMemoI f n s (l.negate (.ref i c))
            let (s2, h') := restrictMemoI f n s1 (h.negate (.ref i c))
            let (t, r) := createNodeI s2.st (.bool v h' l')
            ({ s2 with st := t }, r)
        | some (.rng v es) =>
          let (s1, es') := mapEdgesM (restrictMemoI f n) (.ref i c) s es
          let (t, r) := createNodeI s1.st (.rng v (coalesceI es'))
          ({ s1 with st := t }, r)
      ({ s' with memo := (.ref i c, r) :: s'.memo }, r)

end
end Pep508
