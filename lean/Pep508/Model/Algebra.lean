/-
Model of `src/marker/algebra.rs` on the `kind()` view (see `Tree.lean`):
`create_node`, `and`, `or`, `is_disjoint`, `restrict`, `simplify_python_versions`,
`complexify_python_versions`, `Edges::{apply, apply_ranges, map, from_range}`, and the
environment-free evaluators of `tree.rs`.

The model mirrors the code *after* the `fix:` commits recorded in known_findings.json
(F9: `Edges::map` coalesces; F10: `complexify` conjoins with the range node whenever the
node's variable orders after `python_full_version`).
-/
import Pep508.Model.Tree
namespace Pep508

section
variable {νr νb α : Type}
variable [LT α] [DecidableLT α] [DecidableEq α]
variable [LT νr] [DecidableLT νr] [DecidableEq νr] [LT νb] [DecidableLT νb] [DecidableEq νb]

abbrev EdgeL (νr νb α : Type) := List (Ivl α × Tree νr νb α)

/-- `create_node` for range edges: all children equal ⇒ the child, else the node.
    (`children.nodes().next().unwrap()` on an empty list is the Rust panic site; unreachable
    for partitions — theorem `product_ne_nil`; the model answers FALSE there.) -/
def createNodeR (v : νr) (es : EdgeL νr νb α) : Tree νr νb α :=
  match es with
  | [] => .leaf false
  | (_, c) :: rest => if rest.all (fun e => e.2 == c) then c else .rng v (Edges.ofList es)

/-- `create_node` for boolean edges -/
def createNodeB (v : νb) (h l : Tree νr νb α) : Tree νr νb α :=
  if h = l then h else .bool v h l

/-- merge the running last edge with the next one iff same child and `can_conjoin` -/
def coalesceGo (cur : Ivl α × Tree νr νb α) : EdgeL νr νb α → EdgeL νr νb α
  | [] => [cur]
  | e :: rest =>
    if cur.2 = e.2 ∧ cur.1.canConjoin e.1 then coalesceGo (cur.1.conjoin e.1, cur.2) rest
    else cur :: coalesceGo e rest

/-- the `combined.last_mut()` merging of `apply_ranges` (and, after F9, of `map`) as a pass -/
def coalesce : EdgeL νr νb α → EdgeL νr νb α
  | [] => []
  | e :: rest => coalesceGo e rest

/-- `Edges::map` on range edges -/
def mapE (f : Tree νr νb α → Tree νr νb α) (es : EdgeL νr νb α) : EdgeL νr νb α :=
  coalesce (es.map fun e => (e.1, f e.2))

/-- inner loop of `apply_ranges` for one left edge -/
def productRow (f : Tree νr νb α → Tree νr νb α → Tree νr νb α) (l : Ivl α × Tree νr νb α) :
    EdgeL νr νb α → EdgeL νr νb α
  | [] => []
  | r :: rs =>
    let i := r.1.inter l.1
    if i.valid then (i, f l.2 r.2) :: productRow f l rs else productRow f l rs

/-- the double loop of `apply_ranges`, before merging -/
def product (f : Tree νr νb α → Tree νr νb α → Tree νr νb α) :
    EdgeL νr νb α → EdgeL νr νb α → EdgeL νr νb α
  | [], _ => []
  | l :: ls, rs => productRow f l rs ++ product f ls rs

def applyRanges (f : Tree νr νb α → Tree νr νb α → Tree νr νb α) (ls rs : EdgeL νr νb α) :
    EdgeL νr νb α :=
  coalesce (product f ls rs)

/-- `InternerGuard::and` with explicit fuel (`size x + size y + 1` suffices) -/
def andF : Nat → Tree νr νb α → Tree νr νb α → Tree νr νb α
  | 0, _, _ => .leaf false
  | n + 1, x, y =>
    if x = .leaf true then y
    else if y = .leaf true then x
    else if x = y then x
    else if x = .leaf false ∨ y = .leaf false then .leaf false
    else if x.not = y then .leaf false
    else
      match x, y with
      | .rng vx ex, .rng vy ey =>
        if vx < vy then createNodeR vx (mapE (fun c => andF n c y) ex.toList)
        else if vy < vx then createNodeR vy (mapE (fun c => andF n c x) ey.toList)
        else createNodeR vx (applyRanges (andF n) ex.toList ey.toList)
      | .rng vx ex, .bool _ _ _ => createNodeR vx (mapE (fun c => andF n c y) ex.toList)
      | .bool _ _ _, .rng vy ey => createNodeR vy (mapE (fun c => andF n c x) ey.toList)
      | .bool vx hx lx, .bool vy hy ly =>
        -- `Edges::map` on Boolean computes `low` first, then `high`; pure here
        if vx < vy then createNodeB vx (andF n hx y) (andF n lx y)
        else if vy < vx then createNodeB vy (andF n hy x) (andF n ly x)
        else createNodeB vx (andF n hx hy) (andF n lx ly)
      | _, _ => .leaf false

def Tree.and (x y : Tree νr νb α) : Tree νr νb α := andF (x.size + y.size + 1) x y

/-- De Morgan, as in the code -/
def Tree.or (x y : Tree νr νb α) : Tree νr νb α := (Tree.and x.not y.not).not

/-- inner loops of `is_disjoint_ranges` -/
def disjRow (f : Tree νr νb α → Tree νr νb α → Bool) (l : Ivl α × Tree νr νb α) :
    EdgeL νr νb α → Bool
  | [] => true
  | r :: rs => (if (r.1.inter l.1).valid then f l.2 r.2 else true) && disjRow f l rs

def disjRanges (f : Tree νr νb α → Tree νr νb α → Bool) : EdgeL νr νb α → EdgeL νr νb α → Bool
  | [], _ => true
  | l :: ls, rs => disjRow f l rs && disjRanges f ls rs

/-- `InternerGuard::is_disjoint` -/
def isDisjointF : Nat → Tree νr νb α → Tree νr νb α → Bool
  | 0, _, _ => false
  | n + 1, x, y =>
    if x = .leaf false ∨ y = .leaf false then true
    else if x = .leaf true ∨ y = .leaf true then false
    else if x = y then false
    else if x.not = y then true
    else
      match x, y with
      | .rng vx ex, .rng vy ey =>
        if vx < vy then ex.toList.all (fun e => isDisjointF n e.2 y)
        else if vy < vx then ey.toList.all (fun e => isDisjointF n e.2 x)
        else disjRanges (isDisjointF n) ex.toList ey.toList
      | .rng _ ex, .bool _ _ _ => ex.toList.all (fun e => isDisjointF n e.2 y)
      | .bool _ _ _, .rng _ ey => ey.toList.all (fun e => isDisjointF n e.2 x)
      | .bool vx hx lx, .bool vy hy ly =>
        if vx < vy then isDisjointF n hx y && isDisjointF n lx y
        else if vy < vx then isDisjointF n hy x && isDisjointF n ly x
        else isDisjointF n hx hy && isDisjointF n lx ly
      | _, _ => false

def Tree.isDisjoint (x y : Tree νr νb α) : Bool := isDisjointF (x.size + y.size + 1) x y

mutual
/-- `InternerGuard::restrict` -/
def Tree.restrict (f : νb → Option Bool) : Tree νr νb α → Tree νr νb α
  | .leaf b => .leaf b
  | .rng v es => createNodeR v (coalesce (es.restrictE f))
  | .bool v h l =>
    match f v with
    | some true => h.restrict f        -- (F15) the chosen child is restricted too
    | some false => l.restrict f
    | none => createNodeB v (h.restrict f) (l.restrict f)
def Edges.restrictE (f : νb → Option Bool) : Edges νr νb α → EdgeL νr νb α
  | .nil => []
  | .cons iv t rest => (iv, t.restrict f) :: rest.restrictE f
end

/-! ### edges from a normalised range set (`Edges::from_range`) -/

/-- TRUE on the segments of `r`, FALSE on the gaps, in order. `cur` = start of the remainder. -/
def fromRangeGo : Option (Bnd α) → Ranges α → EdgeL νr νb α
  | none, _ => []
  | some cur, [] => [(⟨cur, .unb⟩, .leaf false)]
  | some cur, s :: rest =>
    match s.lo.flipLo with
    | none => (s, .leaf true) :: fromRangeGo s.hi.flipHi rest
    | some h => (⟨cur, h⟩, .leaf false) :: (s, .leaf true) :: fromRangeGo s.hi.flipHi rest

def fromRange (r : Ranges α) : EdgeL νr νb α := fromRangeGo (some .unb) r

/-- the marker `v ∈ r` -/
def rangeNode (v : νr) (r : Ranges α) : Tree νr νb α := createNodeR v (fromRange r)

/-! ### requires-python -/

def setFirstLo (lo : Bnd α) : EdgeL νr νb α → EdgeL νr νb α
  | [] => []
  | (iv, c) :: rest => (⟨lo, iv.hi⟩, c) :: rest

def setLastHi (hi : Bnd α) : EdgeL νr νb α → EdgeL νr νb α
  | [] => []
  | [(iv, c)] => [(⟨iv.lo, hi⟩, c)]
  | e :: rest => e :: setLastHi hi rest

/-- the `python_full_version` node case of `simplify_python_versions` -/
def simplifyEdges (lo hi : Bnd α) (es : EdgeL νr νb α) : EdgeL νr νb α :=
  let new := es.filterMap fun e =>
    let o := e.1.inter ⟨lo, hi⟩
    if o.valid then some (o, e.2) else none
  setLastHi .unb (setFirstLo .unb new)

mutual
/-- `simplify_python_versions` (`pv` = the `python_full_version` variable) -/
def Tree.simplifyPy (pv : νr) (lo hi : Bnd α) : Tree νr νb α → Tree νr νb α
  | .leaf b => .leaf b
  | .rng v es =>
    if lo = .unb ∧ hi = .unb then .rng v es
    else if v = pv then
      if (Ivl.mk lo hi).valid then createNodeR v (simplifyEdges lo hi es.toList) else .leaf false
    else createNodeR v (coalesce (es.simplifyPyE pv lo hi))
  | .bool v h l =>
    if lo = .unb ∧ hi = .unb then .bool v h l
    else createNodeB v (h.simplifyPy pv lo hi) (l.simplifyPy pv lo hi)
def Edges.simplifyPyE (pv : νr) (lo hi : Bnd α) : Edges νr νb α → EdgeL νr νb α
  | .nil => []
  | .cons iv t rest => (iv, t.simplifyPy pv lo hi) :: rest.simplifyPyE pv lo hi
end

/-- clip / extend the first kept edge and add the excluded range below `lo` -/
def complexifyLo (lo : Bnd α) (new : EdgeL νr νb α) : EdgeL νr νb α :=
  match lo.flipLo, new with
  | none, _ => new
  | _, [] => []
  | some below, (iv, c) :: rest =>
    if c = .leaf false then (⟨.unb, iv.hi⟩, c) :: rest
    else (⟨.unb, below⟩, .leaf false) :: (⟨lo, iv.hi⟩, c) :: rest

def complexifyHiGo (hi above : Bnd α) : EdgeL νr νb α → EdgeL νr νb α
  | [] => []
  | [(iv, c)] =>
    if c = .leaf false then [(⟨iv.lo, .unb⟩, c)]
    else [(⟨iv.lo, hi⟩, c), (⟨above, .unb⟩, .leaf false)]
  | e :: rest => e :: complexifyHiGo hi above rest

def complexifyHi (hi : Bnd α) (new : EdgeL νr νb α) : EdgeL νr νb α :=
  match hi.flipHi with
  | none => new
  | some above => complexifyHiGo hi above new

/-- the `python_full_version` node case of `complexify_python_versions` -/
def complexifyEdges (lo hi : Bnd α) (es : EdgeL νr νb α) : EdgeL νr νb α :=
  let new := es.filter fun e => ((Ivl.mk lo hi).inter e.1).valid
  complexifyHi hi (complexifyLo lo new)

mutual
/-- `complexify_python_versions` -/
def Tree.complexifyPy (pv : νr) (lo hi : Bnd α) : Tree νr νb α → Tree νr νb α
  | .leaf b =>
    if b = false then .leaf false
    else if lo = .unb ∧ hi = .unb then .leaf true
    else if (Ivl.mk lo hi).valid then createNodeR pv (fromRange [⟨lo, hi⟩]) else .leaf false
  | .rng v es =>
    if lo = .unb ∧ hi = .unb then .rng v es
    else if ¬ (Ivl.mk lo hi).valid then .leaf false
    else if v = pv then createNodeR v (complexifyEdges lo hi es.toList)
    else if pv < v then Tree.and (.rng v es) (createNodeR pv (fromRange [⟨lo, hi⟩]))
    else createNodeR v (coalesce (es.complexifyPyE pv lo hi))
  | .bool v h l =>
    if lo = .unb ∧ hi = .unb then .bool v h l
    else if ¬ (Ivl.mk lo hi).valid then .leaf false
    else Tree.and (.bool v h l) (createNodeR pv (fromRange [⟨lo, hi⟩]))
def Edges.complexifyPyE (pv : νr) (lo hi : Bnd α) : Edges νr νb α → EdgeL νr νb α
  | .nil => []
  | .cons iv t rest => (iv, t.complexifyPy pv lo hi) :: rest.complexifyPyE pv lo hi
end

/-! ### environment-free evaluation (`evaluate_extras`, `evaluate_extras_and_python_version`) -/

mutual
/-- `ex v = some b` for an `extra` variable whose activity is known, `none` for `in`/`contains` -/
def Tree.evalExtras (ex : νb → Option Bool) : Tree νr νb α → Bool
  | .leaf b => b
  | .rng _ es => es.anyExtras ex
  | .bool v h l =>
    match ex v with
    | some true => h.evalExtras ex
    | some false => l.evalExtras ex
    | none => h.evalExtras ex || l.evalExtras ex
def Edges.anyExtras (ex : νb → Option Bool) : Edges νr νb α → Bool
  | .nil => false
  | .cons _ t rest => t.evalExtras ex || rest.anyExtras ex
end

end
end Pep508
