/-
`MarkerTree::top_level_extra` (src/marker/tree.rs): walk the DNF; in every clause take the FIRST
`extra == …` term (`find`; a clause without one ends the search with `None` — the `?`); all clauses
must give the same term.  `to_dnf` of TRUE is `[[]]` (one empty clause → `None`), of FALSE `[]`
(no clause → `None`).
-/
import Pep508.Model.Dnf
namespace Pep508

def isExtraEq : MExpr → Bool
  | .extra false _ => true
  | _ => false

/-- the loop; the outer `Option` is the early `return None` -/
def topLevelExtraGo : List (List MExpr) → Option MExpr → Option (Option MExpr)
  | [], acc => some acc
  | c :: cs, acc =>
    match c.find? isExtraEq with
    | none => none
    | some found =>
      match acc with
      | some e => if e = found then topLevelExtraGo cs acc else none
      | none => topLevelExtraGo cs (some found)

def topLevelExtraDnf (dnf : List (List MExpr)) : Option MExpr :=
  match topLevelExtraGo dnf none with
  | some r => r
  | none => none

def topLevelExtra (spell : Spell) (t : MTree) : Option MExpr := topLevelExtraDnf (toDnf spell t)

end Pep508
