/-
Model of `src/path.rs::normalize_absolute_path` (Unix: `/` is the only separator, no prefixes) and of the way
`VerbatimUrl::from_absolute_path` / `from_path` (feature `non-pep508-extensions`) use it: the fragment is split off at the FIRST `#`
(`split_fragment`), then the path alone is normalised (F23: before that repair the whole text was).

`std::path::Components` on an absolute Unix path yields `RootDir`, then one `Normal` / `ParentDir` per non-empty segment between
slashes, skipping `.` segments; `normalize_absolute_path` pushes normal components, pops on `..`, and fails when there is nothing
to pop (`PathBuf::pop` is false on `/`).  Turning the resulting path into a `file:` URL (`Url::from_file_path`) is external.
-/
namespace Pep508

/-- the segments between `/` characters (empty segments included) -/
def splitSlash : List Char → List (List Char)
  | [] => [[]]
  | c :: cs =>
    if c == '/' then [] :: splitSlash cs
    else
      match splitSlash cs with
      | [] => [[c]]
      | h :: t => (c :: h) :: t

/-- one component: the stack holds the normal components so far, innermost first; `none` = `..` with nothing to pop -/
def normStep : Option (List (List Char)) → List Char → Option (List (List Char))
  | none, _ => none
  | some st, c =>
    if c == [] || c == ['.'] then some st
    else if c == ['.', '.'] then
      match st with
      | [] => none
      | _ :: t => some t
    else some (c :: st)

/-- the normal components left by the walk, outermost first -/
def normComponents (s : List Char) : Option (List (List Char)) :=
  match (splitSlash s).foldl normStep (some []) with
  | none => none
  | some st => some st.reverse

/-- `/a/b` for `[a, b]`, `/` for `[]` -/
def renderAbs : List (List Char) → List Char
  | [] => ['/']
  | cs => cs.flatMap (fun c => '/' :: c)

inductive PathResult where
  | ok (path : List Char) (fragment : Option (List Char))
  | relative          -- `VerbatimUrlError::WorkingDirectory`: not an absolute path
  | escapes           -- `VerbatimUrlError::Normalization`: `..` beyond the root
  deriving DecidableEq, Repr

/-- `normalize_absolute_path` on an absolute Unix path -/
def normalizeAbsolutePath (s : List Char) : Option (List Char) :=
  match normComponents s with
  | none => none
  | some cs => some (renderAbs cs)

/-- `split_fragment`: at the first `#` -/
def splitFragment (s : List Char) : List Char × Option (List Char) :=
  match s.span (· != '#') with
  | (p, '#' :: f) => (p, some f)
  | (p, _) => (p, none)

/-- `VerbatimUrl::from_absolute_path` up to the conversion of the path to a URL -/
def fromAbsolutePath (s : List Char) : PathResult :=
  match s with
  | '/' :: _ =>
    let (p, f) := splitFragment s
    match normalizeAbsolutePath p with
    | none => .escapes
    | some q => .ok q f
  | _ => .relative

end Pep508
