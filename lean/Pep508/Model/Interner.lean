/-
The id level of `src/marker/algebra.rs`: the process-global interner as an explicit state
machine.  `Id` is `NodeId` (index + complement bit; `TRUE = tt`, `FALSE = ff`), `IState.nodes`
the append-only arena (`boxcar::Vec<Node>`), whose positions double as the unique table
(`FxHashMap<Node, NodeId>`: lookup = first position holding an equal node), `IState.cache` the
AND memo table.  `denote` reads an id back as the `kind()`-view diagram of `Tree.lean`; the
refinement theorems (Proofs/InternerRefine.lean) state that `andI` on ids is `Tree.and` on
denotations whatever is already in the arena / cache, and that equal denotations have equal ids.
Generic in variables and values like the diagram model.
-/
import Pep508.Model.Algebra
namespace Pep508

inductive Id where
  | tt
  | ff
  | ref (i : Nat) (c : Bool)          -- node index, complemented?
  deriving DecidableEq, Repr

def Id.not : Id → Id
  | .tt => .ff
  | .ff => .tt
  | .ref i c => .ref i (!c)

def Id.isComplement : Id → Bool
  | .tt => false
  | .ff => true                        -- `NodeId(1)`: the complement bit of the terminal
  | .ref _ c => c

/-- `NodeId::negate(parent)` -/
def Id.negate (x parent : Id) : Id := if parent.isComplement then x.not else x

section
variable {νr νb α : Type}

/-- `Node { var, children }` -/
inductive INode (νr νb α : Type) where
  | rng (v : νr) (edges : List (Ivl α × Id))
  | bool (v : νb) (hi lo : Id)
  deriving DecidableEq, Repr

structure IState (νr νb α : Type) where
  nodes : List (INode νr νb α)
  cache : List ((Id × Id) × Id)

def IState.empty : IState νr νb α := ⟨[], []⟩

def INode.not : INode νr νb α → INode νr νb α
  | .rng v es => .rng v (es.map fun e => (e.1, e.2.not))
  | .bool v h l => .bool v h.not l.not

/-- `node.children.nodes()` -/
def INode.children : INode νr νb α → List Id
  | .rng _ es => es.map (·.2)
  | .bool _ h l => [h, l]

variable [DecidableEq νr] [DecidableEq νb] [DecidableEq α]

/-- `unique.entry(node).or_insert_with(|| push)` -/
def intern (s : IState νr νb α) (n : INode νr νb α) : IState νr νb α × Nat :=
  match s.nodes.idxOf? n with
  | some i => (s, i)
  | none => ({ s with nodes := s.nodes ++ [n] }, s.nodes.length)

/-- `create_node`: first child uncomplemented; all children equal ⇒ the child; hash-consing -/
def createNodeI (s : IState νr νb α) (n : INode νr νb α) : IState νr νb α × Id :=
  match n.children with
  | [] => (s, .ff)                                   -- (`unwrap` on an empty node: unreachable)
  | first :: _ =>
    let flipped := first.isComplement
    let n' := if flipped then n.not else n
    let first' := if flipped then first.not else first
    if n'.children.all (· == first') then (s, if flipped then first'.not else first')
    else
      let (s', i) := intern s n'
      (s', .ref i flipped)

variable [LT α] [DecidableLT α] [LT νr] [DecidableLT νr] [LT νb] [DecidableLT νb]

/-- the `last_mut` merging of `apply_ranges` / `map` on id edges -/
def coalesceGoI (cur : Ivl α × Id) : List (Ivl α × Id) → List (Ivl α × Id)
  | [] => [cur]
  | e :: rest =>
    if cur.2 = e.2 ∧ cur.1.canConjoin e.1 then coalesceGoI (cur.1.conjoin e.1, cur.2) rest
    else cur :: coalesceGoI e rest

def coalesceI : List (Ivl α × Id) → List (Ivl α × Id)
  | [] => []
  | e :: rest => coalesceGoI e rest

/-- `Edges::map` with the interner threaded through the closure calls, in iteration order -/
def mapEdgesI (f : IState νr νb α → Id → IState νr νb α × Id) (parent : Id) :
    IState νr νb α → List (Ivl α × Id) → IState νr νb α × List (Ivl α × Id)
  | s, [] => (s, [])
  | s, (iv, c) :: rest =>
    let (s1, c') := f s (c.negate parent)
    let (s2, rest') := mapEdgesI f parent s1 rest
    (s2, (iv, c') :: rest')

def rowI (f : IState νr νb α → Id → Id → IState νr νb α × Id) (lp rp : Id) (l : Ivl α × Id) :
    IState νr νb α → List (Ivl α × Id) → IState νr νb α × List (Ivl α × Id)
  | s, [] => (s, [])
  | s, r :: rs =>
    let i := r.1.inter l.1
    if i.valid then
      let (s1, c) := f s (l.2.negate lp) (r.2.negate rp)
      let (s2, rest) := rowI f lp rp l s1 rs
      (s2, (i, c) :: rest)
    else rowI f lp rp l s rs

def productI (f : IState νr νb α → Id → Id → IState νr νb α × Id) (lp rp : Id) :
    IState νr νb α → List (Ivl α × Id) → List (Ivl α × Id) → IState νr νb α × List (Ivl α × Id)
  | s, [], _ => (s, [])
  | s, l :: ls, rs =>
    let (s1, row) := rowI f lp rp l s rs
    let (s2, rest) := productI f lp rp s1 ls rs
    (s2, row ++ rest)

def IState.node? (s : IState νr νb α) : Id → Option (INode νr νb α)
  | .ref i _ => s.nodes[i]?
  | _ => none

/-- `InternerGuard::and`, memoised, with fuel -/
def andI : Nat → IState νr νb α → Id → Id → IState νr νb α × Id
  | 0, s, _, _ => (s, .ff)
  | n + 1, s, xi, yi =>
    if xi = .tt then (s, yi)
    else if yi = .tt then (s, xi)
    else if xi = yi then (s, xi)
    else if xi = .ff ∨ yi = .ff then (s, .ff)
    else if xi.not = yi then (s, .ff)
    else
      match s.cache.find? (fun e => e.1 == (xi, yi)) with
      | some e => (s, e.2)
      | none =>
        match s.node? xi, s.node? yi with
        | some x, some y =>
          let (s1, node) : IState νr νb α × INode νr νb α :=
            match x, y with
            | .rng vx ex, .rng vy ey =>
              if vx < vy then
                let (s1, es) := mapEdgesI (fun s c => andI n s c yi) xi s ex
                (s1, .rng vx (coalesceI es))
              else if vy < vx then
                let (s1, es) := mapEdgesI (fun s c => andI n s c xi) yi s ey
                (s1, .rng vy (coalesceI es))
              else
                let (s1, es) := productI (andI n) xi yi s ex ey
                (s1, .rng vx (coalesceI es))
            | .rng vx ex, .bool _ _ _ =>
              let (s1, es) := mapEdgesI (fun s c => andI n s c yi) xi s ex
              (s1, .rng vx (coalesceI es))
            | .bool _ _ _, .rng vy ey =>
              let (s1, es) := mapEdgesI (fun s c => andI n s c xi) yi s ey
              (s1, .rng vy (coalesceI es))
            | .bool vx hx lx, .bool vy hy ly =>
              if vx < vy then
                let (s1, l) := andI n s (lx.negate xi) yi
                let (s2, h) := andI n s1 (hx.negate xi) yi
                (s2, .bool vx h l)
              else if vy < vx then
                let (s1, l) := andI n s (ly.negate yi) xi
                let (s2, h) := andI n s1 (hy.negate yi) xi
                (s2, .bool vy h l)
              else
                let (s1, h) := andI n s (hx.negate xi) (hy.negate yi)
                let (s2, l) := andI n s1 (lx.negate xi) (ly.negate yi)
                (s2, .bool vx h l)
          let (s2, r) := createNodeI s1 node
          ({ s2 with cache := ((xi, yi), r) :: s2.cache }, r)
        | _, _ => (s, .ff)                               -- dangling id: not reachable

def orI (n : Nat) (s : IState νr νb α) (x y : Id) : IState νr νb α × Id :=
  let (s', r) := andI n s x.not y.not
  (s', r.not)

/-- read an id back as a diagram (fuel ≥ arena size suffices: children have smaller indices) -/
def denote (s : IState νr νb α) : Nat → Id → Tree νr νb α
  | _, .tt => .leaf true
  | _, .ff => .leaf false
  | 0, .ref _ _ => .leaf false
  | fuel + 1, .ref i c =>
    let t : Tree νr νb α :=
      match s.nodes[i]? with
      | none => .leaf false
      | some (.rng v es) => .rng v (Edges.ofList (es.map fun e => (e.1, denote s fuel e.2)))
      | some (.bool v h l) => .bool v (denote s fuel h) (denote s fuel l)
    if c then t.not else t

end
end Pep508

namespace Pep508
section
variable {νr νb α : Type} [DecidableEq νr] [DecidableEq νb] [DecidableEq α]

mutual
/-- load a diagram into the arena bottom-up through `create_node` -/
def internTree (s : IState νr νb α) : Tree νr νb α → IState νr νb α × Id
  | .leaf true => (s, .tt)
  | .leaf false => (s, .ff)
  | .rng v es =>
    let (s1, ids) := internEdges s es
    createNodeI s1 (.rng v ids)
  | .bool v h l =>
    let (s1, hi) := internTree s h
    let (s2, li) := internTree s1 l
    createNodeI s2 (.bool v hi li)
def internEdges (s : IState νr νb α) : Edges νr νb α → IState νr νb α × List (Ivl α × Id)
  | .nil => (s, [])
  | .cons iv t rest =>
    let (s1, c) := internTree s t
    let (s2, r) := internEdges s1 rest
    (s2, (iv, c) :: r)
end

end
end Pep508
