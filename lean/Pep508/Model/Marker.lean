/-
Concrete instantiation of the diagram model for pep508_rs: values, variables (with the derived
`Ord` of `Variable`), marker expressions, and `InternerGuard::expression` with
`normalize_specifier`, `python_version_to_full_version`, `release_specifier_to_range`
(pep440_rs), `Edges::from_specifier / from_versions / from_python_versions / from_string`.

Versions are release-only lists of segments; inside diagrams they are stored with trailing
zeros stripped (`Version: Eq/Ord/Hash` ignore them).  Mirrors the code after the `fix:` commits
(F11 `~=` not stripped / `python_version ~= X.Y.0`; F12 `not in` negation; F14 release-only
in-lists).
-/
import Pep508.Model.Algebra
namespace Pep508

/-! ### values -/

inductive Val where
  | ver (v : List Nat)
  | str (s : String)
  deriving DecidableEq, Repr

/-- lexicographic order on normalised release lists = zero-padded comparison -/
def verLt : List Nat → List Nat → Bool
  | [], [] => false
  | [], _ :: _ => true
  | _ :: _, [] => false
  | a :: as, b :: bs => if a < b then true else if b < a then false else verLt as bs

def Val.lt : Val → Val → Bool
  | .ver a, .ver b => verLt a b
  | .ver _, .str _ => true
  | .str _, .ver _ => false
  | .str a, .str b => decide (a < b)

instance : LT Val := ⟨fun a b => Val.lt a b = true⟩
instance : DecidableLT Val := fun a b => inferInstanceAs (Decidable (Val.lt a b = true))

/-- drop trailing zero segments -/
def stripZeros (r : List Nat) : List Nat :=
  (r.reverse.dropWhile (· == 0)).reverse

/-! ### variables -/

inductive VKey where
  | implVer | pfv | pyVer
  deriving DecidableEq, Repr

def VKey.idx : VKey → Nat
  | .implVer => 0 | .pfv => 1 | .pyVer => 2

/-- the 14 spellings of `MarkerValueString`, as an index in declaration order -/
structure SKey where
  idx : Nat
  deriving DecidableEq, Repr

inductive VarR where
  | ver (k : VKey)
  | str (k : SKey)
  deriving DecidableEq, Repr

def VarR.lt : VarR → VarR → Bool
  | .ver a, .ver b => decide (a.idx < b.idx)
  | .ver _, .str _ => true
  | .str _, .ver _ => false
  | .str a, .str b => decide (a.idx < b.idx)

instance : LT VarR := ⟨fun a b => VarR.lt a b = true⟩
instance : DecidableLT VarR := fun a b => inferInstanceAs (Decidable (VarR.lt a b = true))

/-- `MarkerValueExtra` -/
inductive ExtraVal where
  | extra (name : String)
  | arbitrary (s : String)
  deriving DecidableEq, Repr

def ExtraVal.lt : ExtraVal → ExtraVal → Bool
  | .extra a, .extra b => decide (a < b)
  | .extra _, .arbitrary _ => true
  | .arbitrary _, .extra _ => false
  | .arbitrary a, .arbitrary b => decide (a < b)

inductive VarB where
  | isIn (k : SKey) (v : String)
  | contains (k : SKey) (v : String)
  | extra (e : ExtraVal)
  deriving DecidableEq, Repr

def VarB.lt : VarB → VarB → Bool
  | .isIn k1 v1, .isIn k2 v2 => decide (k1.idx < k2.idx) || (decide (k1.idx = k2.idx) && decide (v1 < v2))
  | .isIn _ _, _ => true
  | .contains _ _, .isIn _ _ => false
  | .contains k1 v1, .contains k2 v2 => decide (k1.idx < k2.idx) || (decide (k1.idx = k2.idx) && decide (v1 < v2))
  | .contains _ _, .extra _ => true
  | .extra a, .extra b => a.lt b
  | .extra _, _ => false

instance : LT VarB := ⟨fun a b => VarB.lt a b = true⟩
instance : DecidableLT VarB := fun a b => inferInstanceAs (Decidable (VarB.lt a b = true))

abbrev MTree := Tree VarR VarB Val

/-! ### expressions -/

inductive Op where
  | eq | exactEq | ne | tilde | lt | le | gt | ge | eqStar | neStar
  deriving DecidableEq, Repr

def Op.isStar : Op → Bool
  | .eqStar | .neStar => true
  | _ => false

structure Spec where
  op : Op
  rel : List Nat
  deriving DecidableEq, Repr

inductive SOp where
  | eq | ne | gt | ge | lt | le | isIn | notIn | contains | notContains
  deriving DecidableEq, Repr

inductive MExpr where
  | version (k : VKey) (s : Spec)
  | versionIn (k : VKey) (vs : List (List Nat)) (neg : Bool)
  | string (k : SKey) (op : SOp) (v : String)
  | extra (neg : Bool) (name : ExtraVal)
  deriving DecidableEq, Repr

/-- index of the last non-zero segment -/
def lastNonZero (r : List Nat) : Option Nat :=
  let n := (r.reverse.dropWhile (· == 0)).length
  if n = 0 then none else some (n - 1)

/-- `normalize_specifier` (release-only, trailing zeros stripped down to two segments; not for
    star operators and — F11 — not for `~=`, whose meaning depends on the segment count) -/
def normalizeSpecifier (s : Spec) : Spec :=
  if s.op.isStar || s.op == .tilde then s
  else
    let keep := match lastNonZero s.rel with
      | some e => if e > 1 then e else 1
      | none => 1
    if keep < s.rel.length then ⟨s.op, s.rel.take (keep + 1)⟩ else s

/-- increment the last segment -/
def bumpLast : List Nat → List Nat
  | [] => []
  | [x] => [x + 1]
  | x :: rest => x :: bumpLast rest

/-- pep440_rs `release_specifier_to_range` -/
def releaseSpecToRange (s : Spec) : Ranges Val :=
  let v := Val.ver (stripZeros s.rel)
  match s.op with
  | .eq | .exactEq => Ranges.singleton v
  | .ne => Ranges.complement (Ranges.singleton v)
  | .tilde => Ranges.ofBounds (.incl v) (.excl (.ver (stripZeros (bumpLast s.rel.dropLast))))
  | .lt => [⟨.unb, .excl v⟩]
  | .le => [⟨.unb, .incl v⟩]
  | .gt => [⟨.excl v, .unb⟩]
  | .ge => [⟨.incl v, .unb⟩]
  | .eqStar => Ranges.ofBounds (.incl v) (.excl (.ver (stripZeros (bumpLast s.rel))))
  | .neStar => Ranges.complement (Ranges.ofBounds (.incl v) (.excl (.ver (stripZeros (bumpLast s.rel)))))

/-- result of `python_version_to_full_version`: a specifier, or a constant -/
inductive PvResult where
  | spec (s : Spec)
  | const (b : Bool)

/-- `python_version_to_full_version` -/
def pythonVersionToFull (s : Spec) : PvResult :=
  match s.rel with
  | [] => .const false                 -- (no such `Version`)
  | [major] =>
    if s.op.isStar then .spec s
    else
      match s.op with
      | .eq | .exactEq => .spec ⟨.eqStar, [major, 0]⟩
      | .ne => .spec ⟨.neStar, [major, 0]⟩
      | .gt => .spec ⟨.ge, [major, 1]⟩
      | .le => .spec ⟨.lt, [major, 1]⟩
      | _ => .spec s
  | [major, minor] =>
    match s.op with
    | .eq | .exactEq => .spec ⟨.eqStar, [major, minor]⟩
    | .ne => .spec ⟨.neStar, [major, minor]⟩
    | .gt => .spec ⟨.ge, [major, minor + 1]⟩
    | .le => .spec ⟨.lt, [major, minor + 1]⟩
    | _ => .spec s
  | major :: minor :: tail =>
    match s.op with
    | .tilde => if tail.all (· == 0) then .spec ⟨.eqStar, [major, minor]⟩ else .const false
    | .eq | .exactEq | .eqStar => .const false
    | .ne | .neStar => .const true
    | .lt | .le => .spec ⟨.lt, [major, minor + 1]⟩
    | .gt | .ge => .spec ⟨.ge, [major, minor + 1]⟩

/-- `Edges::from_string` -/
def stringRange (op : SOp) (v : String) : Ranges Val :=
  let x := Val.str v
  match op with
  | .eq => Ranges.singleton x
  | .ne => Ranges.complement (Ranges.singleton x)
  | .gt => [⟨.excl x, .unb⟩]
  | .ge => [⟨.incl x, .unb⟩]
  | .lt => [⟨.unb, .excl x⟩]
  | .le => [⟨.unb, .incl x⟩]
  | _ => []

/-- union loop of `from_python_versions`; `none` = a member was a constant (`Err(node)`) -/
def pyVersionsRange : List (List Nat) → Ranges Val → Option (Ranges Val)
  | [], acc => some acc
  | v :: rest, acc =>
    match pythonVersionToFull ⟨.eq, v⟩ with
    | .const _ => none
    | .spec s => pyVersionsRange rest (Ranges.union acc (releaseSpecToRange (normalizeSpecifier s)))

def boolNode (v : VarB) (positive : Bool) : MTree :=
  if positive then .bool v (.leaf true) (.leaf false) else .bool v (.leaf false) (.leaf true)

/-- `InternerGuard::expression` -/
def expression : MExpr → MTree
  | .version .pyVer s =>
    match pythonVersionToFull (normalizeSpecifier s) with
    | .spec s' => rangeNode (.ver .pfv) (releaseSpecToRange (normalizeSpecifier s'))
    | .const b => .leaf b
  | .versionIn .pyVer vs neg =>
    match pyVersionsRange vs [] with
    | none => .leaf neg                -- F12: the constant FALSE is negated for `not in`
    | some r => rangeNode (.ver .pfv) (if neg then Ranges.complement r else r)
  | .version k s => rangeNode (.ver k) (releaseSpecToRange (normalizeSpecifier s))
  | .versionIn k vs neg =>
    let r := vs.foldl (fun acc v => Ranges.union acc (Ranges.singleton (.ver (stripZeros v)))) []
    rangeNode (.ver k) (if neg then Ranges.complement r else r)
  | .string k .isIn v => boolNode (.isIn k v) true
  | .string k .notIn v => boolNode (.isIn k v) false
  | .string k .contains v => boolNode (.contains k v) true
  | .string k .notContains v => boolNode (.contains k v) false
  | .string k op v => rangeNode (.str k) (stringRange op v)
  | .extra neg name => boolNode (.extra name) (!neg)

end Pep508
