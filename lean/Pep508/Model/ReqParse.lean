/-
Model of the requirement parser of `src/lib.rs`: `parse_name`, `parse_extras_cursor`,
`parse_url` (URL end scan), bare / parenthesised specifier scans, `looks_like_unnamed_requirement`,
archive check, marker hand-off, trailing input and ambiguity diagnosis.

External parsers (`VersionSpecifier::from_str`, `T::parse_url`) are *calls recorded in order*
with the exact text and span they receive (`ExtCall`); the model continues as if they succeed.
The first failing call (decided by the real crates in the harness) yields `Err` with the recorded
span, exactly as the `?` in the Rust code does.  The only other influence of an external result
on control flow — `url.to_string().ends_with(';' | '#')` — is an explicit alternative (`urlEnds`).

Mirrors the code after F5 / F6 (name and extra validation errors instead of `expect`), F18 (unnamed
check before the invalid-name error) and F19 (rewind to the name, not to the leading whitespace).
-/
import Pep508.Model.MarkerParse
import Pep508.Model.Url
namespace Pep508

inductive ExtCall where
  | spec (text : List Char) (start len : Nat)
  | url (text : List Char) (start len : Nat)
  deriving Repr

inductive ReqKind where
  | none
  | specs (texts : List (List Char))
  | url (text : List Char)
  deriving Repr

structure ReqOk where
  name : List Nat
  extras : List (List Nat)
  kind : ReqKind
  marker : MTree
  warns : List WarnKind

inductive ReqThen where
  | ok (r : ReqOk)
  | err (e : PErr)
  | panic (site : String)
  /-- if the parsed URL's text ends with the char: that error, else the last one -/
  | urlEnds (alts : List (Char × PErr)) (other : PErr)
  /-- (F20) a marker follows the URL: if the parsed URL's text ends with the char: that error,
      else the requirement -/
  | urlEndsOk (alts : List (Char × PErr)) (r : ReqOk)

structure ReqOut where
  calls : List ExtCall
  fin : ReqThen

def isAsciiAlnum (c : Char) : Bool := c.toNat < 128 && c.isAlphanum
def isNameChar (c : Char) : Bool := isAsciiAlnum c || c == '.' || c == '-' || c == '_'

/-- `looks_like_unnamed_requirement`; returns the verdict and the advanced clone's position -/
def looksLikeUnnamed (env : ProcEnv) (c : Cursor) : Res (Bool × Nat) :=
  let ((start, len), c1) := c.takeWhile (fun ch => !isWs ch)
  match Res.ofSlice (c1.slice start len) with
  | .panic s => .panic s
  | .err e => .err e
  | .ok url =>
    let expanded := expandEnvVars env url
    let u := match splitExtras expanded with
      | some (u, _) => u
      | none => expanded
    let verdict :=
      match u with
      | [] => false
      | first :: _ =>
        first == '\\' || first == '/' || first == '.' ||
        (splitScheme u).isSome || u.contains '/' || u.contains '\\' || looksLikeArchive u
    .ok (verdict, c1.pos)

/-- the error for "the input does not start like a requirement": unsupported-requirement if the
    token at `at_` looks like a URL / path / archive (span from `start`), else the given string
    error -/
def unnamedOr (env : ProcEnv) (c : Cursor) (at_ start : Nat) (other : PErr) : Res PErr :=
  match c.at_ at_ with
  | none => .panic "slice"
  | some clone =>
    match looksLikeUnnamed env clone with
    | .panic s => .panic s
    | .err e => .err e
    | .ok (true, p) => .ok ⟨.unsupported, start, p - start⟩
    | .ok (false, _) => .ok other

/-- the `loop` of `parse_name` after the first char -/
def invalidName (env : ProcEnv) (c : Cursor) (start : Nat) : Res (List Nat × Cursor) :=
  -- (F5) an error, not `expect`; (F18) a URL / path whose first segment is not a name
  match unnamedOr env c start start ⟨.string, start, c.pos - start⟩ with
  | .ok e => .err e
  | .err e => .err e
  | .panic s => .panic s

def parseNameLoop (env : ProcEnv) : Nat → Cursor → List Char → Nat → Res (List Nat × Cursor)
  | 0, _, _, _ => .panic "stack"
  | fuel + 1, c, name, start =>
    match c.peek with
    | some (index, ch) =>
      if isNameChar ch then
        match c.next with
        | none => .panic "unreachable"
        | some (_, c1) =>
          if c1.peek.isNone && (ch == '.' || ch == '-' || ch == '_') then serr index (utf8Len ch)
          else parseNameLoop env fuel c1 (name ++ [ch]) start
      else
        match Names.validateOwned (bytesOfChars name) with
        | some n => .ok (n, c)
        | none => invalidName env c start
    | none =>
      match Names.validateOwned (bytesOfChars name) with
      | some n => .ok (n, c)
      | none => invalidName env c start

/-- `parse_name` -/
def parseName (env : ProcEnv) (c : Cursor) : Res (List Nat × Cursor) :=
  let start := c.pos
  match c.next with
  | none => serr 0 1
  | some ((index, ch), c1) =>
    if isAsciiAlnum ch then parseNameLoop env (c.rest.length + 1) c1 [ch] start
    else
      match unnamedOr env c1 start start ⟨.string, index, utf8Len ch⟩ with
      | .ok e => .err e
      | .err e => .err e
      | .panic s => .panic s

/-- one iteration body of the extras loop, after the separator handling -/
def parseExtrasLoop : Nat → Cursor → Nat → List (List Nat) → Bool → Res (List (List Nat) × Cursor)
  | 0, _, _, _, _ => .panic "stack"
  | fuel + 1, c, bracketPos, extras, first =>
    if c.peekChar == some ']' then
      match c.next with
      | some (_, c1) => .ok (extras, c1)
      | none => .panic "unreachable"
    else
      -- comma separator
      let sep : Res Cursor :=
        match c.peek, first with
        | some (pos, ','), true => serr pos 1
        | some (_, ','), false => (match c.next with | some (_, c1) => .ok c1 | none => .panic "unreachable")
        | some (pos, _), false => serr pos 1
        | _, _ => .ok c
      match sep with
      | .err e => .err e
      | .panic s => .panic s
      | .ok c1 =>
        let c2 := c1.eatWhitespace
        let nameStart := c2.pos
        match c2.next with
        | none => serr bracketPos 1
        | some ((pos, ch), c3) =>
          if !isAsciiAlnum ch then serr pos (utf8Len ch)
          else
            let ((start, len), c4) := c3.takeWhile isNameChar
            match Res.ofSlice (c4.slice start len) with
            | .panic s => .panic s
            | .err e => .err e
            | .ok restName =>
              let buffer := ch :: restName
              let bad : Option PErr :=
                match c4.peek with
                | some (p, ch2) => if ch2 != ',' && ch2 != ']' && !isWs ch2 then some ⟨.string, p, utf8Len ch2⟩ else none
                | none => none
              match bad with
              | some e => .err e
              | none =>
                let c5 := c4.eatWhitespace
                match Names.validateOwned (bytesOfChars buffer) with
                | some n => parseExtrasLoop fuel c5 bracketPos (extras ++ [n]) false
                | none => serr nameStart (strLen buffer)                  -- (F6)

/-- `parse_extras_cursor` -/
def parseExtras (c : Cursor) : Res (List (List Nat) × Cursor) :=
  match c.eatChar '[' with
  | none => .ok ([], c)
  | some (bracketPos, c1) => parseExtrasLoop (c.rest.length + 2) c1.eatWhitespace bracketPos [] true

/-- the scanning loop of `parse_url`: the byte length and the cursor after the loop, or — a
    top-level `;` / `#` followed by whitespace — the position and length of that character
    (the end of the URL is ambiguous: an error whatever follows; K4 repair) -/
def urlScan : Nat → Cursor → Nat → (Nat × Cursor) ⊕ (Nat × Nat)
  | 0, c, len => .inl (len, c)
  | fuel + 1, c, len =>
    match c.next with
    | none => .inl (len, c)
    | some ((_, ch), c1) =>
      if ch == '\r' || ch == '\n' then .inl (len, c1)
      else
        let stopWs := isWs ch &&
          (match c1.eatWhitespace.peekChar with
           | none => true
           | some n => n == ';' || n == '#')
        if stopWs then .inl (len, c1)
        else
          let len' := len + utf8Len ch
          let glued := (ch == ';' || ch == '#') &&
            (match c1.peekChar with | some n => isWs n | none => false)
          if glued then .inr (c1.pos - utf8Len ch, utf8Len ch) else urlScan fuel c1 len'

/-- `parse_url`: the slice handed to `T::parse_url` -/
def parseUrl (c : Cursor) : Res ((List Char × Nat × Nat) × Cursor) :=
  let c0 := c.eatWhitespace
  let start := c0.pos
  match urlScan (c0.rest.length + 1) c0 0 with
  | .inr (p, l) => serr p l
  | .inl (len, c1) =>
    match Res.ofSlice (c1.slice start len) with
    | .panic s => .panic s
    | .err e => .err e
    | .ok url => if url.isEmpty then serr start len else .ok ((url, start, len), c1)

/-- `parse_version_specifier` (bare): the calls issued so far, and how the scan ended -/
def specsBare : Nat → Cursor → Nat → List Char → List ExtCall → List ExtCall × Res Cursor
  | 0, _, _, _, acc => (acc, .panic "stack")
  | fuel + 1, c, start, buffer, acc =>
    match c.peek with
    | some (end_, ',') =>
      (match c.next with
       | some (_, c1) => specsBare fuel c1 (end_ + 1) [] (acc ++ [.spec buffer start (end_ - start)])
       | none => (acc, .panic "unreachable"))
    | some (_, ';') => (acc ++ [.spec buffer start (c.pos - start)], .ok c)
    | none => (acc ++ [.spec buffer start (c.pos - start)], .ok c)
    | some (_, ch) =>
      (match c.next with
       | some (_, c1) => specsBare fuel c1 start (buffer ++ [ch]) acc
       | none => (acc, .panic "unreachable"))

/-- `parse_version_specifier_parentheses` after the opening parenthesis -/
def specsParen : Nat → Cursor → Nat → Nat → List Char → List ExtCall → List ExtCall × Res Cursor
  | 0, _, _, _, _, acc => (acc, .panic "stack")
  | fuel + 1, c, bracePos, start, buffer, acc =>
    match c.next with
    | some ((end_, ','), c1) => specsParen fuel c1 bracePos (end_ + 1) [] (acc ++ [.spec buffer start (end_ - start)])
    | some ((end_, ')'), c1) => (acc ++ [.spec buffer start (end_ - start)], .ok c1)
    | some ((_, ch), c1) => specsParen fuel c1 bracePos start (buffer ++ [ch]) acc
    | none => (acc, serr bracePos 1)

def specTexts (calls : List ExtCall) : List (List Char) :=
  calls.filterMap fun c => match c with | .spec t _ _ => some t | _ => none

/-- `parse_pep508_requirement` -/
def parseRequirement (env : ProcEnv) (x : Ext) (input : List Char) : ReqOut :=
  let c := Cursor.new input
  let start := c.pos
  let c := c.eatWhitespace
  let nameStart := c.pos
  match parseName env c with
  | .err e => ⟨[], .err e⟩
  | .panic s => ⟨[], .panic s⟩
  | .ok (name, c) =>
    let nameEnd := c.pos
    match parseExtras c.eatWhitespace with
    | .err e => ⟨[], .err e⟩
    | .panic s => ⟨[], .panic s⟩
    | .ok (extras, c) =>
      let c := c.eatWhitespace
      -- ( url_req | name_req )?
      let kindRes : List ExtCall × Res (ReqKind × Cursor) :=
        match c.peekChar with
        | some '@' =>
          (match c.next with
           | none => ([], .panic "unreachable")
           | some (_, c1) =>
             match parseUrl c1 with
             | .ok ((url, s, l), c2) => ([.url url s l], .ok (.url url, c2))
             | .err e => ([], .err e)
             | .panic s => ([], .panic s))
        | some '(' =>
          (match c.next with
           | none => ([], .panic "unreachable")
           | some (_, c1) =>
             let c2 := c1.eatWhitespace
             match specsParen (c.rest.length + 2) c2 c.pos c2.pos [] [] with
             | (calls, .ok c3) => (calls, .ok (.specs (specTexts calls), c3))
             | (calls, .err e) => (calls, .err e)
             | (calls, .panic s) => (calls, .panic s))
        | some ';' => ([], .ok (.none, c))
        | none => ([], .ok (.none, c))
        | some other =>
          if other == '<' || other == '=' || other == '>' || other == '~' || other == '!' then
            match specsBare (c.rest.length + 2) c c.pos [] [] with
            | (calls, .ok c3) => (calls, .ok (.specs (specTexts calls), c3))
            | (calls, .err e) => (calls, .err e)
            | (calls, .panic s) => (calls, .panic s)
          else
            match unnamedOr env c nameStart start ⟨.string, c.pos, utf8Len other⟩ with   -- (F19)
            | .ok e => ([], .err e)
            | .err e => ([], .err e)
            | .panic s => ([], .panic s)
      match kindRes with
      | (calls, .err e) => ⟨calls, .err e⟩
      | (calls, .panic s) => ⟨calls, .panic s⟩
      | (calls, .ok (kind, c)) =>
        let isNone := match kind with | .none => true | _ => false
        let nameSlice := c.slice nameStart (nameEnd - nameStart)
        match nameSlice with
        | none => ⟨calls, .panic "slice"⟩
        | some ns =>
          if isNone && looksLikeArchive ns then ⟨calls, .err ⟨.unsupported, start, 0⟩⟩
          else
            let c := c.eatWhitespace
            let markerRes : Res (Option MTree × List WarnKind × Cursor) :=
              if c.peekChar == some ';' then
                match c.next with
                | none => .panic "unreachable"
                | some (_, c1) =>
                  match parseMarkersCursor x (4 * input.length + 16) c1 with
                  | .ok st => .ok (st.tree, st.warns, st.cur)
                  | .err e => .err e
                  | .panic s => .panic s
              else .ok (none, [], c)
            match markerRes with
            | .err e => ⟨calls, .err e⟩
            | .panic s => ⟨calls, .panic s⟩
            | .ok (marker, warns, c) =>
              let c := c.eatWhitespace
              match c.next with
              | some ((pos, ch), _) =>
                let other : PErr := ⟨.string, pos, utf8Len ch⟩
                let isUrl := match kind with | .url _ => true | _ => false
                -- with a marker (F20) the URL-end check comes first, without one it is made here
                if isUrl then
                  -- (F17) the last byte of the URL text, not of whatever ended the scan
                  let urlEnd := match calls.getLast? with
                    | some (.url _ s l) => s + l
                    | _ => pos
                  ⟨calls, .urlEnds [(';', ⟨.string, urlEnd - 1, 1⟩), ('#', ⟨.string, urlEnd - 1, 1⟩)] other⟩
                else ⟨calls, .err other⟩
              | none =>
                let r : ReqOk := ⟨name, extras, kind, marker.getD (.leaf true), warns⟩
                let isUrl := match kind with | .url _ => true | _ => false
                if marker.isSome && isUrl then
                  let urlEnd := match calls.getLast? with
                    | some (.url _ s l) => s + l
                    | _ => c.pos
                  ⟨calls, .urlEndsOk [(';', ⟨.string, urlEnd - 1, 1⟩), ('#', ⟨.string, urlEnd - 1, 1⟩)] r⟩
                else ⟨calls, .ok r⟩

end Pep508
