/-
Totality of the requirement parser model (C06): no panic site is reachable, every error span
starts on a char boundary of the input, every recorded external call has a span starting on a
char boundary (and the URL call's span is exactly the slice it is given).
-/
import Pep508.Model.ReqParse
import Pep508.Proofs.ParseFuel
namespace Pep508

open Cursor

/-! ### cursors only move forward -/

/-- `c'` is `c` advanced over `taken` (same input) -/
def Cursor.Adv (c c' : Cursor) : Prop :=
  c'.input = c.input ∧ ∃ taken, c.rest = taken ++ c'.rest ∧ c'.pos = c.pos + strLen taken

namespace Cursor

theorem Adv.refl (c : Cursor) : Adv c c := ⟨rfl, [], rfl, rfl⟩

theorem Adv.trans {a b c : Cursor} (h1 : Adv a b) (h2 : Adv b c) : Adv a c := by
  obtain ⟨e1, t1, r1, p1⟩ := h1
  obtain ⟨e2, t2, r2, p2⟩ := h2
  refine ⟨e2.trans e1, t1 ++ t2, ?_, ?_⟩
  · rw [r1, r2, List.append_assoc]
  · rw [p2, p1, strLen_append]; omega

theorem Adv.input {a b : Cursor} (h : Adv a b) : b.input = a.input := h.1

theorem Adv.inv {a b : Cursor} (h : Adv a b) (ha : a.Inv) : b.Inv := by
  obtain ⟨e1, t1, r1, p1⟩ := h
  obtain ⟨pre, h1, h2⟩ := ha
  refine ⟨pre ++ t1, ?_, ?_⟩
  · rw [e1, h1, r1, List.append_assoc]
  · rw [p1, h2, strLen_append]

theorem Adv.length {a b : Cursor} (h : Adv a b) : b.rest.length ≤ a.rest.length := by
  obtain ⟨_, t1, r1, _⟩ := h
  rw [r1, List.length_append]; omega

theorem Adv.pos_le {a b : Cursor} (h : Adv a b) : a.pos ≤ b.pos := by
  obtain ⟨_, t1, _, p1⟩ := h
  omega

theorem adv_next {c : Cursor} {pos : Nat} {ch : Char} {c' : Cursor}
    (hn : c.next = some ((pos, ch), c')) :
    Adv c c' ∧ c.rest = ch :: c'.rest ∧ pos = c.pos ∧ c'.pos = c.pos + utf8Len ch := by
  obtain ⟨input, rest, p⟩ := c
  unfold next at hn
  cases rest with
  | nil => simp at hn
  | cons a r =>
    simp only [Option.some.injEq, Prod.mk.injEq] at hn
    obtain ⟨⟨rfl, rfl⟩, rfl⟩ := hn
    exact ⟨⟨rfl, [a], rfl, by simp⟩, rfl, rfl, rfl⟩

theorem adv_skip (c : Cursor) (p : Char → Bool) :
    Adv c ⟨c.input, (skipWhile p c.rest c.pos).1, (skipWhile p c.rest c.pos).2⟩ := by
  obtain ⟨taken, h3, h4⟩ := skipWhile_spec p c.rest c.pos
  exact ⟨rfl, taken, h3, h4⟩

theorem adv_eatWhitespace (c : Cursor) : Adv c c.eatWhitespace := adv_skip c isWs

theorem adv_takeWhile (c : Cursor) (p : Char → Bool) : Adv c (c.takeWhile p).2 := adv_skip c p

theorem adv_eatChar {c : Cursor} {tok : Char} {pos : Nat} {c' : Cursor}
    (hn : c.eatChar tok = some (pos, c')) :
    Adv c c' ∧ c'.rest.length + 1 = c.rest.length ∧ pos = c.pos := by
  obtain ⟨input, rest, p⟩ := c
  unfold eatChar at hn
  cases rest with
  | nil => simp at hn
  | cons a r =>
    simp only at hn
    by_cases hc : (a == tok) = true
    · simp only [hc, if_true, Option.some.injEq, Prod.mk.injEq] at hn
      obtain ⟨rfl, rfl⟩ := hn
      exact ⟨⟨rfl, [a], rfl, by simp⟩, by simp, rfl⟩
    · simp [hc] at hn

theorem next_length {c : Cursor} {pos : Nat} {ch : Char} {c' : Cursor}
    (hn : c.next = some ((pos, ch), c')) : c'.rest.length + 1 = c.rest.length := by
  have := (adv_next hn).2.1
  rw [this]; simp

theorem peek_none_next {c : Cursor} (hp : c.peek = none) : c.next = none := by
  unfold peek at hp
  unfold next
  cases h : c.rest with
  | nil => rfl
  | cons a r => simp [h] at hp

theorem next_none_rest {c : Cursor} (hn : c.next = none) : c.rest = [] := by
  unfold next at hn
  cases h : c.rest with
  | nil => rfl
  | cons a r => simp [h] at hn

theorem peekChar_next {c : Cursor} {ch : Char} (hp : c.peekChar = some ch) :
    ∃ c', c.next = some ((c.pos, ch), c') := by
  unfold peekChar at hp
  unfold next
  cases h : c.rest with
  | nil => simp [h] at hp
  | cons a r =>
    simp only [h, List.head?_cons, Option.some.injEq] at hp
    subst hp
    exact ⟨_, rfl⟩

theorem Inv.length_le {c : Cursor} (h : c.Inv) : c.rest.length ≤ c.input.length := by
  obtain ⟨pre, h1, _⟩ := h
  rw [h1, List.length_append]; omega

end Cursor

/-- outcome predicate relative to the cursor the parser started from: `ok` is an advanced cursor
(same input), `err` starts on a char boundary of the input, and there is no panic at all -/
def Res.Fwd {β : Type} (c : Cursor) (cur : β → Cursor) (r : Res β) : Prop :=
  match r with
  | .ok b => Adv c (cur b)
  | .err e => Boundary c.input e.start
  | .panic _ => False

@[simp] theorem Res.fwd_ok {β} (c cur) (b : β) : Res.Fwd c cur (.ok b) = Adv c (cur b) := rfl
@[simp] theorem Res.fwd_err {β} (c) (cur : β → Cursor) (e) :
    Res.Fwd c cur (.err e : Res β) = Boundary c.input e.start := rfl
@[simp] theorem Res.fwd_panic {β} (c) (cur : β → Cursor) (s) :
    Res.Fwd c cur (.panic s : Res β) = False := rfl
@[simp] theorem Res.fwd_serr {β} (c) (cur : β → Cursor) (s l : Nat) :
    Res.Fwd c cur (serr s l : Res β) = Boundary c.input s := rfl

theorem Res.Fwd.trans {β : Type} {c c1 : Cursor} {cur : β → Cursor} {r : Res β}
    (h1 : Adv c c1) (h : Res.Fwd c1 cur r) : Res.Fwd c cur r := by
  cases r with
  | ok b => exact h1.trans h
  | err e => have : Boundary c1.input e.start := h; rw [h1.input] at this; exact this
  | panic s => exact h

theorem Res.fwd_iff {β : Type} (c : Cursor) (cur : β → Cursor) (r : Res β) :
    Res.Fwd c cur r ↔
      (∀ b, r = .ok b → Adv c (cur b)) ∧
      (∀ e, r = .err e → Boundary c.input e.start) ∧
      (∀ s, r ≠ .panic s) := by
  cases r with
  | ok b => simp
  | err e => simp
  | panic s => simp

/-! ### boundaries -/

theorem strLen_eq_zero {s : List Char} (h : strLen s = 0) : s = [] := by
  cases s with
  | nil => rfl
  | cons a r => have := utf8Len_pos a; simp at h; omega

/-- two char boundaries delimit a slice -/
theorem Boundary.slice {input : List Char} {a b : Nat} (ha : Boundary input a) (hb : Boundary input b)
    (hab : a ≤ b) : ∃ s, sliceBytes input a (b - a) = some s := by
  obtain ⟨p1, r1, e1, rfl⟩ := ha
  obtain ⟨p2, r2, e2, rfl⟩ := hb
  rw [e1] at e2
  rcases List.append_eq_append_iff.1 e2 with ⟨a', h1, h2⟩ | ⟨c', h1, h2⟩
  · refine ⟨a', ?_⟩
    rw [e1, h2, h1, strLen_append, ← List.append_assoc]
    have : strLen p1 + strLen a' - strLen p1 = strLen a' := by omega
    rw [this]
    exact sliceBytes_append _ _ _
  · rw [h1, strLen_append] at hab
    have : c' = [] := strLen_eq_zero (by omega)
    subst this
    have hp : p1 = p2 := by simpa using h1
    subst hp
    refine ⟨[], ?_⟩
    rw [e1, Nat.sub_self]
    have := sliceBytes_append p1 [] r1
    simpa using this

theorem Cursor.at_spec {c : Cursor} {start : Nat} (hs : Boundary c.input start) :
    ∃ clone, c.at_ start = some clone ∧ clone.Inv ∧ clone.input = c.input ∧ clone.pos = start := by
  obtain ⟨pre, rest, e1, rfl⟩ := hs
  refine ⟨⟨c.input, rest, strLen pre⟩, ?_, ⟨pre, e1, rfl⟩, rfl, rfl⟩
  unfold Cursor.at_
  rw [e1, dropBytes_append]
  rfl

/-! ### `parse_name` -/

theorem looksLikeUnnamed_ok (env : ProcEnv) {c : Cursor} (h : c.Inv) :
    ∃ v p, looksLikeUnnamed env c = .ok (v, p) := by
  unfold looksLikeUnnamed
  cases htw : c.takeWhile (fun ch => !isWs ch) with
  | mk sl c1 =>
    obtain ⟨start, len⟩ := sl
    obtain ⟨_, _, _, taken, hs⟩ := takeWhile_cases h _ htw
    dsimp only
    rw [hs]
    exact ⟨_, _, rfl⟩

theorem unnamedOr_ok (env : ProcEnv) (c : Cursor) (at_ start : Nat) (other : PErr)
    (hs : Boundary c.input at_) :
    ∃ e, unnamedOr env c at_ start other = .ok e ∧ (e.start = start ∨ e = other) := by
  obtain ⟨clone, h1, h2, _, _⟩ := at_spec hs
  obtain ⟨v, p, h3⟩ := looksLikeUnnamed_ok env h2
  unfold unnamedOr
  rw [h1]
  dsimp only
  rw [h3]
  cases v with
  | true => exact ⟨_, rfl, .inl rfl⟩
  | false => exact ⟨_, rfl, .inr rfl⟩

theorem invalidName_fwd (env : ProcEnv) (c : Cursor) (start : Nat)
    (hs : Boundary c.input start) :
    Res.Fwd c Prod.snd (invalidName env c start) := by
  unfold invalidName
  obtain ⟨e, he, hcase⟩ := unnamedOr_ok env c start start ⟨.string, start, c.pos - start⟩ hs
  rw [he]
  dsimp only
  rw [Res.fwd_err]
  rcases hcase with h1 | h1
  · rw [h1]; exact hs
  · rw [h1]; exact hs

theorem parseNameLoop_fwd (env : ProcEnv) (fuel : Nat) (c : Cursor) (name : List Char) (start : Nat) (h : c.Inv)
    (hs : Boundary c.input start) (hf : c.rest.length < fuel) :
    Res.Fwd c Prod.snd (parseNameLoop env fuel c name start) := by
  induction fuel generalizing c name with
  | zero => omega
  | succ fuel ih =>
    unfold parseNameLoop
    cases hp : c.peek with
    | none =>
      dsimp only
      cases Names.validateOwned (bytesOfChars name) with
      | some n => exact Adv.refl c
      | none => exact invalidName_fwd env c start hs
    | some v =>
      obtain ⟨index, ch⟩ := v
      obtain ⟨c1, hn⟩ := peek_next hp
      dsimp only
      by_cases hnc : isNameChar ch = true
      · simp only [hnc, if_true]
        rw [hn]
        dsimp only
        obtain ⟨a1, _, hpos, _⟩ := adv_next hn
        have hl := next_length hn
        by_cases hend : (c1.peek.isNone && (ch == '.' || ch == '-' || ch == '_')) = true
        · simp only [hend, if_true]
          rw [Res.fwd_serr, hpos]
          exact h.boundary
        · simp only [hend]
          refine Res.Fwd.trans a1 (ih c1 _ (a1.inv h) ?_ ?_)
          · rw [a1.input]; exact hs
          · omega
      · simp only [hnc]
        cases Names.validateOwned (bytesOfChars name) with
        | some n => exact Adv.refl c
        | none => exact invalidName_fwd env c start hs

/-- A.1: `parse_name` never panics, an `ok` result is an advanced cursor on the same input, an error
starts on a char boundary -/
theorem parseName_fwd (env : ProcEnv) {c : Cursor} (h : c.Inv) :
    Res.Fwd c Prod.snd (parseName env c) := by
  unfold parseName
  cases hn : c.next with
  | none => exact Boundary.zero _
  | some v =>
    obtain ⟨⟨index, ch⟩, c1⟩ := v
    obtain ⟨a1, _, hpos, _⟩ := adv_next hn
    have hl := next_length hn
    dsimp only
    by_cases ha : isAsciiAlnum ch = true
    · simp only [ha, if_true]
      refine Res.Fwd.trans a1 (parseNameLoop_fwd env _ c1 _ _ (a1.inv h) ?_ ?_)
      · rw [a1.input]; exact h.boundary
      · omega
    · simp only [ha, Bool.false_eq_true, if_false]
      obtain ⟨e, he, hcase⟩ := unnamedOr_ok env c1 c.pos c.pos ⟨.string, index, utf8Len ch⟩
        (by rw [a1.input]; exact h.boundary)
      rw [he]
      dsimp only
      rw [Res.fwd_err]
      rcases hcase with h1 | h1
      · rw [h1]; exact h.boundary
      · rw [h1]; dsimp only; rw [hpos]; exact h.boundary

/-! ### `parse_extras_cursor` -/

/-- the comma-separator step of the extras loop -/
def extrasSep (c : Cursor) (first : Bool) : Res Cursor :=
  match c.peek, first with
  | some (pos, ','), true => serr pos 1
  | some (_, ','), false => (match c.next with | some (_, c1) => .ok c1 | none => .panic "unreachable")
  | some (pos, _), false => serr pos 1
  | _, _ => .ok c

theorem extrasSep_fwd {c : Cursor} (h : c.Inv) (first : Bool) : Res.Fwd c id (extrasSep c first) := by
  unfold extrasSep
  split
  · rename_i pos hp
    rw [Res.fwd_serr, peek_pos hp]; exact h.boundary
  · rename_i pos hp
    obtain ⟨c1, hn⟩ := peek_next hp
    rw [hn]
    exact (adv_next hn).1
  · rename_i pos ch _ hp
    rw [Res.fwd_serr, peek_pos hp]; exact h.boundary
  · exact Adv.refl c

theorem parseExtrasLoop_fwd (fuel : Nat) (c : Cursor) (bracketPos : Nat) (extras : List (List Nat))
    (first : Bool) (h : c.Inv) (hb : Boundary c.input bracketPos) (hf : c.rest.length < fuel) :
    Res.Fwd c Prod.snd (parseExtrasLoop fuel c bracketPos extras first) := by
  induction fuel generalizing c extras first with
  | zero => omega
  | succ fuel ih =>
    unfold parseExtrasLoop
    by_cases hclose : (c.peekChar == some ']') = true
    · simp only [hclose, if_true]
      obtain ⟨c1, hn⟩ := peekChar_next (eq_of_beq hclose)
      rw [hn]
      exact (adv_next hn).1
    · simp only [hclose, Bool.false_eq_true, if_false]
      have gsep := extrasSep_fwd h first
      change Res.Fwd c Prod.snd (match extrasSep c first with
        | .err e => .err e
        | .panic s => .panic s
        | .ok c1 => _)
      cases hsep : extrasSep c first with
      | err e => rw [hsep] at gsep; exact gsep
      | panic s => rw [hsep] at gsep; exact gsep
      | ok c1 =>
        rw [hsep] at gsep
        simp only [Res.fwd_ok, id] at gsep
        dsimp only
        have a2 : Adv c c1.eatWhitespace := gsep.trans (adv_eatWhitespace c1)
        have i2 := a2.inv h
        have l2 := a2.length
        generalize c1.eatWhitespace = c2 at a2 i2 l2
        refine Res.Fwd.trans a2 ?_
        cases hn : c2.next with
        | none =>
          dsimp only
          rw [Res.fwd_serr, a2.input]; exact hb
        | some v =>
          obtain ⟨⟨pos, ch⟩, c3⟩ := v
          obtain ⟨a3, _, hpos, _⟩ := adv_next hn
          have l3 := next_length hn
          have i3 := a3.inv i2
          dsimp only
          by_cases hal : isAsciiAlnum ch = true
          · simp only [hal, Bool.not_true, Bool.false_eq_true, if_false]
            cases htw : c3.takeWhile isNameChar with
            | mk sl c4 =>
              obtain ⟨start, len⟩ := sl
              obtain ⟨i4, e4, _, taken, hsl⟩ := takeWhile_cases i3 _ htw
              have a4 : Adv c3 c4 := by have := adv_takeWhile c3 isNameChar; rw [htw] at this; exact this
              dsimp only
              rw [hsl]
              simp only [Res.ofSlice]
              have a24 := a3.trans a4
              cases hp4 : c4.peek with
              | none =>
                dsimp only
                cases Names.validateOwned (bytesOfChars (ch :: taken)) with
                | none => dsimp only; rw [Res.fwd_serr]; exact i2.boundary
                | some n =>
                  dsimp only
                  have a5 := a24.trans (adv_eatWhitespace c4)
                  refine Res.Fwd.trans a5 (ih _ _ _ (a5.inv i2) ?_ ?_)
                  · rw [a5.input, a2.input]; exact hb
                  · have := (a4.trans (adv_eatWhitespace c4)).length; omega
              | some v4 =>
                obtain ⟨p, ch2⟩ := v4
                dsimp only
                by_cases hbad : (ch2 != ',' && ch2 != ']' && !isWs ch2) = true
                · simp only [hbad, if_true]
                  rw [Res.fwd_err]
                  dsimp only
                  rw [peek_pos hp4, ← a24.input]
                  exact (a24.inv i2).boundary
                · simp only [hbad, Bool.false_eq_true, if_false]
                  cases Names.validateOwned (bytesOfChars (ch :: taken)) with
                  | none => dsimp only; rw [Res.fwd_serr]; exact i2.boundary
                  | some n =>
                    dsimp only
                    have a5 := a24.trans (adv_eatWhitespace c4)
                    refine Res.Fwd.trans a5 (ih _ _ _ (a5.inv i2) ?_ ?_)
                    · rw [a5.input, a2.input]; exact hb
                    · have := (a4.trans (adv_eatWhitespace c4)).length; omega
          · simp only [hal, Bool.not_false, if_true]
            rw [Res.fwd_serr, hpos]; exact i2.boundary

/-- A.2: `parse_extras_cursor` never panics, `ok` is an advanced cursor, errors start on a boundary -/
theorem parseExtras_fwd {c : Cursor} (h : c.Inv) : Res.Fwd c Prod.snd (parseExtras c) := by
  unfold parseExtras
  cases he : c.eatChar '[' with
  | none => exact Adv.refl c
  | some v =>
    obtain ⟨bracketPos, c1⟩ := v
    obtain ⟨a1, l1, hpos⟩ := adv_eatChar he
    dsimp only
    have a2 := a1.trans (adv_eatWhitespace c1)
    refine Res.Fwd.trans a2 (parseExtrasLoop_fwd _ _ _ _ _ (a2.inv h) ?_ ?_)
    · rw [a2.input, hpos]; exact h.boundary
    · have := (adv_eatWhitespace c1).length; omega

/-! ### `parse_url` -/

theorem newline_isWs {ch : Char} (h : (ch == '\r' || ch == '\n') = true) : isWs ch = true := by
  simp only [Bool.or_eq_true, beq_iff_eq] at h
  rcases h with rfl | rfl <;> decide

theorem peekChar_of_rest {c : Cursor} {w : Char} {r : List Char} (h : c.rest = w :: r) :
    c.peekChar = some w := by
  unfold peekChar; rw [h]; rfl

/-- what the URL scan returns, relative to the cursor `c` and length `len` it was started with:
* `inl (len', c')`: a prefix `taken` of the rest was measured (`len' = len + strLen taken`) and either
  the cursor sits right after it (and, with enough fuel, at the end of input), or exactly one more
  whitespace char `w` was consumed and `taken` does not end with `;` / `#`;
* `inr (p, l)`: `p` is the position right after a prefix of the rest (a char boundary). -/
def UrlScanOK (fuel : Nat) (c : Cursor) (len : Nat) : (Nat × Cursor) ⊕ (Nat × Nat) → Prop
  | .inl (len', c') => ∃ taken r, c.rest = taken ++ r ∧ len' = len + strLen taken ∧ c'.input = c.input ∧
      ((c'.rest = r ∧ c'.pos = c.pos + strLen taken ∧ (c.rest.length < fuel → r = [])) ∨
       (∃ w, isWs w = true ∧ r = w :: c'.rest ∧ c'.pos = c.pos + strLen taken + utf8Len w ∧
          taken.getLast? ≠ some ';' ∧ taken.getLast? ≠ some '#'))
  | .inr (p, _) => ∃ taken r, c.rest = taken ++ r ∧ p = c.pos + strLen taken

/-- the "whitespace followed by `;`, `#` or end of input" stop test -/
def urlStopWs (ch : Char) (c1 : Cursor) : Bool :=
  isWs ch && (match c1.eatWhitespace.peekChar with
    | none => true
    | some n => n == ';' || n == '#')

/-- the "`;` / `#` glued to the URL and followed by whitespace" ambiguity test -/
def urlGlued (ch : Char) (c1 : Cursor) : Bool :=
  (ch == ';' || ch == '#') && (match c1.peekChar with | some n => isWs n | none => false)

theorem urlScan_succ (fuel : Nat) (c : Cursor) (len : Nat) :
    urlScan (fuel + 1) c len =
      match c.next with
      | none => .inl (len, c)
      | some ((_, ch), c1) =>
        if ch == '\r' || ch == '\n' then .inl (len, c1)
        else if urlStopWs ch c1 then .inl (len, c1)
        else if urlGlued ch c1 then .inr (c1.pos - utf8Len ch, utf8Len ch)
        else urlScan fuel c1 (len + utf8Len ch) := by
  rfl

theorem urlScan_ok (fuel : Nat) (c : Cursor) (len : Nat) : UrlScanOK fuel c len (urlScan fuel c len) := by
  induction fuel generalizing c len with
  | zero =>
    unfold urlScan
    exact ⟨[], c.rest, rfl, rfl, rfl, .inl ⟨rfl, rfl, fun h => by omega⟩⟩
  | succ fuel ih =>
    rw [urlScan_succ]
    cases hn : c.next with
    | none =>
      exact ⟨[], c.rest, rfl, rfl, rfl, .inl ⟨rfl, rfl, fun _ => next_none_rest hn⟩⟩
    | some v =>
      obtain ⟨⟨pos, ch⟩, c1⟩ := v
      obtain ⟨a1, hr, _, hp1⟩ := adv_next hn
      dsimp only
      by_cases hnl : (ch == '\r' || ch == '\n') = true
      · simp only [hnl, if_true]
        exact ⟨[], c.rest, rfl, rfl, a1.input, .inr ⟨ch, newline_isWs hnl, hr, by simpa using hp1,
          by simp, by simp⟩⟩
      · simp only [hnl, Bool.false_eq_true, if_false]
        by_cases hws : urlStopWs ch c1 = true
        · simp only [hws, if_true]
          have : isWs ch = true := by
            simp only [urlStopWs, Bool.and_eq_true] at hws; exact hws.1
          exact ⟨[], c.rest, rfl, rfl, a1.input, .inr ⟨ch, this, hr, by simpa using hp1,
            by simp, by simp⟩⟩
        · simp only [hws, Bool.false_eq_true, if_false]
          by_cases hgl : urlGlued ch c1 = true
          · simp only [hgl, if_true]
            exact ⟨[], c.rest, rfl, by simp; omega⟩
          · simp only [hgl, Bool.false_eq_true, if_false]
            have g := ih c1 (len + utf8Len ch)
            cases hres : urlScan fuel c1 (len + utf8Len ch) with
            | inl v =>
              obtain ⟨len', c'⟩ := v
              rw [hres] at g
              obtain ⟨taken, r, h1, h2, h3, h4⟩ := g
              refine ⟨ch :: taken, r, by rw [hr, h1]; rfl, by rw [h2, strLen_cons]; omega,
                h3.trans a1.input, ?_⟩
              rcases h4 with ⟨h5, h6, h7⟩ | ⟨w, hw, h5, h6, h7, h8⟩
              · refine .inl ⟨h5, by rw [h6, hp1, strLen_cons]; omega, fun hf => h7 ?_⟩
                rw [hr] at hf; simp at hf; omega
              · refine .inr ⟨w, hw, h5, by rw [h6, hp1, strLen_cons]; omega, ?_⟩
                cases taken with
                | nil =>
                  have hpk : c1.peekChar = some w := peekChar_of_rest (by rw [h1, h5]; rfl)
                  simp only [urlGlued, hpk, hw, Bool.and_true, Bool.or_eq_true, beq_iff_eq, not_or] at hgl
                  simp only [List.getLast?_singleton, ne_eq, Option.some.injEq]
                  exact hgl
                | cons b t =>
                  rw [List.getLast?_cons_cons]
                  exact ⟨h7, h8⟩
            | inr v =>
              obtain ⟨p, l⟩ := v
              rw [hres] at g
              obtain ⟨taken, r, h1, h2⟩ := g
              exact ⟨ch :: taken, r, by rw [hr, h1]; rfl, by rw [h2, hp1, strLen_cons]; omega⟩

/-- A.3: `parse_url` never panics; the `(url, start, len)` it hands to the URL parser is exactly the
slice `input[start .. start+len]` (non-empty), the cursor only advances; moreover either the cursor is
at the end of the input right after the slice, or the URL text does not end with `;` / `#` and
exactly one whitespace char `w` following the slice was consumed. Errors start on a char boundary
(this includes the "ambiguous URL end" error at the position of the `;` / `#`). -/
def ParseUrlOK (c : Cursor) : Res ((List Char × Nat × Nat) × Cursor) → Prop
  | .ok ((url, s, l), c') => Adv c c' ∧ sliceBytes c.input s l = some url ∧ Boundary c.input s ∧
      url ≠ [] ∧
      ((c'.rest = [] ∧ c'.pos = s + l) ∨
       (url.getLast? ≠ some ';' ∧ url.getLast? ≠ some '#' ∧
         ∃ w, isWs w = true ∧ sliceBytes c.input (s + l) (utf8Len w) = some [w] ∧
           c'.pos = s + l + utf8Len w))
  | .err e => Boundary c.input e.start
  | .panic _ => False

theorem parseUrl_ok {c : Cursor} (h : c.Inv) : ParseUrlOK c (parseUrl c) := by
  unfold parseUrl
  have a0 := adv_eatWhitespace c
  have i0 := a0.inv h
  generalize c.eatWhitespace = c0 at a0 i0
  dsimp only
  have g := urlScan_ok (c0.rest.length + 1) c0 0
  cases hres : urlScan (c0.rest.length + 1) c0 0 with
  | inr v =>
    obtain ⟨p, l⟩ := v
    rw [hres] at g
    obtain ⟨taken, r, h1, h2⟩ := g
    show Boundary c.input p
    obtain ⟨pre, e1, e2⟩ := i0
    rw [← a0.input]
    exact ⟨pre ++ taken, r, by rw [e1, h1, List.append_assoc], by rw [h2, e2, strLen_append]⟩
  | inl v =>
    obtain ⟨len, c1⟩ := v
    rw [hres] at g
    obtain ⟨taken, r, h1, h2, h3, h4⟩ := g
    obtain ⟨pre, e1, e2⟩ := i0
    have hin : c0.input = pre ++ taken ++ r := by rw [e1, h1, List.append_assoc]
    have hlen : len = strLen taken := by omega
    have hsl : c1.slice c0.pos len = some taken := by
      unfold Cursor.slice
      rw [h3, hin, e2, hlen]
      exact sliceBytes_append _ _ _
    dsimp only
    rw [hsl]
    simp only [Res.ofSlice]
    by_cases hemp : taken.isEmpty = true
    · simp only [hemp, if_true]
      show Boundary c.input c0.pos
      rw [← a0.input]
      exact ⟨pre, c0.rest, e1, e2⟩
    · simp only [hemp, Bool.false_eq_true, if_false]
      have hb : Boundary c.input c0.pos := by rw [← a0.input]; exact ⟨pre, c0.rest, e1, e2⟩
      have hsb : sliceBytes c.input c0.pos len = some taken := by
        rw [← a0.input, hin, e2, hlen]; exact sliceBytes_append _ _ _
      have hne : taken ≠ [] := by intro h0; rw [h0] at hemp; simp at hemp
      rcases h4 with ⟨h5, h6, h7⟩ | ⟨w, hw, h5, h6, h7, h8⟩
      · have hr : r = [] := h7 (by omega)
        refine ⟨a0.trans ⟨h3, taken, by rw [h1, h5], h6⟩, hsb, hb, hne, .inl ⟨by rw [h5, hr], by omega⟩⟩
      · refine ⟨a0.trans ⟨h3, taken ++ [w], by rw [h1, h5]; simp, by rw [h6, strLen_append]; simp; omega⟩,
          hsb, hb, hne, .inr ⟨h7, h8, w, hw, ?_, by omega⟩⟩
        rw [← a0.input, hin, h5, e2, hlen, ← strLen_append]
        have := sliceBytes_append (pre ++ taken) [w] c1.rest
        simpa [List.append_assoc] using this

theorem parseUrl_fwd {c : Cursor} (h : c.Inv) : Res.Fwd c Prod.snd (parseUrl c) := by
  have g := parseUrl_ok h
  cases hr : parseUrl c with
  | ok v => obtain ⟨⟨url, s, l⟩, c'⟩ := v; rw [hr] at g; exact g.1
  | err e => rw [hr] at g; exact g
  | panic s => rw [hr] at g; exact g

/-! ### version specifier scans -/

/-- a recorded external call has a span starting on a char boundary, and its text is exactly the
slice `input[s .. s+l]` -/
def ExtCall.OK (input : List Char) : ExtCall → Prop
  | .spec t s l => Boundary input s ∧ sliceBytes input s l = some t
  | .url t s l => Boundary input s ∧ sliceBytes input s l = some t

def CallsOK (input : List Char) (calls : List ExtCall) : Prop :=
  ∀ call ∈ calls, call.OK input

theorem CallsOK.nil (input : List Char) : CallsOK input [] := by
  intro call h; simp at h

theorem CallsOK.snoc {input : List Char} {calls : List ExtCall} (h : CallsOK input calls)
    {call : ExtCall} (hs : call.OK input) : CallsOK input (calls ++ [call]) := by
  intro call' hm
  simp only [List.mem_append, List.mem_singleton] at hm
  rcases hm with hm | rfl
  · exact h _ hm
  · exact hs

/-- the specifier buffer is the text between `start` and the cursor -/
def BufOK (c : Cursor) (start : Nat) (buffer : List Char) : Prop :=
  ∃ pre, c.input = pre ++ buffer ++ c.rest ∧ start = strLen pre ∧ c.pos = start + strLen buffer

theorem BufOK.of_inv {c : Cursor} (h : c.Inv) : BufOK c c.pos [] := by
  obtain ⟨pre, h1, h2⟩ := h
  exact ⟨pre, by simpa using h1, h2, by simp⟩

theorem BufOK.inv {c : Cursor} {start : Nat} {buffer : List Char} (h : BufOK c start buffer) : c.Inv := by
  obtain ⟨pre, h1, h2, h3⟩ := h
  exact ⟨pre ++ buffer, h1, by rw [h3, h2, strLen_append]⟩

theorem BufOK.slice {c : Cursor} {start : Nat} {buffer : List Char} (h : BufOK c start buffer) :
    Boundary c.input start ∧ sliceBytes c.input start (c.pos - start) = some buffer := by
  obtain ⟨pre, h1, h2, h3⟩ := h
  refine ⟨⟨pre, buffer ++ c.rest, by rw [h1, List.append_assoc], h2⟩, ?_⟩
  have : c.pos - start = strLen buffer := by omega
  rw [this, h1, h2]
  exact sliceBytes_append _ _ _

theorem BufOK.push {c : Cursor} {start : Nat} {buffer : List Char} (h : BufOK c start buffer)
    {p : Nat} {ch : Char} {c1 : Cursor} (hn : c.next = some ((p, ch), c1)) :
    BufOK c1 start (buffer ++ [ch]) := by
  obtain ⟨pre, h1, h2, h3⟩ := h
  obtain ⟨a1, hr, _, hp⟩ := adv_next hn
  refine ⟨pre, ?_, h2, ?_⟩
  · rw [a1.input, h1, hr]; simp
  · rw [hp, h3, strLen_append]; simp; omega

theorem utf8Len_comma : utf8Len ',' = 1 := by decide

theorem specsBare_fwd (fuel : Nat) (c : Cursor) (start : Nat) (buffer : List Char) (acc : List ExtCall)
    (hb : BufOK c start buffer) (hacc : CallsOK c.input acc) (hf : c.rest.length < fuel) :
    CallsOK c.input (specsBare fuel c start buffer acc).1 ∧
      Res.Fwd c id (specsBare fuel c start buffer acc).2 := by
  fun_induction specsBare fuel c start buffer acc
  case case1 => omega
  case case2 fuel c start buffer acc end_ hp v c1 hn ih =>
    obtain ⟨p, ch⟩ := v
    obtain ⟨c1', hn'⟩ := peek_next hp
    rw [hn] at hn'
    simp only [Option.some.injEq, Prod.mk.injEq] at hn'
    obtain ⟨⟨rfl, rfl⟩, rfl⟩ := hn'
    obtain ⟨a1, _, hpos, hp1⟩ := adv_next hn
    have hl := next_length hn
    have i1 := a1.inv hb.inv
    rw [utf8Len_comma] at hp1
    have := ih (by rw [hpos, ← hp1]; exact BufOK.of_inv i1)
      (by rw [a1.input]; exact hacc.snoc (by rw [hpos]; exact hb.slice)) (by omega)
    rw [a1.input] at this
    exact ⟨this.1, Res.Fwd.trans a1 this.2⟩
  case case3 fuel c start buffer acc end_ hp hn =>
    obtain ⟨c1', hn'⟩ := peek_next hp
    rw [hn] at hn'; simp at hn'
  case case4 fuel c start buffer acc p hp =>
    exact ⟨hacc.snoc hb.slice, Adv.refl c⟩
  case case5 fuel c start buffer acc hp =>
    exact ⟨hacc.snoc hb.slice, Adv.refl c⟩
  case case6 fuel c start buffer acc p ch _ _ hp v c1 hn ih =>
    obtain ⟨p', ch'⟩ := v
    obtain ⟨c1', hn'⟩ := peek_next hp
    rw [hn] at hn'
    simp only [Option.some.injEq, Prod.mk.injEq] at hn'
    obtain ⟨⟨rfl, rfl⟩, rfl⟩ := hn'
    obtain ⟨a1, _, _, _⟩ := adv_next hn
    have hl := next_length hn
    have := ih (hb.push hn) (by rw [a1.input]; exact hacc) (by omega)
    rw [a1.input] at this
    exact ⟨this.1, Res.Fwd.trans a1 this.2⟩
  case case7 fuel c start buffer acc p ch _ _ hp hn =>
    obtain ⟨c1', hn'⟩ := peek_next hp
    rw [hn] at hn'; simp at hn'

theorem specsParen_fwd (fuel : Nat) (c : Cursor) (bracePos start : Nat) (buffer : List Char)
    (acc : List ExtCall)
    (hb : BufOK c start buffer) (hbr : Boundary c.input bracePos) (hacc : CallsOK c.input acc)
    (hf : c.rest.length < fuel) :
    CallsOK c.input (specsParen fuel c bracePos start buffer acc).1 ∧
      Res.Fwd c id (specsParen fuel c bracePos start buffer acc).2 := by
  fun_induction specsParen fuel c bracePos start buffer acc
  case case1 => omega
  case case2 fuel c bracePos start buffer acc end_ c1 hn ih =>
    obtain ⟨a1, _, hpos, hp1⟩ := adv_next hn
    have hl := next_length hn
    have i1 := a1.inv hb.inv
    rw [utf8Len_comma] at hp1
    have := ih (by rw [hpos, ← hp1]; exact BufOK.of_inv i1) (by rw [a1.input]; exact hbr)
      (by rw [a1.input]; exact hacc.snoc (by rw [hpos]; exact hb.slice)) (by omega)
    rw [a1.input] at this
    exact ⟨this.1, Res.Fwd.trans a1 this.2⟩
  case case3 fuel c bracePos start buffer acc end_ c1 hn =>
    obtain ⟨a1, _, hpos, _⟩ := adv_next hn
    exact ⟨hacc.snoc (by rw [hpos]; exact hb.slice), a1⟩
  case case4 fuel c bracePos start buffer acc p ch c1 _ _ hn ih =>
    obtain ⟨a1, _, _, _⟩ := adv_next hn
    have hl := next_length hn
    have := ih (hb.push hn) (by rw [a1.input]; exact hbr) (by rw [a1.input]; exact hacc) (by omega)
    rw [a1.input] at this
    exact ⟨this.1, Res.Fwd.trans a1 this.2⟩
  case case5 fuel c bracePos start buffer acc hn =>
    exact ⟨hacc, hbr⟩

/-! ### `parse_pep508_requirement`, cut into stages -/

/-- the `( url_req | name_req )?` stage -/
def kindStage (env : ProcEnv) (nameStart start : Nat) (c : Cursor) : List ExtCall × Res (ReqKind × Cursor) :=
  match c.peekChar with
  | some '@' =>
    (match c.next with
     | none => ([], .panic "unreachable")
     | some (_, c1) =>
       match parseUrl c1 with
       | .ok ((url, s, l), c2) => ([.url url s l], .ok (.url url, c2))
       | .err e => ([], .err e)
       | .panic s => ([], .panic s))
  | some '(' =>
    (match c.next with
     | none => ([], .panic "unreachable")
     | some (_, c1) =>
       let c2 := c1.eatWhitespace
       match specsParen (c.rest.length + 2) c2 c.pos c2.pos [] [] with
       | (calls, .ok c3) => (calls, .ok (.specs (specTexts calls), c3))
       | (calls, .err e) => (calls, .err e)
       | (calls, .panic s) => (calls, .panic s))
  | some ';' => ([], .ok (.none, c))
  | none => ([], .ok (.none, c))
  | some other =>
    if other == '<' || other == '=' || other == '>' || other == '~' || other == '!' then
      match specsBare (c.rest.length + 2) c c.pos [] [] with
      | (calls, .ok c3) => (calls, .ok (.specs (specTexts calls), c3))
      | (calls, .err e) => (calls, .err e)
      | (calls, .panic s) => (calls, .panic s)
    else
      match unnamedOr env c nameStart start ⟨.string, c.pos, utf8Len other⟩ with
      | .ok e => ([], .err e)
      | .err e => ([], .err e)
      | .panic s => ([], .panic s)

/-- the `quoted_marker?` stage -/
def markerStage (x : Ext) (input : List Char) (c : Cursor) : Res (Option MTree × List WarnKind × Cursor) :=
  if c.peekChar == some ';' then
    match c.next with
    | none => .panic "unreachable"
    | some (_, c1) =>
      match parseMarkersCursor x (4 * input.length + 16) c1 with
      | .ok st => .ok (st.tree, st.warns, st.cur)
      | .err e => .err e
      | .panic s => .panic s
  else .ok (none, [], c)

def ReqKind.isNone : ReqKind → Bool
  | .none => true
  | _ => false

def ReqKind.isUrl : ReqKind → Bool
  | .url _ => true
  | _ => false

/-- everything after the requirement kind -/
def tailStage (x : Ext) (input : List Char) (start nameStart nameEnd : Nat) (name : List Nat)
    (extras : List (List Nat)) (kindRes : List ExtCall × Res (ReqKind × Cursor)) : ReqOut :=
  match kindRes with
  | (calls, .err e) => ⟨calls, .err e⟩
  | (calls, .panic s) => ⟨calls, .panic s⟩
  | (calls, .ok (kind, c)) =>
    let nameSlice := c.slice nameStart (nameEnd - nameStart)
    match nameSlice with
    | none => ⟨calls, .panic "slice"⟩
    | some ns =>
      if kind.isNone && looksLikeArchive ns then ⟨calls, .err ⟨.unsupported, start, 0⟩⟩
      else
        let c := c.eatWhitespace
        match markerStage x input c with
        | .err e => ⟨calls, .err e⟩
        | .panic s => ⟨calls, .panic s⟩
        | .ok (marker, warns, c) =>
          let c := c.eatWhitespace
          match c.next with
          | some ((pos, ch), _) =>
            let other : PErr := ⟨.string, pos, utf8Len ch⟩
            if kind.isUrl then
              let urlEnd := match calls.getLast? with
                | some (.url _ s l) => s + l
                | _ => pos
              ⟨calls, .urlEnds [(';', ⟨.string, urlEnd - 1, 1⟩), ('#', ⟨.string, urlEnd - 1, 1⟩)] other⟩
            else ⟨calls, .err other⟩
          | none =>
            let r : ReqOk := ⟨name, extras, kind, marker.getD (.leaf true), warns⟩
            if marker.isSome && kind.isUrl then
              let urlEnd := match calls.getLast? with
                | some (.url _ s l) => s + l
                | _ => c.pos
              ⟨calls, .urlEndsOk [(';', ⟨.string, urlEnd - 1, 1⟩), ('#', ⟨.string, urlEnd - 1, 1⟩)] r⟩
            else ⟨calls, .ok r⟩

theorem parseRequirement_eq (env : ProcEnv) (x : Ext) (input : List Char) :
    parseRequirement env x input =
      match parseName env (Cursor.new input).eatWhitespace with
      | .err e => ⟨[], .err e⟩
      | .panic s => ⟨[], .panic s⟩
      | .ok (name, c1) =>
        match parseExtras c1.eatWhitespace with
        | .err e => ⟨[], .err e⟩
        | .panic s => ⟨[], .panic s⟩
        | .ok (extras, c2) =>
          tailStage x input 0 (Cursor.new input).eatWhitespace.pos c1.pos name extras
            (kindStage env (Cursor.new input).eatWhitespace.pos 0 c2.eatWhitespace) := by
  rfl

/-- outcome of the kind stage relative to the cursor it starts from -/
def KindOK (c : Cursor) (r : List ExtCall × Res (ReqKind × Cursor)) : Prop :=
  CallsOK c.input r.1 ∧
  match r.2 with
  | .ok (kind, c') => Adv c c' ∧
      ∀ t, kind = .url t → ∃ s l, r.1 = [.url t s l] ∧ t ≠ [] ∧
        (c'.rest = [] ∨
         (t.getLast? ≠ some ';' ∧ t.getLast? ≠ some '#' ∧
           ∃ w, isWs w = true ∧ sliceBytes c.input (s + l) (utf8Len w) = some [w] ∧
             c'.pos = s + l + utf8Len w))
  | .err e => Boundary c.input e.start
  | .panic _ => False

theorem kindStage_ok (env : ProcEnv) {nameStart start : Nat} {c : Cursor} (h : c.Inv)
    (hn : Boundary c.input nameStart) (hs : Boundary c.input start) :
    KindOK c (kindStage env nameStart start c) := by
  unfold kindStage
  split
  · rename_i hp
    obtain ⟨c1, hn⟩ := peekChar_next hp
    obtain ⟨a1, _, _, _⟩ := adv_next hn
    rw [hn]
    dsimp only
    have g := parseUrl_ok (a1.inv h)
    cases hr : parseUrl c1 with
    | ok v =>
      obtain ⟨⟨url, s, l⟩, c2⟩ := v
      rw [hr] at g
      obtain ⟨g1, g2, g3, g4, g5⟩ := g
      rw [a1.input] at g2 g3 g5
      refine ⟨?_, a1.trans g1, ?_⟩
      · intro call hm
        simp only [List.mem_singleton] at hm
        subst hm
        exact ⟨g3, g2⟩
      · intro t ht
        simp only [ReqKind.url.injEq] at ht
        subst ht
        refine ⟨s, l, rfl, g4, ?_⟩
        rcases g5 with ⟨h1, _⟩ | h1
        · exact .inl h1
        · exact .inr h1
    | err e =>
      rw [hr] at g
      refine ⟨CallsOK.nil _, ?_⟩
      have : Boundary c1.input e.start := g
      rw [a1.input] at this
      exact this
    | panic s => rw [hr] at g; exact g.elim
  · rename_i hp
    obtain ⟨c1, hn⟩ := peekChar_next hp
    obtain ⟨a1, _, _, _⟩ := adv_next hn
    have hl := next_length hn
    rw [hn]
    dsimp only
    have a2 := a1.trans (adv_eatWhitespace c1)
    have i2 := a2.inv h
    have l2 := (adv_eatWhitespace c1).length
    generalize c1.eatWhitespace = c2 at a2 i2 l2
    have g := specsParen_fwd (c.rest.length + 2) c2 c.pos c2.pos [] [] (BufOK.of_inv i2)
      (by rw [a2.input]; exact h.boundary) (CallsOK.nil _) (by omega)
    rw [a2.input] at g
    cases hr : specsParen (c.rest.length + 2) c2 c.pos c2.pos [] [] with
    | mk calls res =>
      rw [hr] at g
      cases res with
      | ok c3 => exact ⟨g.1, a2.trans g.2, fun t ht => by simp at ht⟩
      | err e => exact ⟨g.1, by have : Boundary c2.input e.start := g.2; rw [a2.input] at this; exact this⟩
      | panic s => exact g.2.elim
  · exact ⟨CallsOK.nil _, Adv.refl c, fun t ht => by simp at ht⟩
  · exact ⟨CallsOK.nil _, Adv.refl c, fun t ht => by simp at ht⟩
  · rename_i other _ _ _ hp
    split
    · have g := specsBare_fwd (c.rest.length + 2) c c.pos [] [] (BufOK.of_inv h) (CallsOK.nil _) (by omega)
      cases hr : specsBare (c.rest.length + 2) c c.pos [] [] with
      | mk calls res =>
        rw [hr] at g
        cases res with
        | ok c3 => exact ⟨g.1, g.2, fun t ht => by simp at ht⟩
        | err e => exact ⟨g.1, g.2⟩
        | panic s => exact g.2.elim
    · obtain ⟨e, he, hcase⟩ := unnamedOr_ok env c nameStart start ⟨.string, c.pos, utf8Len other⟩ hn
      rw [he]
      refine ⟨CallsOK.nil _, ?_⟩
      show Boundary c.input e.start
      rcases hcase with h1 | h1
      · rw [h1]; exact hs
      · rw [h1]; exact h.boundary

theorem markerStage_ok (x : Ext) {input : List Char} {c : Cursor} (h : c.Inv) (hin : c.input = input) :
    match markerStage x input c with
    | .ok (_, _, c') => c'.Inv ∧ c'.input = input ∧ (c.rest = [] → c'.rest = [])
    | .err e => Boundary input e.start
    | .panic _ => False := by
  unfold markerStage
  by_cases hp : (c.peekChar == some ';') = true
  · simp only [hp, if_true]
    obtain ⟨c1, hn⟩ := peekChar_next (eq_of_beq hp)
    obtain ⟨a1, hr, _, _⟩ := adv_next hn
    have i1 := a1.inv h
    rw [hn]
    dsimp only
    have g := parseMarkersCursor_good x (4 * input.length + 16) i1
    have f := parseMarkersCursor_never_panics x (4 * input.length + 16) i1 (by
      have := i1.length_le
      rw [a1.input, hin] at this
      omega)
    rw [a1.input, hin] at g
    cases hres : parseMarkersCursor x (4 * input.length + 16) c1 with
    | ok st =>
      rw [hres] at g
      exact ⟨g.1, g.2, fun h0 => by rw [h0] at hr; simp at hr⟩
    | err e => rw [hres] at g; exact g
    | panic s => exact f s hres
  · simp only [hp, Bool.false_eq_true, if_false]
    exact ⟨h, hin, id⟩

theorem rest_nil_eatWhitespace {c : Cursor} (h : c.rest = []) : c.eatWhitespace.rest = [] := by
  have := (adv_eatWhitespace c).length
  rw [h] at this
  exact List.eq_nil_of_length_eq_zero (by simpa using this)

theorem rest_nil_next {c : Cursor} (h : c.rest = []) : c.next = none := by
  unfold next; rw [h]

/-- what is established about an outcome of `parseRequirement` -/
def ReqOut.Good (input : List Char) (o : ReqOut) : Prop :=
  CallsOK input o.calls ∧
  match o.fin with
  | .ok _ => True
  | .err e => Boundary input e.start
  | .panic _ => False
  | .urlEnds alts other => Boundary input other.start ∧
      ∃ t s l w, o.calls = [.url t s l] ∧ t ≠ [] ∧ t.getLast? ≠ some ';' ∧ t.getLast? ≠ some '#' ∧
        isWs w = true ∧ sliceBytes input (s + l) (utf8Len w) = some [w] ∧
        ∀ ch e, (ch, e) ∈ alts → (ch = ';' ∨ ch = '#') ∧ e.start = s + l - 1
  | .urlEndsOk alts _ =>
      ∃ t s l w, o.calls = [.url t s l] ∧ t ≠ [] ∧ t.getLast? ≠ some ';' ∧ t.getLast? ≠ some '#' ∧
        isWs w = true ∧ sliceBytes input (s + l) (utf8Len w) = some [w] ∧
        ∀ ch e, (ch, e) ∈ alts → (ch = ';' ∨ ch = '#') ∧ e.start = s + l - 1

/-- a marker was parsed only if a `;` was there -/
theorem markerStage_some_rest (x : Ext) (input : List Char) (c : Cursor) (m : MTree)
    (w : List WarnKind) (c' : Cursor) (h : markerStage x input c = .ok (some m, w, c')) : c.rest ≠ [] := by
  intro h0
  unfold markerStage at h
  have : c.peekChar = none := by unfold Cursor.peekChar; rw [h0]; rfl
  rw [this] at h
  simp at h

theorem tailStage_good (x : Ext) (input : List Char) (start nameStart nameEnd : Nat) (name : List Nat)
    (extras : List (List Nat)) (c : Cursor) (r : List ExtCall × Res (ReqKind × Cursor))
    (hc : c.Inv) (hin : c.input = input) (hk : KindOK c r) (hs : Boundary input start)
    (h1 : Boundary input nameStart) (h2 : Boundary input nameEnd) (h3 : nameStart ≤ nameEnd) :
    (tailStage x input start nameStart nameEnd name extras r).Good input := by
  obtain ⟨calls, res⟩ := r
  obtain ⟨hcalls, hres⟩ := hk
  rw [hin] at hcalls
  dsimp only at hcalls hres
  unfold tailStage
  cases res with
  | err e => exact ⟨hcalls, by rw [← hin]; exact hres⟩
  | panic s => exact hres.elim
  | ok v =>
    obtain ⟨kind, c'⟩ := v
    obtain ⟨a', hurl⟩ := hres
    have i' := a'.inv hc
    have in' : c'.input = input := a'.input.trans hin
    obtain ⟨ns, hns⟩ := Boundary.slice h1 h2 h3
    have hsl : c'.slice nameStart (nameEnd - nameStart) = some ns := by
      unfold Cursor.slice; rw [in']; exact hns
    dsimp only
    rw [hsl]
    dsimp only
    by_cases harch : (kind.isNone && looksLikeArchive ns) = true
    · simp only [harch, if_true]
      exact ⟨hcalls, hs⟩
    · simp only [harch, Bool.false_eq_true, if_false]
      have g := markerStage_ok x (inv_eatWhitespace i') ((eatWhitespace_input c').trans in')
      cases hm : markerStage x input c'.eatWhitespace with
      | err e => rw [hm] at g; exact ⟨hcalls, g⟩
      | panic s => rw [hm] at g; exact g.elim
      | ok v =>
        obtain ⟨marker, warns, c2⟩ := v
        rw [hm] at g
        obtain ⟨i2, in2, hnil⟩ := g
        dsimp only
        have i3 := inv_eatWhitespace i2
        have hurlfacts : ∀ t, kind = .url t → c'.rest ≠ [] →
            ∃ t s l w, calls = [.url t s l] ∧ t ≠ [] ∧ t.getLast? ≠ some ';' ∧ t.getLast? ≠ some '#' ∧
              isWs w = true ∧ sliceBytes input (s + l) (utf8Len w) = some [w] ∧
              ∀ ch e, (ch, e) ∈ [(';', (⟨.string, (match calls.getLast? with
                    | some (.url _ s l) => s + l
                    | _ => 0) - 1, 1⟩ : PErr)), ('#', ⟨.string, (match calls.getLast? with
                    | some (.url _ s l) => s + l
                    | _ => 0) - 1, 1⟩)] → (ch = ';' ∨ ch = '#') ∧ e.start = s + l - 1 := by
          intro t ht hne
          obtain ⟨s, l, hc1, hte, hc2⟩ := hurl t ht
          rcases hc2 with h0 | ⟨g1, g2, w, g3, g4, g5⟩
          · exact absurd h0 hne
          · rw [hin] at g4
            refine ⟨t, s, l, w, hc1, hte, g1, g2, g3, g4, ?_⟩
            intro ch e hm
            subst hc1
            simp only [List.mem_cons, Prod.mk.injEq, List.mem_nil_iff, or_false] at hm
            rcases hm with ⟨rfl, rfl⟩ | ⟨rfl, rfl⟩ <;> simp
        cases hn : c2.eatWhitespace.next with
        | none =>
          dsimp only
          by_cases hcond : (marker.isSome && kind.isUrl) = true
          · simp only [hcond, if_true]
            refine ⟨hcalls, ?_⟩
            cases kind with
            | none => simp [ReqKind.isUrl] at hcond
            | specs ts => simp [ReqKind.isUrl] at hcond
            | url t =>
              cases marker with
              | none => simp at hcond
              | some m =>
                have hne : c'.rest ≠ [] := by
                  intro h0
                  exact markerStage_some_rest x input _ m warns c2 hm (rest_nil_eatWhitespace h0)
                obtain ⟨t', s, l, w, hc1, r⟩ := hurlfacts t rfl hne
                refine ⟨t', s, l, w, hc1, ?_⟩
                subst hc1
                simpa using r
          · simp only [hcond, Bool.false_eq_true, if_false]
            exact ⟨hcalls, trivial⟩
        | some v =>
          obtain ⟨⟨pos, ch⟩, c4⟩ := v
          obtain ⟨_, _, _, hb⟩ := next_spec i3 hn
          rw [eatWhitespace_input, in2] at hb
          dsimp only
          by_cases hcond : kind.isUrl = true
          · simp only [hcond, if_true]
            refine ⟨hcalls, hb, ?_⟩
            have hne : c'.rest ≠ [] := by
              intro h0
              have := rest_nil_next (rest_nil_eatWhitespace (hnil (rest_nil_eatWhitespace h0)))
              rw [this] at hn; simp at hn
            cases kind with
            | none => simp [ReqKind.isUrl] at hcond
            | specs ts => simp [ReqKind.isUrl] at hcond
            | url t =>
              obtain ⟨t', s, l, w, hc1, r⟩ := hurlfacts t rfl hne
              refine ⟨t', s, l, w, hc1, ?_⟩
              subst hc1
              simpa using r
          · simp only [hcond, Bool.false_eq_true, if_false]
            exact ⟨hcalls, hb⟩

/-- A.5, all facts at once -/
theorem parseRequirement_good (env : ProcEnv) (x : Ext) (input : List Char) :
    (parseRequirement env x input).Good input := by
  rw [parseRequirement_eq]
  have i0 := inv_eatWhitespace (inv_new input)
  have in0 : (Cursor.new input).eatWhitespace.input = input := rfl
  generalize (Cursor.new input).eatWhitespace = c0 at i0 in0
  have g1 := parseName_fwd env i0
  cases hr1 : parseName env c0 with
  | err e => rw [hr1] at g1; exact ⟨CallsOK.nil _, by rw [← in0]; exact g1⟩
  | panic s => rw [hr1] at g1; exact g1.elim
  | ok v =>
    obtain ⟨name, c1⟩ := v
    rw [hr1] at g1
    have a1 : Adv c0 c1 := g1
    have i1 := a1.inv i0
    have a2 := a1.trans (adv_eatWhitespace c1)
    have g2 := parseExtras_fwd (a2.inv i0)
    dsimp only
    cases hr2 : parseExtras c1.eatWhitespace with
    | err e =>
      rw [hr2] at g2
      refine ⟨CallsOK.nil _, ?_⟩
      have : Boundary c1.eatWhitespace.input e.start := g2
      rw [a2.input, in0] at this; exact this
    | panic s => rw [hr2] at g2; exact g2.elim
    | ok v =>
      obtain ⟨extras, c2⟩ := v
      rw [hr2] at g2
      have a3 : Adv c0 c2.eatWhitespace := (a2.trans g2).trans (adv_eatWhitespace c2)
      have i3 := a3.inv i0
      have in3 : c2.eatWhitespace.input = input := a3.input.trans in0
      dsimp only
      refine tailStage_good x input 0 c0.pos c1.pos name extras c2.eatWhitespace _ i3 in3
        (kindStage_ok env i3 (by rw [a3.input]; exact i0.boundary) (Boundary.zero _)) (Boundary.zero _) ?_ ?_ a1.pos_le
      · rw [← in0]; exact i0.boundary
      · rw [← in0, ← a1.input]; exact i1.boundary

/-- C06: the requirement parser never reaches a panic site -/
theorem parseRequirement_no_panic (env : ProcEnv) (x : Ext) (input : List Char) :
    ∀ s, (parseRequirement env x input).fin ≠ .panic s := by
  intro s hs
  have g := (parseRequirement_good env x input).2
  rw [hs] at g
  exact g

/-- C06: every error span starts on a char boundary of the input -/
theorem parseRequirement_err_boundary (env : ProcEnv) (x : Ext) (input : List Char) (e : PErr) :
    (parseRequirement env x input).fin = .err e → Boundary input e.start := by
  intro hs
  have g := (parseRequirement_good env x input).2
  rw [hs] at g
  exact g

theorem parseRequirement_err_sliceable (env : ProcEnv) (x : Ext) (input : List Char) (e : PErr) :
    (parseRequirement env x input).fin = .err e → ∃ r, dropBytes input e.start = some r :=
  fun h => (parseRequirement_err_boundary env x input e h).dropBytes_isSome

/-- every recorded external call has a span starting on a boundary and is given exactly that slice -/
theorem parseRequirement_calls (env : ProcEnv) (x : Ext) (input : List Char) :
    CallsOK input (parseRequirement env x input).calls :=
  (parseRequirement_good env x input).1

/-- the `urlEnds` outcome: the fallback error starts on a boundary -/
theorem parseRequirement_urlEnds_other (env : ProcEnv) (x : Ext) (input : List Char)
    (alts : List (Char × PErr)) (other : PErr) :
    (parseRequirement env x input).fin = .urlEnds alts other → Boundary input other.start := by
  intro hs
  have g := (parseRequirement_good env x input).2
  rw [hs] at g
  exact g.1

/-- a successful `takeBytes` is a prefix whose byte length is the requested one -/
theorem takeBytes_some {s : List Char} {n : Nat} {t : List Char} (h : takeBytes s n = some t) :
    ∃ r, s = t ++ r ∧ n = strLen t := by
  induction s generalizing n t with
  | nil =>
    cases n with
    | zero => simp only [takeBytes, Option.some.injEq] at h; subst h; exact ⟨[], rfl, rfl⟩
    | succ n => simp [takeBytes] at h
  | cons a rest ih =>
    cases n with
    | zero => simp only [takeBytes, Option.some.injEq] at h; subst h; exact ⟨a :: rest, rfl, rfl⟩
    | succ n =>
      simp only [takeBytes] at h
      by_cases hle : utf8Len a ≤ n + 1
      · simp only [hle, if_true] at h
        cases ht : takeBytes rest (n + 1 - utf8Len a) with
        | none => rw [ht] at h; simp at h
        | some t' =>
          rw [ht] at h
          simp only [Option.map_some, Option.some.injEq] at h
          subst h
          obtain ⟨r, e1, e2⟩ := ih ht
          exact ⟨r, by rw [e1]; rfl, by rw [strLen_cons]; omega⟩
      · simp [hle] at h

/-- a successful `dropBytes` is at a char boundary -/
theorem Boundary.of_dropBytes {inp : List Char} {n : Nat} {r : List Char} (h : dropBytes inp n = some r) :
    ∃ pre, inp = pre ++ r ∧ n = strLen pre := by
  induction inp generalizing n with
  | nil =>
    cases n with
    | zero => simp only [dropBytes, Option.some.injEq] at h; subst h; exact ⟨[], rfl, rfl⟩
    | succ n => simp [dropBytes] at h
  | cons a rest ih =>
    cases n with
    | zero => simp only [dropBytes, Option.some.injEq] at h; subst h; exact ⟨[], rfl, rfl⟩
    | succ n =>
      simp only [dropBytes] at h
      by_cases hle : utf8Len a ≤ n + 1
      · simp only [hle, if_true] at h
        obtain ⟨pre, e1, e2⟩ := ih h
        exact ⟨a :: pre, by rw [e1]; rfl, by rw [strLen_cons, ← e2]; omega⟩
      · simp [hle] at h

/-- a slice that exists is a middle part of the input -/
theorem sliceBytes_some {input : List Char} {s l : Nat} {t : List Char} (h : sliceBytes input s l = some t) :
    ∃ pre r, input = pre ++ t ++ r ∧ s = strLen pre ∧ l = strLen t := by
  unfold sliceBytes at h
  cases hd : dropBytes input s with
  | none => rw [hd] at h; simp at h
  | some rest =>
    rw [hd] at h
    obtain ⟨pre, e1, e2⟩ := Boundary.of_dropBytes hd
    obtain ⟨r, e3, e4⟩ := takeBytes_some h
    exact ⟨pre, r, by rw [e1, e3, List.append_assoc], e2, e4⟩

/-- the `urlEnds` outcome (after F17): it only arises when the *scanned* URL text `t` does not end
with `;` / `#` (such an end is either the end of the input or the "ambiguous URL end" error of
`parse_url`); the URL slice `(s, l)` is followed by a whitespace char `w`; the alternatives are for
`;` and `#` and point at `s + l - 1`, the last byte of the URL slice -/
theorem parseRequirement_urlEnds_shape (env : ProcEnv) (x : Ext) (input : List Char)
    (alts : List (Char × PErr)) (other : PErr) :
    (parseRequirement env x input).fin = .urlEnds alts other →
      ∃ t s l w, (parseRequirement env x input).calls = [.url t s l] ∧ t ≠ [] ∧
        t.getLast? ≠ some ';' ∧ t.getLast? ≠ some '#' ∧ isWs w = true ∧
        sliceBytes input (s + l) (utf8Len w) = some [w] ∧
        ∀ ch e, (ch, e) ∈ alts → (ch = ';' ∨ ch = '#') ∧ e.start = s + l - 1 := by
  intro hs
  have g := (parseRequirement_good env x input).2
  rw [hs] at g
  exact g.2

/-- A.5 for the alternatives (after F17): every alternative of `urlEnds` starts on a char boundary
provided the last char of the scanned URL text is a 1-byte char.  (The alternative is *taken* when
the external URL parser's rendering ends with `;` / `#`; `Url::parse` only strips ASCII C0 controls
and spaces from the end, so the scanned text then ends with a 1-byte char.) -/
theorem parseRequirement_urlEnds_alts (env : ProcEnv) (x : Ext) (input : List Char)
    (alts : List (Char × PErr)) (other : PErr)
    (hs : (parseRequirement env x input).fin = .urlEnds alts other)
    (ch : Char) (e : PErr) (hm : (ch, e) ∈ alts) (t : List Char) (s l : Nat)
    (hc : ExtCall.url t s l ∈ (parseRequirement env x input).calls)
    (lastc : Char) (hlast : t.getLast? = some lastc) (h1 : utf8Len lastc = 1) :
    Boundary input e.start := by
  obtain ⟨t', s', l', w, hcalls, _, _, _, _, _, h6⟩ :=
    parseRequirement_urlEnds_shape env x input alts other hs
  have hok := parseRequirement_calls env x input _ hc
  rw [hcalls] at hc
  simp only [List.mem_singleton, ExtCall.url.injEq] at hc
  obtain ⟨rfl, rfl, rfl⟩ := hc
  rw [(h6 ch e hm).2]
  obtain ⟨pre, r, e1, e2, e3⟩ := sliceBytes_some hok.2
  obtain ⟨init, rfl⟩ : ∃ init, t = init ++ [lastc] := by
    rw [List.getLast?_eq_some_iff] at hlast
    exact hlast
  refine ⟨pre ++ init, lastc :: r, by rw [e1]; simp, ?_⟩
  rw [e2, e3, strLen_append, strLen_append]
  simp only [strLen_cons, strLen_nil, h1]
  omega

/-- in particular: if the scanned text itself ended with the alternative's char (it never does) -/
theorem parseRequirement_urlEnds_alts_scanned (env : ProcEnv) (x : Ext) (input : List Char)
    (alts : List (Char × PErr)) (other : PErr)
    (hs : (parseRequirement env x input).fin = .urlEnds alts other)
    (ch : Char) (e : PErr) (hm : (ch, e) ∈ alts) (t : List Char) (s l : Nat)
    (hc : ExtCall.url t s l ∈ (parseRequirement env x input).calls) (hlast : t.getLast? = some ch) :
    Boundary input e.start := by
  obtain ⟨_, _, _, _, _, _, _, _, _, _, h6⟩ := parseRequirement_urlEnds_shape env x input alts other hs
  refine parseRequirement_urlEnds_alts env x input alts other hs ch e hm t s l hc ch hlast ?_
  rcases (h6 ch e hm).1 with rfl | rfl <;> decide

/-- the `urlEndsOk` outcome (F20: a marker follows the URL): same shape facts -/
theorem parseRequirement_urlEndsOk_shape (env : ProcEnv) (x : Ext) (input : List Char)
    (alts : List (Char × PErr)) (r : ReqOk) :
    (parseRequirement env x input).fin = .urlEndsOk alts r →
      ∃ t s l w, (parseRequirement env x input).calls = [.url t s l] ∧ t ≠ [] ∧
        t.getLast? ≠ some ';' ∧ t.getLast? ≠ some '#' ∧ isWs w = true ∧
        sliceBytes input (s + l) (utf8Len w) = some [w] ∧
        ∀ ch e, (ch, e) ∈ alts → (ch = ';' ∨ ch = '#') ∧ e.start = s + l - 1 := by
  intro hs
  have g := (parseRequirement_good env x input).2
  rw [hs] at g
  exact g

/-- every alternative of `urlEndsOk` starts on a char boundary provided the last char of the scanned
URL text is a 1-byte char (cf. `parseRequirement_urlEnds_alts`) -/
theorem parseRequirement_urlEndsOk_alts (env : ProcEnv) (x : Ext) (input : List Char)
    (alts : List (Char × PErr)) (r : ReqOk)
    (hs : (parseRequirement env x input).fin = .urlEndsOk alts r)
    (ch : Char) (e : PErr) (hm : (ch, e) ∈ alts) (t : List Char) (s l : Nat)
    (hc : ExtCall.url t s l ∈ (parseRequirement env x input).calls)
    (lastc : Char) (hlast : t.getLast? = some lastc) (h1 : utf8Len lastc = 1) :
    Boundary input e.start := by
  obtain ⟨t', s', l', w, hcalls, _, _, _, _, _, h6⟩ :=
    parseRequirement_urlEndsOk_shape env x input alts r hs
  have hok := parseRequirement_calls env x input _ hc
  rw [hcalls] at hc
  simp only [List.mem_singleton, ExtCall.url.injEq] at hc
  obtain ⟨rfl, rfl, rfl⟩ := hc
  rw [(h6 ch e hm).2]
  obtain ⟨pre, r', e1, e2, e3⟩ := sliceBytes_some hok.2
  obtain ⟨init, rfl⟩ : ∃ init, t = init ++ [lastc] := by
    rw [List.getLast?_eq_some_iff] at hlast
    exact hlast
  refine ⟨pre ++ init, lastc :: r', by rw [e1]; simp, ?_⟩
  rw [e2, e3, strLen_append, strLen_append]
  simp only [strLen_cons, strLen_nil, h1]
  omega

/-! ### spelled-out statements for the sub-parsers -/

theorem parseName_total (env : ProcEnv) {c : Cursor} (h : c.Inv) :
    (∀ n c', parseName env c = .ok (n, c') → c'.Inv ∧ c'.input = c.input ∧ c.pos ≤ c'.pos) ∧
    (∀ e, parseName env c = .err e → Boundary c.input e.start) ∧
    (∀ s, parseName env c ≠ .panic s) := by
  obtain ⟨h1, h2, h3⟩ := (Res.fwd_iff _ _ _).1 (parseName_fwd env h)
  exact ⟨fun n c' e => ⟨(h1 (n, c') e).inv h, (h1 (n, c') e).input, (h1 (n, c') e).pos_le⟩, h2, h3⟩

theorem parseExtras_total {c : Cursor} (h : c.Inv) :
    (∀ n c', parseExtras c = .ok (n, c') → c'.Inv ∧ c'.input = c.input ∧ c.pos ≤ c'.pos) ∧
    (∀ e, parseExtras c = .err e → Boundary c.input e.start) ∧
    (∀ s, parseExtras c ≠ .panic s) := by
  obtain ⟨h1, h2, h3⟩ := (Res.fwd_iff _ _ _).1 (parseExtras_fwd h)
  exact ⟨fun n c' e => ⟨(h1 (n, c') e).inv h, (h1 (n, c') e).input, (h1 (n, c') e).pos_le⟩, h2, h3⟩

theorem parseUrl_total {c : Cursor} (h : c.Inv) :
    (∀ url s l c', parseUrl c = .ok ((url, s, l), c') →
      c'.Inv ∧ c'.input = c.input ∧ Boundary c.input s ∧ sliceBytes c.input s l = some url ∧ url ≠ []) ∧
    (∀ e, parseUrl c = .err e → Boundary c.input e.start) ∧
    (∀ s, parseUrl c ≠ .panic s) := by
  have g := parseUrl_ok h
  refine ⟨fun url s l c' e => ?_, fun e he => ?_, fun s he => ?_⟩
  · rw [e] at g
    exact ⟨g.1.inv h, g.1.input, g.2.2.1, g.2.1, g.2.2.2.1⟩
  · rw [he] at g; exact g
  · rw [he] at g; exact g

/-- the URL scan itself: an `inr (p, l)` ("ambiguous end") result points at a char boundary -/
theorem urlScan_inr_boundary (fuel : Nat) {c : Cursor} (h : c.Inv) (len p l : Nat)
    (hr : urlScan fuel c len = .inr (p, l)) : Boundary c.input p := by
  have g := urlScan_ok fuel c len
  rw [hr] at g
  obtain ⟨taken, r, h1, h2⟩ := g
  obtain ⟨pre, e1, e2⟩ := h
  exact ⟨pre ++ taken, r, by rw [e1, h1, List.append_assoc], by rw [h2, e2, strLen_append]⟩

theorem specsBare_total (fuel : Nat) {c : Cursor} (h : c.Inv) (hf : c.rest.length < fuel) :
    CallsOK c.input (specsBare fuel c c.pos [] []).1 ∧
    (∀ c', (specsBare fuel c c.pos [] []).2 = .ok c' → c'.Inv ∧ c'.input = c.input) ∧
    (∀ e, (specsBare fuel c c.pos [] []).2 = .err e → Boundary c.input e.start) ∧
    (∀ s, (specsBare fuel c c.pos [] []).2 ≠ .panic s) := by
  obtain ⟨g1, g2⟩ := specsBare_fwd fuel c c.pos [] [] (BufOK.of_inv h) (CallsOK.nil _) hf
  obtain ⟨h1, h2, h3⟩ := (Res.fwd_iff _ _ _).1 g2
  exact ⟨g1, fun c' e => ⟨(h1 c' e).inv h, (h1 c' e).input⟩, h2, h3⟩

theorem specsParen_total (fuel : Nat) {c : Cursor} (h : c.Inv) (bracePos : Nat)
    (hb : Boundary c.input bracePos) (hf : c.rest.length < fuel) :
    CallsOK c.input (specsParen fuel c bracePos c.pos [] []).1 ∧
    (∀ c', (specsParen fuel c bracePos c.pos [] []).2 = .ok c' → c'.Inv ∧ c'.input = c.input) ∧
    (∀ e, (specsParen fuel c bracePos c.pos [] []).2 = .err e → Boundary c.input e.start) ∧
    (∀ s, (specsParen fuel c bracePos c.pos [] []).2 ≠ .panic s) := by
  obtain ⟨g1, g2⟩ := specsParen_fwd fuel c bracePos c.pos [] [] (BufOK.of_inv h) hb (CallsOK.nil _) hf
  obtain ⟨h1, h2, h3⟩ := (Res.fwd_iff _ _ _).1 g2
  exact ⟨g1, fun c' e => ⟨(h1 c' e).inv h, (h1 c' e).input⟩, h2, h3⟩

end Pep508
