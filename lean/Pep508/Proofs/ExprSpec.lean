/-
Specification of single marker expressions, written from PEP 508 / PEP 440 (release segments
only), *not* from the code.  The theorems relating `expression` (the model of
`InternerGuard::expression`) to this specification are in `Pep508/Proofs/ExprSem.lean`.
-/
import Pep508.Model.Marker
namespace Pep508.Spec
open Pep508

/-- PEP 440 comparison of release segments: missing segments count as zero -/
def cmpRel : List Nat → List Nat → Ordering
  | [], [] => .eq
  | [], b :: bs => if b = 0 then cmpRel [] bs else .lt
  | a :: as, [] => if a = 0 then cmpRel as [] else .gt
  | a :: as, b :: bs => if a < b then .lt else if b < a then .gt else cmpRel as bs

/-- `cand` matches the prefix `p` (`== p.*`), candidate zero-padded -/
def prefixMatch : List Nat → List Nat → Bool
  | [], _ => true
  | p :: ps, [] => p == 0 && prefixMatch ps []
  | p :: ps, c :: cs => p == c && prefixMatch ps cs

/-- does the candidate release satisfy `OP lit` (PEP 440 "version specifiers", final releases) -/
def specSem (op : Op) (lit cand : List Nat) : Bool :=
  match op with
  | .eq | .exactEq => cmpRel cand lit == .eq
  | .ne => cmpRel cand lit != .eq
  | .lt => cmpRel cand lit == .lt
  | .le => cmpRel cand lit != .gt
  | .gt => cmpRel cand lit == .gt
  | .ge => cmpRel cand lit != .lt
  | .tilde => cmpRel cand lit != .lt && prefixMatch lit.dropLast cand
  | .eqStar => prefixMatch lit cand
  | .neStar => !prefixMatch lit cand

/-- a specifier the parser can produce (`VersionSpecifier::from_version`): `~=` needs ≥ 2 segments -/
def Spec.wellFormed (s : Pep508.Spec) : Prop := s.rel ≠ [] ∧ (s.op = .tilde → 2 ≤ s.rel.length)

/-- string comparison operators (`Edges::from_string`): equality and code-point order -/
def strSem (op : SOp) (envVal lit : String) : Bool :=
  match op with
  | .eq => envVal == lit
  | .ne => envVal != lit
  | .gt => decide (lit < envVal)
  | .ge => !decide (envVal < lit)
  | .lt => decide (envVal < lit)
  | .le => !decide (lit < envVal)
  | _ => false

end Pep508.Spec
