/-
Helper lemmas about the path model (`Pep508/Model/Path.lean`): `splitSlash`, `normStep`, `renderAbs`, `splitFragment`.
-/
import Pep508.Model.Path

namespace Pep508.PathLemmas
open Pep508

/-! ### `List.span` -/

theorem span_loop_all {α : Type} (p : α → Bool) (l acc : List α) (h : ∀ a ∈ l, p a = true) :
    List.span.loop p l acc = (acc.reverse ++ l, []) := by
  induction l generalizing acc with
  | nil => simp [List.span.loop]
  | cons a l ih =>
    have ha : p a = true := h a (by simp)
    simp only [List.span.loop, ha]
    rw [ih (a :: acc) (fun b hb => h b (by simp [hb]))]
    simp

theorem span_loop_stop {α : Type} (p : α → Bool) (l acc : List α) (x : α) (r : List α)
    (h : ∀ a ∈ l, p a = true) (hx : p x = false) :
    List.span.loop p (l ++ x :: r) acc = (acc.reverse ++ l, x :: r) := by
  induction l generalizing acc with
  | nil => simp [List.span.loop, hx]
  | cons a l ih =>
    have ha : p a = true := h a (by simp)
    simp only [List.cons_append, List.span.loop, ha]
    rw [ih (a :: acc) (fun b hb => h b (by simp [hb]))]
    simp

theorem span_all {α : Type} (p : α → Bool) (l : List α) (h : ∀ a ∈ l, p a = true) :
    l.span p = (l, []) := by
  simp [List.span, span_loop_all p l [] h]

theorem span_stop {α : Type} (p : α → Bool) (l : List α) (x : α) (r : List α)
    (h : ∀ a ∈ l, p a = true) (hx : p x = false) :
    (l ++ x :: r).span p = (l, x :: r) := by
  simp [List.span, span_loop_stop p l [] x r h hx]

/-! ### `splitFragment` -/

theorem splitFragment_hash (p f : List Char) (hp : ∀ c ∈ p, c ≠ '#') :
    splitFragment (p ++ '#' :: f) = (p, some f) := by
  unfold splitFragment
  rw [span_stop (· != '#') p '#' f (by simpa using hp) (by simp)]
  simp

theorem splitFragment_none (p : List Char) (hp : ∀ c ∈ p, c ≠ '#') :
    splitFragment p = (p, none) := by
  unfold splitFragment
  rw [span_all (· != '#') p (by simpa using hp)]

/-! ### `splitSlash` -/

theorem splitSlash_ne_nil (s : List Char) : splitSlash s ≠ [] := by
  cases s with
  | nil => simp [splitSlash]
  | cons c cs =>
    rw [splitSlash]
    by_cases h : (c == '/') = true
    · simp [h]
    · cases hs : splitSlash cs <;> simp [h]

/-- a slash-free prefix is glued to the first segment of the rest -/
theorem splitSlash_append_noslash (c r h : List Char) (t : List (List Char))
    (hc : ∀ x ∈ c, x ≠ '/') (hr : splitSlash r = h :: t) :
    splitSlash (c ++ r) = (c ++ h) :: t := by
  induction c with
  | nil => simpa using hr
  | cons a c ih =>
    have ha : (a == '/') = false := by
      have := hc a (by simp)
      simpa using this
    have ih' := ih (fun x hx => hc x (by simp [hx]))
    simp only [List.cons_append]
    rw [splitSlash]
    simp [ha, ih']

theorem splitSlash_noslash (c : List Char) (hc : ∀ x ∈ c, x ≠ '/') : splitSlash c = [c] := by
  have := splitSlash_append_noslash c [] [] [] hc (by simp [splitSlash])
  simpa using this

/-- splitting distributes over a `/` -/
theorem splitSlash_append_slash (a b : List Char) :
    splitSlash (a ++ '/' :: b) = splitSlash a ++ splitSlash b := by
  induction a with
  | nil => simp [splitSlash]
  | cons x a ih =>
    simp only [List.cons_append]
    rw [splitSlash, splitSlash.eq_2 x a]
    by_cases hx : (x == '/') = true
    · simp [hx, ih]
    · simp only [hx]
      rw [ih]
      cases hsa : splitSlash a with
      | nil => exact absurd hsa (splitSlash_ne_nil a)
      | cons h t => simp

/-- no segment contains a `/` -/
theorem splitSlash_noslash_mem (s : List Char) : ∀ seg ∈ splitSlash s, ∀ x ∈ seg, x ≠ '/' := by
  induction s with
  | nil => simp [splitSlash]
  | cons c cs ih =>
    rw [splitSlash]
    by_cases hc : (c == '/') = true
    · simp only [hc, if_true]
      intro seg hseg
      rcases List.mem_cons.1 hseg with rfl | h
      · simp
      · exact ih seg h
    · cases hs : splitSlash cs with
      | nil => exact absurd hs (splitSlash_ne_nil cs)
      | cons h t =>
        rw [hs] at ih
        intro seg hseg
        simp only [hc, Bool.false_eq_true, if_false, List.mem_cons] at hseg
        rcases hseg with rfl | hseg
        · intro x hx
          rcases List.mem_cons.1 hx with rfl | hx
          · simpa using hc
          · exact ih h (by simp) x hx
        · exact ih seg (by simp [hseg])

/-! ### clean components -/

/-- a normal component: non-empty, not `.`, not `..`, no `/` inside -/
def Clean (c : List Char) : Prop :=
  c ≠ [] ∧ c ≠ ['.'] ∧ c ≠ ['.', '.'] ∧ ∀ x ∈ c, x ≠ '/'

theorem normStep_none (c : List Char) : normStep none c = none := rfl

theorem foldl_normStep_none (l : List (List Char)) : l.foldl normStep none = none := by
  induction l with
  | nil => rfl
  | cons c l ih => simpa [List.foldl_cons, normStep_none] using ih

theorem normStep_nil (st : Option (List (List Char))) : normStep st [] = st := by
  cases st <;> simp [normStep]

theorem normStep_dot (st : Option (List (List Char))) : normStep st ['.'] = st := by
  cases st <;> simp [normStep]

theorem normStep_clean (st : List (List Char)) (c : List Char) (hc : Clean c) :
    normStep (some st) c = some (c :: st) := by
  obtain ⟨h1, h2, h3, -⟩ := hc
  simp [normStep, h1, h2, h3]

theorem normStep_skip (st : List (List Char)) (c : List Char) (hc : c = [] ∨ c = ['.']) :
    normStep (some st) c = some st := by
  rcases hc with rfl | rfl
  · exact normStep_nil _
  · exact normStep_dot _

theorem normStep_parent_nil : normStep (some []) ['.', '.'] = none := by
  simp [normStep]

theorem normStep_parent_cons (a : List Char) (t : List (List Char)) :
    normStep (some (a :: t)) ['.', '.'] = some t := by
  simp [normStep]

/-- one step keeps the stack clean -/
theorem normStep_keeps_clean (st st' : List (List Char)) (c : List Char)
    (hst : ∀ d ∈ st, Clean d) (hc : ∀ x ∈ c, x ≠ '/')
    (h : normStep (some st) c = some st') : ∀ d ∈ st', Clean d := by
  by_cases h1 : c = [] ∨ c = ['.']
  · rw [normStep_skip st c h1] at h
    cases h; exact hst
  · by_cases h2 : c = ['.', '.']
    · subst h2
      cases st with
      | nil => rw [normStep_parent_nil] at h; cases h
      | cons a t =>
        rw [normStep_parent_cons] at h
        cases h
        intro d hd
        exact hst d (by simp [hd])
    · have hcl : Clean c := ⟨fun e => h1 (Or.inl e), fun e => h1 (Or.inr e), h2, hc⟩
      rw [normStep_clean st c hcl] at h
      cases h
      intro d hd
      rcases List.mem_cons.1 hd with rfl | hd
      · exact hcl
      · exact hst d hd

theorem foldl_keeps_clean (l : List (List Char)) (st st' : List (List Char))
    (hst : ∀ d ∈ st, Clean d) (hl : ∀ seg ∈ l, ∀ x ∈ seg, x ≠ '/')
    (h : l.foldl normStep (some st) = some st') : ∀ d ∈ st', Clean d := by
  induction l generalizing st with
  | nil =>
    simp only [List.foldl_nil, Option.some.injEq] at h
    subst h; exact hst
  | cons c l ih =>
    simp only [List.foldl_cons] at h
    cases hs : normStep (some st) c with
    | none => rw [hs, foldl_normStep_none] at h; cases h
    | some st1 =>
      rw [hs] at h
      exact ih st1 (normStep_keeps_clean st st1 c hst (hl c (by simp)) hs)
        (fun seg hseg => hl seg (by simp [hseg])) h

/-- folding over clean components just pushes them -/
theorem foldl_clean (cs st : List (List Char)) (hcs : ∀ c ∈ cs, Clean c) :
    cs.foldl normStep (some st) = some (cs.reverse ++ st) := by
  induction cs generalizing st with
  | nil => simp
  | cons c cs ih =>
    simp only [List.foldl_cons]
    rw [normStep_clean st c (hcs c (by simp)), ih (c :: st) (fun d hd => hcs d (by simp [hd]))]
    simp

/-! ### `renderAbs` -/

theorem splitSlash_flatMap (cs : List (List Char)) (hcs : ∀ c ∈ cs, ∀ x ∈ c, x ≠ '/') :
    splitSlash (cs.flatMap (fun c => '/' :: c)) = if cs = [] then [[]] else [] :: cs := by
  induction cs with
  | nil => simp [splitSlash]
  | cons c cs ih =>
    have ih' := ih (fun d hd => hcs d (by simp [hd]))
    simp only [List.flatMap_cons, List.cons_append, reduceCtorEq, if_false]
    rw [splitSlash]
    simp only [beq_self_eq_true, if_true, List.cons.injEq, true_and]
    by_cases hnil : cs = []
    · subst hnil
      simpa using splitSlash_noslash c (hcs c (by simp))
    · simp only [hnil, if_false] at ih'
      have := splitSlash_append_noslash c _ [] cs (hcs c (by simp)) ih'
      simpa using this

theorem splitSlash_renderAbs (cs : List (List Char)) (hcs : ∀ c ∈ cs, ∀ x ∈ c, x ≠ '/') :
    splitSlash (renderAbs cs) = [] :: (if cs = [] then [[]] else cs) := by
  cases cs with
  | nil => simp [renderAbs, splitSlash]
  | cons c cs =>
    have := splitSlash_flatMap (c :: cs) hcs
    simpa [renderAbs] using this

theorem renderAbs_head (cs : List (List Char)) : (renderAbs cs).head? = some '/' := by
  cases cs with
  | nil => simp [renderAbs]
  | cons c cs => simp [renderAbs]

/-- the components of a rendered clean list are that list -/
theorem normComponents_renderAbs (cs : List (List Char)) (hcs : ∀ c ∈ cs, Clean c) :
    normComponents (renderAbs cs) = some cs := by
  unfold normComponents
  rw [splitSlash_renderAbs cs (fun c hc => (hcs c hc).2.2.2)]
  simp only [List.foldl_cons, normStep_nil]
  by_cases hnil : cs = []
  · subst hnil; simp [normStep_nil]
  · simp only [hnil, if_false]
    rw [foldl_clean cs [] hcs]
    simp

theorem normComponents_clean (s : List Char) (cs : List (List Char)) (h : normComponents s = some cs) :
    ∀ c ∈ cs, Clean c := by
  unfold normComponents at h
  cases hf : (splitSlash s).foldl normStep (some []) with
  | none => rw [hf] at h; cases h
  | some st =>
    rw [hf] at h
    simp only [Option.some.injEq] at h
    subst h
    have := foldl_keeps_clean (splitSlash s) [] st (by simp) (splitSlash_noslash_mem s) hf
    intro c hc
    exact this c (by simpa using hc)

end Pep508.PathLemmas
