/-
More fuel gives the same result: once a descent parser returns anything but the model's fuel
panic (`.panic "stack"`), every larger fuel returns exactly the same outcome.  Together with
`descentFuel` (the default fuel never hits the fuel panic) this lets results obtained with "enough
fuel" be transported to the default fuel of `parseMarkers`.
-/
import Pep508.Proofs.ParseFuel
namespace Pep508

open Cursor

/-! ### one-step unfoldings -/

theorem parseExpr_succ (x : Ext) (fuel : Nat) (c : Cursor) (w : List WarnKind) :
    parseExpr x (fuel + 1) c w =
      match c.eatWhitespace.eatChar '(' with
      | some (startPos, c1) =>
        match parseOp x false fuel c1 w with
        | .ok st =>
          match nextExpectChar st.cur ')' startPos with
          | .ok c2 => .ok { st with cur := c2 }
          | .err e => .err e
          | .panic s => .panic s
        | .err e => .err e
        | .panic s => .panic s
      | none =>
        match parseKeyOpValue x c.eatWhitespace with
        | .ok ((e, w'), c1) => .ok ⟨e.map expression, w ++ w', c1⟩
        | .err e => .err e
        | .panic s => .panic s := by
  simp only [parseExpr]; rfl

theorem parseOp_succ (x : Ext) (isAnd : Bool) (fuel : Nat) (c : Cursor) (w : List WarnKind) :
    parseOp x isAnd (fuel + 1) c w =
      match (if isAnd then parseExpr x fuel c w else parseOp x true fuel c w) with
      | .ok st => parseOpLoop x isAnd fuel st
      | .err e => .err e
      | .panic s => .panic s := by
  simp only [parseOp]; rfl

theorem parseOpLoop_succ (x : Ext) (isAnd : Bool) (fuel : Nat) (st : PState) :
    parseOpLoop x isAnd (fuel + 1) st =
      match Res.ofSlice (st.cur.eatWhitespace.slice
          (st.cur.eatWhitespace.peekWhile (fun ch => !kwStop ch)).1
          (st.cur.eatWhitespace.peekWhile (fun ch => !kwStop ch)).2) with
      | .panic s => .panic s
      | .err e => .err e
      | .ok word =>
        if String.ofList word == (if isAnd then "and" else "or") then
          match (if isAnd then parseExpr x fuel (st.cur.eatWhitespace.takeWhile (fun ch => !kwStop ch)).2 st.warns
                 else parseOp x true fuel (st.cur.eatWhitespace.takeWhile (fun ch => !kwStop ch)).2 st.warns) with
          | .ok st' => parseOpLoop x isAnd fuel ⟨combine isAnd st.tree st'.tree, st'.warns, st'.cur⟩
          | .err e => .err e
          | .panic s => .panic s
        else .ok { st with cur := st.cur.eatWhitespace } := by
  simp only [parseOpLoop]; rfl

/-- one more unit of fuel does not change a non-`stack` outcome -/
def DescentStable (x : Ext) (fuel : Nat) : Prop :=
  (∀ c w, parseExpr x fuel c w ≠ .panic "stack" → parseExpr x (fuel + 1) c w = parseExpr x fuel c w) ∧
  (∀ isAnd c w, parseOp x isAnd fuel c w ≠ .panic "stack" →
    parseOp x isAnd (fuel + 1) c w = parseOp x isAnd fuel c w) ∧
  (∀ isAnd st, parseOpLoop x isAnd fuel st ≠ .panic "stack" →
    parseOpLoop x isAnd (fuel + 1) st = parseOpLoop x isAnd fuel st)

theorem parseExpr_stable_step (x : Ext) (fuel : Nat) (ih : DescentStable x fuel) (c : Cursor)
    (w : List WarnKind) (h : parseExpr x (fuel + 1) c w ≠ .panic "stack") :
    parseExpr x (fuel + 1 + 1) c w = parseExpr x (fuel + 1) c w := by
  rw [parseExpr_succ] at h; rw [parseExpr_succ x (fuel + 1), parseExpr_succ x fuel]
  cases he : c.eatWhitespace.eatChar '(' with
  | some v =>
    obtain ⟨sp, c1⟩ := v
    rw [he] at h
    dsimp only at h ⊢
    have h1 : parseOp x false fuel c1 w ≠ .panic "stack" := by
      intro e; rw [e] at h; exact h rfl
    rw [ih.2.1 false c1 w h1]
  | none => rfl

theorem parseOp_stable_step (x : Ext) (fuel : Nat) (ih : DescentStable x fuel) (isAnd : Bool)
    (c : Cursor) (w : List WarnKind) (h : parseOp x isAnd (fuel + 1) c w ≠ .panic "stack") :
    parseOp x isAnd (fuel + 1 + 1) c w = parseOp x isAnd (fuel + 1) c w := by
  rw [parseOp_succ] at h; rw [parseOp_succ x isAnd (fuel + 1), parseOp_succ x isAnd fuel]
  have h1 : (if isAnd = true then parseExpr x fuel c w else parseOp x true fuel c w) ≠ .panic "stack" := by
    intro e; rw [e] at h; exact h rfl
  have key : (if isAnd = true then parseExpr x (fuel + 1) c w else parseOp x true (fuel + 1) c w) =
      (if isAnd = true then parseExpr x fuel c w else parseOp x true fuel c w) := by
    cases isAnd
    · simp only [Bool.false_eq_true, if_false] at h1 ⊢; exact ih.2.1 true c w h1
    · simp only [if_true] at h1 ⊢; exact ih.1 c w h1
  rw [key]
  cases e : (if isAnd = true then parseExpr x fuel c w else parseOp x true fuel c w) with
  | ok st =>
    rw [e] at h
    dsimp only at h ⊢
    exact ih.2.2 isAnd st h
  | err e' => rfl
  | panic s => rfl

theorem parseOpLoop_stable_step (x : Ext) (fuel : Nat) (ih : DescentStable x fuel) (isAnd : Bool)
    (st : PState) (h : parseOpLoop x isAnd (fuel + 1) st ≠ .panic "stack") :
    parseOpLoop x isAnd (fuel + 1 + 1) st = parseOpLoop x isAnd (fuel + 1) st := by
  rw [parseOpLoop_succ] at h; rw [parseOpLoop_succ x isAnd (fuel + 1), parseOpLoop_succ x isAnd fuel]
  cases hpw : st.cur.eatWhitespace.peekWhile (fun ch => !kwStop ch) with
  | mk start len =>
    rw [hpw] at h
    dsimp only at h ⊢
    cases hs : st.cur.eatWhitespace.slice start len with
    | none => rfl
    | some word =>
      rw [hs] at h
      simp only [Res.ofSlice] at h ⊢
      by_cases hk : (String.ofList word == (if isAnd = true then "and" else "or")) = true
      · simp only [hk, if_true] at h ⊢
        generalize (st.cur.eatWhitespace.takeWhile (fun ch => !kwStop ch)).2 = c1 at h ⊢
        have h1 : (if isAnd = true then parseExpr x fuel c1 st.warns else parseOp x true fuel c1 st.warns)
            ≠ .panic "stack" := by
          intro e; rw [e] at h; exact h rfl
        have key : (if isAnd = true then parseExpr x (fuel + 1) c1 st.warns
              else parseOp x true (fuel + 1) c1 st.warns) =
            (if isAnd = true then parseExpr x fuel c1 st.warns else parseOp x true fuel c1 st.warns) := by
          cases isAnd
          · simp only [Bool.false_eq_true, if_false] at h1 ⊢; exact ih.2.1 true c1 _ h1
          · simp only [if_true] at h1 ⊢; exact ih.1 c1 _ h1
        rw [key]
        cases e : (if isAnd = true then parseExpr x fuel c1 st.warns else parseOp x true fuel c1 st.warns) with
        | ok st' =>
          rw [e] at h
          dsimp only at h ⊢
          exact ih.2.2 isAnd _ h
        | err e' => rfl
        | panic s => rfl
      · simp only [hk, Bool.false_eq_true, if_false]

theorem descentStable (x : Ext) : ∀ fuel, DescentStable x fuel := by
  intro fuel
  induction fuel with
  | zero =>
    refine ⟨?_, ?_, ?_⟩
    · intro c w h; exact absurd (by simp [parseExpr]) h
    · intro isAnd c w h; exact absurd (by simp [parseOp]) h
    · intro isAnd st h; exact absurd (by simp [parseOpLoop]) h
  | succ fuel ih =>
    exact ⟨parseExpr_stable_step x fuel ih, parseOp_stable_step x fuel ih,
      parseOpLoop_stable_step x fuel ih⟩

/-- more fuel gives the same result (`parse_marker_expr`) -/
theorem parseExpr_fuel_mono (x : Ext) {fuel fuel' : Nat} (hle : fuel ≤ fuel') (c : Cursor)
    (w : List WarnKind) (h : parseExpr x fuel c w ≠ .panic "stack") :
    parseExpr x fuel' c w = parseExpr x fuel c w := by
  induction hle with
  | refl => rfl
  | step _ ih => rw [(descentStable x _).1 c w (by rw [ih]; exact h), ih]

/-- more fuel gives the same result (`parse_marker_op`) -/
theorem parseOp_fuel_mono (x : Ext) {fuel fuel' : Nat} (hle : fuel ≤ fuel') (isAnd : Bool) (c : Cursor)
    (w : List WarnKind) (h : parseOp x isAnd fuel c w ≠ .panic "stack") :
    parseOp x isAnd fuel' c w = parseOp x isAnd fuel c w := by
  induction hle with
  | refl => rfl
  | step _ ih => rw [(descentStable x _).2.1 isAnd c w (by rw [ih]; exact h), ih]

/-- more fuel gives the same result (the loop of `parse_marker_op`) -/
theorem parseOpLoop_fuel_mono (x : Ext) {fuel fuel' : Nat} (hle : fuel ≤ fuel') (isAnd : Bool)
    (st : PState) (h : parseOpLoop x isAnd fuel st ≠ .panic "stack") :
    parseOpLoop x isAnd fuel' st = parseOpLoop x isAnd fuel st := by
  induction hle with
  | refl => rfl
  | step _ ih => rw [(descentStable x _).2.2 isAnd st (by rw [ih]; exact h), ih]

/-- more fuel gives the same result (`parse_markers_cursor`) -/
theorem parseMarkersCursor_fuel_mono (x : Ext) {fuel fuel' : Nat} (hle : fuel ≤ fuel') (c : Cursor)
    (h : parseOp x false fuel c [] ≠ .panic "stack") :
    parseMarkersCursor x fuel' c = parseMarkersCursor x fuel c := by
  unfold parseMarkersCursor
  rw [parseOp_fuel_mono x hle false c [] h]

/-- whatever `parse_markers_cursor` returns with some fuel at least the default one, `parse_markers`
returns with the default fuel -/
theorem parseMarkersCursor_default (x : Ext) (input : List Char) {fuel : Nat}
    (hle : 4 * input.length + 16 ≤ fuel) :
    parseMarkersCursor x fuel (Cursor.new input) =
      parseMarkersCursor x (4 * input.length + 16) (Cursor.new input) :=
  parseMarkersCursor_fuel_mono x hle _
    ((descentFuel x _).2.1 false (Cursor.new input) [] (inv_new input)
      (by show 4 * input.length + 3 ≤ _; omega))

end Pep508
