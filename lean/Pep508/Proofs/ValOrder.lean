/-
The concrete value / variable types of `Model/Marker.lean` are linear orders in the sense used by
the generic lemmas (`Std.IsLinearOrder`, `Std.LawfulOrderLT`, with `a ≤ b := ¬ b < a`).
-/
import Pep508.Model.Marker
namespace Pep508

/-- a strict order that is irreflexive, transitive and trichotomous, with `a ≤ b := ¬ b < a`,
    is a linear order -/
theorem isLinearOrder_of_lt {α : Type} [LT α] [LE α] (hle : ∀ a b : α, a ≤ b ↔ ¬ b < a)
    (irr : ∀ a : α, ¬ a < a) (tr : ∀ a b c : α, a < b → b < c → a < c)
    (tri : ∀ a b : α, ¬ a < b → ¬ b < a → a = b) : Std.IsLinearOrder α := by
  refine @Std.IsLinearOrder.mk _ _ (@Std.IsPartialOrder.mk _ _ ⟨?_, ?_⟩ ?_) ?_
  · intro a; rw [hle]; exact irr a
  · intro a b c; simp only [hle]; intro h1 h2 h3
    by_cases h4 : a < b
    · exact h2 (tr _ _ _ h3 h4)
    · have := tri a b h4 h1; subst this; exact h2 h3
  · intro a b; simp only [hle]; intro h1 h2; exact tri a b h2 h1
  · intro a b; simp only [hle]
    by_cases h : b < a
    · right; intro h'; exact irr _ (tr _ _ _ h h')
    · left; exact h

theorem lawfulOrderLT_of_lt {α : Type} [LT α] [LE α] (hle : ∀ a b : α, a ≤ b ↔ ¬ b < a)
    (irr : ∀ a : α, ¬ a < a) (tr : ∀ a b c : α, a < b → b < c → a < c) : Std.LawfulOrderLT α := by
  constructor
  intro a b; simp only [hle]
  constructor
  · intro h; exact ⟨fun h' => irr _ (tr _ _ _ h h'), fun h' => h' h⟩
  · intro h; exact Classical.not_not.mp h.2

/-! ### release lists -/

theorem verLt_irrefl : ∀ a, verLt a a = false
  | [] => rfl
  | a :: as => by simp [verLt, verLt_irrefl as]

theorem verLt_trans : ∀ a b c, verLt a b = true → verLt b c = true → verLt a c = true
  | [], [], _, h, _ => by simp [verLt] at h
  | [], _ :: _, [], _, h => by simp [verLt] at h
  | [], _ :: _, _ :: _, _, _ => by simp [verLt]
  | _ :: _, [], _, h, _ => by simp [verLt] at h
  | _ :: _, _ :: _, [], _, h => by simp [verLt] at h
  | a :: as, b :: bs, c :: cs, h1, h2 => by
    have ih := verLt_trans as bs cs
    simp only [verLt] at *
    grind

theorem verLt_tri : ∀ a b, verLt a b = false → verLt b a = false → a = b
  | [], [], _, _ => rfl
  | [], _ :: _, h, _ => by simp [verLt] at h
  | _ :: _, [], _, h => by simp [verLt] at h
  | a :: as, b :: bs, h1, h2 => by
    have ih := verLt_tri as bs
    simp only [verLt] at *
    grind

/-! ### `Val` -/

instance : LE Val := ⟨fun a b => ¬ b < a⟩

theorem Val.le_iff (a b : Val) : a ≤ b ↔ ¬ b < a := Iff.rfl

theorem Val.lt_ver (a b : List Nat) : (Val.ver a < Val.ver b) ↔ verLt a b = true := Iff.rfl
theorem Val.lt_str (a b : String) : (Val.str a < Val.str b) ↔ a < b := by
  show Val.lt _ _ = true ↔ _; simp [Val.lt]
theorem Val.lt_ver_str (a : List Nat) (b : String) : Val.ver a < Val.str b := by
  show Val.lt _ _ = true; rfl
theorem Val.not_lt_str_ver (a : String) (b : List Nat) : ¬ Val.str a < Val.ver b := by
  show ¬ Val.lt _ _ = true; simp [Val.lt]

theorem Val.lt_irrefl (a : Val) : ¬ a < a := by
  cases a with
  | ver a => simp [Val.lt_ver, verLt_irrefl]
  | str a => simp [Val.lt_str]

theorem Val.lt_trans (a b c : Val) : a < b → b < c → a < c := by
  cases a <;> cases b <;> cases c <;>
    simp only [Val.lt_ver, Val.lt_str, Val.lt_ver_str, Val.not_lt_str_ver, imp_self, false_imp_iff,
      imp_true_iff]
  · exact verLt_trans _ _ _
  · exact fun h1 h2 => String.lt_trans h1 h2

theorem Val.lt_tri (a b : Val) : ¬ a < b → ¬ b < a → a = b := by
  cases a <;> cases b <;>
    simp only [Val.lt_ver, Val.lt_str, Val.lt_ver_str, Val.not_lt_str_ver, not_true_eq_false,
      false_imp_iff, not_false_eq_true, true_imp_iff, Val.ver.injEq, Val.str.injEq,
      Bool.not_eq_true]
  · exact verLt_tri _ _
  · intro h1 h2; grind

instance : Std.IsLinearOrder Val :=
  isLinearOrder_of_lt Val.le_iff Val.lt_irrefl Val.lt_trans Val.lt_tri
instance : Std.LawfulOrderLT Val := lawfulOrderLT_of_lt Val.le_iff Val.lt_irrefl Val.lt_trans

/-! ### range variables -/

instance : LE VarR := ⟨fun a b => ¬ b < a⟩
theorem VarR.le_iff (a b : VarR) : a ≤ b ↔ ¬ b < a := Iff.rfl
theorem VarR.lt_def (a b : VarR) : a < b ↔ VarR.lt a b = true := Iff.rfl

theorem VKey.idx_inj (a b : VKey) (h : a.idx = b.idx) : a = b := by
  cases a <;> cases b <;> simp [VKey.idx] at h <;> rfl

theorem SKey.idx_inj (a b : SKey) (h : a.idx = b.idx) : a = b := by
  cases a; cases b; simp_all

theorem VarR.lt_irrefl (a : VarR) : ¬ a < a := by
  cases a <;> simp [VarR.lt_def, VarR.lt]

theorem VarR.lt_trans (a b c : VarR) : a < b → b < c → a < c := by
  cases a <;> cases b <;> cases c <;> simp only [VarR.lt_def, VarR.lt] <;> grind

theorem VarR.lt_tri (a b : VarR) : ¬ a < b → ¬ b < a → a = b := by
  cases a <;> cases b <;> simp only [VarR.lt_def, VarR.lt] <;>
    grind [VKey.idx_inj, SKey.idx_inj]

instance : Std.IsLinearOrder VarR :=
  isLinearOrder_of_lt VarR.le_iff VarR.lt_irrefl VarR.lt_trans VarR.lt_tri
instance : Std.LawfulOrderLT VarR := lawfulOrderLT_of_lt VarR.le_iff VarR.lt_irrefl VarR.lt_trans

/-! ### boolean variables -/

instance : LE VarB := ⟨fun a b => ¬ b < a⟩
theorem VarB.le_iff (a b : VarB) : a ≤ b ↔ ¬ b < a := Iff.rfl
theorem VarB.lt_def (a b : VarB) : a < b ↔ VarB.lt a b = true := Iff.rfl

theorem ExtraVal.lt_irrefl (a : ExtraVal) : a.lt a = false := by
  cases a <;> simp [ExtraVal.lt]

theorem ExtraVal.lt_trans (a b c : ExtraVal) : a.lt b = true → b.lt c = true → a.lt c = true := by
  cases a <;> cases b <;> cases c <;> simp only [ExtraVal.lt] <;> grind

theorem ExtraVal.lt_tri (a b : ExtraVal) : a.lt b = false → b.lt a = false → a = b := by
  cases a <;> cases b <;> simp only [ExtraVal.lt] <;> grind

theorem VarB.lt_irrefl (a : VarB) : ¬ a < a := by
  cases a <;> simp [VarB.lt_def, VarB.lt, ExtraVal.lt_irrefl]

theorem VarB.lt_trans (a b c : VarB) : a < b → b < c → a < c := by
  cases a <;> cases b <;> cases c <;> simp only [VarB.lt_def, VarB.lt] <;>
    grind [ExtraVal.lt_trans]

theorem VarB.lt_tri (a b : VarB) : ¬ a < b → ¬ b < a → a = b := by
  cases a <;> cases b <;> simp only [VarB.lt_def, VarB.lt] <;>
    grind [ExtraVal.lt_tri, SKey.idx_inj]

instance : Std.IsLinearOrder VarB :=
  isLinearOrder_of_lt VarB.le_iff VarB.lt_irrefl VarB.lt_trans VarB.lt_tri
instance : Std.LawfulOrderLT VarB := lawfulOrderLT_of_lt VarB.le_iff VarB.lt_irrefl VarB.lt_trans

end Pep508
