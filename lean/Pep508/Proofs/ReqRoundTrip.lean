/-
Round trip at the level of the glue (C08): `parseRequirement` applied to `showReq r` issues exactly the
external calls for the printed components and accepts.
-/
import Pep508.Model.ReqShow
import Pep508.Proofs.Unnamed
namespace Pep508

open Cursor

/-! ### well-formed printed components -/

/-- a printed name / extra: non-empty run of name chars that starts and ends with an ASCII alphanumeric -/
def NameWF (s : List Char) : Prop :=
  s ≠ [] ∧ (∀ ch, s.head? = some ch → isAsciiAlnum ch = true) ∧ (∀ ch ∈ s, isNameChar ch = true) ∧
    (∀ ch, s.getLast? = some ch → isAsciiAlnum ch = true)

/-- the normalized form of a printed name -/
def normName (s : List Char) : List Nat := Names.normSpec (s.map Char.toNat)

/-- `,e1,e2,…` -/
def tailTxt : List (List Char) → List Char
  | [] => []
  | e :: es => ',' :: e ++ tailTxt es

theorem joinComma_cons (e : List Char) (es : List (List Char)) : joinComma (e :: es) = e ++ tailTxt es := by
  induction es generalizing e with
  | nil => simp [joinComma, tailTxt]
  | cons a es ih =>
    rw [joinComma, ih, tailTxt]
    · simp
    · intro h; exact absurd h (by simp)

theorem NameWF.cons {s : List Char} (h : NameWF s) : ∃ ch tl, s = ch :: tl ∧ isAsciiAlnum ch = true ∧
    (∀ c ∈ tl, isNameChar c = true) := by
  obtain ⟨hne, hf, ha, _⟩ := h
  cases s with
  | nil => exact absurd rfl hne
  | cons ch tl => exact ⟨ch, tl, rfl, hf ch rfl, fun c hc => ha c (List.mem_cons_of_mem _ hc)⟩

theorem NameWF.validates {s : List Char} (h : NameWF s) :
    Names.validateOwned (bytesOfChars s) = some (normName s) :=
  (name_validates s h.1 h.2.1 h.2.2.1 h.2.2.2).2

/-! ### extras -/

theorem skipWhile_stop (p : Char → Bool) (tl T : List Char) (pos : Nat) (hall : ∀ c ∈ tl, p c = true)
    (hT : ∀ ch, T.head? = some ch → p ch = false) :
    skipWhile p (tl ++ T) pos = (T, pos + strLen tl) := by
  rw [skipWhile_eq, List.dropWhile_append_of_pos hall, List.takeWhile_append_of_pos hall]
  cases T with
  | nil => simp
  | cons a r => simp [hT a rfl]

theorem eatWhitespace_id (input T : List Char) (pos : Nat) (hT : ∀ ch, T.head? = some ch → isWs ch = false) :
    (⟨input, T, pos⟩ : Cursor).eatWhitespace = ⟨input, T, pos⟩ :=
  eatWhitespace_of_head hT

theorem inv_adv {inp t R : List Char} {p : Nat} (h : Inv ⟨inp, t ++ R, p⟩) : Inv ⟨inp, R, p + strLen t⟩ := by
  obtain ⟨pre, h1, h2⟩ := h
  exact ⟨pre ++ t, by simpa [List.append_assoc] using h1, by simp only at h2 ⊢; rw [h2, strLen_append]⟩

theorem inv_adv1 {inp R : List Char} {ch : Char} {p : Nat} (h : Inv ⟨inp, ch :: R, p⟩) :
    Inv ⟨inp, R, p + utf8Len ch⟩ := inv_step h

/-- one round of the extras loop once the separator has been handled: the cursor is at a printed
extra `e` followed by `,` or `]` -/
theorem parseExtrasLoop_step (fuel : Nat) (c : Cursor) (bp : Nat) (acc : List (List Nat)) (first : Bool)
    (inp e T : List Char) (p : Nat) (he : NameWF e)
    (hclose : c.peekChar ≠ some ']')
    (hsep : extrasSep c first = .ok ⟨inp, e ++ T, p⟩)
    (hinv : Inv ⟨inp, e ++ T, p⟩)
    (hT : ∀ ch, T.head? = some ch → ch = ',' ∨ ch = ']') :
    parseExtrasLoop (fuel + 1) c bp acc first =
      parseExtrasLoop fuel ⟨inp, T, p + strLen e⟩ bp (acc ++ [normName e]) false := by
  obtain ⟨pre, hin, hp⟩ := hinv
  simp only at hin hp
  subst hp
  obtain ⟨ch, tl, rfl, hal, htl⟩ := he.cons
  have hTn : ∀ ch, T.head? = some ch → isNameChar ch = false := by
    intro ch h; rcases hT ch h with rfl | rfl <;> decide
  have hTw : ∀ ch, T.head? = some ch → isWs ch = false := by
    intro ch h; rcases hT ch h with rfl | rfl <;> decide
  conv => lhs; unfold parseExtrasLoop
  have hcl : (c.peekChar == some ']') = false := by
    cases h : c.peekChar == some ']' with
    | false => rfl
    | true => exact absurd (eq_of_beq h) hclose
  simp only [hcl, Bool.false_eq_true, if_false]
  change (match extrasSep c first with
    | .err e => Res.err e
    | .panic s => Res.panic s
    | .ok c1 => _) = _
  rw [hsep]
  dsimp only
  have hws : isWs ch = false := nameChar_not_ws (alnum_nameChar hal)
  rw [eatWhitespace_id _ _ _ (by intro c h; simp at h; subst h; exact hws)]
  simp only [List.cons_append, Cursor.next, hal, Bool.not_true, Bool.false_eq_true, if_false]
  have htw : (⟨inp, tl ++ T, strLen pre + utf8Len ch⟩ : Cursor).takeWhile isNameChar =
      ((strLen pre + utf8Len ch, strLen tl), ⟨inp, T, strLen pre + utf8Len ch + strLen tl⟩) := by
    unfold Cursor.takeWhile
    simp only [skipWhile_stop isNameChar tl T _ htl hTn]
    simp
  rw [htw]
  dsimp only
  have hsl : (⟨inp, T, strLen pre + utf8Len ch + strLen tl⟩ : Cursor).slice
      (strLen pre + utf8Len ch) (strLen tl) = some tl := by
    unfold Cursor.slice
    have := sliceBytes_append (pre ++ [ch]) tl T
    rw [hin]
    simpa [List.append_assoc] using this
  rw [hsl]
  simp only [Res.ofSlice]
  rw [he.validates]
  have hfin : (⟨inp, T, strLen pre + utf8Len ch + strLen tl⟩ : Cursor).eatWhitespace =
      ⟨inp, T, strLen pre + strLen (ch :: tl)⟩ := by
    rw [eatWhitespace_id _ _ _ hTw]; simp only [strLen_cons, Nat.add_assoc]
  rw [hfin]
  cases T with
  | nil => rfl
  | cons a r =>
    simp only [Cursor.peek]
    rcases hT a rfl with rfl | rfl <;> rfl

theorem tailTxt_head (es : List (List Char)) (rest : List Char) :
    ∀ ch, (tailTxt es ++ ']' :: rest).head? = some ch → ch = ',' ∨ ch = ']' := by
  intro ch h
  cases es with
  | nil => simp [tailTxt] at h; exact .inr h.symm
  | cons e es => simp [tailTxt] at h; exact .inl h.symm

theorem tailTxt_length (es : List (List Char)) : es.length ≤ (tailTxt es).length := by
  induction es with
  | nil => simp
  | cons a es ih => simp [tailTxt]; omega

/-- the extras loop over `,e1,e2,…]` -/
theorem parseExtrasLoop_tail (es : List (List Char)) (hes : ∀ e ∈ es, NameWF e) (fuel : Nat) (bp : Nat)
    (acc : List (List Nat)) (inp rest : List Char) (p : Nat)
    (hinv : Inv ⟨inp, tailTxt es ++ ']' :: rest, p⟩) (hf : es.length < fuel) :
    parseExtrasLoop fuel ⟨inp, tailTxt es ++ ']' :: rest, p⟩ bp acc false =
      .ok (acc ++ es.map normName, ⟨inp, rest, p + strLen (tailTxt es) + 1⟩) := by
  induction es generalizing fuel acc p with
  | nil =>
    obtain ⟨fuel, rfl⟩ : ∃ f, fuel = f + 1 := ⟨fuel - 1, by simp at hf; omega⟩
    unfold parseExtrasLoop
    simp [tailTxt, Cursor.peekChar, Cursor.next]
    decide
  | cons e es ih =>
    obtain ⟨fuel, rfl⟩ : ∃ f, fuel = f + 1 := ⟨fuel - 1, by simp at hf; omega⟩
    have he := hes e List.mem_cons_self
    simp only [tailTxt, List.cons_append, List.append_assoc] at hinv ⊢
    have hinv1 := inv_adv1 hinv
    rw [parseExtrasLoop_step fuel _ bp acc false inp e (tailTxt es ++ ']' :: rest) (p + utf8Len ',') he
      (by simp [Cursor.peekChar]) (by simp [extrasSep, Cursor.peek, Cursor.next]) hinv1 (tailTxt_head es rest)]
    rw [ih (fun e h => hes e (List.mem_cons_of_mem _ h)) fuel _ _ (inv_adv hinv1)
      (by simp at hf; omega)]
    simp only [List.map_cons, List.append_assoc, List.singleton_append, strLen_cons, strLen_append,
      Res.ok.injEq, Prod.mk.injEq, Cursor.mk.injEq, true_and]
    omega

/-- `parse_extras_cursor` on a printed extras list `[e1,e2,…]` -/
theorem parseExtras_printed (e : List Char) (es : List (List Char)) (hes : ∀ a ∈ e :: es, NameWF a)
    (inp rest : List Char) (p : Nat)
    (hinv : Inv ⟨inp, '[' :: joinComma (e :: es) ++ ']' :: rest, p⟩) :
    parseExtras ⟨inp, '[' :: joinComma (e :: es) ++ ']' :: rest, p⟩ =
      .ok ((e :: es).map normName, ⟨inp, rest, p + strLen ('[' :: joinComma (e :: es) ++ [']'])⟩) := by
  have he := hes e List.mem_cons_self
  obtain ⟨ch, tl, hcons, hal, htl⟩ := he.cons
  rw [joinComma_cons] at hinv ⊢
  simp only [List.cons_append, List.append_assoc] at hinv ⊢
  have hinv1 := inv_adv1 hinv
  have hws : isWs ch = false := nameChar_not_ws (alnum_nameChar hal)
  have hne : ch ≠ ']' := by intro h; subst h; exact absurd hal (by decide)
  have hne2 : ch ≠ ',' := by intro h; subst h; exact absurd hal (by decide)
  unfold parseExtras
  simp only [Cursor.eatChar, beq_self_eq_true, if_true]
  rw [eatWhitespace_id _ _ _ (by intro c h; rw [hcons] at h; simp at h; subst h; exact hws)]
  simp only [List.length_cons, List.length_append]
  rw [parseExtrasLoop_step _ _ p [] true inp e (tailTxt es ++ ']' :: rest) (p + utf8Len '[') he
    (by rw [hcons]; simp [Cursor.peekChar, hne])
    (by
      rw [hcons]
      simp only [extrasSep, Cursor.peek, List.cons_append]
      split
      · rename_i h _; simp at h; exact absurd h.2 hne2
      · rename_i h; simp at h
      · rename_i h; simp at h
      · rfl)
    hinv1 (tailTxt_head es rest)]
  rw [parseExtrasLoop_tail es (fun a h => hes a (List.mem_cons_of_mem _ h)) _ _ _ _ _ _ (inv_adv hinv1)
    (by have := tailTxt_length es; omega)]
  simp only [List.nil_append, List.map_cons, strLen_cons, strLen_append, strLen_nil,
    Res.ok.injEq, Prod.mk.injEq, Cursor.mk.injEq, true_and]
  have : utf8Len ']' = 1 := by decide
  exact ⟨rfl, by omega⟩

/-- `parse_extras_cursor` when no `[` follows -/
theorem parseExtras_none (c : Cursor) (h : ∀ ch, c.rest.head? = some ch → ch ≠ '[') :
    parseExtras c = .ok ([], c) := by
  unfold parseExtras Cursor.eatChar
  cases hr : c.rest with
  | nil => rfl
  | cons a t =>
    have := h a (by rw [hr]; rfl)
    simp [this]

/-! ### bare specifiers -/

/-- a printed specifier text never contains the separators of the bare scan -/
def SpecTxt (t : List Char) : Prop := ∀ c ∈ t, c ≠ ',' ∧ c ≠ ';'

/-- the calls for `t1,t2,…` starting at byte `pos` -/
def specCalls (pos : Nat) : List (List Char) → List ExtCall
  | [] => []
  | t :: ts => .spec t pos (strLen t) :: specCalls (pos + strLen t + 1) ts

theorem specTexts_specCalls (pos : Nat) (ts : List (List Char)) : specTexts (specCalls pos ts) = ts := by
  induction ts generalizing pos with
  | nil => rfl
  | cons t ts ih =>
    have := ih (pos + strLen t + 1)
    simp only [specTexts] at this ⊢
    simp [specCalls, this]

theorem specsBare_other (fuel : Nat) (inp R : List Char) (ch : Char) (p start : Nat) (buf : List Char)
    (acc : List ExtCall) (h1 : ch ≠ ',') (h2 : ch ≠ ';') :
    specsBare (fuel + 1) ⟨inp, ch :: R, p⟩ start buf acc =
      specsBare fuel ⟨inp, R, p + utf8Len ch⟩ start (buf ++ [ch]) acc := by
  conv => lhs; unfold specsBare
  simp only [Cursor.peek, Cursor.next]

theorem specsBare_comma (fuel : Nat) (inp R : List Char) (p start : Nat) (buf : List Char)
    (acc : List ExtCall) :
    specsBare (fuel + 1) ⟨inp, ',' :: R, p⟩ start buf acc =
      specsBare fuel ⟨inp, R, p + 1⟩ (p + 1) [] (acc ++ [.spec buf start (p - start)]) := by
  conv => lhs; unfold specsBare
  rfl

theorem specsBare_semi (fuel : Nat) (inp R : List Char) (p start : Nat) (buf : List Char)
    (acc : List ExtCall) :
    specsBare (fuel + 1) ⟨inp, ';' :: R, p⟩ start buf acc =
      (acc ++ [.spec buf start (p - start)], .ok ⟨inp, ';' :: R, p⟩) := by
  conv => lhs; unfold specsBare
  rfl

theorem specsBare_end (fuel : Nat) (inp : List Char) (p start : Nat) (buf : List Char)
    (acc : List ExtCall) :
    specsBare (fuel + 1) ⟨inp, [], p⟩ start buf acc =
      (acc ++ [.spec buf start (p - start)], .ok ⟨inp, [], p⟩) := by
  conv => lhs; unfold specsBare
  rfl

/-- the scan moves a separator-free text into the buffer -/
theorem specsBare_seg (t : List Char) (ht : SpecTxt t) (fuel : Nat) (inp R : List Char) (p start : Nat)
    (buf : List Char) (acc : List ExtCall) :
    specsBare (fuel + t.length) ⟨inp, t ++ R, p⟩ start buf acc =
      specsBare fuel ⟨inp, R, p + strLen t⟩ start (buf ++ t) acc := by
  induction t generalizing p buf with
  | nil => simp
  | cons ch t ih =>
    have hc := ht ch List.mem_cons_self
    rw [List.length_cons, ← Nat.add_assoc, List.cons_append, specsBare_other _ _ _ _ _ _ _ _ hc.1 hc.2,
      ih (fun c h => ht c (List.mem_cons_of_mem _ h))]
    simp [Nat.add_assoc]

/-- where the bare scan may stop: the end of the input or a `;` -/
def SpecStop (stop : List Char) : Prop := stop = [] ∨ ∃ r, stop = ';' :: r

/-- the bare scan over `t1,t2,…` followed by the end of the input or a `;` -/
theorem specsBare_list (ts : List (List Char)) (t : List Char) (hts : ∀ a ∈ t :: ts, SpecTxt a)
    (stop : List Char) (hstop : SpecStop stop) (fuel : Nat) (inp : List Char) (p : Nat) (acc : List ExtCall)
    (hf : (joinComma (t :: ts)).length < fuel) :
    specsBare fuel ⟨inp, joinComma (t :: ts) ++ stop, p⟩ p [] acc =
      (acc ++ specCalls p (t :: ts), .ok ⟨inp, stop, p + strLen (joinComma (t :: ts))⟩) := by
  induction ts generalizing t fuel p acc with
  | nil =>
    simp only [joinComma] at hf ⊢
    obtain ⟨f, rfl⟩ : ∃ f, fuel = (f + 1) + t.length := ⟨fuel - t.length - 1, by omega⟩
    rw [specsBare_seg t (hts t List.mem_cons_self)]
    rcases hstop with rfl | ⟨r, rfl⟩
    · rw [specsBare_end]; simp [specCalls]
    · rw [specsBare_semi]; simp [specCalls]
  | cons t2 ts ih =>
    rw [joinComma_cons] at hf ⊢
    simp only [tailTxt, List.length_append, List.length_cons] at hf
    obtain ⟨f, rfl⟩ : ∃ f, fuel = (f + 1) + t.length := ⟨fuel - t.length - 1, by omega⟩
    simp only [tailTxt, List.append_assoc, List.cons_append]
    rw [specsBare_seg t (hts t List.mem_cons_self), specsBare_comma]
    have := ih t2 (fun a h => hts a (List.mem_cons_of_mem _ h)) f (p + strLen t + 1)
      (acc ++ [.spec ([] ++ t) p (p + strLen t - p)])
      (by rw [joinComma_cons, List.length_append]; omega)
    rw [joinComma_cons, List.append_assoc] at this
    rw [this]
    simp only [List.nil_append, specCalls, List.append_assoc, List.singleton_append, strLen_append,
      strLen_cons, Nat.add_sub_cancel_left, Prod.mk.injEq, Res.ok.injEq, Cursor.mk.injEq, true_and]
    have : utf8Len ',' = 1 := by decide
    omega

/-! ### the URL scan -/

/-- what may follow a printed URL / the requirement kind: nothing, or ` ;` (a marker) -/
def MarkerSep (M : List Char) : Prop := M = [] ∨ ∃ r, M = ' ' :: ';' :: r

theorem not_ws_not_newline {ch : Char} (h : isWs ch = false) : (ch == '\r' || ch == '\n') = false := by
  cases hn : (ch == '\r' || ch == '\n') with
  | false => rfl
  | true => rw [newline_isWs hn] at h; exact absurd h (by decide)

/-- the declarative URL end of `u ++ M`: a printed URL (no whitespace) followed by nothing or by
` ;…`, where in the latter case `u` does not end with `;` / `#`, ends exactly after `u` -/
theorem urlEnd_printed (u M : List Char) (hu : ∀ c ∈ u, isWs c = false) (hM : MarkerSep M)
    (hlast : M ≠ [] → u.getLast? ≠ some ';' ∧ u.getLast? ≠ some '#') :
    urlEnd (u ++ M) = .inl u := by
  induction u with
  | nil =>
    rcases hM with rfl | ⟨r, rfl⟩
    · rfl
    · have : stopWsL ' ' (';' :: r) = true := by
        simp only [stopWsL, List.dropWhile]
        have h1 : isWs ' ' = true := by decide
        have h2 : isWs ';' = false := by decide
        simp [h1, h2]
      simp only [List.nil_append, urlEnd, this]
      rfl
  | cons ch u ih =>
    have hws := hu ch List.mem_cons_self
    have hnl := not_ws_not_newline hws
    have hst : stopWsL ch (u ++ M) = false := by simp [stopWsL, hws]
    have hgl : gluedL ch (u ++ M) = false := by
      cases u with
      | cons a t => simp [gluedL, hu a (by simp)]
      | nil =>
        rcases hM with rfl | ⟨r, rfl⟩
        · simp [gluedL]
        · have := hlast (by simp)
          simp only [List.getLast?_singleton, ne_eq, Option.some.injEq] at this
          simp [gluedL, this.1, this.2]
    simp only [List.cons_append, urlEnd, hnl, hst, hgl, Bool.false_eq_true, if_false]
    rw [ih (fun c h => hu c (List.mem_cons_of_mem _ h))]
    intro hne
    have := hlast hne
    cases u with
    | nil => simp
    | cons a t => simpa [List.getLast?_cons_cons] using this

theorem eatWhitespace_ws (inp ws R : List Char) (p : Nat) (hws : ∀ c ∈ ws, isWs c = true)
    (hR : ∀ ch, R.head? = some ch → isWs ch = false) :
    (⟨inp, ws ++ R, p⟩ : Cursor).eatWhitespace = ⟨inp, R, p + strLen ws⟩ := by
  unfold Cursor.eatWhitespace
  simp only [skipWhile_stop isWs ws R p hws hR]

/-- `parse_url` on ` u` followed by nothing or ` ;…` -/
theorem parseUrl_printed (u M : List Char) (hne : u ≠ []) (hu : ∀ c ∈ u, isWs c = false) (hM : MarkerSep M)
    (hlast : M ≠ [] → u.getLast? ≠ some ';' ∧ u.getLast? ≠ some '#')
    (inp : List Char) (p : Nat) (hinv : Inv ⟨inp, ' ' :: (u ++ M), p⟩) :
    parseUrl ⟨inp, ' ' :: (u ++ M), p⟩ =
      .ok ((u, p + 1, strLen u), ⟨inp, M.drop 1, p + 1 + strLen u + strLen (M.take 1)⟩) := by
  have hsp : isWs ' ' = true := by decide
  have hhead : ∀ ch, (u ++ M).head? = some ch → isWs ch = false := by
    intro ch h
    cases u with
    | nil => exact absurd rfl hne
    | cons a t => simp at h; subst h; exact hu a (by simp)
  have hew : (⟨inp, ' ' :: (u ++ M), p⟩ : Cursor).eatWhitespace = ⟨inp, u ++ M, p + 1⟩ := by
    have := eatWhitespace_ws inp [' '] (u ++ M) p (by intro c h; simp at h; subst h; exact hsp) hhead
    have h1 : utf8Len ' ' = 1 := by decide
    simpa [h1] using this
  rw [parseUrl_eq_urlEnd hinv, hew]
  dsimp only
  rw [urlEnd_printed u M hu hM hlast]
  dsimp only
  have hemp : u.isEmpty = false := by cases u with | nil => exact absurd rfl hne | cons a t => rfl
  simp only [hemp, Bool.false_eq_true, if_false, urlAfter]
  rcases hM with rfl | ⟨r, rfl⟩
  · simp [List.take_of_length_le (Nat.le_succ u.length)]
  · have h1 : (u ++ ' ' :: ';' :: r).drop (u.length + 1) = ';' :: r := by
      have : u ++ ' ' :: ';' :: r = (u ++ [' ']) ++ ';' :: r := by simp
      rw [this]
      exact List.drop_left' (by simp)
    have h2 : (u ++ ' ' :: ';' :: r).take (u.length + 1) = u ++ [' '] := by
      have : u ++ ' ' :: ';' :: r = (u ++ [' ']) ++ ';' :: r := by simp
      rw [this]
      exact List.take_left' (by simp)
    rw [h1, h2]
    simp [Nat.add_assoc]

/-! ### the kind stage -/

/-- first char of a printed specifier (an operator) -/
def isOpStart (c : Char) : Bool := c == '<' || c == '=' || c == '>' || c == '~' || c == '!'

theorem kindStage_specs (env : ProcEnv) (ns st : Nat) (ts : List (List Char)) (t : List Char)
    (hts : ∀ a ∈ t :: ts, SpecTxt a) (hop : ∀ ch, t.head? = some ch → isOpStart ch = true) (hne : t ≠ [])
    (stop : List Char) (hstop : SpecStop stop) (inp : List Char) (p : Nat) :
    kindStage env ns st ⟨inp, joinComma (t :: ts) ++ stop, p⟩ =
      (specCalls p (t :: ts),
        .ok (.specs (t :: ts), ⟨inp, stop, p + strLen (joinComma (t :: ts))⟩)) := by
  have key := specsBare_list ts t hts stop hstop ((joinComma (t :: ts) ++ stop).length + 2) inp p []
    (by simp only [List.length_append]; omega)
  cases t with
  | nil => exact absurd rfl hne
  | cons ch tl =>
    have hch := hop ch rfl
    rw [joinComma_cons] at key ⊢
    simp only [List.cons_append, List.nil_append] at key ⊢
    simp only [isOpStart, Bool.or_eq_true, beq_iff_eq] at hch
    unfold kindStage
    rcases hch with (((rfl | rfl) | rfl) | rfl) | rfl <;>
    · simp only [Cursor.peekChar, List.head?_cons]
      rw [key]
      simp [specTexts_specCalls]

theorem kindStage_url (env : ProcEnv) (ns st : Nat) (u M : List Char) (hne : u ≠ [])
    (hu : ∀ c ∈ u, isWs c = false) (hM : MarkerSep M)
    (hlast : M ≠ [] → u.getLast? ≠ some ';' ∧ u.getLast? ≠ some '#')
    (inp : List Char) (p : Nat) (hinv : Inv ⟨inp, '@' :: ' ' :: (u ++ M), p⟩) :
    kindStage env ns st ⟨inp, '@' :: ' ' :: (u ++ M), p⟩ =
      ([.url u (p + 2) (strLen u)],
        .ok (.url u, ⟨inp, M.drop 1, p + 2 + strLen u + strLen (M.take 1)⟩)) := by
  have h1 : utf8Len '@' = 1 := by decide
  have hinv1 := inv_adv1 hinv
  rw [h1] at hinv1
  have key := parseUrl_printed u M hne hu hM hlast inp (p + 1) hinv1
  unfold kindStage
  simp only [Cursor.peekChar, List.head?_cons, Cursor.next, h1]
  rw [key]

/-! ### the marker hand-off -/

theorem head_dropWhile_not {α} (p : α → Bool) (l : List α) :
    ∀ a, (l.dropWhile p).head? = some a → p a = false := by
  induction l with
  | nil => intro a h; simp at h
  | cons b l ih =>
    intro a h
    by_cases hb : p b = true
    · rw [List.dropWhile_cons_of_pos hb] at h; exact ih a h
    · rw [List.dropWhile_cons_of_neg hb] at h
      simp at h; subst h; simpa using hb

theorem eatWhitespace_idem (c : Cursor) : c.eatWhitespace.eatWhitespace = c.eatWhitespace := by
  apply eatWhitespace_of_head
  rw [eatWhitespace_rest_eq]
  exact head_dropWhile_not isWs c.rest

theorem parseExpr_eatWs (x : Ext) (fuel : Nat) (c : Cursor) (w : List WarnKind) :
    parseExpr x fuel c.eatWhitespace w = parseExpr x fuel c w := by
  cases fuel with
  | zero => simp [parseExpr]
  | succ f => simp only [parseExpr, eatWhitespace_idem]

theorem parseOp_true_eatWs (x : Ext) (fuel : Nat) (c : Cursor) (w : List WarnKind) :
    parseOp x true fuel c.eatWhitespace w = parseOp x true fuel c w := by
  cases fuel with
  | zero => simp [parseOp]
  | succ f => simp only [parseOp, if_true, parseExpr_eatWs]

theorem parseOp_false_eatWs (x : Ext) (fuel : Nat) (c : Cursor) (w : List WarnKind) :
    parseOp x false fuel c.eatWhitespace w = parseOp x false fuel c w := by
  cases fuel with
  | zero => simp [parseOp]
  | succ f => simp only [parseOp, Bool.false_eq_true, if_false, parseOp_true_eatWs]

/-- `parse_markers_cursor` skips leading whitespace itself -/
theorem parseMarkersCursor_eatWs (x : Ext) (fuel : Nat) (c : Cursor) :
    parseMarkersCursor x fuel c.eatWhitespace = parseMarkersCursor x fuel c := by
  unfold parseMarkersCursor
  rw [parseOp_false_eatWs]

/-- a successful `parse_markers_cursor` has consumed the whole input -/
theorem parseMarkersCursor_ok_rest (x : Ext) (fuel : Nat) (c : Cursor) (st : PState)
    (h : parseMarkersCursor x fuel c = .ok st) : st.cur.rest = [] := by
  unfold parseMarkersCursor at h
  cases hp : parseOp x false fuel c [] with
  | err e => rw [hp] at h; simp at h
  | panic s => rw [hp] at h; simp at h
  | ok st0 =>
    rw [hp] at h
    dsimp only at h
    cases hn : st0.cur.eatWhitespace.next with
    | some v =>
      obtain ⟨⟨pos, ch⟩, c2⟩ := v
      rw [hn] at h; simp [serr] at h
    | none =>
      rw [hn] at h
      simp only [Res.ok.injEq] at h
      subst h
      exact next_none_rest hn

/-! ### the tail stage -/

/-- the last byte of the URL text, as the tail stage computes it -/
def urlEndPos (calls : List ExtCall) (dflt : Nat) : Nat :=
  match calls.getLast? with
  | some (.url _ s l) => s + l
  | _ => dflt

/-- no marker: the kind stage stopped at the end of the input (possibly before trailing whitespace) -/
theorem tailStage_end (x : Ext) (inp : List Char) (start ns ne : Nat) (nm : List Nat) (ex : List (List Nat))
    (calls : List ExtCall) (kind : ReqKind) (c : Cursor) (name : List Char)
    (hsl : c.slice ns (ne - ns) = some name)
    (harch : (kind.isNone && looksLikeArchive name) = false)
    (hrest : c.eatWhitespace.rest = []) :
    tailStage x inp start ns ne nm ex (calls, .ok (kind, c)) =
      ⟨calls, .ok ⟨nm, ex, kind, .leaf true, []⟩⟩ := by
  unfold tailStage
  dsimp only
  rw [hsl]
  simp only [harch, Bool.false_eq_true, if_false]
  have hpk : c.eatWhitespace.peekChar = none := by unfold Cursor.peekChar; rw [hrest]; rfl
  simp only [markerStage, hpk]
  have : (none == some ';') = false := rfl
  simp only [this, Bool.false_eq_true, if_false, eatWhitespace_idem, rest_nil_next hrest]
  rfl

/-- a marker follows: after the kind (and whitespace) comes `;`, and the marker parser accepts what
follows it -/
theorem tailStage_marker (x : Ext) (inp : List Char) (start ns ne : Nat) (nm : List Nat)
    (ex : List (List Nat)) (calls : List ExtCall) (kind : ReqKind) (c : Cursor) (name : List Char)
    (hsl : c.slice ns (ne - ns) = some name)
    (harch : (kind.isNone && looksLikeArchive name) = false)
    (inp' R : List Char) (P : Nat) (st : PState)
    (hws : c.eatWhitespace = ⟨inp', ';' :: R, P⟩)
    (hm : parseMarkersCursor x (4 * inp.length + 16) ⟨inp', R, P + 1⟩ = .ok st) :
    tailStage x inp start ns ne nm ex (calls, .ok (kind, c)) =
      ⟨calls,
        if st.tree.isSome && kind.isUrl then
          .urlEndsOk [(';', ⟨.string, urlEndPos calls st.cur.pos - 1, 1⟩),
            ('#', ⟨.string, urlEndPos calls st.cur.pos - 1, 1⟩)]
            ⟨nm, ex, kind, st.tree.getD (.leaf true), st.warns⟩
        else .ok ⟨nm, ex, kind, st.tree.getD (.leaf true), st.warns⟩⟩ := by
  have h1 : utf8Len ';' = 1 := by decide
  have hrest := parseMarkersCursor_ok_rest x _ _ st hm
  have hew : st.cur.eatWhitespace = st.cur := eatWhitespace_of_head (by rw [hrest]; intro ch h; simp at h)
  unfold tailStage
  dsimp only
  rw [hsl]
  simp only [harch, Bool.false_eq_true, if_false]
  rw [hws]
  simp only [markerStage, Cursor.peekChar, List.head?_cons, beq_self_eq_true, if_true, Cursor.next, h1, hm,
    hew, hrest]
  by_cases hc : (st.tree.isSome && kind.isUrl) = true
  · simp only [hc, if_true]; rfl
  · simp only [hc, Bool.false_eq_true, if_false]

/-! ### name and extras of a printed requirement -/

/-- `[e1,e2,…]`, nothing for no extras -/
def extrasTxt (es : List (List Char)) : List Char :=
  if es.isEmpty then [] else '[' :: joinComma es ++ [']']

theorem inv_mk (pre R : List Char) : Inv ⟨pre ++ R, R, strLen pre⟩ := ⟨pre, rfl, rfl⟩

/-- name and extras of a printed requirement: what follows (`T`) does not continue the name and,
after whitespace, is not a `[` -/
theorem parse_front (env : ProcEnv) (x : Ext) (name : List Char) (es : List (List Char)) (T : List Char)
    (hname : NameWF name) (hes : ∀ e ∈ es, NameWF e)
    (hT1 : ∀ ch, T.head? = some ch → isNameChar ch = false ∧ ch ≠ '[')
    (hT2 : ∀ ch, (T.dropWhile isWs).head? = some ch → ch ≠ '[') :
    parseRequirement env x (name ++ (extrasTxt es ++ T)) =
      tailStage x (name ++ (extrasTxt es ++ T)) 0 0 (strLen name) (normName name) (es.map normName)
        (kindStage env 0 0
          (⟨name ++ (extrasTxt es ++ T), T, strLen name + strLen (extrasTxt es)⟩ : Cursor).eatWhitespace) := by
  obtain ⟨hne, hfirst, hall, hlast⟩ := hname
  generalize hI : name ++ (extrasTxt es ++ T) = I
  have hI' : I = [] ++ name ++ (extrasTxt es ++ T) := by rw [← hI]; rfl
  rw [parseRequirement_eq]
  have h0 : (Cursor.new I).eatWhitespace = ⟨I, name ++ (extrasTxt es ++ T), strLen []⟩ := by
    have := eatWhitespace_new_ws [] (name ++ (extrasTxt es ++ T)) (by simp)
      (head_not_ws_of_alnum hne hfirst)
    rw [← hI]
    simpa using this
  have hrest : ∀ ch, (extrasTxt es ++ T).head? = some ch → isNameChar ch = false := by
    intro ch h
    cases es with
    | nil => exact (hT1 ch (by simpa [extrasTxt] using h)).1
    | cons e es => simp [extrasTxt] at h; subst h; decide
  rw [h0]
  conv => lhs; rw [hI']
  rw [parseName_accept env [] name (extrasTxt es ++ T) hne hfirst hall hlast hrest]
  simp only [strLen_nil, Nat.zero_add, ← hI']
  cases es with
  | nil =>
    simp only [extrasTxt, List.isEmpty_nil, if_true, List.nil_append, List.map_nil, strLen_nil, Nat.add_zero]
    rw [parseExtras_none _ (by rw [eatWhitespace_rest_eq]; exact hT2)]
    simp only [eatWhitespace_idem]
    rfl
  | cons e es =>
    have hE : extrasTxt (e :: es) = '[' :: joinComma (e :: es) ++ [']'] := by simp [extrasTxt]
    have hinv : Inv ⟨I, '[' :: joinComma (e :: es) ++ ']' :: T, strLen name⟩ := by
      have := inv_mk name ('[' :: joinComma (e :: es) ++ ']' :: T)
      rw [← hI, hE]
      simpa using this
    have hshape : extrasTxt (e :: es) ++ T = '[' :: joinComma (e :: es) ++ ']' :: T := by
      rw [hE]; simp
    rw [hshape, eatWhitespace_id _ _ _ (by intro ch h; simp at h; subst h; decide),
      parseExtras_printed e es hes I T (strLen name) hinv, ← hE]
    rfl

/-! ### the six shapes of a printed requirement -/

/-- ` ; m`, nothing for no marker -/
def markerTxt : Option (List Char) → List Char
  | none => []
  | some m => ' ' :: ';' :: ' ' :: m

theorem parseMarkersCursor_blank (x : Ext) (fuel : Nat) (I m : List Char) (P : Nat) :
    parseMarkersCursor x fuel ⟨I, ' ' :: m, P⟩ = parseMarkersCursor x fuel ⟨I, m, P + 1⟩ := by
  rw [← parseMarkersCursor_eatWs x fuel ⟨I, ' ' :: m, P⟩, ← parseMarkersCursor_eatWs x fuel ⟨I, m, P + 1⟩]
  rfl

theorem name_slice (name rest : List Char) (c : Cursor) (h : c.input = name ++ rest) :
    c.slice 0 (strLen name - 0) = some name := by
  unfold Cursor.slice
  rw [h]
  have := sliceBytes_append [] name rest
  simpa using this

theorem not_nameChar_semi_sp : isNameChar ' ' = false ∧ ' ' ≠ '[' := by decide

/-- `name[extras]` -/
theorem rt_none (env : ProcEnv) (x : Ext) (name : List Char) (es : List (List Char))
    (hname : NameWF name) (hes : ∀ e ∈ es, NameWF e) (harch : looksLikeArchive name = false) :
    parseRequirement env x (name ++ (extrasTxt es ++ [])) =
      ⟨[], .ok ⟨normName name, es.map normName, .none, .leaf true, []⟩⟩ := by
  rw [parse_front env x name es [] hname hes (by intro ch h; simp at h) (by intro ch h; simp at h)]
  rw [eatWhitespace_id _ _ _ (by intro ch h; simp at h)]
  rw [kindStage_none env 0 0 _ (by intro ch h; simp at h)]
  exact tailStage_end x _ 0 0 _ _ _ [] .none _ name (name_slice name _ _ rfl)
    (by simp [ReqKind.isNone, harch]) (by rw [eatWhitespace_id _ _ _ (by intro ch h; simp at h)])

/-- `name[extras] ; m` -/
theorem rt_none_marker (env : ProcEnv) (x : Ext) (name : List Char) (es : List (List Char)) (m : List Char)
    (hname : NameWF name) (hes : ∀ e ∈ es, NameWF e) (harch : looksLikeArchive name = false)
    (st : PState)
    (hst : parseMarkersCursor x (4 * (name ++ (extrasTxt es ++ markerTxt (some m))).length + 16)
      ⟨name ++ (extrasTxt es ++ markerTxt (some m)), m, strLen name + strLen (extrasTxt es) + 3⟩ = .ok st) :
    parseRequirement env x (name ++ (extrasTxt es ++ markerTxt (some m))) =
      ⟨[], .ok ⟨normName name, es.map normName, .none, st.tree.getD (.leaf true), st.warns⟩⟩ := by
  have hsp : isWs ' ' = true := by decide
  have hsemi : isWs ';' = false := by decide
  have h1 : utf8Len ' ' = 1 := by decide
  simp only [markerTxt] at hst ⊢
  rw [parse_front env x name es _ hname hes
    (by intro ch h; simp at h; subst h; exact not_nameChar_semi_sp)
    (by intro ch h; simp [hsp, hsemi] at h; subst h; decide)]
  generalize hI : name ++ (extrasTxt es ++ ' ' :: ';' :: ' ' :: m) = I at hst ⊢
  have hew : (⟨I, ' ' :: ';' :: ' ' :: m, strLen name + strLen (extrasTxt es)⟩ : Cursor).eatWhitespace =
      ⟨I, ';' :: ' ' :: m, strLen name + strLen (extrasTxt es) + 1⟩ := by
    have := eatWhitespace_ws I [' '] (';' :: ' ' :: m) (strLen name + strLen (extrasTxt es))
      (by intro c h; simp at h; subst h; exact hsp) (by intro c h; simp at h; subst h; exact hsemi)
    simpa [h1] using this
  rw [hew]
  rw [kindStage_none env 0 0 _ (by intro ch h; simp at h; exact h.symm)]
  have := tailStage_marker x I 0 0 (strLen name) (normName name) (es.map normName) [] .none _ name
    (name_slice name _ _ hI.symm) (by simp [ReqKind.isNone, harch]) I (' ' :: m) _ st
    (eatWhitespace_id _ _ _ (by intro c h; simp at h; subst h; exact hsemi))
    (by rw [parseMarkersCursor_blank]; exact hst)
  rw [this]
  simp [ReqKind.isUrl]

/-- the texts recorded by the bare scan when a marker follows: the blank before `;` goes into the
last one -/
def addBlank : List (List Char) → List (List Char)
  | [] => []
  | [a] => [a ++ [' ']]
  | a :: b :: rest => a :: addBlank (b :: rest)

theorem joinComma_cons2 (t : List Char) (L : List (List Char)) (h : L ≠ []) :
    joinComma (t :: L) = t ++ ',' :: joinComma L := by
  cases L with
  | nil => exact absurd rfl h
  | cons a r => rfl

theorem joinComma_addBlank (t : List Char) (ts : List (List Char)) :
    joinComma (addBlank (t :: ts)) = joinComma (t :: ts) ++ [' '] := by
  induction ts generalizing t with
  | nil => rfl
  | cons b ts ih =>
    have h1 : ∀ l, addBlank (b :: l) ≠ [] := by intro l; cases l <;> simp [addBlank]
    rw [addBlank, joinComma_cons2 _ _ (h1 ts), ih b, joinComma_cons2 t (b :: ts) (by simp)]
    simp

theorem specTxt_addBlank (l : List (List Char)) (h : ∀ a ∈ l, SpecTxt a) : ∀ a ∈ addBlank l, SpecTxt a := by
  induction l with
  | nil => intro a ha; simp [addBlank] at ha
  | cons t ts ih =>
    cases ts with
    | nil =>
      intro a ha
      simp only [addBlank, List.mem_singleton] at ha
      subst ha
      intro c hc
      simp only [List.mem_append, List.mem_singleton] at hc
      rcases hc with hc | rfl
      · exact h t (by simp) c hc
      · decide
    | cons b ts =>
      intro a ha
      simp only [addBlank, List.mem_cons] at ha
      rcases ha with rfl | ha
      · exact h a (by simp)
      · exact ih (fun a ha => h a (List.mem_cons_of_mem _ ha)) a (by simpa using ha)

theorem addBlank_cons (t : List Char) (ts : List (List Char)) :
    ∃ t' ts', addBlank (t :: ts) = t' :: ts' ∧ (t ≠ [] → t'.head? = t.head?) ∧ (t ≠ [] → t' ≠ []) := by
  cases ts with
  | nil =>
    refine ⟨t ++ [' '], [], rfl, ?_, ?_⟩
    · intro h; cases t with | nil => exact absurd rfl h | cons a r => rfl
    · intro h; simp
  | cons b ts => exact ⟨t, addBlank (b :: ts), rfl, fun _ => rfl, id⟩

theorem opStart_facts {ch : Char} (h : isOpStart ch = true) :
    isNameChar ch = false ∧ ch ≠ '[' ∧ isWs ch = false := by
  simp only [isOpStart, Bool.or_eq_true, beq_iff_eq] at h
  rcases h with (((rfl | rfl) | rfl) | rfl) | rfl <;> decide

theorem joinComma_head (t : List Char) (ts : List (List Char)) (X : List Char) (hne : t ≠ []) :
    (joinComma (t :: ts) ++ X).head? = t.head? := by
  rw [joinComma_cons]
  cases t with
  | nil => exact absurd rfl hne
  | cons a r => rfl

/-- the bare scan stage on a cursor of a printed requirement -/
theorem rt_specs_gen (env : ProcEnv) (x : Ext) (name : List Char) (es : List (List Char))
    (t : List Char) (ts : List (List Char)) (stop : List Char)
    (hname : NameWF name) (hes : ∀ e ∈ es, NameWF e)
    (hts : ∀ a ∈ t :: ts, SpecTxt a) (hne : t ≠ []) (hop : ∀ ch, t.head? = some ch → isOpStart ch = true)
    (hstop : SpecStop stop) :
    parseRequirement env x (name ++ (extrasTxt es ++ (joinComma (t :: ts) ++ stop))) =
      tailStage x (name ++ (extrasTxt es ++ (joinComma (t :: ts) ++ stop))) 0 0 (strLen name) (normName name)
        (es.map normName)
        (specCalls (strLen name + strLen (extrasTxt es)) (t :: ts),
          .ok (.specs (t :: ts), ⟨name ++ (extrasTxt es ++ (joinComma (t :: ts) ++ stop)), stop,
            strLen name + strLen (extrasTxt es) + strLen (joinComma (t :: ts))⟩)) := by
  have hhead := joinComma_head t ts stop hne
  have hf : ∀ ch, (joinComma (t :: ts) ++ stop).head? = some ch →
      isNameChar ch = false ∧ ch ≠ '[' ∧ isWs ch = false := by
    intro ch h; rw [hhead] at h; exact opStart_facts (hop ch h)
  have hdw : (joinComma (t :: ts) ++ stop).dropWhile isWs = joinComma (t :: ts) ++ stop := by
    cases hl : joinComma (t :: ts) ++ stop with
    | nil => rfl
    | cons a r => simp [(hf a (by rw [hl]; rfl)).2.2]
  rw [parse_front env x name es _ hname hes (fun ch h => ⟨(hf ch h).1, (hf ch h).2.1⟩)
    (by rw [hdw]; intro ch h; exact (hf ch h).2.1)]
  rw [eatWhitespace_id _ _ _ (fun ch h => (hf ch h).2.2)]
  rw [kindStage_specs env 0 0 ts t hts hop hne stop hstop]

/-- `name[extras]t1,t2,…` -/
theorem rt_specs (env : ProcEnv) (x : Ext) (name : List Char) (es : List (List Char))
    (t : List Char) (ts : List (List Char))
    (hname : NameWF name) (hes : ∀ e ∈ es, NameWF e)
    (hts : ∀ a ∈ t :: ts, SpecTxt a) (hne : t ≠ []) (hop : ∀ ch, t.head? = some ch → isOpStart ch = true) :
    parseRequirement env x (name ++ (extrasTxt es ++ (joinComma (t :: ts) ++ []))) =
      ⟨specCalls (strLen name + strLen (extrasTxt es)) (t :: ts),
        .ok ⟨normName name, es.map normName, .specs (t :: ts), .leaf true, []⟩⟩ := by
  rw [rt_specs_gen env x name es t ts [] hname hes hts hne hop (.inl rfl)]
  exact tailStage_end x _ 0 0 _ _ _ _ _ _ name (name_slice name _ _ rfl)
    (by simp [ReqKind.isNone]) (by rw [eatWhitespace_id _ _ _ (by intro ch h; simp at h)])

/-- `name[extras]t1,t2,… ; m`: the last recorded specifier text carries the blank before `;` -/
theorem rt_specs_marker (env : ProcEnv) (x : Ext) (name : List Char) (es : List (List Char))
    (t : List Char) (ts : List (List Char)) (m : List Char)
    (hname : NameWF name) (hes : ∀ e ∈ es, NameWF e)
    (hts : ∀ a ∈ t :: ts, SpecTxt a) (hne : t ≠ []) (hop : ∀ ch, t.head? = some ch → isOpStart ch = true)
    (st : PState)
    (hst : parseMarkersCursor x
      (4 * (name ++ (extrasTxt es ++ (joinComma (t :: ts) ++ markerTxt (some m)))).length + 16)
      ⟨name ++ (extrasTxt es ++ (joinComma (t :: ts) ++ markerTxt (some m))), m,
        strLen name + strLen (extrasTxt es) + strLen (joinComma (t :: ts)) + 3⟩ = .ok st) :
    parseRequirement env x (name ++ (extrasTxt es ++ (joinComma (t :: ts) ++ markerTxt (some m)))) =
      ⟨specCalls (strLen name + strLen (extrasTxt es)) (addBlank (t :: ts)),
        .ok ⟨normName name, es.map normName, .specs (addBlank (t :: ts)), st.tree.getD (.leaf true),
          st.warns⟩⟩ := by
  have hsemi : isWs ';' = false := by decide
  have hshape : joinComma (t :: ts) ++ markerTxt (some m) =
      joinComma (addBlank (t :: ts)) ++ (';' :: ' ' :: m) := by
    rw [joinComma_addBlank]; simp [markerTxt]
  have hlen : strLen (joinComma (addBlank (t :: ts))) = strLen (joinComma (t :: ts)) + 1 := by
    rw [joinComma_addBlank, strLen_append]; rfl
  rw [hshape] at hst ⊢
  obtain ⟨t', ts', hab, hh, hn⟩ := addBlank_cons t ts
  have hts' := specTxt_addBlank (t :: ts) hts
  rw [hab] at hst hts' hlen ⊢
  rw [rt_specs_gen env x name es t' ts' _ hname hes hts' (hn hne) (by rw [hh hne]; exact hop)
    (.inr ⟨_, rfl⟩)]
  generalize hI : name ++ (extrasTxt es ++ (joinComma (t' :: ts') ++ ';' :: ' ' :: m)) = I at hst ⊢
  have := tailStage_marker x I 0 0 (strLen name) (normName name) (es.map normName)
    (specCalls (strLen name + strLen (extrasTxt es)) (t' :: ts')) (.specs (t' :: ts')) _ name
    (name_slice name _ _ hI.symm) (by simp [ReqKind.isNone]) I (' ' :: m)
    (strLen name + strLen (extrasTxt es) + strLen (joinComma (t' :: ts'))) st
    (eatWhitespace_id _ _ _ (by intro c h; simp at h; subst h; exact hsemi))
    (by
      rw [parseMarkersCursor_blank, show strLen name + strLen (extrasTxt es) + strLen (joinComma (t' :: ts'))
        + 1 + 1 = strLen name + strLen (extrasTxt es) + strLen (joinComma (t :: ts)) + 3 by rw [hlen]; omega]
      exact hst)
  rw [this]
  simp [ReqKind.isUrl]

/-- the URL stage on a cursor of a printed requirement -/
theorem rt_url_gen (env : ProcEnv) (x : Ext) (name : List Char) (es : List (List Char)) (u M : List Char)
    (hname : NameWF name) (hes : ∀ e ∈ es, NameWF e)
    (hne : u ≠ []) (hu : ∀ c ∈ u, isWs c = false) (hM : MarkerSep M)
    (hlast : M ≠ [] → u.getLast? ≠ some ';' ∧ u.getLast? ≠ some '#') :
    parseRequirement env x (name ++ (extrasTxt es ++ (' ' :: '@' :: ' ' :: (u ++ M)))) =
      tailStage x (name ++ (extrasTxt es ++ (' ' :: '@' :: ' ' :: (u ++ M)))) 0 0 (strLen name) (normName name)
        (es.map normName)
        ([.url u (strLen name + strLen (extrasTxt es) + 3) (strLen u)],
          .ok (.url u, ⟨name ++ (extrasTxt es ++ (' ' :: '@' :: ' ' :: (u ++ M))), M.drop 1,
            strLen name + strLen (extrasTxt es) + 3 + strLen u + strLen (M.take 1)⟩)) := by
  have hsp : isWs ' ' = true := by decide
  have hat : isWs '@' = false := by decide
  have h1 : utf8Len ' ' = 1 := by decide
  rw [parse_front env x name es _ hname hes
    (by intro ch h; simp at h; subst h; exact not_nameChar_semi_sp)
    (by intro ch h; simp [hsp, hat] at h; subst h; decide)]
  generalize hI : name ++ (extrasTxt es ++ (' ' :: '@' :: ' ' :: (u ++ M))) = I
  have hew : (⟨I, ' ' :: '@' :: ' ' :: (u ++ M), strLen name + strLen (extrasTxt es)⟩ : Cursor).eatWhitespace =
      ⟨I, '@' :: ' ' :: (u ++ M), strLen name + strLen (extrasTxt es) + 1⟩ := by
    have := eatWhitespace_ws I [' '] ('@' :: ' ' :: (u ++ M)) (strLen name + strLen (extrasTxt es))
      (by intro c h; simp at h; subst h; exact hsp) (by intro c h; simp at h; subst h; exact hat)
    simpa [h1] using this
  have hinv : Inv ⟨I, '@' :: ' ' :: (u ++ M), strLen name + strLen (extrasTxt es) + 1⟩ := by
    have := inv_mk (name ++ extrasTxt es ++ [' ']) ('@' :: ' ' :: (u ++ M))
    rw [← hI]
    simpa [h1, Nat.add_assoc] using this
  rw [hew, kindStage_url env 0 0 u M hne hu hM hlast I _ hinv]

/-- `name[extras] @ u` -/
theorem rt_url (env : ProcEnv) (x : Ext) (name : List Char) (es : List (List Char)) (u : List Char)
    (hname : NameWF name) (hes : ∀ e ∈ es, NameWF e)
    (hne : u ≠ []) (hu : ∀ c ∈ u, isWs c = false) :
    parseRequirement env x (name ++ (extrasTxt es ++ (' ' :: '@' :: ' ' :: (u ++ [])))) =
      ⟨[.url u (strLen name + strLen (extrasTxt es) + 3) (strLen u)],
        .ok ⟨normName name, es.map normName, .url u, .leaf true, []⟩⟩ := by
  rw [rt_url_gen env x name es u [] hname hes hne hu (.inl rfl) (fun h => absurd rfl h)]
  exact tailStage_end x _ 0 0 _ _ _ _ _ _ name (name_slice name _ _ rfl)
    (by simp [ReqKind.isNone]) (by rw [eatWhitespace_id _ _ _ (by intro ch h; simp at h)]; rfl)

/-- `name[extras] @ u ; m`, where `u` does not end with `;` / `#` -/
theorem rt_url_marker (env : ProcEnv) (x : Ext) (name : List Char) (es : List (List Char)) (u m : List Char)
    (hname : NameWF name) (hes : ∀ e ∈ es, NameWF e)
    (hne : u ≠ []) (hu : ∀ c ∈ u, isWs c = false)
    (hlast : u.getLast? ≠ some ';' ∧ u.getLast? ≠ some '#')
    (st : PState)
    (hst : parseMarkersCursor x
      (4 * (name ++ (extrasTxt es ++ (' ' :: '@' :: ' ' :: (u ++ markerTxt (some m))))).length + 16)
      ⟨name ++ (extrasTxt es ++ (' ' :: '@' :: ' ' :: (u ++ markerTxt (some m)))), m,
        strLen name + strLen (extrasTxt es) + 3 + strLen u + 3⟩ = .ok st) :
    parseRequirement env x (name ++ (extrasTxt es ++ (' ' :: '@' :: ' ' :: (u ++ markerTxt (some m))))) =
      ⟨[.url u (strLen name + strLen (extrasTxt es) + 3) (strLen u)],
        if st.tree.isSome then
          .urlEndsOk
            [(';', ⟨.string, strLen name + strLen (extrasTxt es) + 3 + strLen u - 1, 1⟩),
             ('#', ⟨.string, strLen name + strLen (extrasTxt es) + 3 + strLen u - 1, 1⟩)]
            ⟨normName name, es.map normName, .url u, st.tree.getD (.leaf true), st.warns⟩
        else .ok ⟨normName name, es.map normName, .url u, st.tree.getD (.leaf true), st.warns⟩⟩ := by
  have hsemi : isWs ';' = false := by decide
  have h1 : utf8Len ' ' = 1 := by decide
  simp only [markerTxt] at hst ⊢
  rw [rt_url_gen env x name es u _ hname hes hne hu (.inr ⟨_, rfl⟩) (fun _ => hlast)]
  generalize hI : name ++ (extrasTxt es ++ (' ' :: '@' :: ' ' :: (u ++ ' ' :: ';' :: ' ' :: m))) = I at hst ⊢
  have := tailStage_marker x I 0 0 (strLen name) (normName name) (es.map normName)
    [.url u (strLen name + strLen (extrasTxt es) + 3) (strLen u)] (.url u) _ name
    (name_slice name _ _ hI.symm) (by simp [ReqKind.isNone]) I (' ' :: m)
    (strLen name + strLen (extrasTxt es) + 3 + strLen u + 1) st
    (by
      have := eatWhitespace_id I (';' :: ' ' :: m) (strLen name + strLen (extrasTxt es) + 3 + strLen u + 1)
        (by intro c h; simp at h; subst h; exact hsemi)
      simpa [h1] using this)
    (by rw [parseMarkersCursor_blank]; exact hst)
  rw [show List.drop 1 (' ' :: ';' :: ' ' :: m) = ';' :: ' ' :: m from rfl,
    show strLen (List.take 1 (' ' :: ';' :: ' ' :: m)) = 1 from rfl, this]
  simp [ReqKind.isUrl, urlEndPos]

/-! ### printed requirements -/

/-- the kind part of `showReq` -/
def kindTxt : ShowKind → List Char
  | .none => []
  | .specs ts => joinComma ts
  | .url u => ' ' :: '@' :: ' ' :: u

theorem showReq_eq (r : ReqVal) :
    showReq r = r.name ++ (extrasTxt r.extras ++ (kindTxt r.kind ++ markerTxt r.marker)) := by
  obtain ⟨name, es, kind, mk⟩ := r
  cases kind <;> cases mk <;> simp [showReq, extrasTxt, kindTxt, markerTxt]

/-- what the printers of a successfully parsed requirement guarantee about the kind part:
* no kind: the name does not look like an archive file name (such a requirement is rejected);
* specifiers: at least one; the first text starts with an operator char (`<`, `=`, `>`, `~`, `!`);
  no text contains `,` or `;`;
* URL: non-empty, no whitespace char; if a marker follows, it does not end with `;` or `#`. -/
def ShowKind.WF (name : List Char) (hasMarker : Bool) : ShowKind → Prop
  | .none => looksLikeArchive name = false
  | .specs ts => (∃ ch tl ts', ts = (ch :: tl) :: ts' ∧ isOpStart ch = true) ∧ ∀ t ∈ ts, SpecTxt t
  | .url u => u ≠ [] ∧ (∀ c ∈ u, isWs c = false) ∧
      (hasMarker = true → u.getLast? ≠ some ';' ∧ u.getLast? ≠ some '#')

/-- well-formed printed requirement -/
structure ReqVal.WF (r : ReqVal) : Prop where
  name : NameWF r.name
  extras : ∀ e ∈ r.extras, NameWF e
  kind : r.kind.WF r.name r.marker.isSome

/-- byte position right after the name and the extras in `showReq r` -/
def ReqVal.pos (r : ReqVal) : Nat := strLen r.name + strLen (extrasTxt r.extras)

/-- byte position of the marker text in `showReq r` -/
def ReqVal.markerPos (r : ReqVal) : Nat := r.pos + strLen (kindTxt r.kind) + 3

/-- the specifier texts as the bare scan records them -/
def ReqVal.recTexts (r : ReqVal) (ts : List (List Char)) : List (List Char) :=
  if r.marker.isSome then addBlank ts else ts

/-- the external calls issued for `showReq r` -/
def ReqVal.expCalls (r : ReqVal) : List ExtCall :=
  match r.kind with
  | .none => []
  | .specs ts => specCalls r.pos (r.recTexts ts)
  | .url u => [.url u (r.pos + 3) (strLen u)]

def ReqVal.expKind (r : ReqVal) : ReqKind :=
  match r.kind with
  | .none => .none
  | .specs ts => .specs (r.recTexts ts)
  | .url u => .url u

/-- the parsed requirement, given the marker tree and warnings -/
def ReqVal.expOk (r : ReqVal) (marker : MTree) (warns : List WarnKind) : ReqOk :=
  ⟨normName r.name, r.extras.map normName, r.expKind, marker, warns⟩

/-- how the parse of `showReq r` ends when the marker parser returned `st` -/
def ReqVal.expFin (r : ReqVal) (st : PState) : ReqThen :=
  match r.kind with
  | .url u =>
    if st.tree.isSome then
      .urlEndsOk [(';', ⟨.string, r.pos + 3 + strLen u - 1, 1⟩), ('#', ⟨.string, r.pos + 3 + strLen u - 1, 1⟩)]
        (r.expOk (st.tree.getD (.leaf true)) st.warns)
    else .ok (r.expOk (st.tree.getD (.leaf true)) st.warns)
  | _ => .ok (r.expOk (st.tree.getD (.leaf true)) st.warns)

/-- round trip without a marker -/
theorem showReq_parse (env : ProcEnv) (x : Ext) (r : ReqVal) (hwf : r.WF) (hm : r.marker = none) :
    parseRequirement env x (showReq r) = ⟨r.expCalls, .ok (r.expOk (.leaf true) [])⟩ := by
  obtain ⟨name, es, kind, mk⟩ := r
  obtain ⟨hname, hes, hk⟩ := hwf
  simp only at hm hname hes hk
  subst hm
  rw [showReq_eq]
  cases kind with
  | none => exact rt_none env x name es hname hes hk
  | specs ts =>
    obtain ⟨⟨ch, tl, ts', rfl, hop⟩, hts⟩ := hk
    exact rt_specs env x name es (ch :: tl) ts' hname hes hts (by simp)
      (by intro c h; simp at h; subst h; exact hop)
  | url u =>
    obtain ⟨hne, hu, _⟩ := hk
    exact rt_url env x name es u hname hes hne hu

theorem strLen_at3 (u : List Char) : strLen (' ' :: '@' :: ' ' :: u) = 3 + strLen u := by
  have h1 : utf8Len ' ' = 1 := by decide
  have h2 : utf8Len '@' = 1 := by decide
  simp only [strLen_cons, h1, h2]; omega

/-- round trip with a marker, relative to the marker parser's result on the marker text -/
theorem showReq_parse_marker (env : ProcEnv) (x : Ext) (r : ReqVal) (hwf : r.WF) (m : List Char)
    (hm : r.marker = some m) (st : PState)
    (hst : parseMarkersCursor x (4 * (showReq r).length + 16) ⟨showReq r, m, r.markerPos⟩ = .ok st) :
    parseRequirement env x (showReq r) = ⟨r.expCalls, r.expFin st⟩ := by
  obtain ⟨name, es, kind, mk⟩ := r
  obtain ⟨hname, hes, hk⟩ := hwf
  simp only at hm hname hes hk
  subst hm
  rw [showReq_eq] at hst ⊢
  cases kind with
  | none =>
    exact rt_none_marker env x name es m hname hes hk st hst
  | specs ts =>
    obtain ⟨⟨ch, tl, ts', rfl, hop⟩, hts⟩ := hk
    exact rt_specs_marker env x name es (ch :: tl) ts' m hname hes hts (by simp)
      (by intro c h; simp at h; subst h; exact hop) st hst
  | url u =>
    obtain ⟨hne, hu, hl⟩ := hk
    have hp : (⟨name, es, .url u, some m⟩ : ReqVal).markerPos =
        strLen name + strLen (extrasTxt es) + 3 + strLen u + 3 := by
      simp only [ReqVal.markerPos, ReqVal.pos, kindTxt, strLen_at3]; omega
    rw [hp] at hst
    exact rt_url_marker env x name es u m hname hes hne hu (hl rfl) st hst

/-! ### consequences -/

/-- the tail stage never changes the recorded calls -/
theorem tailStage_calls (x : Ext) (inp : List Char) (start ns ne : Nat) (nm : List Nat) (ex : List (List Nat))
    (calls : List ExtCall) (res : Res (ReqKind × Cursor)) :
    (tailStage x inp start ns ne nm ex (calls, res)).calls = calls := by
  cases res with
  | err e => rfl
  | panic s => rfl
  | ok v =>
    obtain ⟨kind, c⟩ := v
    unfold tailStage
    dsimp only
    cases c.slice ns (ne - ns) with
    | none => rfl
    | some n =>
      dsimp only
      by_cases h : (kind.isNone && looksLikeArchive n) = true
      · simp only [h, if_true]
      · simp only [h, Bool.false_eq_true, if_false]
        cases markerStage x inp c.eatWhitespace with
        | err e => rfl
        | panic s => rfl
        | ok v =>
          obtain ⟨mk, w, c2⟩ := v
          dsimp only
          cases c2.eatWhitespace.next with
          | some v =>
            obtain ⟨⟨pos, ch⟩, c3⟩ := v
            dsimp only
            by_cases h2 : kind.isUrl = true
            · simp only [h2, if_true]
            · simp only [h2, Bool.false_eq_true, if_false]
          | none =>
            dsimp only
            by_cases h2 : (mk.isSome && kind.isUrl) = true
            · simp only [h2, if_true]
            · simp only [h2, Bool.false_eq_true, if_false]

/-- the calls issued for a printed requirement do not depend on the marker at all -/
theorem showReq_calls (env : ProcEnv) (x : Ext) (r : ReqVal) (hwf : r.WF) :
    (parseRequirement env x (showReq r)).calls = r.expCalls := by
  cases hm : r.marker with
  | none => rw [showReq_parse env x r hwf hm]
  | some m =>
    obtain ⟨name, es, kind, mk⟩ := r
    obtain ⟨hname, hes, hk⟩ := hwf
    simp only at hm hname hes hk
    subst hm
    rw [showReq_eq]
    cases kind with
    | none =>
      have hsp : isWs ' ' = true := by decide
      have hsemi : isWs ';' = false := by decide
      simp only [kindTxt, markerTxt, List.nil_append]
      rw [parse_front env x name es _ hname hes
        (by intro ch h; simp at h; subst h; exact not_nameChar_semi_sp)
        (by intro ch h; simp [hsp, hsemi] at h; subst h; decide)]
      have hew := eatWhitespace_ws (name ++ (extrasTxt es ++ ' ' :: ';' :: ' ' :: m)) [' '] (';' :: ' ' :: m)
        (strLen name + strLen (extrasTxt es))
        (by intro c h; simp at h; subst h; exact hsp) (by intro c h; simp at h; subst h; exact hsemi)
      simp only [List.singleton_append] at hew
      rw [hew, kindStage_none env 0 0 _ (by intro ch h; simp at h; exact h.symm), tailStage_calls]
      rfl
    | specs ts =>
      obtain ⟨⟨ch, tl, ts', rfl, hop⟩, hts⟩ := hk
      have hshape : joinComma ((ch :: tl) :: ts') ++ markerTxt (some m) =
          joinComma (addBlank ((ch :: tl) :: ts')) ++ (';' :: ' ' :: m) := by
        rw [joinComma_addBlank]; simp [markerTxt]
      simp only [kindTxt]
      rw [hshape]
      obtain ⟨t', ts'', hab, hh, hn⟩ := addBlank_cons (ch :: tl) ts'
      have hts' := specTxt_addBlank _ hts
      have hexp : (⟨name, es, .specs ((ch :: tl) :: ts'), some m⟩ : ReqVal).expCalls =
          specCalls (strLen name + strLen (extrasTxt es)) (addBlank ((ch :: tl) :: ts')) := rfl
      rw [hexp]
      rw [hab] at hts' ⊢
      rw [rt_specs_gen env x name es t' ts'' _ hname hes hts' (hn (by simp))
        (by rw [hh (by simp)]; intro c h; simp at h; subst h; exact hop) (.inr ⟨_, rfl⟩), tailStage_calls]
    | url u =>
      obtain ⟨hne, hu, hl⟩ := hk
      simp only [kindTxt, markerTxt, List.cons_append]
      rw [rt_url_gen env x name es u _ hname hes hne hu (.inr ⟨_, rfl⟩) (fun _ => hl rfl), tailStage_calls]
      rfl

/-- … hence every recorded call is given exactly the slice of the printed text at its span -/
theorem showReq_calls_ok (env : ProcEnv) (x : Ext) (r : ReqVal) (hwf : r.WF) :
    CallsOK (showReq r) r.expCalls := by
  rw [← showReq_calls env x r hwf]
  exact parseRequirement_calls env x (showReq r)

/-- `markerPos` is the position of the marker text in the printed requirement -/
theorem markerPos_inv (r : ReqVal) (m : List Char) (hm : r.marker = some m) :
    Inv ⟨showReq r, m, r.markerPos⟩ := by
  refine ⟨r.name ++ extrasTxt r.extras ++ kindTxt r.kind ++ [' ', ';', ' '], ?_, ?_⟩
  · rw [showReq_eq, hm]; simp [markerTxt]
  · have h1 : utf8Len ' ' = 1 := by decide
    have h2 : utf8Len ';' = 1 := by decide
    simp only [ReqVal.markerPos, ReqVal.pos, strLen_append, strLen_cons, strLen_nil, h1, h2]

/-- the parser never rejects a printed well-formed requirement (as long as the marker parser accepts
the marker text) -/
theorem showReq_never_rejected (env : ProcEnv) (x : Ext) (r : ReqVal) (hwf : r.WF)
    (hmk : ∀ m, r.marker = some m →
      ∃ st, parseMarkersCursor x (4 * (showReq r).length + 16) ⟨showReq r, m, r.markerPos⟩ = .ok st) :
    (∀ e, (parseRequirement env x (showReq r)).fin ≠ .err e) ∧
    (∀ s, (parseRequirement env x (showReq r)).fin ≠ .panic s) ∧
    (∀ alts other, (parseRequirement env x (showReq r)).fin ≠ .urlEnds alts other) := by
  cases hm : r.marker with
  | none =>
    rw [showReq_parse env x r hwf hm]
    exact ⟨fun e h => by simp at h, fun s h => by simp at h, fun a o h => by simp at h⟩
  | some m =>
    obtain ⟨st, hst⟩ := hmk m hm
    rw [showReq_parse_marker env x r hwf m hm st hst]
    have : (∃ ok, r.expFin st = .ok ok) ∨ (∃ alts ok, r.expFin st = .urlEndsOk alts ok) := by
      unfold ReqVal.expFin
      split
      · split
        · exact .inr ⟨_, _, rfl⟩
        · exact .inl ⟨_, rfl⟩
      · exact .inl ⟨_, rfl⟩
    rcases this with ⟨ok, h⟩ | ⟨alts, ok, h⟩ <;>
    · simp only [h]
      exact ⟨fun e h => by simp at h, fun s h => by simp at h, fun a o h => by simp at h⟩

/-- a name without a dot (every normalized name) never looks like an archive file name -/
theorem looksLikeArchive_of_no_dot (name : List Char) (h : '.' ∉ name) : looksLikeArchive name = false := by
  unfold looksLikeArchive
  split
  · rfl
  · rw [pathExtension_none h]

/-- executable check of `NameWF` (for concrete instances) -/
def nameOk (s : List Char) : Bool :=
  (match s.head? with | some c => isAsciiAlnum c | none => false) && s.all isNameChar &&
  (match s.getLast? with | some c => isAsciiAlnum c | none => false)

theorem nameOk_wf {s : List Char} (h : nameOk s = true) : NameWF s := by
  simp only [nameOk, Bool.and_eq_true, List.all_eq_true] at h
  obtain ⟨⟨h1, h2⟩, h3⟩ := h
  refine ⟨?_, ?_, h2, ?_⟩
  · intro h0; subst h0; simp at h1
  · intro ch hc; rw [hc] at h1; exact h1
  · intro ch hc; rw [hc] at h3; exact h3

theorem normName_fixed (s : List Char) (h : Names.normSpec (s.map Char.toNat) = s.map Char.toNat) :
    normName s = s.map Char.toNat := h

end Pep508
