/-
The per-diagram inhabitation hypothesis of C13 (`Tree.EdgesInh`) from RELATIVE inhabitation: if
every valid interval with bounds in `P` is inhabited (`Inhabits P`) then every edge of a well-formed
diagram whose bounds satisfy `P` is inhabited.  At the model's value type `Val`, `P := SepV`.
-/
import Pep508.Proofs.ExtrasExact
import Pep508.Proofs.CanonRel
set_option linter.unusedSectionVars false
namespace Pep508
variable {νr νb α : Type}
variable [LT α] [LE α] [Std.IsLinearOrder α] [Std.LawfulOrderLT α] [DecidableLT α] [DecidableEq α]
variable [LT νr] [LE νr] [Std.IsLinearOrder νr] [Std.LawfulOrderLT νr] [DecidableLT νr] [DecidableEq νr]
variable [LT νb] [LE νb] [Std.IsLinearOrder νb] [Std.LawfulOrderLT νb] [DecidableLT νb] [DecidableEq νb]

mutual
theorem Tree.EdgesInh_of_OK_rel (P : α → Prop) (inh : Inhabits P) :
    ∀ (t : Tree νr νb α), t.OK → t.AllB P → t.EdgesInh
  | .leaf _, _, _ => trivial
  | .rng _ es, h, hb => Edges.AllInh_of_OKAll_rel P inh es h.1 hb
  | .bool _ hi lo, h, hb =>
    ⟨Tree.EdgesInh_of_OK_rel P inh hi h.1 hb.1, Tree.EdgesInh_of_OK_rel P inh lo h.2 hb.2⟩
theorem Edges.AllInh_of_OKAll_rel (P : α → Prop) (inh : Inhabits P) :
    ∀ (es : Edges νr νb α), es.OKAll → es.AllB P → es.AllInh
  | .nil, _, _ => trivial
  | .cons iv t rest, h, hb =>
    ⟨inh iv h.1 hb.1, Tree.EdgesInh_of_OK_rel P inh t h.2.1 hb.2.1,
      Edges.AllInh_of_OKAll_rel P inh rest h.2.2 hb.2.2⟩
end

/-- every edge of a well-formed diagram with bounds in `P` is inhabited -/
theorem Tree.EdgesInh_of_wf_rel (P : α → Prop) (inh : Inhabits P) (t : Tree νr νb α)
    (h : t.wf = true) (hb : t.AllB P) : t.EdgesInh :=
  Tree.EdgesInh_of_OK_rel P inh t (Tree.OK_of_wf t h) hb

/-- **exactness of `evalExtras`, relative form** -/
theorem evalExtras_exact_rel [Nonempty α] (P : α → Prop) (inh : Inhabits P)
    (ex : νb → Option Bool) (t : Tree νr νb α) (hwf : t.wf = true) (hb : t.AllB P)
    (h : t.evalExtras ex = true) :
    ∃ ρ : Env νr νb α, (∀ v b, ex v = some b → ρ.bv v = b) ∧ t.eval ρ = true :=
  evalExtras_exact_of_edgesInh ex t hwf (Tree.EdgesInh_of_wf_rel P inh t hwf hb) h

end Pep508
