/-
C17 — classification of the typed dispatch of `l op r`: every uninterpretable comparison is
reported with the right warning kind and dropped; nothing is dropped silently.
-/
import Pep508.Model.MarkerParse
namespace Pep508

/-- the warning kind the reporter must receive for an uninterpretable comparison -/
def uninterpretable (l : MValue) (op : MOp) (r : MValue) : Option WarnKind :=
  match l, r with
  | .quoted _, .quoted _ => some .stringStringComparison           -- two literals
  | .verKey _, .verKey _ | .verKey _, .strKey _ | .verKey _, .extra => some .pep440Error   -- version key against a non-literal
  | .strKey _, .verKey _ | .strKey _, .strKey _ | .strKey _, .extra => some .markerMarkerComparison  -- two keys
  | .extra, .verKey _ | .extra, .strKey _ | .extra, .extra => some .extraInvalidComparison
  | .strKey _, .quoted _ | .quoted _, .strKey _ => if op = .tilde then some .lexicographicComparison else none
  | .extra, .quoted _ | .quoted _, .extra => if op = .eq ∨ op = .ne then none else some .extraInvalidComparison
  | _, _ => none

theorem parseExtraExpr_fst (op : MOp) (value : List Char) :
    (parseExtraExpr op value).1 = none ↔ ¬ (op = .eq ∨ op = .ne) := by
  unfold parseExtraExpr
  cases op <;> simp

theorem parseExtraExpr_snd_of_ne (op : MOp) (value : List Char) (h : ¬ (op = .eq ∨ op = .ne)) :
    WarnKind.extraInvalidComparison ∈ (parseExtraExpr op value).2 := by
  unfold parseExtraExpr
  cases op <;> simp at h ⊢

/-- (a) an uninterpretable comparison is reported with the required kind and dropped -/
theorem dispatch_uninterpretable (x : Ext) (l : MValue) (op : MOp) (r : MValue) (k : WarnKind) :
    uninterpretable l op r = some k →
      (dispatch x l op r).1 = none ∧ k ∈ (dispatch x l op r).2 := by
  intro h
  cases l <;> cases r <;> simp only [uninterpretable, Option.some.injEq, reduceCtorEq] at h
  all_goals try (subst h; simp [dispatch])
  · -- strKey, quoted
    by_cases ht : op = .tilde
    · subst ht; simp at h; subst h; simp [dispatch, MOp.toSOp]
    · simp [ht] at h
  · -- extra, quoted
    by_cases ho : op = .eq ∨ op = .ne
    · simp [ho] at h
    · simp only [ho, if_false, Option.some.injEq] at h
      subst h
      simp only [dispatch]
      exact ⟨(parseExtraExpr_fst _ _).2 ho, parseExtraExpr_snd_of_ne _ _ ho⟩
  · -- quoted, strKey
    by_cases ht : op = .tilde
    · subst ht; simp at h; subst h; simp [dispatch, MOp.toSOp, MOp.invert]
    · simp [ht] at h
  · -- quoted, extra
    by_cases ho : op = .eq ∨ op = .ne
    · simp [ho] at h
    · simp only [ho, if_false, Option.some.injEq] at h
      subst h
      simp only [dispatch]
      exact ⟨(parseExtraExpr_fst _ _).2 ho, parseExtraExpr_snd_of_ne _ _ ho⟩

theorem parseVersionExpr_shape (x : Ext) (key : VKey) (op : MOp) (value : List Char) :
    parseVersionExpr x key op value = (none, [.pep440Error]) ∨
    ∃ spec, parseVersionExpr x key op value = (some (.version key spec), []) := by
  unfold parseVersionExpr
  cases x.pat value with
  | none => exact .inl rfl
  | some p =>
    obtain ⟨v, star⟩ := p
    dsimp only
    cases op.toPep440 with
    | none => exact .inl rfl
    | some o =>
      dsimp only
      generalize (if star = true then
        (match o with | .eq => some Op.eqStar | .ne => some Op.neStar | _ => none) else some o) = o'
      cases o' with
      | none => exact .inl rfl
      | some o'' =>
        dsimp only
        cases fromVersion o'' v with
        | none => exact .inl rfl
        | some spec => exact .inr ⟨spec, rfl⟩

theorem parseInvertedVersionExpr_shape (x : Ext) (value : List Char) (op : MOp) (key : VKey) :
    parseInvertedVersionExpr x value op key = (none, [.pep440Error]) ∨
    ∃ spec, parseInvertedVersionExpr x value op key = (some (.version key spec), []) := by
  unfold parseInvertedVersionExpr
  cases x.ver value with
  | none => exact .inl rfl
  | some v =>
    dsimp only
    cases op.invert.toPep440 with
    | none => exact .inl rfl
    | some o =>
      dsimp only
      cases fromVersion o v with
      | none => exact .inl rfl
      | some spec => exact .inr ⟨spec, rfl⟩

theorem parseVersionExpr_none_warn (x : Ext) (key : VKey) (op : MOp) (value : List Char) :
    (parseVersionExpr x key op value).1 = none → (parseVersionExpr x key op value).2 ≠ [] := by
  rcases parseVersionExpr_shape x key op value with h | ⟨spec, h⟩ <;> simp [h]

theorem parseVersionExpr_some_nowarn (x : Ext) (key : VKey) (op : MOp) (value : List Char) (e : MExpr) :
    (parseVersionExpr x key op value).1 = some e → (parseVersionExpr x key op value).2 = [] := by
  rcases parseVersionExpr_shape x key op value with h | ⟨spec, h⟩ <;> simp [h]

theorem parseInvertedVersionExpr_none_warn (x : Ext) (value : List Char) (op : MOp) (key : VKey) :
    (parseInvertedVersionExpr x value op key).1 = none →
      (parseInvertedVersionExpr x value op key).2 ≠ [] := by
  rcases parseInvertedVersionExpr_shape x value op key with h | ⟨spec, h⟩ <;> simp [h]

theorem parseInvertedVersionExpr_some_nowarn (x : Ext) (value : List Char) (op : MOp) (key : VKey)
    (e : MExpr) :
    (parseInvertedVersionExpr x value op key).1 = some e →
      (parseInvertedVersionExpr x value op key).2 = [] := by
  rcases parseInvertedVersionExpr_shape x value op key with h | ⟨spec, h⟩ <;> simp [h]

theorem parseExtraExpr_none_warn (op : MOp) (value : List Char) :
    (parseExtraExpr op value).1 = none → (parseExtraExpr op value).2 ≠ [] := by
  unfold parseExtraExpr
  cases op <;> simp

/-- `in` / `not in` have no PEP 440 operator, so the fallback of `parse_version_in_expr` drops -/
theorem parseVersionExpr_in_none (x : Ext) (key : VKey) (op : MOp) (value : List Char)
    (h : op = .isIn ∨ op = .notIn) : (parseVersionExpr x key op value).1 = none := by
  unfold parseVersionExpr
  rcases h with rfl | rfl <;> (cases x.pat value <;> simp [MOp.toPep440])

/-- (b) nothing is dropped silently -/
theorem dispatch_none_warns (x : Ext) (l : MValue) (op : MOp) (r : MValue) :
    (dispatch x l op r).1 = none → (dispatch x l op r).2 ≠ [] := by
  cases l <;> cases r <;> simp only [dispatch]
  all_goals try (intro _; simp; done)
  · -- verKey, quoted
    rename_i key value
    by_cases hin : (op == .isIn || op == .notIn) = true
    · simp only [hin, if_true]
      cases splitVersions x (value.length + 1) value [] <;> simp
    · simp only [hin]
      exact parseVersionExpr_none_warn x key op value
  · -- strKey, quoted
    cases op.toSOp <;> simp
  · exact parseExtraExpr_none_warn _ _
  · exact parseInvertedVersionExpr_none_warn _ _ _ _
  · cases op.invert.toSOp <;> simp
  · exact parseExtraExpr_none_warn _ _

/-- (c1) string key against a literal, any operator but `~=`: interpreted, silently -/
theorem dispatch_strKey_quoted (x : Ext) (k : SKey) (op : MOp) (v : List Char) (h : op ≠ .tilde) :
    ∃ sop, op.toSOp = some sop ∧
      dispatch x (.strKey k) op (.quoted v) = (some (.string k sop (String.ofList v)), []) := by
  cases op <;> simp [dispatch, MOp.toSOp] at h ⊢

/-- (c1') literal against a string key (inverted), any operator but `~=` -/
theorem dispatch_quoted_strKey (x : Ext) (k : SKey) (op : MOp) (v : List Char) (h : op ≠ .tilde) :
    ∃ sop, op.invert.toSOp = some sop ∧
      dispatch x (.quoted v) op (.strKey k) = (some (.string k sop (String.ofList v)), []) := by
  cases op <;> simp [dispatch, MOp.toSOp, MOp.invert] at h ⊢

/-- (c2) `extra ==/!= 'valid name'` (either order): interpreted, silently -/
theorem dispatch_extra_valid (x : Ext) (op : MOp) (v : List Char) (n : List Nat)
    (hop : op = .eq ∨ op = .ne) (hv : Names.validateRef (bytesOfChars v) = some n) :
    dispatch x .extra op (.quoted v) = (some (.extra (op == .ne) (.extra (stringOfByteList n))), []) ∧
    dispatch x (.quoted v) op .extra = (some (.extra (op == .ne) (.extra (stringOfByteList n))), []) := by
  rcases hop with rfl | rfl <;> simp [dispatch, parseExtraExpr, hv]

/-- (c3) `extra ==/!= 'invalid name'`: kept as an arbitrary string, with exactly one warning -/
theorem dispatch_extra_invalid (x : Ext) (op : MOp) (v : List Char)
    (hop : op = .eq ∨ op = .ne) (hv : Names.validateRef (bytesOfChars v) = none) :
    dispatch x .extra op (.quoted v)
      = (some (.extra (op == .ne) (.arbitrary (String.ofList v))), [.extraInvalidComparison]) ∧
    dispatch x (.quoted v) op .extra
      = (some (.extra (op == .ne) (.arbitrary (String.ofList v))), [.extraInvalidComparison]) := by
  rcases hop with rfl | rfl <;> simp [dispatch, parseExtraExpr, hv]

/-- (d) version key against a literal (either order): an interpreted result carries no warning -/
theorem dispatch_verKey_quoted_some (x : Ext) (k : VKey) (op : MOp) (v : List Char) (e : MExpr) :
    (dispatch x (.verKey k) op (.quoted v)).1 = some e → (dispatch x (.verKey k) op (.quoted v)).2 = [] := by
  simp only [dispatch]
  by_cases hin : (op == .isIn || op == .notIn) = true
  · simp only [hin, if_true]
    cases splitVersions x (v.length + 1) v [] with
    | some vs => simp
    | none =>
      have hn := parseVersionExpr_in_none x k op v (by simpa using hin)
      simp [hn]
  · simp only [hin]
    exact parseVersionExpr_some_nowarn x k op v e

theorem dispatch_quoted_verKey_some (x : Ext) (k : VKey) (op : MOp) (v : List Char) (e : MExpr) :
    (dispatch x (.quoted v) op (.verKey k)).1 = some e → (dispatch x (.quoted v) op (.verKey k)).2 = [] := by
  simp only [dispatch]
  exact parseInvertedVersionExpr_some_nowarn x v op k e

/-- (e) chain builder: a dropped operand leaves the chain unchanged -/
theorem combine_none_right (isAnd : Bool) (acc : Option MTree) : combine isAnd acc none = acc := by
  cases acc <;> rfl

theorem combine_none_left (isAnd : Bool) (t : MTree) : combine isAnd none (some t) = some t := rfl

end Pep508
