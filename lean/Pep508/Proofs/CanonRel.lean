/-
Relative canonicity: C03 (`canonical`) asks the value order to be dense without end points, because
its witnesses are points of valid intervals.  Only intervals whose bounds OCCUR IN THE TWO DIAGRAMS
are ever used; so for any property `P` of values such that every valid interval with bounds in `P`
is inhabited (`Inh`), two well-formed diagrams all of whose bounds satisfy `P` and that agree in
every environment are identical — over ANY linear order (in particular the model's `Val`, which has
a least element and adjacent strings).

The proof is `Canon.lean` with the bound predicate threaded through.
-/
import Pep508.Proofs.Canon
import Pep508.Proofs.BoundsIn
set_option linter.unusedSectionVars false
namespace Pep508
variable {νr νb α : Type}
variable [LT α] [LE α] [Std.IsLinearOrder α] [Std.LawfulOrderLT α] [DecidableLT α] [DecidableEq α]
variable [LT νr] [LE νr] [Std.IsLinearOrder νr] [Std.LawfulOrderLT νr] [DecidableLT νr] [DecidableEq νr]
variable [LT νb] [LE νb] [Std.IsLinearOrder νb] [Std.LawfulOrderLT νb] [DecidableLT νb] [DecidableEq νb]

/-- every valid interval whose bounds satisfy `P` contains a value -/
def Inhabits (P : α → Prop) : Prop :=
  ∀ iv : Ivl α, iv.valid = true → Ivl.Kind P iv → ∃ a, iv.mem a = true

theorem Kind_minHi (P : α → Prop) (a b : Bnd α) (ha : Bnd.Kind P a) (hb : Bnd.Kind P b) :
    Bnd.Kind P (Bnd.minHi a b) := by
  cases a <;> cases b <;> simp only [Bnd.minHi] <;> first
    | trivial | (split <;> assumption) | assumption

theorem Bnd.exists_between_rel (P : α → Prop) (inh : Inhabits P) (cur h1 h2 n hi' : Bnd α)
    (hv : (Ivl.mk cur h1).valid = true) (hf : h1.flipHi = some n)
    (hlt : (Ivl.mk n h2).valid = true) (hv' : (Ivl.mk n hi').valid = true)
    (kn : Bnd.Kind P n) (k2 : Bnd.Kind P h2) (k' : Bnd.Kind P hi') :
    ∃ a, cur.loOk a = true ∧ h1.hiOk a = false ∧ n.loOk a = true ∧ hi'.hiOk a = true ∧
      h2.hiOk a = true := by
  obtain ⟨a, ha⟩ := inh _ (Ivl.valid_minHi n hi' h2 hv' hlt) ⟨kn, Kind_minHi P _ _ k' k2⟩
  simp only [Ivl.mem, Bnd.hiOk_minHi, Bool.and_eq_true] at ha
  exact ⟨a, Bnd.loOk_of_after cur h1 n a hv hf ha.1, Bnd.flipHi_disjoint h1 n a hf ha.1, ha.1,
    ha.2.1, ha.2.2⟩

theorem partition_hiLt_absurd_rel (P : α → Prop) (inh : Inhabits P) (cur : Bnd α)
    (e1 e2 : Ivl α × Tree νr νb α) (rest : EdgeL νr νb α) (f : Ivl α × Tree νr νb α)
    (fs : EdgeL νr νb α)
    (hes : partitionFrom cur (e1 :: e2 :: rest) = true)
    (hfs : partitionFrom cur (f :: fs) = true)
    (ke1 : Ivl.Kind P e1.1) (ke2 : Ivl.Kind P e2.1) (kf : Ivl.Kind P f.1)
    (hlt : Bnd.hiLt e1.1.hi f.1.hi)
    (H : ∀ (ρ : Env νr νb α) a, cur.loOk a = true →
      evalL ρ a (e1 :: e2 :: rest) = evalL ρ a (f :: fs))
    (IH1 : Tree.equiv e1.2 f.2 → e1.2 = f.2) (IH2 : Tree.equiv e2.2 f.2 → e2.2 = f.2) : False := by
  obtain ⟨hlo1, hv1⟩ := partitionFrom_head cur e1 _ hes
  obtain ⟨hne, n, hn, hes2⟩ := partitionFrom_cons2 cur e1 e2 rest hes
  obtain ⟨hlo2, hv2⟩ := partitionFrom_head n e2 _ hes2
  obtain ⟨hlof, hvf⟩ := partitionFrom_head cur f _ hfs
  obtain ⟨n', hn', hlt'⟩ := hlt
  rw [hn] at hn'
  cases hn'
  obtain ⟨iv1, c1⟩ := e1
  obtain ⟨iv2, c2⟩ := e2
  obtain ⟨jv, d⟩ := f
  obtain ⟨lo1, hi1⟩ := iv1
  obtain ⟨lo2, hi2⟩ := iv2
  obtain ⟨loj, hij⟩ := jv
  simp only at hlo1 hlo2 hlof hn hlt' IH1 IH2 hne hv1 hv2 hvf ke1 ke2 kf
  subst hlo1 hlo2
  subst hlof
  apply hne
  have e1 : Tree.equiv c1 d := by
    obtain ⟨a, ha⟩ := inh _ (Ivl.valid_minHi loj hi1 hij hv1 hvf) ⟨kf.1, Kind_minHi P _ _ ke1.2 kf.2⟩
    simp only [Ivl.mem, Bnd.hiOk_minHi, Bool.and_eq_true] at ha
    intro ρ
    have := H ρ a ha.1
    simpa [evalL, Ivl.mem, ha.1, ha.2.1, ha.2.2] using this
  have e2 : Tree.equiv c2 d := by
    obtain ⟨a, h1, h2, h3, h4, h5⟩ := Bnd.exists_between_rel P inh loj hi1 hij lo2 hi2 hv1 hn hlt' hv2
      ke2.1 kf.2 ke2.2
    intro ρ
    have := H ρ a h1
    simpa [evalL, Ivl.mem, h1, h2, h3, h4, h5] using this
  rw [IH1 e1, IH2 e2]

theorem partition_unique_rel (P : α → Prop) (inh : Inhabits P) :
    ∀ (es fs : EdgeL νr νb α) (cur : Bnd α),
    partitionFrom cur es = true → partitionFrom cur fs = true →
    (∀ e ∈ es, Ivl.Kind P e.1) → (∀ f ∈ fs, Ivl.Kind P f.1) →
    (∀ (ρ : Env νr νb α) a, cur.loOk a = true → evalL ρ a es = evalL ρ a fs) →
    (∀ e ∈ es, ∀ f ∈ fs, Tree.equiv e.2 f.2 → e.2 = f.2) → es = fs := by
  intro es
  induction es with
  | nil => intro fs cur h; simp [partitionFrom] at h
  | cons e rest ih =>
    intro fs cur hes hfs kes kfs H IH
    cases fs with
    | nil => simp [partitionFrom] at hfs
    | cons f frest =>
      obtain ⟨hlo1, hv1⟩ := partitionFrom_head cur e _ hes
      obtain ⟨hlof, hvf⟩ := partitionFrom_head cur f _ hfs
      have IHef := IH e (by simp) f (by simp)
      have ke := kes e (by simp)
      have kf := kfs f (by simp)
      rcases Bnd.hi_trichotomy e.1.hi f.1.hi with heq | hlt | hlt
      · have hiv : e.1 = f.1 := by
          obtain ⟨⟨lo1, hi1⟩, c⟩ := e
          obtain ⟨⟨lo2, hi2⟩, d⟩ := f
          simp only at hlo1 hlof heq
          simp [hlo1, hlof, heq]
        have hcd : e.2 = f.2 := by
          apply IHef
          obtain ⟨a, ha⟩ := inh _ hv1 ke
          intro ρ
          have hla : cur.loOk a = true := by
            rw [← hlo1]; simp only [Ivl.mem, Bool.and_eq_true] at ha; exact ha.1
          have := H ρ a hla
          have ha' : f.1.mem a = true := hiv ▸ ha
          simpa [evalL, ha, ha'] using this
        have hef : e = f := Prod.ext hiv hcd
        subst hef
        cases rest with
        | nil =>
          cases frest with
          | nil => rfl
          | cons f2 frest2 =>
            have h1 := partitionFrom_single cur e hes
            obtain ⟨_, n, hn, _⟩ := partitionFrom_cons2 cur e f2 frest2 hfs
            simp [h1, Bnd.flipHi] at hn
        | cons e2 rest2 =>
          cases frest with
          | nil =>
            have h1 := partitionFrom_single cur e hfs
            obtain ⟨_, n, hn, _⟩ := partitionFrom_cons2 cur e e2 rest2 hes
            simp [h1, Bnd.flipHi] at hn
          | cons f2 frest2 =>
            obtain ⟨_, n, hn, hes2⟩ := partitionFrom_cons2 cur e e2 rest2 hes
            obtain ⟨_, n', hn', hfs2⟩ := partitionFrom_cons2 cur e f2 frest2 hfs
            rw [hn] at hn'
            cases hn'
            congr 1
            apply ih (f2 :: frest2) n hes2 hfs2
              (fun e' he' => kes e' (by simp [he'])) (fun f' hf' => kfs f' (by simp [hf']))
            · intro ρ a ha
              have hla := Bnd.loOk_of_after cur e.1.hi n a (by rw [← hlo1]; exact hv1) hn ha
              have hdis := Bnd.flipHi_disjoint e.1.hi n a hn ha
              have := H ρ a hla
              simpa only [evalL, Ivl.mem, hdis, Bool.and_false, Bool.false_eq_true, if_false]
                using this
            · intro e' he' f' hf'
              exact IH e' (by simp [he']) f' (by simp [hf'])
      · exfalso
        cases rest with
        | nil =>
          have h1 := partitionFrom_single cur e hes
          obtain ⟨n, hn, _⟩ := hlt
          simp [h1, Bnd.flipHi] at hn
        | cons e2 rest2 =>
          exact partition_hiLt_absurd_rel P inh cur e e2 rest2 f frest hes hfs ke
            (kes e2 (by simp)) kf hlt H IHef (IH e2 (by simp) f (by simp))
      · exfalso
        cases frest with
        | nil =>
          have h1 := partitionFrom_single cur f hfs
          obtain ⟨n, hn, _⟩ := hlt
          simp [h1, Bnd.flipHi] at hn
        | cons f2 frest2 =>
          refine partition_hiLt_absurd_rel P inh cur f f2 frest2 e rest hfs hes kf
            (kfs f2 (by simp)) ke hlt (fun ρ a ha => (H ρ a ha).symm) ?_ ?_
          · intro h; exact (IHef (fun ρ => (h ρ).symm)).symm
          · intro h; exact (IH e (by simp) f2 (by simp) (fun ρ => (h ρ).symm)).symm

theorem rng_root_absurd_rel (P : α → Prop) (inh : Inhabits P) (v : νr) (es : Edges νr νb α)
    (y : Tree νr νb α) (hx : (Tree.rng v es).wf = true) (hy : y.wf = true)
    (kes : ∀ e ∈ es.toList, Ivl.Kind P e.1)
    (hgt : y.rootGt (.r v) = true) (h : Tree.equiv (.rng v es) y)
    (IH : ∀ e ∈ es.toList, Tree.equiv e.2 y → e.2 = y) : False := by
  simp only [Tree.wf, Bool.and_eq_true, decide_eq_true_eq] at hx
  obtain ⟨⟨hlen, hpart⟩, hall⟩ := hx
  have hev : ∀ (ρ : Env νr νb α) a, evalL ρ a es.toList = y.eval ρ := by
    intro ρ a
    rw [← Tree.eval_rng_setR ρ v a es hall, h (ρ.setR v a), Tree.eval_setR y ρ v a hy hgt]
  cases hl : es.toList with
  | nil => simp [hl] at hlen
  | cons e1 l1 =>
    cases l1 with
    | nil => simp [hl] at hlen
    | cons e2 rest =>
      rw [hl] at hpart IH hev kes
      obtain ⟨_, hv1⟩ := partitionFrom_head _ e1 _ hpart
      obtain ⟨hne, n, hn, hes2⟩ := partitionFrom_cons2 _ e1 e2 rest hpart
      obtain ⟨hlo2, hv2⟩ := partitionFrom_head n e2 _ hes2
      apply hne
      have q1 : Tree.equiv e1.2 y := by
        obtain ⟨a, ha⟩ := inh _ hv1 (kes e1 (by simp))
        intro ρ
        have := hev ρ a
        simpa [evalL, ha] using this
      have q2 : Tree.equiv e2.2 y := by
        obtain ⟨a, ha⟩ := inh _ hv2 (kes e2 (by simp))
        intro ρ
        simp only [Ivl.mem, Bool.and_eq_true] at ha
        have hla : n.loOk a = true := by rw [← hlo2]; exact ha.1
        have hdis := Bnd.flipHi_disjoint e1.1.hi n a hn hla
        have := hev ρ a
        simpa [evalL, ha.1, ha.2, Ivl.mem, hdis] using this
      rw [IH e1 (by simp) q1, IH e2 (by simp) q2]

theorem canonical_aux_rel [Inhabited α] (P : α → Prop) (inh : Inhabits P) :
    ∀ (n : Nat) (x y : Tree νr νb α),
    x.size + y.size < n → x.wf = true → y.wf = true → x.AllB P → y.AllB P → Tree.equiv x y → x = y := by
  intro n
  induction n with
  | zero => intro x y h; omega
  | succ n ih =>
    intro x y hsz hx hy bx by_ h
    have hsym : Tree.equiv y x := fun ρ => (h ρ).symm
    have rngL : ∀ v es, x = .rng v es → y.rootGt (.r v) = true → False := by
      intro v es hxe hgt
      subst hxe
      have bl := (Edges.AllB_iff P es).1 bx
      refine rng_root_absurd_rel P inh v es y hx hy (fun e he => (bl e he).1) hgt h ?_
      intro e he q
      exact ih e.2 y (by have := Tree.size_rng_child v es e he; omega)
        (Tree.wf_rng_child v es hx e he).1 hy (bl e he).2 by_ q
    have rngR : ∀ v es, y = .rng v es → x.rootGt (.r v) = true → False := by
      intro v es hye hgt
      subst hye
      have bl := (Edges.AllB_iff P es).1 by_
      refine rng_root_absurd_rel P inh v es x hy hx (fun e he => (bl e he).1) hgt hsym ?_
      intro e he q
      exact (ih x e.2 (by have := Tree.size_rng_child v es e he; omega) hx
        (Tree.wf_rng_child v es hy e he).1 bx (bl e he).2 (fun ρ => (q ρ).symm)).symm
    have boolL : ∀ v a b, x = .bool v a b → y.rootGt (.b v) = true → False := by
      intro v a b hxe hgt
      subst hxe
      have hx' := hx
      simp only [Tree.wf, Bool.and_eq_true] at hx'
      refine bool_root_absurd v a b y hx hy hgt h ?_ ?_
      · intro q; exact ih a y (by simp only [Tree.size] at hsz; omega) hx'.1.1.1.2 hy bx.1 by_ q
      · intro q; exact ih b y (by simp only [Tree.size] at hsz; omega) hx'.1.1.2 hy bx.2 by_ q
    have boolR : ∀ v a b, y = .bool v a b → x.rootGt (.b v) = true → False := by
      intro v a b hye hgt
      subst hye
      have hy' := hy
      simp only [Tree.wf, Bool.and_eq_true] at hy'
      refine bool_root_absurd v a b x hy hx hgt hsym ?_ ?_
      · intro q
        exact (ih x a (by simp only [Tree.size] at hsz; omega) hx hy'.1.1.1.2 bx by_.1
          (fun ρ => (q ρ).symm)).symm
      · intro q
        exact (ih x b (by simp only [Tree.size] at hsz; omega) hx hy'.1.1.2 bx by_.2
          (fun ρ => (q ρ).symm)).symm
    cases x with
    | leaf b =>
      cases y with
      | leaf b' =>
        have := h ⟨fun _ => default, fun _ => false⟩
        simpa [Tree.eval] using this
      | rng w fs => exact (rngR w fs rfl rfl).elim
      | bool w c d => exact (boolR w c d rfl rfl).elim
    | rng v es =>
      cases y with
      | leaf b' => exact (rngL v es rfl rfl).elim
      | rng w fs =>
        by_cases c1 : v < w
        · exact (rngL v es rfl (by simp [Tree.rootGt, Rank.lt, c1])).elim
        by_cases c2 : w < v
        · exact (rngR w fs rfl (by simp [Tree.rootGt, Rank.lt, c2])).elim
        have hv : v = w := lt_asymm' c1 c2
        subst hv
        have hx' := hx
        have hy' := hy
        simp only [Tree.wf, Bool.and_eq_true] at hx' hy'
        have blx := (Edges.AllB_iff P es).1 bx
        have bly := (Edges.AllB_iff P fs).1 by_
        have hl : es.toList = fs.toList := by
          apply partition_unique_rel P inh es.toList fs.toList .unb hx'.1.2 hy'.1.2
            (fun e he => (blx e he).1) (fun f hf => (bly f hf).1)
          · intro ρ a _
            rw [← Tree.eval_rng_setR ρ v a es hx'.2, ← Tree.eval_rng_setR ρ v a fs hy'.2]
            exact h _
          · intro e he f hf q
            exact ih e.2 f.2 (by
              have := Tree.size_rng_child v es e he
              have := Tree.size_rng_child v fs f hf
              omega) (Tree.wf_rng_child v es hx e he).1 (Tree.wf_rng_child v fs hy f hf).1
              (blx e he).2 (bly f hf).2 q
        rw [← Edges.ofList_toList es, ← Edges.ofList_toList fs, hl]
      | bool w c d => exact (rngL v es rfl rfl).elim
    | bool v a b =>
      cases y with
      | leaf b' => exact (boolL v a b rfl rfl).elim
      | rng w fs => exact (rngR w fs rfl rfl).elim
      | bool w c d =>
        by_cases c1 : v < w
        · exact (boolL v a b rfl (by simp [Tree.rootGt, Rank.lt, c1])).elim
        by_cases c2 : w < v
        · exact (boolR w c d rfl (by simp [Tree.rootGt, Rank.lt, c2])).elim
        have hv : v = w := lt_asymm' c1 c2
        subst hv
        have hx' := hx
        have hy' := hy
        simp only [Tree.wf, Bool.and_eq_true] at hx' hy'
        simp only [Tree.size] at hsz
        have q1 : Tree.equiv a c := by
          intro ρ
          have := h (ρ.setB v true)
          simp only [Tree.eval, Env.setB_bv, if_true] at this
          rwa [Tree.eval_setB a ρ v true hx'.1.1.1.2 hx'.1.2,
            Tree.eval_setB c ρ v true hy'.1.1.1.2 hy'.1.2] at this
        have q2 : Tree.equiv b d := by
          intro ρ
          have := h (ρ.setB v false)
          simp only [Tree.eval, Env.setB_bv, Bool.false_eq_true, if_false] at this
          rwa [Tree.eval_setB b ρ v false hx'.1.1.2 hx'.2,
            Tree.eval_setB d ρ v false hy'.1.1.2 hy'.2] at this
        rw [ih a c (by omega) hx'.1.1.1.2 hy'.1.1.1.2 bx.1 by_.1 q1,
          ih b d (by omega) hx'.1.1.2 hy'.1.1.2 bx.2 by_.2 q2]

/-- **relative canonicity**: over any linear order, two well-formed diagrams whose bounds all satisfy
`P` — where every valid interval with bounds in `P` is inhabited — and that agree in every
environment are identical -/
theorem canonical_rel [Inhabited α] (P : α → Prop) (inh : Inhabits P) (x y : Tree νr νb α)
    (hx : x.wf = true) (hy : y.wf = true) (bx : x.AllB P) (by_ : y.AllB P)
    (h : ∀ ρ : Env νr νb α, x.eval ρ = y.eval ρ) : x = y :=
  canonical_aux_rel P inh (x.size + y.size + 1) x y (by omega) hx hy bx by_ h

/-- C03 is the instance `P := True` -/
theorem inhabits_of_dense [DenseUnbounded α] [Inhabited α] : Inhabits (fun _ : α => True) :=
  fun iv hv _ => Ivl.exists_mem_of_valid iv hv

end Pep508
