/-
C05, part 1: path collection (`collect_dnf` with `collect_edges`, inequality / star-range
recognition, `from_release_only_bounds`, `from_bounds`) is exact; and the final statement about
`to_dnf`.
-/
import Pep508.Proofs.DnfSimplify
import Pep508.Proofs.WfLemmas
set_option linter.unusedSectionVars false
set_option linter.unusedSimpArgs false
set_option linter.unusedVariables false
namespace Pep508
open Spec

/-! ### generic list facts -/

theorem any_congr_mem {β : Type} (l : List β) (f g : β → Bool) (h : ∀ a ∈ l, f a = g a) :
    l.any f = l.any g := by
  induction l with
  | nil => rfl
  | cons a rest ih =>
    simp only [List.any_cons]
    rw [h a (List.mem_cons_self), ih (fun b hb => h b (List.mem_cons_of_mem _ hb))]

theorem all_congr_mem {β : Type} (l : List β) (f g : β → Bool) (h : ∀ a ∈ l, f a = g a) :
    l.all f = l.all g := by
  induction l with
  | nil => rfl
  | cons a rest ih =>
    simp only [List.all_cons]
    rw [h a (List.mem_cons_self), ih (fun b hb => h b (List.mem_cons_of_mem _ hb))]

theorem any_and_left {β : Type} (l : List β) (b : Bool) (f : β → Bool) :
    l.any (fun a => b && f a) = (b && l.any f) := by
  induction l with
  | nil => simp
  | cons a rest ih => simp only [List.any_cons, ih]; cases b <;> simp

theorem clauseSem_append (ρ : Env VarR VarB Val) (a b : List MExpr) :
    clauseSem ρ (a ++ b) = (clauseSem ρ a && clauseSem ρ b) := by
  simp [clauseSem, List.all_append]

theorem dnfSem_append (ρ : Env VarR VarB Val) (a b : List (List MExpr)) :
    dnfSem ρ (a ++ b) = (dnfSem ρ a || dnfSem ρ b) := by
  simp [dnfSem, List.any_append]

/-! ### 1(c): boolean terms -/

theorem boolTerm_sem (ρ : Env VarR VarB Val) (v : VarB) (b : Bool) :
    termSem ρ (boolTerm v b) = (ρ.bv v == b) := by
  unfold termSem
  cases v with
  | isIn k s =>
    cases b <;> simp only [boolTerm, Bool.false_eq_true, if_false, if_true]
    · rw [eval_expression_notIn]; cases ρ.bv (.isIn k s) <;> rfl
    · rw [eval_expression_isIn]; cases ρ.bv (.isIn k s) <;> rfl
  | contains k s =>
    cases b <;> simp only [boolTerm, Bool.false_eq_true, if_false, if_true]
    · rw [eval_expression_notContains]; cases ρ.bv (.contains k s) <;> rfl
    · rw [eval_expression_contains]; cases ρ.bv (.contains k s) <;> rfl
  | extra e =>
    simp only [boolTerm]
    rw [eval_expression_extra]
    cases b <;> cases ρ.bv (.extra e) <;> rfl

/-! ### kinds of bounds -/

def Bnd.Kind {α : Type} (P : α → Prop) : Bnd α → Prop
  | .unb => True
  | .incl v => P v
  | .excl v => P v

def Ivl.Kind {α : Type} (P : α → Prop) (s : Ivl α) : Prop := Bnd.Kind P s.lo ∧ Bnd.Kind P s.hi

/-- the values a range variable is compared with: versions for version keys, strings for string
    keys -/
def kindOf : VarR → Val → Prop
  | .ver _, .ver _ => True
  | .str _, .str _ => True
  | _, _ => False

theorem kindOf_ver (k : VKey) (v : Val) (h : kindOf (.ver k) v) : v = .ver v.verOf := by
  cases v <;> simp_all [kindOf, Val.verOf]

theorem kindOf_str (k : SKey) (v : Val) (h : kindOf (.str k) v) : v = .str v.strOf := by
  cases v <;> simp_all [kindOf, Val.strOf]

/-! ### 1(b): `range_inequality` -/

theorem rangeInequality_go_spec (P : Val → Prop) (x : Val) :
    ∀ (rest : List (Ivl Val)) (prev : Ivl Val) (ex : List Val),
      rangeInequality.go prev rest = some ex →
      (∀ s ∈ prev :: rest, s.valid = true) → (∀ s ∈ prev :: rest, Ivl.Kind P s) →
      ((prev :: rest).getLast?.getD prev).hi = .unb →
      Ranges.mem (prev :: rest) x = (prev.lo.loOk x && ex.all (fun v => x != v)) ∧
        (∀ v ∈ ex, prev.lo.loOk v = true) ∧ (∀ v ∈ ex, P v)
  | [], prev, ex, hgo, hv, hk, hl => by
    simp only [rangeInequality.go, Option.some.injEq] at hgo
    subst hgo
    simp only [List.getLast?_singleton, Option.getD_some] at hl
    simp [Ranges.mem, Ivl.mem, hl, Bnd.hiOk]
  | s :: more, prev, ex, hgo, hv, hk, hl => by
    obtain ⟨plo, phi⟩ := prev
    obtain ⟨slo, shi⟩ := s
    cases phi <;> cases slo <;> simp only [rangeInequality.go, reduceCtorEq] at hgo
    rename_i v1 v2
    by_cases hvv : v1 = v2
    · subst hvv
      simp only [beq_self_eq_true, if_true, Option.map_eq_some_iff] at hgo
      obtain ⟨ex', hgo', rfl⟩ := hgo
      have hl' : (((Ivl.mk (.excl v1) shi) :: more).getLast?.getD ⟨.excl v1, shi⟩).hi = .unb := by
        rw [List.getLast?_cons_cons] at hl
        cases hm : (Ivl.mk (.excl v1) shi :: more).getLast? with
        | none => simp at hm
        | some z => rw [hm] at hl; simpa using hl
      obtain ⟨i1, i2, i3⟩ := rangeInequality_go_spec P x more ⟨.excl v1, shi⟩ ex' hgo'
        (fun s hs => hv s (List.mem_cons_of_mem _ hs))
        (fun s hs => hk s (List.mem_cons_of_mem _ hs)) hl'
      have hpv := hv ⟨plo, .excl v1⟩ (List.mem_cons_self)
      have hpk := hk ⟨plo, .excl v1⟩ (List.mem_cons_self)
      simp only [Bnd.loOk] at i2
      refine ⟨?_, ?_, ?_⟩
      · rw [Ranges.mem_cons, i1]
        simp only [Ivl.mem, Bnd.hiOk, Bnd.loOk, List.all_cons]
        have hall : decide (x < v1) = true → ex'.all (fun v => x != v) = true := by
          intro hx
          simp only [List.all_eq_true, bne_iff_ne, ne_eq]
          intro v hvm
          have := i2 v hvm
          simp only [decide_eq_true_eq] at this hx
          grind
        cases plo <;> simp only [Ivl.valid, Bnd.loOk] at hpv ⊢ <;>
          cases hall' : ex'.all (fun v => x != v) <;> simp_all <;> grind
      · intro v hvm
        simp only [List.mem_cons] at hvm
        rcases hvm with rfl | hvm
        · cases plo <;> simp only [Ivl.valid, Bnd.loOk] at hpv ⊢ <;> grind
        · have := i2 v hvm
          cases plo <;> simp only [Ivl.valid, Bnd.loOk] at hpv ⊢ <;> grind
      · intro v hvm
        simp only [List.mem_cons] at hvm
        rcases hvm with rfl | hvm
        · exact hpk.2
        · exact i3 v hvm
    · have : (v1 == v2) = false := by simpa using hvv
      simp [this] at hgo

theorem Ranges.normFrom_valid (r : Ranges Val) : ∀ (o : Option (Bnd Val)), Ranges.NormFrom o r →
    ∀ s ∈ r, s.valid = true := by
  induction r with
  | nil => intro o _ s hs; simp at hs
  | cons t rest ih =>
    intro o h s hs
    simp only [List.mem_cons] at hs
    rcases hs with rfl | hs
    · exact h.2.1
    · exact ih _ h.2.2 s hs

theorem Ranges.norm_valid (r : Ranges Val) (h : r.Norm) : ∀ s ∈ r, s.valid = true :=
  Ranges.normFrom_valid r none h

/-- `range_inequality` recognises exactly "everything except the returned points" -/
theorem rangeInequality_spec (P : Val → Prop) (r : Ranges Val) (ex : List Val)
    (h : rangeInequality r = some ex) (hn : r.Norm) (hk : ∀ s ∈ r, Ivl.Kind P s) (x : Val) :
    r.mem x = ex.all (fun v => x != v) ∧ ∀ v ∈ ex, P v := by
  cases r with
  | nil => simp [rangeInequality] at h
  | cons first rest =>
    simp only [rangeInequality] at h
    split at h
    · simp at h
    · rename_i hc
      simp only [Bool.or_eq_true, bne_iff_ne, ne_eq, not_or, Decidable.not_not] at hc
      obtain ⟨i1, _, i3⟩ := rangeInequality_go_spec P x rest first ex h (Ranges.norm_valid _ hn) hk hc.2
      refine ⟨?_, i3⟩
      rw [i1, hc.1]; simp [Bnd.loOk]

theorem rangeInequality_nil (r : Ranges Val) (h : rangeInequality r = some []) :
    r = [⟨.unb, .unb⟩] := by
  cases r with
  | nil => simp [rangeInequality] at h
  | cons first rest =>
    simp only [rangeInequality] at h
    split at h
    · simp at h
    · rename_i hc
      simp only [Bool.or_eq_true, bne_iff_ne, ne_eq, not_or, Decidable.not_not] at hc
      cases rest with
      | nil =>
        simp only [List.getLast?_singleton, Option.getD_some] at hc
        obtain ⟨lo, hi⟩ := first
        simp only at hc
        rw [hc.1, hc.2]
      | cons s more =>
        obtain ⟨plo, phi⟩ := first
        obtain ⟨slo, shi⟩ := s
        cases phi <;> cases slo <;> simp only [rangeInequality.go, reduceCtorEq] at h
        split at h <;> simp at h

/-! ### meaning of the single comparison terms -/

theorem mem_singleton_val (v x : Val) : (Ranges.singleton v).mem x = (x == v) := by
  simp only [Ranges.singleton, Ranges.mem_single, Ivl.mem, Bnd.loOk, Bnd.hiOk]
  by_cases h : x = v
  · subst h; simp [Val.lt_irrefl]
  · have : (x == v) = false := by simpa using h
    rw [this]
    by_cases h1 : x < v
    · simp [h1]
    · by_cases h2 : v < x
      · simp [h2]
      · exact absurd (Val.lt_tri x v h1 h2) h

section terms
variable (spell : Spell) (hs : ∀ v, stripZeros (spell v) = v) (ρ : Env VarR VarB Val)
include hs

theorem termSem_ver_eq (k : VKey) (hk : k ≠ .pyVer) (w : List Nat) :
    termSem ρ (.version k ⟨.eq, spell w⟩) = (ρ.rv (.ver k) == Val.ver w) := by
  rw [termSem_version ρ k _ hk]; simp only [releaseSpecToRange, hs]
  exact mem_singleton_val _ _

theorem termSem_ver_ne (k : VKey) (hk : k ≠ .pyVer) (w : List Nat) :
    termSem ρ (.version k ⟨.ne, spell w⟩) = (ρ.rv (.ver k) != Val.ver w) := by
  rw [termSem_version ρ k _ hk]; simp only [releaseSpecToRange, hs]
  rw [Ranges.mem_complement _ (Ranges.norm_singleton _), mem_singleton_val]; rfl

theorem termSem_ver_ge (k : VKey) (hk : k ≠ .pyVer) (w : List Nat) :
    termSem ρ (.version k ⟨.ge, spell w⟩) = (Bnd.incl (Val.ver w)).loOk (ρ.rv (.ver k)) := by
  rw [termSem_version ρ k _ hk]; simp only [releaseSpecToRange, hs]
  simp [Ranges.mem_single, Ivl.mem, Bnd.hiOk]

theorem termSem_ver_gt (k : VKey) (hk : k ≠ .pyVer) (w : List Nat) :
    termSem ρ (.version k ⟨.gt, spell w⟩) = (Bnd.excl (Val.ver w)).loOk (ρ.rv (.ver k)) := by
  rw [termSem_version ρ k _ hk]; simp only [releaseSpecToRange, hs]
  simp [Ranges.mem_single, Ivl.mem, Bnd.hiOk]

theorem termSem_ver_le (k : VKey) (hk : k ≠ .pyVer) (w : List Nat) :
    termSem ρ (.version k ⟨.le, spell w⟩) = (Bnd.incl (Val.ver w)).hiOk (ρ.rv (.ver k)) := by
  rw [termSem_version ρ k _ hk]; simp only [releaseSpecToRange, hs]
  simp [Ranges.mem_single, Ivl.mem, Bnd.loOk]

theorem termSem_ver_lt (k : VKey) (hk : k ≠ .pyVer) (w : List Nat) :
    termSem ρ (.version k ⟨.lt, spell w⟩) = (Bnd.excl (Val.ver w)).hiOk (ρ.rv (.ver k)) := by
  rw [termSem_version ρ k _ hk]; simp only [releaseSpecToRange, hs]
  simp [Ranges.mem_single, Ivl.mem, Bnd.loOk]

/-- the spelled two-segment prefix and its successor are the bounds of the star range -/
theorem star_bounds (w1 w2 : List Nat) (a b : Nat) (h1 : spell w1 = [a, b])
    (h2 : spell w2 = [a, b + 1]) :
    Val.ver (stripZeros [a, b]) = Val.ver w1 ∧ Val.ver (stripZeros (bumpLast [a, b])) = Val.ver w2 := by
  have e1 := hs w1
  have e2 := hs w2
  rw [h1] at e1; rw [h2] at e2
  simp only [bumpLast]
  rw [e1, e2]; exact ⟨rfl, rfl⟩

theorem termSem_ver_eqStar (k : VKey) (hk : k ≠ .pyVer) (w1 w2 : List Nat) (a b : Nat)
    (h1 : spell w1 = [a, b]) (h2 : spell w2 = [a, b + 1]) :
    termSem ρ (.version k ⟨.eqStar, [a, b]⟩) =
      (Ivl.mk (.incl (Val.ver w1)) (.excl (Val.ver w2))).mem (ρ.rv (.ver k)) := by
  obtain ⟨e1, e2⟩ := star_bounds spell hs w1 w2 a b h1 h2
  rw [termSem_version ρ k _ hk]; simp only [releaseSpecToRange]
  rw [e1, e2, Ranges.mem_ofBounds]

theorem termSem_ver_neStar (k : VKey) (hk : k ≠ .pyVer) (w1 w2 : List Nat) (a b : Nat)
    (h1 : spell w1 = [a, b]) (h2 : spell w2 = [a, b + 1]) :
    termSem ρ (.version k ⟨.neStar, [a, b]⟩) =
      !(Ivl.mk (.incl (Val.ver w1)) (.excl (Val.ver w2))).mem (ρ.rv (.ver k)) := by
  obtain ⟨e1, e2⟩ := star_bounds spell hs w1 w2 a b h1 h2
  rw [termSem_version ρ k _ hk]; simp only [releaseSpecToRange]
  rw [e1, e2, Ranges.mem_complement _ (Ranges.norm_ofBounds _ _), Ranges.mem_ofBounds]

/-- `from_release_only_bounds`: the conjunction of the specifiers of a segment is the segment -/
theorem specsOfBounds_sem (k : VKey) (hk : k ≠ .pyVer) (seg : Ivl Val)
    (hkind : Ivl.Kind (kindOf (.ver k)) seg) :
    ((specsOfBounds spell seg).map (fun s => MExpr.version k s)).all (termSem ρ) =
      seg.mem (ρ.rv (.ver k)) := by
  obtain ⟨lo, hi⟩ := seg
  obtain ⟨klo, khi⟩ := hkind
  simp only at klo khi
  have T1 := termSem_ver_ge spell hs ρ k hk
  have T2 := termSem_ver_gt spell hs ρ k hk
  have T3 := termSem_ver_le spell hs ρ k hk
  have T4 := termSem_ver_lt spell hs ρ k hk
  cases lo with
  | unb =>
    cases hi with
    | unb => simp [specsOfBounds, Ivl.mem, Bnd.loOk, Bnd.hiOk]
    | incl v =>
      obtain ⟨v, rfl⟩ : ∃ w, v = .ver w := ⟨_, kindOf_ver k v khi⟩
      simp [specsOfBounds, Ivl.mem, T3, Val.verOf, Bnd.loOk]
    | excl v =>
      obtain ⟨v, rfl⟩ : ∃ w, v = .ver w := ⟨_, kindOf_ver k v khi⟩
      simp [specsOfBounds, Ivl.mem, T4, Val.verOf, Bnd.loOk]
  | excl u =>
    obtain ⟨u, rfl⟩ : ∃ w, u = .ver w := ⟨_, kindOf_ver k u klo⟩
    cases hi with
    | unb => simp [specsOfBounds, Ivl.mem, T2, Val.verOf, Bnd.hiOk]
    | incl v =>
      obtain ⟨v, rfl⟩ : ∃ w, v = .ver w := ⟨_, kindOf_ver k v khi⟩
      simp [specsOfBounds, Ivl.mem, T2, T3, Val.verOf]
    | excl v =>
      obtain ⟨v, rfl⟩ : ∃ w, v = .ver w := ⟨_, kindOf_ver k v khi⟩
      simp [specsOfBounds, Ivl.mem, T2, T4, Val.verOf]
  | incl u =>
    obtain ⟨u, rfl⟩ : ∃ w, u = .ver w := ⟨_, kindOf_ver k u klo⟩
    cases hi with
    | unb => simp [specsOfBounds, Ivl.mem, T1, Val.verOf, Bnd.hiOk]
    | incl v =>
      obtain ⟨v, rfl⟩ : ∃ w, v = .ver w := ⟨_, kindOf_ver k v khi⟩
      by_cases huv : u = v
      · subst huv
        simp only [specsOfBounds, beq_self_eq_true, if_true, Val.verOf, List.map_cons, List.map_nil,
          List.all_cons, List.all_nil, Bool.and_true]
        rw [termSem_ver_eq spell hs ρ k hk]
        simp only [Ivl.mem, Bnd.loOk, Bnd.hiOk]
        have := mem_singleton_val (Val.ver u) (ρ.rv (.ver k))
        simp only [Ranges.singleton, Ranges.mem_single, Ivl.mem, Bnd.loOk, Bnd.hiOk] at this
        exact this.symm
      · have hne : (Val.ver u == Val.ver v) = false := by simpa using huv
        simp [specsOfBounds, hne, Ivl.mem, T1, T3, Val.verOf]
    | excl v =>
      obtain ⟨v, rfl⟩ : ∃ w, v = .ver w := ⟨_, kindOf_ver k v khi⟩
      have generic : ((([⟨.ge, spell u⟩] : List Pep508.Spec) ++ [(⟨.lt, spell v⟩ : Pep508.Spec)]).map
          (fun s => MExpr.version k s)).all (termSem ρ) =
          (Ivl.mk (.incl (Val.ver u)) (.excl (Val.ver v))).mem (ρ.rv (.ver k)) := by
        simp [Ivl.mem, T1, T4]
      simp only [specsOfBounds, Val.verOf]
      split
      · rename_i l heq
        split at heq
        · rename_i a b hab
          by_cases hb : spell v = [a, b + 1]
          · simp only [hb, beq_self_eq_true, if_true, Option.some.injEq] at heq
            subst heq
            simp only [List.map_cons, List.map_nil, List.all_cons, List.all_nil, Bool.and_true]
            exact termSem_ver_eqStar spell hs ρ k hk _ _ a b hab hb
          · simp [hb] at heq
        · simp at heq
      · exact generic

/-- `range_terms` for a version key denotes the range -/
theorem rangeTerms_ver_sem (k : VKey) (hk : k ≠ .pyVer) (r : Ranges Val) (hn : r.Norm)
    (hkind : ∀ s ∈ r, Ivl.Kind (kindOf (.ver k)) s) :
    (rangeTerms spell (.ver k) r).any (clauseSem ρ) = r.mem (ρ.rv (.ver k)) := by
  simp only [rangeTerms]
  split
  · rename_i ex hex
    obtain ⟨h1, h2⟩ := rangeInequality_spec (kindOf (.ver k)) r ex hex hn hkind (ρ.rv (.ver k))
    simp only [List.any_cons, List.any_nil, Bool.or_false, clauseSem, List.all_map]
    rw [h1]
    apply all_congr_mem
    intro v hv
    have := kindOf_ver k v (h2 v hv)
    simp only [Function.comp]
    rw [termSem_ver_ne spell hs ρ k hk, ← this]
  · split
    · rename_i s hstar
      simp only [List.any_cons, List.any_nil, Bool.or_false, clauseSem, List.all_cons, List.all_nil,
        Bool.and_true]
      -- the shape recognised by `star_range_inequality`
      unfold starRangeInequality at hstar
      split at hstar
      · rename_i v1 v2 hri
        have k1 : kindOf (.ver k) v1 := (hkind ⟨.unb, .excl v1⟩ (by simp)).2
        have k2 : kindOf (.ver k) v2 := (hkind ⟨.incl v2, .unb⟩ (by simp)).1
        obtain ⟨v1, rfl⟩ : ∃ w, v1 = .ver w := ⟨_, kindOf_ver k v1 k1⟩
        obtain ⟨v2, rfl⟩ : ∃ w, v2 = .ver w := ⟨_, kindOf_ver k v2 k2⟩
        simp only [Val.verOf] at hstar
        split at hstar
        · rename_i a b hab
          by_cases hb : spell v2 = [a, b + 1]
          · simp only [hb, beq_self_eq_true, if_true, Option.some.injEq] at hstar
            subst hstar
            rw [termSem_ver_neStar spell hs ρ k hk _ _ a b hab hb]
            simp only [Ranges.mem, List.any_cons, List.any_nil, Ivl.mem, Bnd.loOk, Bnd.hiOk]
            cases decide (ρ.rv (.ver k) < Val.ver v1) <;>
              cases decide (ρ.rv (.ver k) < Val.ver v2) <;> rfl
          · simp [hb] at hstar
        · simp at hstar
      · simp at hstar
    · simp only [List.any_map, Ranges.mem]
      apply any_congr_mem
      intro seg hseg
      simp only [Function.comp, clauseSem]
      exact specsOfBounds_sem spell hs ρ k hk seg (hkind seg hseg)

end terms

/-! ### string keys -/

section strterms
variable (spell : Spell) (ρ : Env VarR VarB Val)

theorem termSem_str_eq (k : SKey) (w : String) :
    termSem ρ (.string k .eq w) = (ρ.rv (.str k) == Val.str w) := by
  rw [termSem_string_range ρ k _ w (by simp)]; exact mem_singleton_val _ _

theorem termSem_str_ne (k : SKey) (w : String) :
    termSem ρ (.string k .ne w) = (ρ.rv (.str k) != Val.str w) := by
  rw [termSem_string_range ρ k _ w (by simp)]; simp only [stringRange]
  rw [Ranges.mem_complement _ (Ranges.norm_singleton _), mem_singleton_val]; rfl

theorem termSem_str_ge (k : SKey) (w : String) :
    termSem ρ (.string k .ge w) = (Bnd.incl (Val.str w)).loOk (ρ.rv (.str k)) := by
  rw [termSem_string_range ρ k _ w (by simp)]
  simp [stringRange, Ranges.mem_single, Ivl.mem, Bnd.hiOk]

theorem termSem_str_gt (k : SKey) (w : String) :
    termSem ρ (.string k .gt w) = (Bnd.excl (Val.str w)).loOk (ρ.rv (.str k)) := by
  rw [termSem_string_range ρ k _ w (by simp)]
  simp [stringRange, Ranges.mem_single, Ivl.mem, Bnd.hiOk]

theorem termSem_str_le (k : SKey) (w : String) :
    termSem ρ (.string k .le w) = (Bnd.incl (Val.str w)).hiOk (ρ.rv (.str k)) := by
  rw [termSem_string_range ρ k _ w (by simp)]
  simp [stringRange, Ranges.mem_single, Ivl.mem, Bnd.loOk]

theorem termSem_str_lt (k : SKey) (w : String) :
    termSem ρ (.string k .lt w) = (Bnd.excl (Val.str w)).hiOk (ρ.rv (.str k)) := by
  rw [termSem_string_range ρ k _ w (by simp)]
  simp [stringRange, Ranges.mem_single, Ivl.mem, Bnd.loOk]

/-- `MarkerOperator::from_bounds`: the conjunction of the operators of a (valid) segment is the
    segment -/
theorem strOpsOfBounds_sem (k : SKey) (seg : Ivl Val) (hv : seg.valid = true)
    (hkind : Ivl.Kind (kindOf (.str k)) seg) :
    ((strOpsOfBounds seg).map (fun p => MExpr.string k p.1 p.2)).all (termSem ρ) =
      seg.mem (ρ.rv (.str k)) := by
  obtain ⟨lo, hi⟩ := seg
  obtain ⟨klo, khi⟩ := hkind
  simp only at klo khi
  have T1 := termSem_str_ge ρ k
  have T2 := termSem_str_gt ρ k
  have T3 := termSem_str_le ρ k
  have T4 := termSem_str_lt ρ k
  cases lo with
  | unb =>
    cases hi with
    | unb => simp [strOpsOfBounds, Ivl.mem, Bnd.loOk, Bnd.hiOk]
    | incl v =>
      obtain ⟨v, rfl⟩ : ∃ w, v = .str w := ⟨_, kindOf_str k v khi⟩
      simp [strOpsOfBounds, Ivl.mem, T3, Val.strOf, Bnd.loOk]
    | excl v =>
      obtain ⟨v, rfl⟩ : ∃ w, v = .str w := ⟨_, kindOf_str k v khi⟩
      simp [strOpsOfBounds, Ivl.mem, T4, Val.strOf, Bnd.loOk]
  | excl u =>
    obtain ⟨u, rfl⟩ : ∃ w, u = .str w := ⟨_, kindOf_str k u klo⟩
    cases hi with
    | unb => simp [strOpsOfBounds, Ivl.mem, T2, Val.strOf, Bnd.hiOk]
    | incl v =>
      obtain ⟨v, rfl⟩ : ∃ w, v = .str w := ⟨_, kindOf_str k v khi⟩
      simp [strOpsOfBounds, Ivl.mem, T2, T3, Val.strOf]
    | excl v =>
      obtain ⟨v, rfl⟩ : ∃ w, v = .str w := ⟨_, kindOf_str k v khi⟩
      by_cases huv : u = v
      · subst huv
        simp [Ivl.valid, Val.lt_irrefl] at hv
      · have hne : (Val.str u == Val.str v) = false := by simpa using huv
        simp [strOpsOfBounds, hne, Ivl.mem, T2, T4, Val.strOf]
  | incl u =>
    obtain ⟨u, rfl⟩ : ∃ w, u = .str w := ⟨_, kindOf_str k u klo⟩
    cases hi with
    | unb => simp [strOpsOfBounds, Ivl.mem, T1, Val.strOf, Bnd.hiOk]
    | incl v =>
      obtain ⟨v, rfl⟩ : ∃ w, v = .str w := ⟨_, kindOf_str k v khi⟩
      by_cases huv : u = v
      · subst huv
        simp only [strOpsOfBounds, beq_self_eq_true, if_true, Val.strOf, List.map_cons,
          List.map_nil, List.all_cons, List.all_nil, Bool.and_true]
        rw [termSem_str_eq ρ k]
        simp only [Ivl.mem, Bnd.loOk, Bnd.hiOk]
        have := mem_singleton_val (Val.str u) (ρ.rv (.str k))
        simp only [Ranges.singleton, Ranges.mem_single, Ivl.mem, Bnd.loOk, Bnd.hiOk] at this
        exact this.symm
      · have hne : (Val.str u == Val.str v) = false := by simpa using huv
        simp [strOpsOfBounds, hne, Ivl.mem, T1, T3, Val.strOf]
    | excl v =>
      obtain ⟨v, rfl⟩ : ∃ w, v = .str w := ⟨_, kindOf_str k v khi⟩
      simp [strOpsOfBounds, Ivl.mem, T1, T4, Val.strOf]

/-- `range_terms` for a string key denotes the range -/
theorem rangeTerms_str_sem (k : SKey) (r : Ranges Val) (hn : r.Norm)
    (hkind : ∀ s ∈ r, Ivl.Kind (kindOf (.str k)) s) :
    (rangeTerms spell (.str k) r).any (clauseSem ρ) = r.mem (ρ.rv (.str k)) := by
  simp only [rangeTerms]
  split
  · rename_i ex hex
    obtain ⟨h1, h2⟩ := rangeInequality_spec (kindOf (.str k)) r ex hex hn hkind (ρ.rv (.str k))
    simp only [List.any_cons, List.any_nil, Bool.or_false, clauseSem, List.all_map]
    rw [h1]
    apply all_congr_mem
    intro v hv
    have := kindOf_str k v (h2 v hv)
    simp only [Function.comp]
    rw [termSem_str_ne ρ k, ← this]
  · simp only [List.any_map, Ranges.mem]
    apply any_congr_mem
    intro seg hseg
    simp only [Function.comp, clauseSem]
    exact strOpsOfBounds_sem ρ k seg (Ranges.norm_valid r hn seg hseg) (hkind seg hseg)

end strterms

/-- 1(b): the clause prefixes produced for a (subtree, range) pair denote the range -/
theorem rangeTerms_sem (spell : Spell) (hs : ∀ v, stripZeros (spell v) = v)
    (ρ : Env VarR VarB Val) (v : VarR) (hv : ∀ k, v = .ver k → k ≠ .pyVer) (r : Ranges Val)
    (hn : r.Norm) (hkind : ∀ s ∈ r, Ivl.Kind (kindOf v) s) :
    (rangeTerms spell v r).any (clauseSem ρ) = r.mem (ρ.rv v) := by
  cases v with
  | ver k => exact rangeTerms_ver_sem spell hs ρ k (hv k rfl) r hn hkind
  | str k => exact rangeTerms_str_sem spell ρ k r hn hkind

theorem specsOfBounds_eq_nil (spell : Spell) (seg : Ivl Val) (h : specsOfBounds spell seg = []) :
    seg = ⟨.unb, .unb⟩ := by
  obtain ⟨lo, hi⟩ := seg
  cases lo <;> cases hi <;> simp only [specsOfBounds] at h <;> first
    | rfl
    | (exfalso; simp at h; done)
    | (exfalso; split at h <;> first | (simp at h; done) | skip)
  all_goals
    rename_i heq
    subst h
    first
      | (split at heq <;> simp at heq; done)
      | (split at heq
         · split at heq <;> simp at heq
         · simp at heq)

theorem strOpsOfBounds_eq_nil (seg : Ivl Val) (h : strOpsOfBounds seg = []) :
    seg = ⟨.unb, .unb⟩ := by
  obtain ⟨lo, hi⟩ := seg
  cases lo <;> cases hi <;> simp only [strOpsOfBounds] at h <;> first
    | rfl
    | (exfalso; simp at h; done)
    | (exfalso; split at h <;> first | (simp at h; done) | skip)
  all_goals
    rename_i heq
    subst h
    split at heq <;> simp at heq

/-- the only way to obtain an empty clause prefix is the unbounded segment -/
theorem rangeTerms_ne_nil (spell : Spell) (v : VarR) (r : Ranges Val)
    (hne : (⟨.unb, .unb⟩ : Ivl Val) ∉ r) : ∀ terms ∈ rangeTerms spell v r, terms ≠ [] := by
  intro terms hmem hnil
  subst hnil
  cases v with
  | ver k =>
    simp only [rangeTerms] at hmem
    split at hmem
    · rename_i ex hex
      simp only [List.mem_singleton] at hmem
      have : ex = [] := by simpa using hmem.symm
      subst this
      rw [rangeInequality_nil r hex] at hne
      simp at hne
    · split at hmem
      · simp at hmem
      · simp only [List.mem_map] at hmem
        obtain ⟨seg, hseg, hnil⟩ := hmem
        have hsp : specsOfBounds spell seg = [] := by simpa using hnil
        rw [specsOfBounds_eq_nil spell seg hsp] at hseg
        exact hne hseg
  | str k =>
    simp only [rangeTerms] at hmem
    split at hmem
    · rename_i ex hex
      simp only [List.mem_singleton] at hmem
      have : ex = [] := by simpa using hmem.symm
      subst this
      rw [rangeInequality_nil r hex] at hne
      simp at hne
    · simp only [List.mem_map] at hmem
      obtain ⟨seg, hseg, hnil⟩ := hmem
      have hsp : strOpsOfBounds seg = [] := by simpa using hnil
      rw [strOpsOfBounds_eq_nil seg hsp] at hseg
      exact hne hseg

/-! ### 1(a): `collect_edges` -/

/-- one iteration of `collect_edges` -/
def collectStep (iv : Ivl Val) (t : MTree) (acc : List (MTree × Ranges Val)) :
    List (MTree × Ranges Val) :=
  if acc.any (fun p => p.1 == t) then
    acc.map fun p => if p.1 == t then (p.1, Ranges.union p.2 [iv]) else p
  else acc ++ [(t, [iv])]

theorem collectEdges_cons (iv : Ivl Val) (t : MTree) (rest : List (Ivl Val × MTree))
    (acc : List (MTree × Ranges Val)) :
    collectEdges ((iv, t) :: rest) acc = collectEdges rest (collectStep iv t acc) := by
  simp only [collectEdges, collectStep]
  split <;> rfl

/-- what `collect_edges` maintains: `acc` groups the processed edges `ps` by child -/
structure CollectInv (ps : List (Ivl Val × MTree)) (acc : List (MTree × Ranges Val)) : Prop where
  norm : ∀ p ∈ acc, p.2.Norm
  mem : ∀ p ∈ acc, ∀ x, p.2.mem x = ps.any (fun e => e.2 == p.1 && e.1.mem x)
  cover : ∀ e ∈ ps, ∃ p ∈ acc, p.1 = e.2
  child : ∀ p ∈ acc, ∃ e ∈ ps, e.2 = p.1
  nodup : (acc.map (·.1)).Nodup

theorem collectStep_inv (ps : List (Ivl Val × MTree)) (iv : Ivl Val) (t : MTree)
    (acc : List (MTree × Ranges Val)) (hv : iv.valid = true) (h : CollectInv ps acc) :
    CollectInv (ps ++ [(iv, t)]) (collectStep iv t acc) := by
  unfold collectStep
  by_cases hany : acc.any (fun p => p.1 == t) = true
  · simp only [hany, if_true]
    have hfst : ∀ p : MTree × Ranges Val,
        (if p.1 == t then (p.1, Ranges.union p.2 [iv]) else p).1 = p.1 := by
      intro p; split <;> rfl
    refine ⟨?_, ?_, ?_, ?_, ?_⟩
    · intro p' hp'
      simp only [List.mem_map] at hp'
      obtain ⟨p, hp, rfl⟩ := hp'
      split
      · exact Ranges.norm_union _ _ (h.norm p hp)
      · exact h.norm p hp
    · intro p' hp' x
      simp only [List.mem_map] at hp'
      obtain ⟨p, hp, rfl⟩ := hp'
      rw [hfst]
      simp only [List.any_append, List.any_cons, List.any_nil, Bool.or_false]
      by_cases hpt : p.1 = t
      · have : (p.1 == t) = true := by simpa using hpt
        simp only [this, if_true]
        rw [Ranges.mem_union _ _ (h.norm p hp), h.mem p hp x, Ranges.mem_single]
        have : (t == p.1) = true := by simpa using hpt.symm
        simp [this]
      · have e1 : (p.1 == t) = false := by simpa using hpt
        have e2 : (t == p.1) = false := by simpa using (fun e => hpt e.symm)
        simp only [e1, Bool.false_eq_true, if_false, e2, Bool.false_and, Bool.or_false]
        exact h.mem p hp x
    · intro e he
      simp only [List.mem_append, List.mem_singleton] at he
      rcases he with he | rfl
      · obtain ⟨p, hp, hpe⟩ := h.cover e he
        exact ⟨_, List.mem_map_of_mem hp, by rw [hfst]; exact hpe⟩
      · simp only [List.any_eq_true, beq_iff_eq] at hany
        obtain ⟨p, hp, hpe⟩ := hany
        exact ⟨_, List.mem_map_of_mem hp, by rw [hfst]; exact hpe⟩
    · intro p' hp'
      simp only [List.mem_map] at hp'
      obtain ⟨p, hp, rfl⟩ := hp'
      obtain ⟨e, he, hep⟩ := h.child p hp
      exact ⟨e, List.mem_append_left _ he, by rw [hfst]; exact hep⟩
    · have : (acc.map fun p => if p.1 == t then (p.1, Ranges.union p.2 [iv]) else p).map (·.1) =
          acc.map (·.1) := by
        rw [List.map_map]
        apply List.map_congr_left
        intro p _
        exact hfst p
      rw [this]; exact h.nodup
  · simp only [hany, Bool.false_eq_true, if_false]
    have hnone : ∀ p ∈ acc, p.1 ≠ t := by
      intro p hp hpt
      apply hany
      simp only [List.any_eq_true, beq_iff_eq]
      exact ⟨p, hp, hpt⟩
    have hps : ∀ e ∈ ps, e.2 ≠ t := by
      intro e he het
      obtain ⟨p, hp, hpe⟩ := h.cover e he
      exact hnone p hp (hpe.trans het)
    refine ⟨?_, ?_, ?_, ?_, ?_⟩
    · intro p hp
      simp only [List.mem_append, List.mem_singleton] at hp
      rcases hp with hp | rfl
      · exact h.norm p hp
      · exact Ranges.norm_single _ hv
    · intro p hp x
      simp only [List.mem_append, List.mem_singleton] at hp
      simp only [List.any_append, List.any_cons, List.any_nil, Bool.or_false]
      rcases hp with hp | rfl
      · have e2 : (t == p.1) = false := by simpa using (fun e => hnone p hp e.symm)
        simp only [e2, Bool.false_and, Bool.or_false]
        exact h.mem p hp x
      · simp only [beq_self_eq_true, Bool.true_and, Ranges.mem_single]
        have : ps.any (fun e => e.2 == t && e.1.mem x) = false := by
          rw [List.any_eq_false]
          intro e he
          have : (e.2 == t) = false := by simpa using hps e he
          simp [this]
        rw [this]; rfl
    · intro e he
      simp only [List.mem_append, List.mem_singleton] at he
      rcases he with he | rfl
      · obtain ⟨p, hp, hpe⟩ := h.cover e he
        exact ⟨p, List.mem_append_left _ hp, hpe⟩
      · exact ⟨(t, [iv]), by simp, rfl⟩
    · intro p hp
      simp only [List.mem_append, List.mem_singleton] at hp
      rcases hp with hp | rfl
      · obtain ⟨e, he, hep⟩ := h.child p hp
        exact ⟨e, List.mem_append_left _ he, hep⟩
      · exact ⟨(iv, t), by simp, rfl⟩
    · rw [List.map_append, List.nodup_append]
      refine ⟨h.nodup, by simp, ?_⟩
      intro a ha b hb
      simp only [List.mem_map] at ha
      obtain ⟨p, hp, rfl⟩ := ha
      simp only [List.map_cons, List.map_nil, List.mem_singleton] at hb
      subst hb
      exact hnone p hp

theorem collectEdges_inv : ∀ (es ps : List (Ivl Val × MTree)) (acc : List (MTree × Ranges Val)),
    (∀ e ∈ es, e.1.valid = true) → CollectInv ps acc →
    CollectInv (ps ++ es) (collectEdges es acc)
  | [], ps, acc, _, h => by simpa [collectEdges] using h
  | (iv, t) :: rest, ps, acc, hv, h => by
    rw [collectEdges_cons]
    have := collectEdges_inv rest (ps ++ [(iv, t)]) (collectStep iv t acc)
      (fun e he => hv e (List.mem_cons_of_mem _ he))
      (collectStep_inv ps iv t acc (hv (iv, t) (List.mem_cons_self)) h)
    simpa using this

/-- 1(a): `collect_edges` groups the edges by child: the children are pairwise distinct, each
    range set is normalised and contains exactly the points of the edges leading to its child -/
theorem collectEdges_spec (es : List (Ivl Val × MTree)) (hv : ∀ e ∈ es, e.1.valid = true) :
    CollectInv es (collectEdges es []) := by
  have := collectEdges_inv es [] [] hv
    ⟨by simp, by simp, by simp, by simp, by simp⟩
  simpa using this

/-- summing any function of the child over the groups is summing it over the edges -/
theorem collectEdges_any (es : List (Ivl Val × MTree)) (hv : ∀ e ∈ es, e.1.valid = true)
    (f : MTree → Bool) (x : Val) :
    (collectEdges es []).any (fun p => p.2.mem x && f p.1) =
      es.any (fun e => e.1.mem x && f e.2) := by
  have h := collectEdges_spec es hv
  rw [Bool.eq_iff_iff]
  simp only [List.any_eq_true, Bool.and_eq_true]
  constructor
  · rintro ⟨p, hp, hm, hf⟩
    rw [h.mem p hp x] at hm
    simp only [List.any_eq_true, Bool.and_eq_true, beq_iff_eq] at hm
    obtain ⟨e, he, hep, hex⟩ := hm
    exact ⟨e, he, hex, by rw [hep]; exact hf⟩
  · rintro ⟨e, he, hex, hf⟩
    obtain ⟨p, hp, hpe⟩ := h.cover e he
    refine ⟨p, hp, ?_, by rw [hpe]; exact hf⟩
    rw [h.mem p hp x]
    simp only [List.any_eq_true, Bool.and_eq_true, beq_iff_eq]
    exact ⟨e, he, hpe.symm, hex⟩

/-! ### a partition is hit at most once -/

theorem Bnd.loOk_next (lo hi c : Bnd Val) (x : Val) (h1 : lo.loOk x = false)
    (hv : (Ivl.mk lo hi).valid = true) (hf : hi.flipHi = some c) : c.loOk x = false := by
  cases lo <;> cases hi <;> simp only [Bnd.flipHi, Option.some.injEq, reduceCtorEq] at hf <;>
    subst hf <;> simp only [Bnd.loOk, Ivl.valid] at h1 hv ⊢ <;> grind

theorem Bnd.loOk_flip (hi c : Bnd Val) (x : Val) (h1 : hi.hiOk x = true)
    (hf : hi.flipHi = some c) : c.loOk x = false := by
  cases hi <;> simp only [Bnd.flipHi, Option.some.injEq, reduceCtorEq] at hf <;>
    subst hf <;> simp only [Bnd.loOk, Bnd.hiOk] at h1 ⊢ <;> grind

theorem Part_below (x : Val) : ∀ (es : List (Ivl Val × MTree)) (c : Option (Bnd Val)) (fin : Bnd Val),
    Part c fin es → (∀ cur, c = some cur → cur.loOk x = false) → ∀ e ∈ es, e.1.mem x = false
  | [], _, _, _, _ => by simp
  | e :: rest, c, fin, hp, hc => by
    obtain ⟨h1, h2, h3⟩ := hp
    have hlo : e.1.lo.loOk x = false := hc _ h1
    intro e' he'
    simp only [List.mem_cons] at he'
    rcases he' with rfl | he'
    · simp [Ivl.mem, hlo]
    · refine Part_below x rest _ fin h3 ?_ e' he'
      intro cur hcur
      exact Bnd.loOk_next e.1.lo e.1.hi cur x hlo h2 hcur

/-- in a partition the first hit is the only hit -/
theorem evalL_part (ρ : Env VarR VarB Val) (x : Val) :
    ∀ (es : List (Ivl Val × MTree)) (c : Option (Bnd Val)) (fin : Bnd Val), Part c fin es →
      evalL ρ x es = es.any (fun e => e.1.mem x && e.2.eval ρ)
  | [], _, _, _ => rfl
  | e :: rest, c, fin, hp => by
    obtain ⟨h1, h2, h3⟩ := hp
    simp only [evalL, List.any_cons]
    by_cases hm : e.1.mem x = true
    · simp only [hm, if_true, Bool.true_and]
      have : rest.any (fun e => e.1.mem x && e.2.eval ρ) = false := by
        rw [List.any_eq_false]
        intro e' he'
        have hhi : e.1.hi.hiOk x = true := by
          simp only [Ivl.mem, Bool.and_eq_true] at hm; exact hm.2
        have := Part_below x rest _ fin h3
          (fun cur hcur => Bnd.loOk_flip e.1.hi cur x hhi hcur) e' he'
        simp [this]
      rw [this, Bool.or_false]
    · have hm' : e.1.mem x = false := by simpa using hm
      simp only [hm', Bool.false_eq_true, if_false, Bool.false_and, Bool.false_or]
      exact evalL_part ρ x rest _ fin h3

/-! ### predicates on segments preserved by `collect_edges` -/

theorem Ranges.insert_pred (Q : Ivl Val → Prop)
    (hQ : ∀ s t, Q s → Q t → Bnd.gapBefore s.hi t.lo = false → Bnd.gapBefore t.hi s.lo = false →
      Q ⟨Bnd.minLo s.lo t.lo, Bnd.maxHi s.hi t.hi⟩) :
    ∀ (r : Ranges Val) (s : Ivl Val), Q s → (∀ t ∈ r, Q t) → ∀ u ∈ Ranges.insert s r, Q u
  | [], s, hs, _ => by
    intro u hu
    simp only [Ranges.insert, List.mem_singleton] at hu
    subst hu; exact hs
  | t :: rest, s, hs, hr => by
    intro u hu
    unfold Ranges.insert at hu
    by_cases c1 : Bnd.gapBefore s.hi t.lo = true
    · simp only [c1, if_true, List.mem_cons] at hu
      rcases hu with rfl | rfl | hu
      · exact hs
      · exact hr _ (List.mem_cons_self)
      · exact hr u (List.mem_cons_of_mem _ hu)
    · by_cases c2 : Bnd.gapBefore t.hi s.lo = true
      · simp only [c1, c2, if_true, Bool.false_eq_true, if_false, List.mem_cons] at hu
        rcases hu with rfl | hu
        · exact hr _ (List.mem_cons_self)
        · exact Ranges.insert_pred Q hQ rest s hs (fun t' ht' => hr t' (List.mem_cons_of_mem _ ht')) u hu
      · simp only [c1, c2, Bool.false_eq_true, if_false] at hu
        refine Ranges.insert_pred Q hQ rest _ ?_ (fun t' ht' => hr t' (List.mem_cons_of_mem _ ht')) u hu
        exact hQ s t hs (hr t (List.mem_cons_self)) (by simpa using c1) (by simpa using c2)

theorem collectStep_pred (Q : Ivl Val → Prop)
    (hQ : ∀ s t, Q s → Q t → Bnd.gapBefore s.hi t.lo = false → Bnd.gapBefore t.hi s.lo = false →
      Q ⟨Bnd.minLo s.lo t.lo, Bnd.maxHi s.hi t.hi⟩) (sel : MTree → Prop)
    (iv : Ivl Val) (t : MTree) (acc : List (MTree × Ranges Val)) (hiv : sel t → Q iv)
    (hacc : ∀ p ∈ acc, sel p.1 → ∀ s ∈ p.2, Q s) :
    ∀ p ∈ collectStep iv t acc, sel p.1 → ∀ s ∈ p.2, Q s := by
  unfold collectStep
  split
  · intro p' hp'
    simp only [List.mem_map] at hp'
    obtain ⟨p, hp, rfl⟩ := hp'
    by_cases hpt : p.1 = t
    · have : (p.1 == t) = true := by simpa using hpt
      simp only [this, if_true]
      intro hsel s hs
      simp only [Ranges.union, List.foldl_cons, List.foldl_nil] at hs
      split at hs
      · exact Ranges.insert_pred Q hQ p.2 iv (hiv (hpt ▸ hsel)) (hacc p hp hsel) s hs
      · exact hacc p hp hsel s hs
    · have : (p.1 == t) = false := by simpa using hpt
      simp only [this, Bool.false_eq_true, if_false]
      exact hacc p hp
  · intro p hp
    simp only [List.mem_append, List.mem_singleton] at hp
    rcases hp with hp | rfl
    · exact hacc p hp
    · intro hsel s hs
      simp only [List.mem_singleton] at hs
      subst hs; exact hiv hsel

theorem collectEdges_pred (Q : Ivl Val → Prop)
    (hQ : ∀ s t, Q s → Q t → Bnd.gapBefore s.hi t.lo = false → Bnd.gapBefore t.hi s.lo = false →
      Q ⟨Bnd.minLo s.lo t.lo, Bnd.maxHi s.hi t.hi⟩) (sel : MTree → Prop) :
    ∀ (es : List (Ivl Val × MTree)) (acc : List (MTree × Ranges Val)),
      (∀ e ∈ es, sel e.2 → Q e.1) → (∀ p ∈ acc, sel p.1 → ∀ s ∈ p.2, Q s) →
      ∀ p ∈ collectEdges es acc, sel p.1 → ∀ s ∈ p.2, Q s
  | [], acc, _, hacc => by simpa [collectEdges] using hacc
  | (iv, t) :: rest, acc, hes, hacc => by
    rw [collectEdges_cons]
    exact collectEdges_pred Q hQ sel rest _ (fun e he => hes e (List.mem_cons_of_mem _ he))
      (collectStep_pred Q hQ sel iv t acc (hes (iv, t) (List.mem_cons_self)) hacc)

/-- bounds of merged segments are bounds of the originals -/
theorem Ivl.kind_merge (P : Val → Prop) (s t : Ivl Val) (hs : Ivl.Kind P s) (ht : Ivl.Kind P t) :
    Ivl.Kind P ⟨Bnd.minLo s.lo t.lo, Bnd.maxHi s.hi t.hi⟩ := by
  obtain ⟨slo, shi⟩ := s
  obtain ⟨tlo, thi⟩ := t
  obtain ⟨h1, h2⟩ := hs
  obtain ⟨h3, h4⟩ := ht
  simp only at h1 h2 h3 h4
  constructor
  · simp only
    cases slo <;> cases tlo <;> simp only [Bnd.minLo] <;> first
      | trivial | (split <;> assumption) | assumption
  · simp only
    cases shi <;> cases thi <;> simp only [Bnd.maxHi] <;> first
      | trivial | (split <;> assumption) | assumption

theorem collectEdges_kind (P : Val → Prop) (es : List (Ivl Val × MTree))
    (hes : ∀ e ∈ es, Ivl.Kind P e.1) :
    ∀ p ∈ collectEdges es [], ∀ s ∈ p.2, Ivl.Kind P s := by
  intro p hp
  exact collectEdges_pred (Ivl.Kind P) (fun s t hs ht _ _ => Ivl.kind_merge P s t hs ht)
    (fun _ => True) es [] (fun e he _ => hes e he) (by simp) p hp trivial

/-! ### no group of a well-formed node is the unbounded segment

Every segment of the group of child `c` is *syntactically* disjoint from any edge `e'` leading
to a different child (the argument must be syntactic: an edge such as `(-∞, 0)` is valid but
contains no release). -/

/-- upper bound `a` ends at or before the lower bound `l` -/
def HiBefore (a l : Bnd Val) : Prop := a.flipHi = some l ∨ Bnd.gapBefore a l = true
/-- lower bound `b` starts at or after the upper bound `h` -/
def LoAfter (b h : Bnd Val) : Prop := h.flipHi = some b ∨ Bnd.gapBefore h b = true
/-- segment `s` lies entirely on one side of the segment `(l, h)` -/
def Off (l h : Bnd Val) (s : Ivl Val) : Prop := HiBefore s.hi l ∨ LoAfter s.lo h

theorem HiBefore_max (a b l : Bnd Val) (h1 : HiBefore a l) (h2 : HiBefore b l) :
    HiBefore (Bnd.maxHi a b) l := by
  unfold HiBefore at *
  cases a <;> cases b <;> cases l <;>
    simp only [Bnd.flipHi, Bnd.gapBefore, Bnd.maxHi, Option.some.injEq, reduceCtorEq,
      Bnd.incl.injEq, Bnd.excl.injEq, Bool.false_eq_true, or_false, false_or, Bool.or_eq_true,
      decide_eq_true_eq] at h1 h2 ⊢ <;>
    first | (split <;> grind) | grind

theorem LoAfter_min (a b h : Bnd Val) (h1 : LoAfter a h) (h2 : LoAfter b h) :
    LoAfter (Bnd.minLo a b) h := by
  unfold LoAfter at *
  cases a <;> cases b <;> cases h <;>
    simp only [Bnd.flipHi, Bnd.gapBefore, Bnd.minLo, Option.some.injEq, reduceCtorEq,
      Bnd.incl.injEq, Bnd.excl.injEq, Bool.false_eq_true, or_false, false_or, Bool.or_eq_true,
      decide_eq_true_eq] at h1 h2 ⊢ <;>
    first | (split <;> grind) | grind

theorem gap_of_sides (a b l h : Bnd Val) (h1 : HiBefore a l) (h2 : LoAfter b h)
    (hv : (Ivl.mk l h).valid = true) : Bnd.gapBefore a b = true := by
  unfold HiBefore LoAfter at *
  cases a <;> cases b <;> cases l <;> cases h <;>
    simp only [Bnd.flipHi, Bnd.gapBefore, Ivl.valid, Option.some.injEq, reduceCtorEq,
      Bnd.incl.injEq, Bnd.excl.injEq, Bool.false_eq_true, or_false, false_or, Bool.or_eq_true,
      decide_eq_true_eq, Bool.not_eq_true', decide_eq_false_iff_not] at h1 h2 hv ⊢ <;>
    grind

theorem Off_merge (l h : Bnd Val) (hv : (Ivl.mk l h).valid = true) (s t : Ivl Val)
    (hs : Off l h s) (ht : Off l h t) (g1 : Bnd.gapBefore s.hi t.lo = false)
    (g2 : Bnd.gapBefore t.hi s.lo = false) :
    Off l h ⟨Bnd.minLo s.lo t.lo, Bnd.maxHi s.hi t.hi⟩ := by
  rcases hs with hs | hs <;> rcases ht with ht | ht
  · exact Or.inl (HiBefore_max _ _ _ hs ht)
  · have := gap_of_sides _ _ _ _ hs ht hv; rw [this] at g1; exact absurd g1 (by simp)
  · have := gap_of_sides _ _ _ _ ht hs hv; rw [this] at g2; exact absurd g2 (by simp)
  · exact Or.inr (LoAfter_min _ _ _ hs ht)

theorem not_Off_unb (l h : Bnd Val) : ¬ Off l h ⟨.unb, .unb⟩ := by
  unfold Off HiBefore LoAfter
  cases h <;> simp [Bnd.flipHi, Bnd.gapBefore]

theorem LoAfter_next (cur hi c h : Bnd Val) (h1 : LoAfter cur h) (hv : (Ivl.mk cur hi).valid = true)
    (hf : hi.flipHi = some c) : LoAfter c h := by
  unfold LoAfter at *
  cases cur <;> cases hi <;> cases h <;>
    simp only [Bnd.flipHi, Option.some.injEq, reduceCtorEq] at hf <;> subst hf <;>
    simp only [Bnd.flipHi, Bnd.gapBefore, Ivl.valid, Option.some.injEq, reduceCtorEq,
      Bnd.incl.injEq, Bnd.excl.injEq, Bool.false_eq_true, or_false, false_or, Bool.or_eq_true,
      decide_eq_true_eq, Bool.not_eq_true', decide_eq_false_iff_not] at h1 hv ⊢ <;>
    grind

theorem HiBefore_prev (a l2 h2 l : Bnd Val) (hf : a.flipHi = some l2)
    (hv : (Ivl.mk l2 h2).valid = true) (h1 : HiBefore h2 l) : HiBefore a l := by
  unfold HiBefore at *
  cases a <;> cases h2 <;> cases l <;>
    simp only [Bnd.flipHi, Option.some.injEq, reduceCtorEq] at hf <;> subst hf <;>
    simp only [Bnd.flipHi, Bnd.gapBefore, Ivl.valid, Option.some.injEq, reduceCtorEq,
      Bnd.incl.injEq, Bnd.excl.injEq, Bool.false_eq_true, or_false, false_or, Bool.or_eq_true,
      decide_eq_true_eq, Bool.not_eq_true', decide_eq_false_iff_not] at h1 hv ⊢ <;>
    grind

theorem Part_after (h : Bnd Val) : ∀ (ys : List (Ivl Val × MTree)) (c : Option (Bnd Val))
    (fin : Bnd Val), Part c fin ys → (∀ cur, c = some cur → LoAfter cur h) →
    ∀ e ∈ ys, LoAfter e.1.lo h
  | [], _, _, _, _ => by simp
  | e :: rest, c, fin, hp, hc => by
    obtain ⟨h1, h2, h3⟩ := hp
    have hlo : LoAfter e.1.lo h := hc _ h1
    intro e' he'
    simp only [List.mem_cons] at he'
    rcases he' with rfl | he'
    · exact hlo
    · exact Part_after h rest _ fin h3
        (fun cur hcur => LoAfter_next e.1.lo e.1.hi cur h hlo h2 hcur) e' he'

theorem Part_before (e' : Ivl Val × MTree) (ys : List (Ivl Val × MTree)) :
    ∀ (xs : List (Ivl Val × MTree)) (c : Option (Bnd Val)) (fin : Bnd Val),
      Part c fin (xs ++ e' :: ys) → ∀ e ∈ xs, HiBefore e.1.hi e'.1.lo
  | [], _, _, _ => by simp
  | e :: rest, c, fin, hp => by
    obtain ⟨h1, h2, h3⟩ := hp
    have ih := Part_before e' ys rest _ fin h3
    intro e0 he0
    simp only [List.mem_cons] at he0
    rcases he0 with rfl | he0
    · cases rest with
      | nil =>
        exact Or.inl h3.1
      | cons e2 rest2 =>
        exact HiBefore_prev e0.1.hi e2.1.lo e2.1.hi e'.1.lo h3.1 h3.2.1
          (ih e2 (List.mem_cons_self))
    · exact ih e0 he0

theorem Part_tail (zs : List (Ivl Val × MTree)) : ∀ (xs : List (Ivl Val × MTree))
    (c : Option (Bnd Val)) (fin : Bnd Val), Part c fin (xs ++ zs) → ∃ c', Part c' fin zs
  | [], c, _, hp => ⟨c, hp⟩
  | _ :: rest, _, fin, hp => Part_tail zs rest _ fin hp.2.2

/-- all other edges of a partition lie on one side of the edge `e'` -/
theorem Part_off (es : List (Ivl Val × MTree)) (c : Option (Bnd Val)) (fin : Bnd Val)
    (hp : Part c fin es) (e' : Ivl Val × MTree) (he' : e' ∈ es) :
    ∀ e ∈ es, e.2 ≠ e'.2 → Off e'.1.lo e'.1.hi e.1 := by
  obtain ⟨xs, ys, rfl⟩ := List.append_of_mem he'
  intro e he hne
  simp only [List.mem_append, List.mem_cons] at he
  rcases he with he | rfl | he
  · exact Or.inl (Part_before e' ys xs c fin hp e he)
  · exact absurd rfl hne
  · obtain ⟨c', hp'⟩ := Part_tail (e' :: ys) xs c fin hp
    exact Or.inr (Part_after e'.1.hi ys _ fin hp'.2.2 (fun cur hcur => Or.inl hcur) e he)

/-- in a node with two adjacent different children no group is the unbounded segment -/
theorem collectEdges_no_unb (es : List (Ivl Val × MTree)) (hp : PartL .unb es) (ha : AdjNe es)
    (hlen : 2 ≤ es.length) :
    ∀ p ∈ collectEdges es [], (⟨.unb, .unb⟩ : Ivl Val) ∉ p.2 := by
  intro p hpm hmem
  -- an edge whose child differs from `p.1`
  obtain ⟨e', he', hne⟩ : ∃ e' ∈ es, p.1 ≠ e'.2 := by
    match es, ha, hlen with
    | e1 :: e2 :: rest, ha, _ =>
      by_cases h1 : p.1 = e1.2
      · exact ⟨e2, by simp, by rw [h1]; exact ha.1⟩
      · exact ⟨e1, by simp, h1⟩
  have hv : (Ivl.mk e'.1.lo e'.1.hi).valid = true := Part_valid hp e' he'
  have := collectEdges_pred (Off e'.1.lo e'.1.hi) (Off_merge _ _ hv) (fun c => c = p.1) es []
    (fun e he hsel => Part_off es _ _ hp e' he' e he (by rw [hsel]; exact hne)) (by simp)
    p hpm rfl _ hmem
  exact not_Off_unb _ _ this

/-! ### typing of diagrams and environments -/

mutual
/-- every bound of a version node is a version, every bound of a string node a string, and
    `python_version` does not occur (it is translated to `python_full_version` on construction) -/
def Typed : MTree → Prop
  | .leaf _ => True
  | .rng v es => (∀ k, v = .ver k → k ≠ .pyVer) ∧ TypedE v es
  | .bool _ h l => Typed h ∧ Typed l
def TypedE (v : VarR) : Edges VarR VarB Val → Prop
  | .nil => True
  | .cons iv t rest => Ivl.Kind (kindOf v) iv ∧ Typed t ∧ TypedE v rest
end

theorem TypedE_iff (v : VarR) : ∀ (es : Edges VarR VarB Val),
    TypedE v es ↔ ∀ e ∈ es.toList, Ivl.Kind (kindOf v) e.1 ∧ Typed e.2
  | .nil => by simp [TypedE, Edges.toList]
  | .cons iv t rest => by
    have ih := TypedE_iff v rest
    simp only [TypedE, Edges.toList, List.mem_cons, ih]
    constructor
    · rintro ⟨h1, h2, h3⟩ e (rfl | he)
      · exact ⟨h1, h2⟩
      · exact h3 e he
    · intro h
      exact ⟨(h (iv, t) (Or.inl rfl)).1, (h (iv, t) (Or.inl rfl)).2, fun e he => h e (Or.inr he)⟩

/-- environments give version keys a release and string keys a string (not needed for the
    soundness of `to_dnf`; kept for the statement of C05) -/
def EnvTyped (ρ : Env VarR VarB Val) : Prop :=
  (∀ k, ∃ c, ρ.rv (.ver k) = candVal c) ∧ (∀ k, ∃ s, ρ.rv (.str k) = .str s)

/-! ### 1: path collection is exact -/

theorem any_and_both {β : Type} (l : List β) (b c : Bool) (f : β → Bool) :
    l.any (fun a => b && (f a && c)) = (b && (l.any f && c)) := by
  induction l with
  | nil => simp
  | cons a rest ih => simp only [List.any_cons, ih]; cases b <;> cases c <;> cases f a <;> simp

theorem dnfSem_flatMap {β : Type} (ρ : Env VarR VarB Val) (l : List β)
    (f : β → List (List MExpr)) : dnfSem ρ (l.flatMap f) = l.any (fun a => dnfSem ρ (f a)) := by
  simp only [dnfSem, List.any_flatMap]

/-- C05 (collection): the clauses collected below `t` with prefix `path` denote
    `path ∧ t` — provided the prefix is non-empty or `t` is not the TRUE terminal (for which
    `collect_dnf` returns no clause instead of the empty clause) -/
theorem collectDnf_sem (spell : Spell) (hs : ∀ v, stripZeros (spell v) = v)
    (ρ : Env VarR VarB Val) :
    ∀ (fuel : Nat) (t : MTree) (path : List MExpr), t.size < fuel → t.wf = true → Typed t →
      (path ≠ [] ∨ t ≠ .leaf true) →
      dnfSem ρ (collectDnf spell fuel t path) = (clauseSem ρ path && t.eval ρ)
  | 0, _, _, h, _, _, _ => by omega
  | fuel + 1, .leaf false, path, _, _, _, _ => by
    simp [collectDnf, dnfSem, Tree.eval]
  | fuel + 1, .leaf true, path, _, _, _, hne => by
    have : path ≠ [] := by
      rcases hne with h | h
      · exact h
      · exact absurd rfl h
    have e : path.isEmpty = false := by
      cases path with
      | nil => exact absurd rfl this
      | cons a b => rfl
    simp [collectDnf, e, dnfSem, Tree.eval]
  | fuel + 1, .bool v h l, path, hsz, hwf, hty, _ => by
    simp only [Tree.wf, Bool.and_eq_true] at hwf
    obtain ⟨⟨⟨⟨_, hwh⟩, hwl⟩, _⟩, _⟩ := hwf
    simp only [Tree.size] at hsz
    obtain ⟨th, tl⟩ := hty
    simp only [collectDnf]
    rw [dnfSem_append,
      collectDnf_sem spell hs ρ fuel h _ (by omega) hwh th (Or.inl (by simp)),
      collectDnf_sem spell hs ρ fuel l _ (by omega) hwl tl (Or.inl (by simp)),
      clauseSem_append, clauseSem_append]
    simp only [clauseSem, List.all_cons, List.all_nil, Bool.and_true, boolTerm_sem, Tree.eval]
    cases ρ.bv v <;> cases path.all (termSem ρ) <;> simp
  | fuel + 1, .rng v es, path, hsz, hwf, hty, _ => by
    obtain ⟨hlen, hpart, hadj, hch⟩ := (Tree.wf_rng_iff v es).1 hwf
    obtain ⟨hv, htyE⟩ := hty
    rw [TypedE_iff] at htyE
    have hvalid : ∀ e ∈ es.toList, e.1.valid = true := Part_valid hpart
    have hinv := collectEdges_spec es.toList hvalid
    have hkind := collectEdges_kind (kindOf v) es.toList (fun e he => (htyE e he).1)
    have hnounb := collectEdges_no_unb es.toList hpart hadj hlen
    simp only [Tree.size] at hsz
    have key : ∀ p ∈ collectEdges es.toList [],
        (rangeTerms spell v p.2).any
            (fun terms => dnfSem ρ (collectDnf spell fuel p.1 (path ++ terms))) =
          (clauseSem ρ path && (p.2.mem (ρ.rv v) && p.1.eval ρ)) := by
      intro p hp
      obtain ⟨e, he, hep⟩ := hinv.child p hp
      have hsize : p.1.size < fuel := by
        have := Edges.size_mem es e he
        rw [hep] at this; omega
      have hwfp : p.1.wf = true := by rw [← hep]; exact (hch e he).1
      have htyp : Typed p.1 := by rw [← hep]; exact (htyE e he).2
      have step : ∀ terms ∈ rangeTerms spell v p.2,
          dnfSem ρ (collectDnf spell fuel p.1 (path ++ terms)) =
            (clauseSem ρ path && (clauseSem ρ terms && p.1.eval ρ)) := by
        intro terms hterms
        have hne := rangeTerms_ne_nil spell v p.2 (hnounb p hp) terms hterms
        rw [collectDnf_sem spell hs ρ fuel p.1 _ hsize hwfp htyp (Or.inl (by simp [hne])),
          clauseSem_append, Bool.and_assoc]
      rw [any_congr_mem _ _ _ step, any_and_both,
        rangeTerms_sem spell hs ρ v hv p.2 (hinv.norm p hp) (hkind p hp)]
    simp only [collectDnf]
    rw [dnfSem_flatMap]
    simp only [dnfSem_flatMap]
    rw [any_congr_mem _ _ _ key, any_and_left,
      collectEdges_any es.toList hvalid (fun c => c.eval ρ) (ρ.rv v),
      ← evalL_part ρ (ρ.rv v) es.toList _ _ hpart]
    simp only [Tree.eval, Edges.eval_eq]

/-! ### the collected terms are `TermOK` -/

theorem termOK_version (k : VKey) (hk : k ≠ .pyVer) (s : Pep508.Spec) : TermOK (.version k s) := by
  cases k <;> first | trivial | exact absurd rfl hk

theorem rangeTerms_ok (spell : Spell) (v : VarR) (hv : ∀ k, v = .ver k → k ≠ .pyVer)
    (r : Ranges Val) : ∀ terms ∈ rangeTerms spell v r, ∀ t ∈ terms, TermOK t := by
  intro terms hterms t ht
  cases v with
  | ver k =>
    have hk := hv k rfl
    suffices h : ∃ s, t = .version k s by
      obtain ⟨s, rfl⟩ := h; exact termOK_version k hk s
    simp only [rangeTerms] at hterms
    split at hterms
    · simp only [List.mem_singleton] at hterms
      subst hterms
      simp only [List.mem_map] at ht
      obtain ⟨x, _, rfl⟩ := ht
      exact ⟨_, rfl⟩
    · split at hterms
      · simp only [List.mem_singleton] at hterms
        subst hterms
        simp only [List.mem_singleton] at ht
        exact ⟨_, ht⟩
      · simp only [List.mem_map] at hterms
        obtain ⟨seg, _, rfl⟩ := hterms
        simp only [List.mem_map] at ht
        obtain ⟨x, _, rfl⟩ := ht
        exact ⟨_, rfl⟩
  | str k =>
    suffices h : ∃ op w, t = .string k op w by
      obtain ⟨op, w, rfl⟩ := h; trivial
    simp only [rangeTerms] at hterms
    split at hterms
    · simp only [List.mem_singleton] at hterms
      subst hterms
      simp only [List.mem_map] at ht
      obtain ⟨x, _, rfl⟩ := ht
      exact ⟨_, _, rfl⟩
    · simp only [List.mem_map] at hterms
      obtain ⟨seg, _, rfl⟩ := hterms
      simp only [List.mem_map] at ht
      obtain ⟨x, _, rfl⟩ := ht
      exact ⟨_, _, rfl⟩

theorem boolTerm_ok (v : VarB) (b : Bool) : TermOK (boolTerm v b) := by
  cases v <;> trivial

theorem collectDnf_ok (spell : Spell) :
    ∀ (fuel : Nat) (t : MTree) (path : List MExpr), t.wf = true → Typed t →
      (∀ t' ∈ path, TermOK t') → AllOK (collectDnf spell fuel t path)
  | 0, _, _, _, _, _ => by simp [collectDnf, AllOK]
  | fuel + 1, .leaf false, path, _, _, _ => by simp [collectDnf, AllOK]
  | fuel + 1, .leaf true, path, _, _, hp => by
    simp only [collectDnf]
    split
    · simp [AllOK]
    · intro c hc
      simp only [List.mem_singleton] at hc
      subst hc; exact hp
  | fuel + 1, .bool v h l, path, hwf, hty, hp => by
    simp only [Tree.wf, Bool.and_eq_true] at hwf
    obtain ⟨⟨⟨⟨_, hwh⟩, hwl⟩, _⟩, _⟩ := hwf
    obtain ⟨th, tl⟩ := hty
    simp only [collectDnf]
    intro c hc
    simp only [List.mem_append] at hc
    have hpath : ∀ b, ∀ t' ∈ path ++ [boolTerm v b], TermOK t' := by
      intro b t' ht'
      simp only [List.mem_append, List.mem_singleton] at ht'
      rcases ht' with h | rfl
      · exact hp t' h
      · exact boolTerm_ok v b
    rcases hc with hc | hc
    · exact collectDnf_ok spell fuel h _ hwh th (hpath true) c hc
    · exact collectDnf_ok spell fuel l _ hwl tl (hpath false) c hc
  | fuel + 1, .rng v es, path, hwf, hty, hp => by
    obtain ⟨hlen, hpart, hadj, hch⟩ := (Tree.wf_rng_iff v es).1 hwf
    obtain ⟨hv, htyE⟩ := hty
    rw [TypedE_iff] at htyE
    have hinv := collectEdges_spec es.toList (Part_valid hpart)
    simp only [collectDnf]
    intro c hc
    simp only [List.mem_flatMap] at hc
    obtain ⟨p, hpm, terms, hterms, hc⟩ := hc
    obtain ⟨e, he, hep⟩ := hinv.child p hpm
    refine collectDnf_ok spell fuel p.1 _ (by rw [← hep]; exact (hch e he).1)
      (by rw [← hep]; exact (htyE e he).2) ?_ c hc
    intro t' ht'
    simp only [List.mem_append] at ht'
    rcases ht' with h | h
    · exact hp t' h
    · exact rangeTerms_ok spell v hv p.2 terms hterms t' h

/-! ### 3: `to_dnf` -/

/-- C05: the clauses returned by `to_dnf` denote the same function as the marker
    (in *every* environment; see `toDnf_sound` for the statement with typed environments) -/
theorem toDnf_sound' (spell : Spell) (hs : ∀ v, stripZeros (spell v) = v) (t : MTree)
    (hwf : t.wf = true) (hty : Typed t) (ρ : Env VarR VarB Val) (hne : t ≠ .leaf true) :
    dnfSem ρ (toDnf spell t) = t.eval ρ := by
  unfold toDnf
  rw [simplifyDnf_sound ρ _ (collectDnf_ok spell _ t [] hwf hty (by simp)),
    collectDnf_sem spell hs ρ (t.size + 1) t [] (by omega) hwf hty (Or.inr hne)]
  simp [clauseSem]

theorem toDnf_sound (spell : Spell) (hs : ∀ v, stripZeros (spell v) = v) (t : MTree)
    (hwf : t.wf = true) (hty : Typed t) (ρ : Env VarR VarB Val) (hρ : EnvTyped ρ)
    (hne : t ≠ .leaf true) : dnfSem ρ (toDnf spell t) = t.eval ρ :=
  toDnf_sound' spell hs t hwf hty ρ hne

/-- a term that occurs in every clause of `to_dnf` is implied by the marker
    (the reasoning behind `top_level_extra`) -/
theorem toDnf_common_term (spell : Spell) (hs : ∀ v, stripZeros (spell v) = v) (t : MTree)
    (hwf : t.wf = true) (hty : Typed t) (ρ : Env VarR VarB Val) (hne : t ≠ .leaf true)
    (e : MExpr) (hall : ∀ c ∈ toDnf spell t, e ∈ c) (ht : t.eval ρ = true) :
    termSem ρ e = true := by
  rw [← toDnf_sound' spell hs t hwf hty ρ hne] at ht
  simp only [dnfSem, List.any_eq_true] at ht
  obtain ⟨c, hc, hsem⟩ := ht
  exact (clauseSem_iff ρ c).1 hsem e (hall c hc)

/-- for the TRUE terminal `to_dnf` returns no clause at all (callers test `is_true` first) -/
theorem toDnf_true (spell : Spell) : toDnf spell (.leaf true) = [] := by
  simp [toDnf, collectDnf, Tree.size, simplifyDnf, simplifyTerms, redundantClauses]

end Pep508
