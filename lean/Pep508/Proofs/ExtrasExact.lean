/-
Exactness of the environment-free evaluation `Tree.evalExtras` (`evaluate_extras`) on well-formed
diagrams: if the answer is `true` then some environment compatible with the known extras satisfies
the marker (the converse of `evalExtras_sound`).

The diagram is ordered, so every variable occurs at most once on a path and the children of a node
only look at strictly later variables (`Tree.eval_setR` / `Tree.eval_setB`): a witness for a child
can be overridden at the node's own variable without changing the child's value.  For a range node
the override is a point of the chosen edge's interval; it exists as soon as that interval is
inhabited (`Tree.EdgesInh`), which in turn follows from validity when every syntactically valid
interval of the value order is inhabited (e.g. `DenseUnbounded`).  Edges of a well-formed node are
pairwise disjoint, so the first-match rule of `Tree.eval` selects the chosen edge.
-/
import Pep508.Proofs.Canon
import Pep508.Proofs.WfLemmas
import Pep508.Proofs.UnaryRestrict
set_option linter.unusedSectionVars false
namespace Pep508
variable {νr νb α : Type}
variable [LT α] [LE α] [Std.IsLinearOrder α] [Std.LawfulOrderLT α] [DecidableLT α] [DecidableEq α]
variable [LT νr] [LE νr] [Std.IsLinearOrder νr] [Std.LawfulOrderLT νr] [DecidableLT νr] [DecidableEq νr]
variable [LT νb] [LE νb] [Std.IsLinearOrder νb] [Std.LawfulOrderLT νb] [DecidableLT νb] [DecidableEq νb]

/-! ### edges of a partition are pairwise disjoint: first match = the edge containing the point -/

/-- every point of an edge of a partition starting at `cur` satisfies the lower bound `cur` -/
theorem Part_loOk {fin : Bnd α} : ∀ (es : EdgeL νr νb α) (cur : Bnd α), Part (some cur) fin es →
    ∀ e ∈ es, ∀ a, e.1.mem a = true → cur.loOk a = true := by
  intro es
  induction es with
  | nil => intro cur _ e he; simp at he
  | cons h rest ih =>
    intro cur hp e he a ha
    obtain ⟨h1, h2, h3⟩ := hp
    simp only [Option.some.injEq] at h1
    simp only [List.mem_cons] at he
    rcases he with rfl | he
    · simp only [Ivl.mem, Bool.and_eq_true] at ha
      rw [h1]; exact ha.1
    · cases hf : h.1.hi.flipHi with
      | none =>
        rw [hf] at h3
        cases rest with
        | nil => simp at he
        | cons e2 r2 => simp [Part] at h3
      | some n =>
        rw [hf] at h3
        have hn := ih n h3 e he a ha
        rw [h1]
        exact Bnd.loOk_of_after h.1.lo h.1.hi n a h2 hf hn

/-- in a partition, the first edge containing `a` is the (only) edge containing `a` -/
theorem evalL_of_mem_Part {fin : Bnd α} (ρ : Env νr νb α) (a : α) :
    ∀ (es : EdgeL νr νb α) (cur : Option (Bnd α)), Part cur fin es →
    ∀ e ∈ es, e.1.mem a = true → evalL ρ a es = e.2.eval ρ := by
  intro es
  induction es with
  | nil => intro cur _ e he; simp at he
  | cons h rest ih =>
    intro cur hp e he ha
    obtain ⟨h1, h2, h3⟩ := hp
    simp only [List.mem_cons] at he
    rcases he with rfl | he
    · simp [evalL, ha]
    · cases hf : h.1.hi.flipHi with
      | none =>
        rw [hf] at h3
        cases rest with
        | nil => simp at he
        | cons e2 r2 => simp [Part] at h3
      | some n =>
        rw [hf] at h3
        have hn := Part_loOk rest n h3 e he a ha
        have hhi := Bnd.flipHi_disjoint h.1.hi n a hf hn
        have hm : h.1.mem a = false := by simp [Ivl.mem, hhi]
        simp only [evalL, hm, Bool.false_eq_true, if_false]
        exact ih _ h3 e he ha

/-- a well-formed range node, its variable overridden by a point of one of its edges, evaluates
    like that edge's child -/
theorem Tree.eval_rng_setR_mem (ρ : Env νr νb α) (v : νr) (es : Edges νr νb α)
    (hwf : (Tree.rng v es).wf = true) (e : Ivl α × Tree νr νb α) (he : e ∈ es.toList) (a : α)
    (ha : e.1.mem a = true) : (Tree.rng v es).eval (ρ.setR v a) = e.2.eval ρ := by
  simp only [Tree.wf, Bool.and_eq_true] at hwf
  obtain ⟨⟨_, hp⟩, hall⟩ := hwf
  rw [Tree.eval_rng_setR ρ v a es hall]
  exact evalL_of_mem_Part ρ a es.toList _ ((partitionFrom_iff _ _).1 hp).1 e he ha

/-! ### the inhabitation hypothesis, per diagram -/

mutual
/-- every edge interval occurring in the diagram contains at least one value -/
def Tree.EdgesInh : Tree νr νb α → Prop
  | .leaf _ => True
  | .rng _ es => es.AllInh
  | .bool _ h l => h.EdgesInh ∧ l.EdgesInh
def Edges.AllInh : Edges νr νb α → Prop
  | .nil => True
  | .cons iv t rest => (∃ x, iv.mem x = true) ∧ t.EdgesInh ∧ rest.AllInh
end

mutual
/-- if every valid interval is inhabited then every edge of an `OK` (in particular of a
    well-formed) diagram is inhabited -/
theorem Tree.EdgesInh_of_OK (hinh : ∀ iv : Ivl α, iv.valid = true → ∃ x, iv.mem x = true) :
    ∀ (t : Tree νr νb α), t.OK → t.EdgesInh
  | .leaf _, _ => trivial
  | .rng _ es, h => Edges.AllInh_of_OKAll hinh es h.1
  | .bool _ hi lo, h => ⟨Tree.EdgesInh_of_OK hinh hi h.1, Tree.EdgesInh_of_OK hinh lo h.2⟩
theorem Edges.AllInh_of_OKAll (hinh : ∀ iv : Ivl α, iv.valid = true → ∃ x, iv.mem x = true) :
    ∀ (es : Edges νr νb α), es.OKAll → es.AllInh
  | .nil, _ => trivial
  | .cons iv t rest, h =>
    ⟨hinh iv h.1, Tree.EdgesInh_of_OK hinh t h.2.1, Edges.AllInh_of_OKAll hinh rest h.2.2⟩
end

theorem Tree.EdgesInh_of_wf (hinh : ∀ iv : Ivl α, iv.valid = true → ∃ x, iv.mem x = true)
    (t : Tree νr νb α) (h : t.wf = true) : t.EdgesInh :=
  Tree.EdgesInh_of_OK hinh t (Tree.OK_of_wf t h)

/-- a dense order without end points inhabits every valid interval -/
theorem valid_inhabited_of_dense [DenseUnbounded α] [Inhabited α] :
    ∀ iv : Ivl α, iv.valid = true → ∃ x, iv.mem x = true :=
  fun iv h => Ivl.exists_mem_of_valid iv h

/-- the hypothesis "every valid interval is inhabited" makes the value type non-empty -/
theorem nonempty_of_valid_inhabited
    (hinh : ∀ iv : Ivl α, iv.valid = true → ∃ x, iv.mem x = true) : Nonempty α := by
  obtain ⟨x, _⟩ := hinh ⟨.unb, .unb⟩ rfl
  exact ⟨x⟩

/-! ### exactness -/

/-- compatibility of an environment with the known extras -/
def Env.compat (ex : νb → Option Bool) (ρ : Env νr νb α) : Prop := ∀ v b, ex v = some b → ρ.bv v = b

theorem Env.compat_setR (ex : νb → Option Bool) (ρ : Env νr νb α) (v : νr) (a : α)
    (h : ρ.compat ex) : (ρ.setR v a).compat ex := h

theorem Env.compat_setB (ex : νb → Option Bool) (ρ : Env νr νb α) (v : νb) (b : Bool)
    (h : ρ.compat ex) (hv : ex v = none) : (ρ.setB v b).compat ex := by
  intro w c hw
  have : w ≠ v := by intro e; subst e; rw [hv] at hw; cases hw
  simp only [Env.setB, this, if_false]
  exact h w c hw

mutual
/-- **exactness of `evalExtras`, inductive form**: starting from any compatible base environment
    `ρ0` there is a compatible environment satisfying the diagram -/
theorem Tree.evalExtras_exact (ex : νb → Option Bool) (ρ0 : Env νr νb α) (h0 : ρ0.compat ex) :
    ∀ (t : Tree νr νb α), t.wf = true → t.EdgesInh → t.evalExtras ex = true →
      ∃ ρ : Env νr νb α, ρ.compat ex ∧ t.eval ρ = true
  | .leaf b, _, _, h => ⟨ρ0, h0, by simpa [Tree.evalExtras, Tree.eval] using h⟩
  | .rng v es, hwf, hi, h => by
    have hwf' := hwf
    simp only [Tree.wf, Bool.and_eq_true] at hwf'
    simp only [Tree.evalExtras] at h
    obtain ⟨e, he, ⟨a, ha⟩, ρ, hρ, hev⟩ := Edges.anyExtras_exact ex ρ0 h0 es (.r v) hwf'.2 hi h
    refine ⟨ρ.setR v a, Env.compat_setR ex ρ v a hρ, ?_⟩
    rw [Tree.eval_rng_setR_mem ρ v es hwf e he a ha]
    exact hev
  | .bool v hi lo, hwf, hinh, h => by
    simp only [Tree.wf, Bool.and_eq_true] at hwf
    obtain ⟨⟨⟨⟨_, whi⟩, wlo⟩, ghi⟩, glo⟩ := hwf
    simp only [Tree.evalExtras] at h
    cases hv : ex v with
    | some b =>
      cases b with
      | true =>
        simp only [hv] at h
        obtain ⟨ρ, hρ, hev⟩ := Tree.evalExtras_exact ex ρ0 h0 hi whi hinh.1 h
        exact ⟨ρ, hρ, by simp [Tree.eval, hρ v true hv, hev]⟩
      | false =>
        simp only [hv] at h
        obtain ⟨ρ, hρ, hev⟩ := Tree.evalExtras_exact ex ρ0 h0 lo wlo hinh.2 h
        exact ⟨ρ, hρ, by simp [Tree.eval, hρ v false hv, hev]⟩
    | none =>
      simp only [hv, Bool.or_eq_true] at h
      rcases h with h | h
      · obtain ⟨ρ, hρ, hev⟩ := Tree.evalExtras_exact ex ρ0 h0 hi whi hinh.1 h
        refine ⟨ρ.setB v true, Env.compat_setB ex ρ v true hρ hv, ?_⟩
        simp only [Tree.eval, Env.setB_bv, if_true]
        rw [Tree.eval_setB hi ρ v true whi ghi]; exact hev
      · obtain ⟨ρ, hρ, hev⟩ := Tree.evalExtras_exact ex ρ0 h0 lo wlo hinh.2 h
        refine ⟨ρ.setB v false, Env.compat_setB ex ρ v false hρ hv, ?_⟩
        simp only [Tree.eval, Env.setB_bv, Bool.false_eq_true, if_false]
        rw [Tree.eval_setB lo ρ v false wlo glo]; exact hev
theorem Edges.anyExtras_exact (ex : νb → Option Bool) (ρ0 : Env νr νb α) (h0 : ρ0.compat ex) :
    ∀ (es : Edges νr νb α) (k : Rank νr νb), es.wfAll k = true → es.AllInh →
      es.anyExtras ex = true →
      ∃ e ∈ es.toList, (∃ a, e.1.mem a = true) ∧
        ∃ ρ : Env νr νb α, ρ.compat ex ∧ e.2.eval ρ = true
  | .nil, _, _, _, h => by simp [Edges.anyExtras] at h
  | .cons iv t rest, k, hwf, hi, h => by
    simp only [Edges.wfAll, Bool.and_eq_true] at hwf
    simp only [Edges.anyExtras, Bool.or_eq_true] at h
    rcases h with h | h
    · obtain ⟨ρ, hρ, hev⟩ := Tree.evalExtras_exact ex ρ0 h0 t hwf.1.1 hi.2.1 h
      exact ⟨(iv, t), by simp [Edges.toList], hi.1, ρ, hρ, hev⟩
    · obtain ⟨e, he, ha, hr⟩ := Edges.anyExtras_exact ex ρ0 h0 rest k hwf.2 hi.2.2 h
      exact ⟨e, by simp [Edges.toList, he], ha, hr⟩
end

/-- the environment in which every known extra has its value (other booleans `false`) -/
def Env.ofExtras (ex : νb → Option Bool) (d : α) : Env νr νb α :=
  ⟨fun _ => d, fun v => (ex v).getD false⟩

theorem Env.compat_ofExtras (ex : νb → Option Bool) (d : α) :
    (Env.ofExtras ex d : Env νr νb α).compat ex := by
  intro v b h; simp [Env.ofExtras, h]

/-- **exactness, per-diagram hypothesis**: on a well-formed diagram all of whose edges are
    inhabited, `evalExtras = true` is witnessed by a compatible environment -/
theorem evalExtras_exact_of_edgesInh [Nonempty α] (ex : νb → Option Bool) (t : Tree νr νb α)
    (hwf : t.wf = true) (hi : t.EdgesInh) (h : t.evalExtras ex = true) :
    ∃ ρ : Env νr νb α, (∀ v b, ex v = some b → ρ.bv v = b) ∧ t.eval ρ = true := by
  obtain ⟨d⟩ := ‹Nonempty α›
  exact Tree.evalExtras_exact ex (Env.ofExtras ex d) (Env.compat_ofExtras ex d) t hwf hi h

/-- **exactness**: over a value order in which every valid interval is inhabited -/
theorem evalExtras_exact (hinh : ∀ iv : Ivl α, iv.valid = true → ∃ x, iv.mem x = true)
    (ex : νb → Option Bool) (t : Tree νr νb α) (hwf : t.wf = true)
    (h : t.evalExtras ex = true) :
    ∃ ρ : Env νr νb α, (∀ v b, ex v = some b → ρ.bv v = b) ∧ t.eval ρ = true :=
  have := nonempty_of_valid_inhabited hinh
  evalExtras_exact_of_edgesInh ex t hwf (Tree.EdgesInh_of_wf hinh t hwf) h

end Pep508

section
open Pep508
#print axioms Pep508.evalExtras_exact
#print axioms Pep508.evalExtras_exact_of_edgesInh
#print axioms Pep508.valid_inhabited_of_dense
end
