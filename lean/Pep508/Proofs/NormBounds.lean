/-
The bound-normalization invariant of diagrams (`Tree.AllB NormV`: every version bound is stored with
its trailing zeros stripped) holds for every diagram built by `expression` — whatever the expression
— and is preserved by `not` / `and` / `or` (BoundsIn.lean).  So every marker reachable from
expressions through the algebra satisfies the hypothesis of `toDnf_sound2`.
-/
import Pep508.Proofs.DnfSound2
import Pep508.Proofs.ExprSem
set_option linter.unusedSimpArgs false
namespace Pep508

theorem normV_ver (r : List Nat) : NormV (.ver (stripZeros r)) := strip_idem r
theorem normV_str (s : String) : NormV (.str s) := rfl

theorem Kind_single (P : Val → Prop) (v : Val) (h : P v) :
    ∀ s ∈ Ranges.singleton v, Ivl.Kind P s := by
  intro s hs
  simp only [Ranges.singleton, List.mem_singleton] at hs
  subst hs; exact ⟨h, h⟩

theorem Kind_ofBounds' (P : Val → Prop) (lo hi : Bnd Val) (h1 : Bnd.Kind P lo) (h2 : Bnd.Kind P hi) :
    ∀ s ∈ Ranges.ofBounds lo hi, Ivl.Kind P s := by
  intro s hs
  unfold Ranges.ofBounds at hs
  split at hs
  · simp only [List.mem_singleton] at hs; subst hs; exact ⟨h1, h2⟩
  · simp at hs

/-- the bounds of a release specifier's range are stripped releases, whatever the operator -/
theorem Kind_releaseSpec_norm (s : Spec) : ∀ iv ∈ releaseSpecToRange s, Ivl.Kind NormV iv := by
  obtain ⟨op, rel⟩ := s
  have h := normV_ver rel
  cases op
  case eq => exact Kind_single NormV _ h
  case exactEq => exact Kind_single NormV _ h
  case ne => exact Kind_complement NormV _ (Kind_single NormV _ h)
  case tilde => exact Kind_ofBounds' NormV _ _ h (normV_ver _)
  case eqStar => exact Kind_ofBounds' NormV _ _ h (normV_ver _)
  case neStar => exact Kind_complement NormV _ (Kind_ofBounds' NormV _ _ h (normV_ver _))
  all_goals
    intro iv hiv
    simp only [releaseSpecToRange, List.mem_singleton] at hiv
    subst hiv
    first | exact ⟨trivial, h⟩ | exact ⟨h, trivial⟩

theorem Kind_union (P : Val → Prop) : ∀ (b a : Ranges Val), (∀ s ∈ a, Ivl.Kind P s) →
    (∀ s ∈ b, Ivl.Kind P s) → ∀ s ∈ Ranges.union a b, Ivl.Kind P s := by
  intro b
  induction b with
  | nil => intro a ha _; simpa [Ranges.union] using ha
  | cons t b ih =>
    intro a ha hb
    have ht := hb t (by simp)
    have hb' : ∀ s ∈ b, Ivl.Kind P s := fun s hs => hb s (by simp [hs])
    simp only [Ranges.union, List.foldl_cons]
    split
    · exact ih _ (Ranges.insert_pred (Ivl.Kind P) (fun s t hs ht _ _ => Ivl.kind_merge P s t hs ht)
        a t ht ha) hb'
    · exact ih _ ha hb'

theorem Kind_pyVersionsRange : ∀ (vs : List (List Nat)) (acc r : Ranges Val),
    (∀ s ∈ acc, Ivl.Kind NormV s) → pyVersionsRange vs acc = some r → ∀ s ∈ r, Ivl.Kind NormV s
  | [], acc, r, ha, h => by
    simp only [pyVersionsRange, Option.some.injEq] at h
    subst h; exact ha
  | v :: rest, acc, r, ha, h => by
    simp only [pyVersionsRange] at h
    split at h
    · cases h
    · exact Kind_pyVersionsRange rest _ r (Kind_union NormV _ _ ha (Kind_releaseSpec_norm _)) h

theorem Kind_foldl_singletons : ∀ (vs : List (List Nat)) (acc : Ranges Val),
    (∀ s ∈ acc, Ivl.Kind NormV s) →
    ∀ s ∈ vs.foldl (fun acc v => Ranges.union acc (Ranges.singleton (.ver (stripZeros v)))) acc,
      Ivl.Kind NormV s
  | [], acc, ha => by simpa using ha
  | v :: rest, acc, ha => by
    simp only [List.foldl_cons]
    exact Kind_foldl_singletons rest _
      (Kind_union NormV _ _ ha (Kind_single NormV _ (normV_ver v)))

theorem AllB_boolNode (P : Val → Prop) (v : VarB) (b : Bool) : (boolNode v b).AllB P := by
  cases b <;> simp [boolNode, Tree.AllB]

/-- **every expression diagram stores its version bounds normalized** -/
theorem expression_normBounds (e : MExpr) : (expression e).AllB NormV := by
  have hrange : ∀ (v : VarR) (neg : Bool) (r : Ranges Val), (∀ s ∈ r, Ivl.Kind NormV s) →
      (rangeNode v (if neg then Ranges.complement r else r) : MTree).AllB NormV := by
    intro v neg r hr
    cases neg
    · exact AllB_rangeNode NormV v r hr
    · exact AllB_rangeNode NormV v _ (Kind_complement NormV r hr)
  have hver : ∀ (k : VKey) (s : Spec),
      (rangeNode (.ver k) (releaseSpecToRange (normalizeSpecifier s)) : MTree).AllB NormV :=
    fun k s => AllB_rangeNode NormV _ _ (Kind_releaseSpec_norm _)
  have hin : ∀ (k : VKey) (vs : List (List Nat)) (neg : Bool),
      (rangeNode (.ver k) (if neg then Ranges.complement
        (vs.foldl (fun acc v => Ranges.union acc (Ranges.singleton (.ver (stripZeros v)))) [])
        else vs.foldl (fun acc v => Ranges.union acc (Ranges.singleton (.ver (stripZeros v)))) []) :
        MTree).AllB NormV :=
    fun k vs neg => hrange _ neg _ (Kind_foldl_singletons vs [] (by simp))
  cases e with
  | version k s =>
    cases k
    case pyVer =>
      simp only [expression]
      split
      · exact hver _ _
      · trivial
    all_goals exact hver _ s
  | versionIn k vs neg =>
    cases k
    case pyVer =>
      simp only [expression]
      split
      · trivial
      · rename_i r hr
        exact hrange _ neg r (Kind_pyVersionsRange vs [] r (by simp) hr)
    all_goals exact hin _ vs neg
  | string k op v =>
    have hs := normV_str v
    cases op
    case isIn => exact AllB_boolNode _ _ _
    case notIn => exact AllB_boolNode _ _ _
    case contains => exact AllB_boolNode _ _ _
    case notContains => exact AllB_boolNode _ _ _
    case eq => exact AllB_rangeNode NormV _ _ (Kind_single NormV _ hs)
    case ne => exact AllB_rangeNode NormV _ _ (Kind_complement NormV _ (Kind_single NormV _ hs))
    all_goals
      refine AllB_rangeNode NormV _ _ ?_
      intro s hsm
      simp only [stringRange, List.mem_singleton] at hsm
      subst hsm
      first | exact ⟨trivial, hs⟩ | exact ⟨hs, trivial⟩
  | extra neg name => exact AllB_boolNode _ _ _

end Pep508
