/-
The default fuel of `parseMarkers` (`4 * input.length + 16`) always suffices: the model's
"stack" panic is never reached, hence `parseMarkers` never panics at all.

Progress measure: the number of remaining chars `c.rest.length`.  Every parser only moves the
cursor forward; a parenthesised sub-expression first consumes `(`, a loop iteration first
consumes its keyword (3 chars for `and`, 2 for `or`).
-/
import Pep508.Proofs.ParseTotal
namespace Pep508

open Cursor

/-! ### parsers only move forward -/

/-- on `ok`, at most `n` chars remain -/
def Res.Mono {β : Type} (n : Nat) (cur : β → Cursor) (r : Res β) : Prop :=
  match r with
  | .ok b => (cur b).rest.length ≤ n
  | _ => True

@[simp] theorem Res.mono_ok {β} (n cur) (b : β) : Res.Mono n cur (.ok b) = ((cur b).rest.length ≤ n) := rfl
@[simp] theorem Res.mono_err {β} (n) (cur : β → Cursor) (e) : Res.Mono n cur (.err e : Res β) = True := rfl
@[simp] theorem Res.mono_panic {β} (n) (cur : β → Cursor) (s) : Res.Mono n cur (.panic s : Res β) = True := rfl
@[simp] theorem Res.mono_serr {β} (n) (cur : β → Cursor) (s l : Nat) : Res.Mono n cur (serr s l : Res β) = True := rfl

theorem Res.Mono.le {β} {n m : Nat} {cur : β → Cursor} {r : Res β} (h : Res.Mono n cur r) (hnm : n ≤ m) :
    Res.Mono m cur r := by
  cases r with
  | ok b => exact Nat.le_trans h hnm
  | err e => trivial
  | panic s => trivial

theorem next_rest {c : Cursor} {v : (Nat × Char) × Cursor} (hn : c.next = some v) :
    v.2.rest.length + 1 = c.rest.length := by
  unfold next at hn
  cases h : c.rest with
  | nil => simp [h] at hn
  | cons a r =>
    simp only [h, Option.some.injEq] at hn
    subst hn
    simp

theorem eatChar_rest {c : Cursor} {tok : Char} {v : Nat × Cursor} (hn : c.eatChar tok = some v) :
    v.2.rest.length + 1 = c.rest.length := by
  unfold eatChar at hn
  cases h : c.rest with
  | nil => simp [h] at hn
  | cons a r =>
    simp only [h] at hn
    by_cases hc : (a == tok) = true
    · simp only [hc, if_true, Option.some.injEq] at hn
      subst hn
      simp
    · simp [hc] at hn

theorem skipWhile_length (p : Char → Bool) (rest : List Char) (pos : Nat) :
    (skipWhile p rest pos).1.length ≤ rest.length := by
  obtain ⟨taken, h1, _⟩ := skipWhile_spec p rest pos
  have := congrArg List.length h1
  simp at this
  omega

theorem eatWhitespace_rest (c : Cursor) : c.eatWhitespace.rest.length ≤ c.rest.length :=
  skipWhile_length isWs c.rest c.pos

theorem takeWhile_rest (c : Cursor) (p : Char → Bool) : (c.takeWhile p).2.rest.length ≤ c.rest.length :=
  skipWhile_length p c.rest c.pos

theorem nextExpectChar_mono (c : Cursor) (exp : Char) (sp : Nat) :
    Res.Mono c.rest.length id (nextExpectChar c exp sp) := by
  unfold nextExpectChar
  cases hn : c.next with
  | none => trivial
  | some v =>
    obtain ⟨⟨pos, ch⟩, c'⟩ := v
    have := next_rest hn
    by_cases hc : (ch == exp) = true
    · simp [hc]; simp at this; omega
    · simp [hc]

theorem opTail_mono (c : Cursor) (p : Char → Bool) :
    Res.Mono c.rest.length Prod.snd (opTail (c.takeWhile p)) := by
  have h1 := takeWhile_rest c p
  unfold opTail
  cases (c.takeWhile p).2.slice (c.takeWhile p).1.1 (c.takeWhile p).1.2 with
  | none => trivial
  | some taken =>
    simp only [Res.ofSlice]
    by_cases hnot : (String.ofList taken == "not") = true
    · simp only [hnot, if_true]
      cases hn : (c.takeWhile p).2.next with
      | none => trivial
      | some v =>
        obtain ⟨⟨pos, w⟩, c2⟩ := v
        have h2 := next_rest hn
        simp only at h2 ⊢
        by_cases hw : isWs w = true
        · simp only [hw, if_true]
          have h3 := eatWhitespace_rest c2
          have g1 := nextExpectChar_mono c2.eatWhitespace 'i' c2.eatWhitespace.pos
          cases e1 : nextExpectChar c2.eatWhitespace 'i' c2.eatWhitespace.pos with
          | ok c4 =>
            rw [e1] at g1
            simp only [Res.mono_ok, id] at g1
            dsimp only
            have g2 := nextExpectChar_mono c4 'n' c4.pos
            cases e2 : nextExpectChar c4 'n' c4.pos with
            | ok c5 => rw [e2] at g2; simp only [Res.mono_ok, id] at g2 ⊢; omega
            | err e => trivial
            | panic s => trivial
          | err e => trivial
          | panic s => trivial
        · simp only [hw]
          trivial
    · simp only [hnot]
      cases opOfToken (String.ofList taken) with
      | some op => exact h1
      | none => trivial

theorem parseMarkerOperator_mono (x : Ext) (c : Cursor) :
    Res.Mono c.rest.length Prod.snd (parseMarkerOperator x c) := by
  obtain ⟨p, hp⟩ := parseMarkerOperator_eq x c
  rw [hp]
  exact opTail_mono c p

theorem parseMarkerValue_mono (c : Cursor) :
    Res.Mono c.rest.length Prod.snd (parseMarkerValue c) := by
  unfold parseMarkerValue
  cases hp : c.peek with
  | none => trivial
  | some v =>
    obtain ⟨startPos, q⟩ := v
    dsimp only
    by_cases hq : (q == '"' || q == '\'') = true
    · simp only [hq, if_true]
      cases hn : c.next with
      | none => trivial
      | some v =>
        obtain ⟨pc, c1⟩ := v
        have h1 := next_rest hn
        dsimp only at h1 ⊢
        have h2 := takeWhile_rest c1 (fun ch => ch != q)
        cases htw : c1.takeWhile (fun ch => ch != q) with
        | mk sl c2 =>
          obtain ⟨start, len⟩ := sl
          rw [htw] at h2
          dsimp only at h2 ⊢
          cases c2.slice start len with
          | none => trivial
          | some value =>
            simp only [Res.ofSlice]
            have g := nextExpectChar_mono c2 q startPos
            cases e : nextExpectChar c2 q startPos with
            | ok c3 => rw [e] at g; simp only [Res.mono_ok, id] at g ⊢; omega
            | err e' => trivial
            | panic s => trivial
    · simp only [hq]
      have h2 := takeWhile_rest c (fun ch =>
        !isWs ch && !(ch == '>' || ch == '=' || ch == '<' || ch == '!' || ch == '~' || ch == ')'))
      cases htw : c.takeWhile (fun ch =>
        !isWs ch && !(ch == '>' || ch == '=' || ch == '<' || ch == '!' || ch == '~' || ch == ')')) with
      | mk sl c1 =>
        obtain ⟨start, len⟩ := sl
        rw [htw] at h2
        dsimp only at h2 ⊢
        cases c1.slice start len with
        | none => trivial
        | some key =>
          simp only [Res.ofSlice]
          cases keyOfName (String.ofList key) with
          | some v => exact h2
          | none => trivial

theorem parseKeyOpValue_mono (x : Ext) (c : Cursor) :
    Res.Mono c.rest.length Prod.snd (parseKeyOpValue x c) := by
  unfold parseKeyOpValue
  have h0 := eatWhitespace_rest c
  have g1 := parseMarkerValue_mono c.eatWhitespace
  cases e1 : parseMarkerValue c.eatWhitespace with
  | panic s => trivial
  | err e => trivial
  | ok v =>
    obtain ⟨l, c1⟩ := v
    rw [e1] at g1
    simp only [Res.mono_ok] at g1
    dsimp only
    have h1 := eatWhitespace_rest c1
    have g2 := parseMarkerOperator_mono x c1.eatWhitespace
    cases e2 : parseMarkerOperator x c1.eatWhitespace with
    | panic s => trivial
    | err e => trivial
    | ok v =>
      obtain ⟨op, c2⟩ := v
      rw [e2] at g2
      simp only [Res.mono_ok] at g2
      dsimp only
      have h2 := eatWhitespace_rest c2
      have g3 := parseMarkerValue_mono c2.eatWhitespace
      cases e3 : parseMarkerValue c2.eatWhitespace with
      | panic s => trivial
      | err e => trivial
      | ok v =>
        obtain ⟨r, c3⟩ := v
        rw [e3] at g3
        simp only [Res.mono_ok] at g3 ⊢
        omega

/-- the descent only moves forward -/
def DescentMono (x : Ext) (fuel : Nat) : Prop :=
  (∀ c w, Res.Mono c.rest.length PState.cur (parseExpr x fuel c w)) ∧
  (∀ isAnd c w, Res.Mono c.rest.length PState.cur (parseOp x isAnd fuel c w)) ∧
  (∀ isAnd st, Res.Mono st.cur.rest.length PState.cur (parseOpLoop x isAnd fuel st))

theorem parseExpr_mono_step (x : Ext) (fuel : Nat) (ih : DescentMono x fuel) (c : Cursor)
    (w : List WarnKind) : Res.Mono c.rest.length PState.cur (parseExpr x (fuel + 1) c w) := by
  simp only [parseExpr]
  have h0 := eatWhitespace_rest c
  cases he : c.eatWhitespace.eatChar '(' with
  | some v =>
    obtain ⟨startPos, c1⟩ := v
    have h1 := eatChar_rest he
    dsimp only at h1 ⊢
    have g := ih.2.1 false c1 w
    cases e : parseOp x false fuel c1 w with
    | ok st =>
      rw [e] at g
      simp only [Res.mono_ok] at g
      dsimp only
      have g2 := nextExpectChar_mono st.cur ')' startPos
      cases e2 : nextExpectChar st.cur ')' startPos with
      | ok c2 => rw [e2] at g2; simp only [Res.mono_ok, id] at g2 ⊢; omega
      | err e' => trivial
      | panic s => trivial
    | err e' => trivial
    | panic s => trivial
  | none =>
    dsimp only
    have g := parseKeyOpValue_mono x c.eatWhitespace
    cases e : parseKeyOpValue x c.eatWhitespace with
    | ok v =>
      obtain ⟨⟨e', w'⟩, c1⟩ := v
      rw [e] at g
      simp only [Res.mono_ok] at g ⊢
      omega
    | err e' => trivial
    | panic s => trivial

theorem parseOp_mono_step (x : Ext) (fuel : Nat) (ih : DescentMono x fuel) (isAnd : Bool) (c : Cursor)
    (w : List WarnKind) : Res.Mono c.rest.length PState.cur (parseOp x isAnd (fuel + 1) c w) := by
  simp only [parseOp]
  have g : Res.Mono c.rest.length PState.cur
      (if isAnd = true then parseExpr x fuel c w else parseOp x true fuel c w) := by
    cases isAnd
    · exact ih.2.1 true c w
    · exact ih.1 c w
  cases e : (if isAnd = true then parseExpr x fuel c w else parseOp x true fuel c w) with
  | ok st =>
    rw [e] at g
    simp only [Res.mono_ok] at g
    dsimp only
    exact (ih.2.2 isAnd st).le g
  | err e' => trivial
  | panic s => trivial

theorem parseOpLoop_mono_step (x : Ext) (fuel : Nat) (ih : DescentMono x fuel) (isAnd : Bool)
    (st : PState) : Res.Mono st.cur.rest.length PState.cur (parseOpLoop x isAnd (fuel + 1) st) := by
  simp only [parseOpLoop]
  have h0 := eatWhitespace_rest st.cur
  cases hpw : st.cur.eatWhitespace.peekWhile (fun ch => !kwStop ch) with
  | mk start len =>
    dsimp only
    cases st.cur.eatWhitespace.slice start len with
    | none => trivial
    | some word =>
      simp only [Res.ofSlice]
      by_cases hk : (String.ofList word == (if isAnd = true then "and" else "or")) = true
      · simp only [hk, if_true]
        have h1 := takeWhile_rest st.cur.eatWhitespace (fun ch => !kwStop ch)
        generalize (st.cur.eatWhitespace.takeWhile (fun ch => !kwStop ch)).2 = c1 at h1
        have g : Res.Mono c1.rest.length PState.cur
            (if isAnd = true then parseExpr x fuel c1 st.warns else parseOp x true fuel c1 st.warns) := by
          cases isAnd
          · exact ih.2.1 true c1 _
          · exact ih.1 c1 _
        cases e : (if isAnd = true then parseExpr x fuel c1 st.warns else parseOp x true fuel c1 st.warns) with
        | ok st' =>
          rw [e] at g
          simp only [Res.mono_ok] at g
          dsimp only
          have g2 := ih.2.2 isAnd ⟨combine isAnd st.tree st'.tree, st'.warns, st'.cur⟩
          dsimp only at g2
          exact g2.le (by omega)
        | err e' => trivial
        | panic s => trivial
      · simp only [hk]
        exact h0

theorem descentMono (x : Ext) : ∀ fuel, DescentMono x fuel := by
  intro fuel
  induction fuel with
  | zero =>
    refine ⟨?_, ?_, ?_⟩
    · intro c w; simp [parseExpr]
    · intro isAnd c w; simp [parseOp]
    · intro isAnd st; simp [parseOpLoop]
  | succ fuel ih =>
    exact ⟨parseExpr_mono_step x fuel ih, parseOp_mono_step x fuel ih, parseOpLoop_mono_step x fuel ih⟩

/-! ### the fuel bound -/

theorem Res.Good.not_panic {β : Type} {input : List Char} {cur : β → Cursor} {r : Res β}
    (h : Res.Good input cur NoPanic r) (s : String) : r ≠ .panic s := by
  intro hr; rw [hr] at h; exact h

/-- a recognised keyword is consumed entirely: `and` is 3 chars, `or` 2 -/
theorem keyword_consumed {c : Cursor} (h : c.Inv) (p : Char → Bool) {start len : Nat} {word : List Char}
    (hpw : c.peekWhile p = (start, len)) (hs : c.slice start len = some word) :
    (c.takeWhile p).2.rest.length + word.length = c.rest.length := by
  obtain ⟨taken, h1, h2, _⟩ := takeWhile_slice h p
  have hpw' : (c.takeWhile p).1 = (start, len) := hpw
  rw [hpw'] at h2
  have : word = taken := by
    have : some word = some taken := by rw [← hs, ← h2]; rfl
    exact Option.some.inj this
  subst this
  have := congrArg List.length h1
  simp at this
  omega

theorem kw_length (isAnd : Bool) (word : List Char)
    (hk : (String.ofList word == (if isAnd = true then "and" else "or")) = true) :
    word.length = if isAnd then 3 else 2 := by
  have := congrArg String.length (eq_of_beq hk)
  rw [String.length_ofList] at this
  cases isAnd
  · simpa [show "or".length = 2 by decide] using this
  · simpa [show "and".length = 3 by decide] using this

/-- fuel `4 * remaining + k` suffices (`k` = 1 for an expression or a loop, 2 for an `and`
chain, 3 for an `or` chain) -/
def DescentFuel (x : Ext) (fuel : Nat) : Prop :=
  (∀ c w, c.Inv → 4 * c.rest.length + 1 ≤ fuel → parseExpr x fuel c w ≠ .panic "stack") ∧
  (∀ isAnd c w, c.Inv → 4 * c.rest.length + (if isAnd = true then 2 else 3) ≤ fuel →
    parseOp x isAnd fuel c w ≠ .panic "stack") ∧
  (∀ isAnd st, st.cur.Inv → 4 * st.cur.rest.length + 1 ≤ fuel →
    parseOpLoop x isAnd fuel st ≠ .panic "stack")

theorem parseExpr_fuel_step (x : Ext) (fuel : Nat) (ih : DescentFuel x fuel) (c : Cursor)
    (w : List WarnKind) (h : c.Inv) (hf : 4 * c.rest.length + 1 ≤ fuel + 1) :
    parseExpr x (fuel + 1) c w ≠ .panic "stack" := by
  simp only [parseExpr]
  have h0 := inv_eatWhitespace h
  have r0 := eatWhitespace_rest c
  cases he : c.eatWhitespace.eatChar '(' with
  | some v =>
    obtain ⟨startPos, c1⟩ := v
    obtain ⟨i1, e1, hsp⟩ := eatChar_spec h0 he
    have r1 := eatChar_rest he
    dsimp only at r1 ⊢
    have f1 := ih.2.1 false c1 w i1 (by simp only [Bool.false_eq_true, if_false]; omega)
    have g := (descentOK x fuel).2.1 false c1 w i1
    cases e : parseOp x false fuel c1 w with
    | ok st =>
      rw [e] at g
      simp only [Res.good_ok] at g
      dsimp only
      have g2 := nextExpectChar_good g.1 ')' (sp := startPos)
        (by rw [g.2, e1, hsp]; exact h0.boundary)
      cases e2 : nextExpectChar st.cur ')' startPos with
      | ok c2 => simp
      | err e' => simp
      | panic s => exact absurd e2 (g2.not_panic s)
    | err e' => simp
    | panic s => rw [e] at f1; simpa using f1
  | none =>
    dsimp only
    have g := parseKeyOpValue_good x h0
    cases e : parseKeyOpValue x c.eatWhitespace with
    | ok v => simp
    | err e' => simp
    | panic s => exact absurd e (g.not_panic s)

theorem parseOp_fuel_step (x : Ext) (fuel : Nat) (ih : DescentFuel x fuel) (isAnd : Bool) (c : Cursor)
    (w : List WarnKind) (h : c.Inv)
    (hf : 4 * c.rest.length + (if isAnd = true then 2 else 3) ≤ fuel + 1) :
    parseOp x isAnd (fuel + 1) c w ≠ .panic "stack" := by
  simp only [parseOp]
  have f1 : (if isAnd = true then parseExpr x fuel c w else parseOp x true fuel c w) ≠ .panic "stack" := by
    cases isAnd
    · exact ih.2.1 true c w h (by simp at hf ⊢; omega)
    · exact ih.1 c w h (by simp at hf ⊢; omega)
  have g : Res.Good c.input PState.cur OnlyStack
      (if isAnd = true then parseExpr x fuel c w else parseOp x true fuel c w) := by
    cases isAnd
    · exact (descentOK x fuel).2.1 true c w h
    · exact (descentOK x fuel).1 c w h
  have m : Res.Mono c.rest.length PState.cur
      (if isAnd = true then parseExpr x fuel c w else parseOp x true fuel c w) := by
    cases isAnd
    · exact (descentMono x fuel).2.1 true c w
    · exact (descentMono x fuel).1 c w
  cases e : (if isAnd = true then parseExpr x fuel c w else parseOp x true fuel c w) with
  | ok st =>
    rw [e] at g m
    simp only [Res.good_ok, Res.mono_ok] at g m
    dsimp only
    refine ih.2.2 isAnd st g.1 ?_
    cases isAnd <;> simp at hf <;> omega
  | err e' => simp
  | panic s => rw [e] at f1; simpa using f1

theorem parseOpLoop_fuel_step (x : Ext) (fuel : Nat) (ih : DescentFuel x fuel) (isAnd : Bool)
    (st : PState) (h : st.cur.Inv) (hf : 4 * st.cur.rest.length + 1 ≤ fuel + 1) :
    parseOpLoop x isAnd (fuel + 1) st ≠ .panic "stack" := by
  simp only [parseOpLoop]
  have h0 := inv_eatWhitespace h
  have r0 := eatWhitespace_rest st.cur
  cases hpw : st.cur.eatWhitespace.peekWhile (fun ch => !kwStop ch) with
  | mk start len =>
    obtain ⟨word, hs⟩ := peekWhile_slice_some h0 (fun ch => !kwStop ch)
    rw [hpw] at hs
    dsimp only
    rw [hs]
    simp only [Res.ofSlice]
    by_cases hk : (String.ofList word == (if isAnd = true then "and" else "or")) = true
    · simp only [hk, if_true]
      have i1 := inv_takeWhile h0 (fun ch => !kwStop ch)
      have r1 := keyword_consumed h0 _ hpw hs
      rw [kw_length isAnd word hk] at r1
      generalize (st.cur.eatWhitespace.takeWhile (fun ch => !kwStop ch)).2 = c1 at i1 r1
      have f1 : (if isAnd = true then parseExpr x fuel c1 st.warns else parseOp x true fuel c1 st.warns)
          ≠ .panic "stack" := by
        cases isAnd
        · exact ih.2.1 true c1 _ i1 (by simp at r1 ⊢; omega)
        · exact ih.1 c1 _ i1 (by simp at r1 ⊢; omega)
      have g : Res.Good c1.input PState.cur OnlyStack
          (if isAnd = true then parseExpr x fuel c1 st.warns else parseOp x true fuel c1 st.warns) := by
        cases isAnd
        · exact (descentOK x fuel).2.1 true c1 _ i1
        · exact (descentOK x fuel).1 c1 _ i1
      have m : Res.Mono c1.rest.length PState.cur
          (if isAnd = true then parseExpr x fuel c1 st.warns else parseOp x true fuel c1 st.warns) := by
        cases isAnd
        · exact (descentMono x fuel).2.1 true c1 _
        · exact (descentMono x fuel).1 c1 _
      cases e : (if isAnd = true then parseExpr x fuel c1 st.warns else parseOp x true fuel c1 st.warns) with
      | ok st' =>
        rw [e] at g m
        simp only [Res.good_ok, Res.mono_ok] at g m
        dsimp only
        refine ih.2.2 isAnd ⟨combine isAnd st.tree st'.tree, st'.warns, st'.cur⟩ g.1 ?_
        dsimp only
        cases isAnd <;> simp at r1 <;> omega
      | err e' => simp
      | panic s => rw [e] at f1; simpa using f1
    · simp only [hk]
      simp

theorem descentFuel (x : Ext) : ∀ fuel, DescentFuel x fuel := by
  intro fuel
  induction fuel with
  | zero =>
    refine ⟨?_, ?_, ?_⟩
    · intro c w _ hf; omega
    · intro isAnd c w _ hf; cases isAnd <;> simp at hf
    · intro isAnd st _ hf; omega
  | succ fuel ih =>
    exact ⟨parseExpr_fuel_step x fuel ih, parseOp_fuel_step x fuel ih, parseOpLoop_fuel_step x fuel ih⟩

/-- `parse_markers_cursor` with enough fuel never panics -/
theorem parseMarkersCursor_never_panics (x : Ext) (fuel : Nat) {c : Cursor} (h : c.Inv)
    (hf : 4 * c.rest.length + 3 ≤ fuel) : ∀ s, parseMarkersCursor x fuel c ≠ .panic s := by
  intro s hs
  have g := parseMarkersCursor_good x fuel h
  rw [hs] at g
  have : s = "stack" := g
  subst this
  unfold parseMarkersCursor at hs
  have f := (descentFuel x fuel).2.1 false c [] h (by simpa using hf)
  cases e : parseOp x false fuel c [] with
  | ok st =>
    rw [e] at hs
    dsimp only at hs
    cases hn : st.cur.eatWhitespace.next with
    | none => rw [hn] at hs; simp at hs
    | some v => rw [hn] at hs; simp [serr] at hs
  | err e' => rw [e] at hs; simp at hs
  | panic s' =>
    rw [e] at hs
    simp only [Res.panic.injEq] at hs
    subst hs
    exact f e

/-- the default fuel always suffices: `parseMarkers` never panics, for any input and externals -/
theorem parseMarkers_never_panics (x : Ext) (input : List Char) :
    ∀ s, parseMarkers x input ≠ .panic s := by
  intro s hs
  unfold parseMarkers at hs
  have f := parseMarkersCursor_never_panics x (4 * input.length + 16) (inv_new input)
    (by show 4 * input.length + 3 ≤ _; omega)
  cases e : parseMarkersCursor x (4 * input.length + 16) (Cursor.new input) with
  | ok st => rw [e] at hs; simp at hs
  | err e' => rw [e] at hs; simp at hs
  | panic s' => exact f s' e

/-- so the outcome is always a value or an error -/
theorem parseMarkers_total (x : Ext) (input : List Char) :
    (∃ t w, parseMarkers x input = .ok (t, w)) ∨
    (∃ e, parseMarkers x input = .err e ∧ Boundary input e.start) := by
  cases h : parseMarkers x input with
  | ok v => exact .inl ⟨v.1, v.2, rfl⟩
  | err e => exact .inr ⟨e, rfl, parseMarkers_err_boundary x input e h⟩
  | panic s => exact absurd h (parseMarkers_never_panics x input s)

end Pep508
