/-
C05 at the text level, part 2: the text `showMarker spell t` is a well-formed layout (in the sense
of MarkerLayout.lean) of the derivation `astOfDnf (toDnf spell t)`; hence — the atoms re-parsing by
DisplayAtoms.lean — `parse_markers` returns on it the diagram `buildDnf (toDnf spell t)`: the
left-nested `or` of the left-nested `and`s of the expression diagrams, exactly as `parse_marker_op`
folds them.  `buildDnf d` is well-formed and denotes `dnfSem d` (C02 + C20), so with `to_dnf_sound`
the re-parsed marker denotes the same function as `t`.
-/
import Pep508.Proofs.DisplayAtoms
import Pep508.Proofs.DnfCollect
import Pep508.Proofs.WfAnd
import Pep508.Proofs.WfUnary
import Pep508.Theorems.C02
set_option linter.unusedSimpArgs false
namespace Pep508

open Cursor

/-! ### chains -/

theorem foldl_append_flatMap {β : Type} (f : β → List Char) (l : List β) (init : List Char) :
    l.foldl (fun s p => s ++ f p) init = init ++ l.flatMap f := by
  induction l generalizing init with
  | nil => simp
  | cons a l ih => simp [ih, List.append_assoc]

theorem flatMap_congr_mem {β γ : Type} (l : List β) (f g : β → List γ) (h : ∀ a ∈ l, f a = g a) :
    l.flatMap f = l.flatMap g := by
  induction l with
  | nil => rfl
  | cons a l ih =>
    simp only [List.flatMap_cons]
    rw [h a (by simp), ih (fun b hb => h b (by simp [hb]))]

theorem intercalate_cons (sep a : List Char) (rest : List (List Char)) :
    sep.intercalate (a :: rest) = a ++ rest.flatMap (fun b => sep ++ b) := by
  induction rest generalizing a with
  | nil => simp [List.intercalate]
  | cons b rest ih =>
    have := ih b
    simp only [List.intercalate, List.intersperse_cons_cons, List.flatten_cons, List.flatMap_cons,
      List.append_assoc] at this ⊢
    rw [this]

/-- the `and` chain of well-formed operands, each preceded by a non-empty blank run -/
theorem chain_and_wf (ops : List (List Char × MAst)) : ∀ (first : MAst), first.WF →
    first.isAndChain = true →
    (∀ p ∈ ops, AllP isWs p.1 ∧ p.1 ≠ [] ∧ p.2.WF ∧ p.2.isExpr = true ∧ HeadIs kwStop p.2.layout) →
    (MAst.chain true first ops).WF ∧ (MAst.chain true first ops).isAndChain = true := by
  induction ops with
  | nil => intro first h1 h2 _; exact ⟨h1, h2⟩
  | cons p ops ih =>
    intro first h1 h2 hops
    obtain ⟨a1, a2, a3, a4, a5⟩ := hops p (by simp)
    exact ih (.and first p.1 p.2) ⟨h1, a3, h2, a4, a1, .inr a2, a5⟩ rfl
      (fun q hq => hops q (by simp [hq]))

/-- the `or` chain of well-formed `and` chains, each preceded by a non-empty blank run -/
theorem chain_or_wf (ops : List (List Char × MAst)) : ∀ (first : MAst), first.WF →
    (∀ p ∈ ops, AllP isWs p.1 ∧ p.1 ≠ [] ∧ p.2.WF ∧ p.2.isAndChain = true ∧ HeadIs kwStop p.2.layout) →
    (MAst.chain false first ops).WF := by
  induction ops with
  | nil => intro first h1 _; exact h1
  | cons p ops ih =>
    intro first h1 hops
    obtain ⟨a1, a2, a3, a4, a5⟩ := hops p (by simp)
    exact ih (.or first p.1 p.2) ⟨h1, a3, a4, a1, .inr a2, a5⟩ (fun q hq => hops q (by simp [hq]))

theorem chain_atomsOK (x : Ext) (isAnd : Bool) (ops : List (List Char × MAst)) : ∀ (first : MAst),
    first.AtomsOK x → (∀ p ∈ ops, p.2.AtomsOK x) → (MAst.chain isAnd first ops).AtomsOK x := by
  induction ops with
  | nil => intro first h1 _; exact h1
  | cons p ops ih =>
    intro first h1 hops
    have hp := hops p (by simp)
    cases isAnd
    · exact ih (.or first p.1 p.2) ⟨h1, hp⟩ (fun q hq => hops q (by simp [hq]))
    · exact ih (.and first p.1 p.2) ⟨h1, hp⟩ (fun q hq => hops q (by simp [hq]))

/-- the marker of a chain all of whose operands are kept -/
theorem chain_denote_some (x : Ext) (isAnd : Bool) {β : Type} (g : β → List Char × MAst)
    (tr : β → MTree) (wr : β → List WarnKind) (l : List β) : ∀ (first : MAst) (t0 : MTree)
    (w0 : List WarnKind), first.denote x = (some t0, w0) →
    (∀ b ∈ l, (g b).2.denote x = (some (tr b), wr b)) →
    (MAst.chain isAnd first (l.map g)).denote x =
      (some (l.foldl (fun acc b => if isAnd then Tree.and acc (tr b) else Tree.or acc (tr b)) t0),
        w0 ++ l.flatMap wr) := by
  induction l with
  | nil => intro first t0 w0 h0 _; simpa [MAst.chain] using h0
  | cons b l ih =>
    intro first t0 w0 h0 hl
    have hb := hl b (by simp)
    simp only [List.map_cons, MAst.chain, List.foldl_cons, List.flatMap_cons]
    cases isAnd
    · have := ih (.or first (g b).1 (g b).2) (Tree.or t0 (tr b)) (w0 ++ wr b)
        (by simp [MAst.denote, h0, hb, combine]) (fun c hc => hl c (by simp [hc]))
      simpa [MAst.chain, List.append_assoc] using this
    · have := ih (.and first (g b).1 (g b).2) (Tree.and t0 (tr b)) (w0 ++ wr b)
        (by simp [MAst.denote, h0, hb, combine]) (fun c hc => hl c (by simp [hc]))
      simpa [MAst.chain, List.append_assoc] using this

/-! ### the derivation behind a rendered DNF -/

def astAtom (lead : List Char) (e : MExpr) : MAst := .atom lead (exprChars e)

/-- a clause: the `and` chain of its terms, single blanks around the keyword -/
def astClause (lead : List Char) : List MExpr → MAst
  | [] => .atom lead []
  | e :: es => MAst.chain true (astAtom lead e) (es.map fun e' => ([' '], astAtom [' '] e'))

/-- a clause as an operand of `or`: parenthesised unless it has exactly one term -/
def astOperand (lead : List Char) (c : List MExpr) : MAst :=
  if c.length == 1 then astClause lead c else .paren lead (astClause [] c) []

/-- the derivation `Display` writes: no parentheses for a single clause -/
def astOfDnf : List (List MExpr) → MAst
  | [] => .atom [] []
  | [c] => astClause [] c
  | c :: cs => MAst.chain false (astOperand [] c) (cs.map fun c' => ([' '], astOperand [' '] c'))

/-! ### the rendered text, as chars -/

def conjChars (c : List MExpr) : List Char := " and ".toList.intercalate (c.map exprChars)

def operandChars (c : List MExpr) : List Char :=
  if c.length == 1 then conjChars c else '(' :: (conjChars c ++ [')'])

def dnfChars : List (List MExpr) → List Char
  | [c] => conjChars c
  | d => " or ".toList.intercalate (d.map operandChars)

/-- `Display for MarkerTreeContents`, char by char (FALSE has its own literal) -/
theorem showMarker_toList (spell : Spell) (t : MTree) (h : t ≠ .leaf false) :
    (showMarker spell t).toList = dnfChars (toDnf spell t) := by
  unfold showMarker
  have hb : (t == .leaf false) = false := by simpa using h
  simp only [hb, Bool.false_eq_true, if_false]
  generalize toDnf spell t = d
  have conj_eq : ∀ c : List MExpr,
      (" and ".intercalate (c.map showExpr)).toList = conjChars c := by
    intro c
    simp only [String.toList_intercalate, List.map_map, conjChars]
    rfl
  have operand_eq : ∀ c : List MExpr,
      (if c.length == 1 then " and ".intercalate (c.map showExpr)
        else "(" ++ " and ".intercalate (c.map showExpr) ++ ")").toList = operandChars c := by
    intro c
    unfold operandChars
    cases hc : (c.length == 1)
    · simp only [Bool.false_eq_true, if_false, String.toList_append, conj_eq]
      rfl
    · simp only [if_true]; exact conj_eq c
  have multi : (" or ".intercalate (d.map fun c =>
      if c.length == 1 then " and ".intercalate (c.map showExpr)
      else "(" ++ " and ".intercalate (c.map showExpr) ++ ")")).toList =
      " or ".toList.intercalate (d.map operandChars) := by
    simp only [String.toList_intercalate, List.map_map]
    congr 1
    apply List.map_congr_left
    intro c _
    exact operand_eq c
  match d with
  | [] => exact multi
  | [c] => exact conj_eq c
  | c :: c' :: cs => exact multi

/-! ### the text is the layout of the derivation -/

theorem astClause_layout (lead : List Char) (c : List MExpr) (hc : c ≠ []) :
    (astClause lead c).layout = lead ++ conjChars c := by
  cases c with
  | nil => exact absurd rfl hc
  | cons e es =>
    simp only [astClause, MAst.layout_chain, foldl_append_flatMap, List.flatMap_map, conjChars,
      List.map_cons, intercalate_cons, astAtom, MAst.layout, List.append_assoc]
    rfl

theorem astOperand_layout (lead : List Char) (c : List MExpr) (hc : c ≠ []) :
    (astOperand lead c).layout = lead ++ operandChars c := by
  unfold astOperand operandChars
  cases h : (c.length == 1)
  · simp only [Bool.false_eq_true, if_false, MAst.layout, astClause_layout [] c hc, List.nil_append]
  · simp only [if_true]; exact astClause_layout lead c hc

theorem astOfDnf_layout (d : List (List MExpr)) (hd : d ≠ []) (hc : ∀ c ∈ d, c ≠ []) :
    (astOfDnf d).layout = dnfChars d := by
  match d, hd, hc with
  | [c], _, hc =>
    have := astClause_layout [] c (hc c (by simp))
    simpa [astOfDnf, dnfChars] using this
  | c :: c' :: cs, _, hc =>
    have h0 := astOperand_layout [] c (hc c (by simp))
    have hrest : ∀ c'' ∈ c' :: cs, c'' ≠ [] := fun c'' h'' => hc c'' (by simp at h''; simp [h''])
    show (MAst.chain false (astOperand [] c) ((c' :: cs).map fun c' => ([' '], astOperand [' '] c'))).layout =
      " or ".toList.intercalate (operandChars c :: (c' :: cs).map operandChars)
    generalize c' :: cs = rest at hrest
    rw [MAst.layout_chain, foldl_append_flatMap, h0, intercalate_cons,
      List.flatMap_map, List.flatMap_map, List.nil_append]
    congr 1
    apply flatMap_congr_mem
    intro c'' hc''
    rw [astOperand_layout [' '] c'' (hrest c'' hc'')]; rfl

/-! ### the derivation is well formed, its atoms re-parse -/

theorem ws1' : AllP isWs [' '] := by decide

theorem astAtom_wf (x : Ext) (lead : List Char) (hl : AllP isWs lead) (e : MExpr) (h : AtomRT x e) :
    (astAtom lead e).WF := ⟨hl, (atom_reparses x e h).2.2⟩

theorem headIs_kwStop_blank (t : List Char) : HeadIs kwStop (' ' :: t) := ⟨' ', t, rfl, by decide⟩

theorem astClause_wf (x : Ext) (lead : List Char) (hl : AllP isWs lead) (c : List MExpr) (hc : c ≠ [])
    (h : ∀ e ∈ c, AtomRT x e) :
    (astClause lead c).WF ∧ (astClause lead c).isAndChain = true ∧ (astClause lead c).AtomsOK x := by
  cases c with
  | nil => exact absurd rfl hc
  | cons e es =>
    have h0 := astAtom_wf x lead hl e (h e (by simp))
    have hw := chain_and_wf (es.map fun e' => ([' '], astAtom [' '] e')) (astAtom lead e) h0 rfl (by
      intro p hp
      simp only [List.mem_map] at hp
      obtain ⟨e', he', rfl⟩ := hp
      exact ⟨ws1', by simp, astAtom_wf x [' '] ws1' e' (h e' (by simp [he'])), rfl,
        headIs_kwStop_blank _⟩)
    refine ⟨hw.1, hw.2, ?_⟩
    have ha : (astAtom lead e).AtomsOK x := (atom_reparses x e (h e (by simp))).1
    apply chain_atomsOK x true _ _ ha
    intro p hp
    simp only [List.mem_map] at hp
    obtain ⟨e', he', rfl⟩ := hp
    exact (atom_reparses x e' (h e' (by simp [he']))).1

theorem astOperand_wf (x : Ext) (lead : List Char) (hl : AllP isWs lead) (c : List MExpr) (hc : c ≠ [])
    (h : ∀ e ∈ c, AtomRT x e) :
    (astOperand lead c).WF ∧ (astOperand lead c).isAndChain = true ∧ (astOperand lead c).AtomsOK x := by
  unfold astOperand
  cases h1 : (c.length == 1)
  · simp only [Bool.false_eq_true, if_false]
    have := astClause_wf x [] (AllP.nil _) c hc h
    exact ⟨⟨hl, AllP.nil _, this.1⟩, rfl, this.2.2⟩
  · simp only [if_true]; exact astClause_wf x lead hl c hc h

theorem astOperand_head (lead : List Char) (c : List MExpr) (hc : c ≠ []) :
    (astOperand (' ' :: lead) c).layout = ' ' :: (lead ++ operandChars c) := by
  rw [astOperand_layout _ c hc]; rfl

theorem astOfDnf_wf (x : Ext) (d : List (List MExpr)) (hd : d ≠ []) (hc : ∀ c ∈ d, c ≠ [])
    (h : ∀ c ∈ d, ∀ e ∈ c, AtomRT x e) : (astOfDnf d).WF ∧ (astOfDnf d).AtomsOK x := by
  match d, hd, hc, h with
  | [c], _, hc, h =>
    have := astClause_wf x [] (AllP.nil _) c (hc c (by simp)) (h c (by simp))
    exact ⟨this.1, this.2.2⟩
  | c :: c' :: cs, _, hc, h =>
    have h0 := astOperand_wf x [] (AllP.nil _) c (hc c (by simp)) (h c (by simp))
    have hops : ∀ p ∈ (c' :: cs).map (fun c' => ([' '], astOperand [' '] c')),
        AllP isWs p.1 ∧ p.1 ≠ [] ∧ p.2.WF ∧ p.2.isAndChain = true ∧ HeadIs kwStop p.2.layout ∧
          p.2.AtomsOK x := by
      intro p hp
      simp only [List.mem_map] at hp
      obtain ⟨c'', hc'', rfl⟩ := hp
      have := astOperand_wf x [' '] ws1' c'' (hc c'' (by simp [hc''])) (h c'' (by simp [hc'']))
      refine ⟨ws1', by simp, this.1, this.2.1, ?_, this.2.2⟩
      rw [astOperand_head [] c'' (hc c'' (by simp [hc'']))]
      exact headIs_kwStop_blank _
    refine ⟨chain_or_wf _ _ h0.1 (fun p hp => ?_), chain_atomsOK x false _ _ h0.2.2 (fun p hp => ?_)⟩
    · obtain ⟨a1, a2, a3, a4, a5, _⟩ := hops p hp
      exact ⟨a1, a2, a3, a4, a5⟩
    · exact (hops p hp).2.2.2.2.2

/-! ### what the derivation denotes -/

/-- the diagram `parse_marker_and` folds from a clause -/
def buildClause : List MExpr → MTree
  | [] => .leaf true
  | e :: es => es.foldl (fun acc e' => Tree.and acc (expression e')) (expression e)

/-- the diagram `parse_marker_or` folds from a DNF -/
def buildDnf : List (List MExpr) → MTree
  | [] => .leaf false
  | c :: cs => cs.foldl (fun acc c' => Tree.or acc (buildClause c')) (buildClause c)

/-- the warnings of the re-parse, left to right -/
def dnfWarns (d : List (List MExpr)) : List WarnKind := d.flatMap fun c => c.flatMap termWarns

theorem astAtom_denote (x : Ext) (lead : List Char) (e : MExpr) (h : AtomRT x e) :
    (astAtom lead e).denote x = (some (expression e), termWarns e) := by
  simp [astAtom, MAst.denote, (atom_reparses x e h).2.1]

theorem astClause_denote (x : Ext) (lead : List Char) (c : List MExpr) (hc : c ≠ [])
    (h : ∀ e ∈ c, AtomRT x e) :
    (astClause lead c).denote x = (some (buildClause c), c.flatMap termWarns) := by
  cases c with
  | nil => exact absurd rfl hc
  | cons e es =>
    have := chain_denote_some x true (fun e' => ([' '], astAtom [' '] e')) expression termWarns es
      (astAtom lead e) (expression e) (termWarns e) (astAtom_denote x lead e (h e (by simp)))
      (fun e' he' => astAtom_denote x [' '] e' (h e' (by simp [he'])))
    simpa [astClause, buildClause] using this

theorem astOperand_denote (x : Ext) (lead : List Char) (c : List MExpr) (hc : c ≠ [])
    (h : ∀ e ∈ c, AtomRT x e) :
    (astOperand lead c).denote x = (some (buildClause c), c.flatMap termWarns) := by
  unfold astOperand
  cases h1 : (c.length == 1)
  · simp only [Bool.false_eq_true, if_false]
    exact astClause_denote x [] c hc h
  · simp only [if_true]; exact astClause_denote x lead c hc h

theorem astOfDnf_denote (x : Ext) (d : List (List MExpr)) (hd : d ≠ []) (hc : ∀ c ∈ d, c ≠ [])
    (h : ∀ c ∈ d, ∀ e ∈ c, AtomRT x e) :
    (astOfDnf d).denote x = (some (buildDnf d), dnfWarns d) := by
  match d, hd, hc, h with
  | [c], _, hc, h =>
    simpa [astOfDnf, buildDnf, dnfWarns] using astClause_denote x [] c (hc c (by simp)) (h c (by simp))
  | c :: c' :: cs, _, hc, h =>
    have := chain_denote_some x false (fun c' => ([' '], astOperand [' '] c')) buildClause
      (fun c => c.flatMap termWarns) (c' :: cs) (astOperand [] c) (buildClause c)
      (c.flatMap termWarns) (astOperand_denote x [] c (hc c (by simp)) (h c (by simp)))
      (fun c'' hc'' => astOperand_denote x [' '] c'' (hc c'' (by simp [hc''])) (h c'' (by simp [hc''])))
    simpa [astOfDnf, buildDnf, dnfWarns] using this

/-! ### (P3) the rendered DNF parses to `buildDnf` -/

/-- a rendered DNF (at least one clause, no empty clause, every term re-parsable) parses to the
fold of its clauses, with the terms' warnings in order -/
theorem parseMarkers_dnfChars (x : Ext) (d : List (List MExpr)) (hd : d ≠ []) (hc : ∀ c ∈ d, c ≠ [])
    (h : ∀ c ∈ d, ∀ e ∈ c, AtomRT x e) :
    parseMarkers x (dnfChars d) = .ok (buildDnf d, dnfWarns d) := by
  have hw := astOfDnf_wf x d hd hc h
  have := parseMarkers_layout x (astOfDnf d) [] hw.1 hw.2 (AllP.nil _)
  rw [List.append_nil, astOfDnf_layout d hd hc, astOfDnf_denote x d hd hc h] at this
  exact this

/-! ### (P4, semantic half) `buildDnf` is well formed and denotes the DNF -/

theorem foldl_and_spec (ρ : Env VarR VarB Val) (es : List MExpr) : ∀ (acc : MTree), acc.wf = true →
    (es.foldl (fun acc e' => Tree.and acc (expression e')) acc).wf = true ∧
    (es.foldl (fun acc e' => Tree.and acc (expression e')) acc).eval ρ =
      (acc.eval ρ && es.all (termSem ρ)) := by
  induction es with
  | nil => intro acc h; simp [h]
  | cons e es ih =>
    intro acc h
    have hw := wf_and acc (expression e) h (wf_expression e)
    obtain ⟨i1, i2⟩ := ih (Tree.and acc (expression e)) hw
    refine ⟨i1, ?_⟩
    rw [List.foldl_cons, i2, C02.eval_and ρ acc (expression e) (Tree.OK_of_wf _ h)
      (Tree.OK_of_wf _ (wf_expression e))]
    simp [termSem, Bool.and_assoc]

theorem buildClause_spec (ρ : Env VarR VarB Val) (c : List MExpr) :
    (buildClause c).wf = true ∧ (buildClause c).eval ρ = clauseSem ρ c := by
  cases c with
  | nil => exact ⟨rfl, rfl⟩
  | cons e es =>
    have := foldl_and_spec ρ es (expression e) (wf_expression e)
    exact ⟨this.1, by rw [buildClause, this.2]; simp [clauseSem, termSem]⟩

theorem foldl_or_spec (ρ : Env VarR VarB Val) (cs : List (List MExpr)) : ∀ (acc : MTree),
    acc.wf = true →
    (cs.foldl (fun acc c' => Tree.or acc (buildClause c')) acc).wf = true ∧
    (cs.foldl (fun acc c' => Tree.or acc (buildClause c')) acc).eval ρ =
      (acc.eval ρ || cs.any (clauseSem ρ)) := by
  induction cs with
  | nil => intro acc h; simp [h]
  | cons c cs ih =>
    intro acc h
    have hc := buildClause_spec ρ c
    have hw := wf_or acc (buildClause c) h hc.1
    obtain ⟨i1, i2⟩ := ih (Tree.or acc (buildClause c)) hw
    refine ⟨i1, ?_⟩
    rw [List.foldl_cons, i2, C02.eval_or ρ acc (buildClause c) (Tree.OK_of_wf _ h)
      (Tree.OK_of_wf _ hc.1), hc.2]
    simp [Bool.or_assoc]

theorem buildDnf_wf (d : List (List MExpr)) : (buildDnf d).wf = true := by
  cases d with
  | nil => rfl
  | cons c cs =>
    exact (foldl_or_spec ⟨fun _ => .ver [], fun _ => false⟩ cs (buildClause c)
      (buildClause_spec ⟨fun _ => .ver [], fun _ => false⟩ c).1).1

theorem buildDnf_eval (ρ : Env VarR VarB Val) (d : List (List MExpr)) :
    (buildDnf d).eval ρ = dnfSem ρ d := by
  cases d with
  | nil => rfl
  | cons c cs =>
    have hc := buildClause_spec ρ c
    rw [buildDnf, (foldl_or_spec ρ cs (buildClause c) hc.1).2, hc.2]
    simp [dnfSem]

end Pep508
