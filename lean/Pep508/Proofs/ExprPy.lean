/-
C10: `python_version` expressions, through `python_version_to_full_version`.
-/
import Pep508.Proofs.ExprSem
set_option linter.unusedSectionVars false
namespace Pep508
open Spec

/-- what `python_version_to_full_version` must achieve on a normalised specifier -/
def PvOK (s0 : Pep508.Spec) (X Y Z : Nat) : PvResult → Prop
  | .spec s' => s'.rel.length ≤ 2 ∧ Spec.wellFormed s' ∧
      specSem s'.op s'.rel [X, Y, Z] = specSem s0.op s0.rel [X, Y]
  | .const b => b = specSem s0.op s0.rel [X, Y]

theorem pvOK_one (op : Op) (M X Y Z : Nat) (ht : op ≠ .tilde) :
    PvOK ⟨op, [M]⟩ X Y Z (pythonVersionToFull ⟨op, [M]⟩) := by
  cases op <;> simp only [pythonVersionToFull, Op.isStar, Bool.false_eq_true, ↓reduceIte] <;>
    simp only [PvOK, Spec.wellFormed, specSem, cmpRel, prefixMatch] <;>
    first | exact absurd rfl ht | skip
  all_goals (refine ⟨by simp, ⟨by simp, by simp⟩, ?_⟩)
  all_goals grind

theorem pvOK_two (op : Op) (M m X Y Z : Nat) :
    PvOK ⟨op, [M, m]⟩ X Y Z (pythonVersionToFull ⟨op, [M, m]⟩) := by
  cases op <;> simp only [pythonVersionToFull] <;>
    simp only [PvOK, Spec.wellFormed, specSem, cmpRel, prefixMatch, List.dropLast]
  all_goals (refine ⟨by simp, ⟨by simp, by simp⟩, ?_⟩)
  all_goals grind

/-- three or more segments, not `~=`, not a star operator, the tail not all zeros -/
theorem pvOK_many (op : Op) (M m t : Nat) (ts : List Nat) (X Y Z : Nat)
    (ht : op ≠ .tilde) (hs : op.isStar = false) (hz : (t :: ts).all (· == 0) = false) :
    PvOK ⟨op, M :: m :: t :: ts⟩ X Y Z (pythonVersionToFull ⟨op, M :: m :: t :: ts⟩) := by
  have hc : cmpRel [] (t :: ts) = .lt := by rw [cmpRel_nil_left, hz]; simp
  cases op <;> simp only [pythonVersionToFull] <;>
    simp only [PvOK, Spec.wellFormed, specSem, cmpRel, prefixMatch, hc] <;>
    first | exact absurd rfl ht | (simp [Op.isStar] at hs; done) | skip
  all_goals (try refine ⟨by simp, ⟨by simp, by simp⟩, ?_⟩)
  all_goals grind

theorem pvOK_tilde (M m t : Nat) (ts : List Nat) (X Y Z : Nat) :
    PvOK ⟨.tilde, M :: m :: t :: ts⟩ X Y Z (pythonVersionToFull ⟨.tilde, M :: m :: t :: ts⟩) := by
  have hdl : (M :: m :: t :: ts).dropLast = M :: m :: (t :: ts).dropLast := by simp
  simp only [pythonVersionToFull]
  by_cases hz : (t :: ts).all (· == 0) = true
  · have hz' := all_dropLast _ hz
    simp only [hz, if_true, PvOK, Spec.wellFormed, specSem, hdl]
    simp only [cmpRel, prefixMatch, cmpRel_nil_left, prefixMatch_nil_right, hz, hz', if_true]
    refine ⟨by simp, ⟨by simp, by simp⟩, ?_⟩
    grind
  · simp only [hz, PvOK, specSem, hdl]
    simp only [cmpRel, prefixMatch, cmpRel_nil_left, hz]
    grind

theorem pvOK_normalized (s : Pep508.Spec) (X Y Z : Nat) (hw : Spec.wellFormed s)
    (hcarve : ¬ (s.op.isStar = true ∧ 2 < s.rel.length)) :
    PvOK (normalizeSpecifier s) X Y Z (pythonVersionToFull (normalizeSpecifier s)) := by
  have hop := normalizeSpecifier_op s
  have hne := normalizeSpecifier_rel_ne_nil s hw.1
  have hst := normalizeSpecifier_of_star_or_tilde s
  have hnm := normalizeSpecifier_normalized s
  generalize normalizeSpecifier s = s0 at *
  obtain ⟨op, rel⟩ := s0
  simp only at hop hne
  match rel, hne with
  | [M], _ =>
    apply pvOK_one
    intro h
    have h' : s.op = .tilde := by rw [← hop, h]
    have := hst (Or.inr h')
    have hl := hw.2 h'
    rw [← this] at hl; simp at hl
  | [M, m], _ => exact pvOK_two op M m X Y Z
  | M :: m :: t :: ts, _ =>
    by_cases ht : op = .tilde
    · subst ht; exact pvOK_tilde M m t ts X Y Z
    · by_cases hs : op.isStar = true
      · exfalso
        have h' : s.op.isStar = true := by rw [← hop]; exact hs
        have := hst (Or.inl h')
        apply hcarve
        refine ⟨h', ?_⟩
        rw [← this]; simp
      · have hs' : op.isStar = false := by simpa using hs
        have hn := hnm (by
          rintro (h | h)
          · rw [← hop] at h; exact hs h
          · rw [← hop] at h; exact ht h)
        simp only [List.length_cons] at hn
        rcases hn with hn | hn
        · omega
        · exact pvOK_many op M m t ts X Y Z ht hs' (tail_not_all_zero M m t ts hn)

theorem expression_pyVer (s : Pep508.Spec) :
    expression (.version .pyVer s) =
      match pythonVersionToFull (normalizeSpecifier s) with
      | .spec s' => rangeNode (.ver .pfv) (releaseSpecToRange (normalizeSpecifier s'))
      | .const b => .leaf b := rfl

/-- C10: for the interpreter `X.Y.Z`, `python_version OP literal` holds exactly when the release
    `X.Y` satisfies `OP literal` in the sense of PEP 440 — except for star operators with more
    than two release segments, where the code answers a constant -/
theorem eval_expression_pyVer (ρ : Env VarR VarB Val) (s : Pep508.Spec) (X Y Z : Nat)
    (hw : Spec.wellFormed s) (hcarve : ¬ (s.op.isStar = true ∧ 2 < s.rel.length))
    (hρ : ρ.rv (.ver .pfv) = candVal [X, Y, Z]) :
    (expression (.version .pyVer s)).eval ρ = specSem s.op s.rel [X, Y] := by
  have key := pvOK_normalized s X Y Z hw hcarve
  rw [expression_pyVer, ← specSem_normalize s [X, Y]]
  cases hp : pythonVersionToFull (normalizeSpecifier s) with
  | const b => rw [hp] at key; exact key
  | spec s' =>
    rw [hp] at key
    obtain ⟨k1, k2, k3⟩ := key
    simp only
    rw [normalizeSpecifier_short s' k1, eval_rangeNode ρ _ _ (norm_releaseSpecToRange s'), hρ,
      mem_releaseSpecToRange s' _ k2, k3]

theorem OK_expression_pyVer (s : Pep508.Spec) : (expression (.version .pyVer s)).OK := by
  rw [expression_pyVer]
  split
  · exact OK_rangeNode _ _ (norm_releaseSpecToRange _)
  · trivial

theorem wf_expression_pyVer (s : Pep508.Spec) : (expression (.version .pyVer s)).wf = true := by
  rw [expression_pyVer]
  split
  · exact wf_rangeNode _ _ (norm_releaseSpecToRange _)
  · rfl

/-! ### negation clauses (structural equalities, all literals) -/

/-- the release part of a normalised plain (not `~=`, not star) specifier -/
def normRel (r : List Nat) : List Nat :=
  let keep := match lastNonZero r with
    | some e => if e > 1 then e else 1
    | none => 1
  if keep < r.length then r.take (keep + 1) else r

theorem normalizeSpecifier_plain (op : Op) (r : List Nat)
    (h : (op.isStar || op == .tilde) = false) : normalizeSpecifier ⟨op, r⟩ = ⟨op, normRel r⟩ := by
  unfold normalizeSpecifier normRel
  simp only [h, Bool.false_eq_true, ↓reduceIte]
  exact (apply_ite (Spec.mk op) _ _ _).symm

theorem normalizeSpecifier_ne_eq (r : List Nat) :
    normalizeSpecifier ⟨.ne, r⟩ = ⟨.ne, (normalizeSpecifier ⟨.eq, r⟩).rel⟩ ∧
    normalizeSpecifier ⟨.eq, r⟩ = ⟨.eq, (normalizeSpecifier ⟨.eq, r⟩).rel⟩ := by
  rw [normalizeSpecifier_plain .ne r rfl, normalizeSpecifier_plain .eq r rfl]
  exact ⟨rfl, rfl⟩

theorem rangeNode_neStar (l : List Nat) :
    (rangeNode (.ver .pfv) (releaseSpecToRange ⟨.neStar, l⟩) : MTree) =
      (rangeNode (.ver .pfv) (releaseSpecToRange ⟨.eqStar, l⟩)).not := by
  have : releaseSpecToRange ⟨.neStar, l⟩ = Ranges.complement (releaseSpecToRange ⟨.eqStar, l⟩) := rfl
  rw [this, rangeNode_complement _ _ (norm_releaseSpecToRange _)]

/-- `python_version != v` is the negation of `python_version == v` -/
theorem expression_pyVer_ne (r : List Nat) (hr : r ≠ []) :
    expression (.version .pyVer ⟨.ne, r⟩) = (expression (.version .pyVer ⟨.eq, r⟩)).not := by
  obtain ⟨h1, h2⟩ := normalizeSpecifier_ne_eq r
  have hne := normalizeSpecifier_rel_ne_nil ⟨.eq, r⟩ hr
  rw [expression_pyVer, expression_pyVer, h1, h2]
  generalize (normalizeSpecifier ⟨.eq, r⟩).rel = r' at hne
  match r', hne with
  | [M], _ =>
    simp only [pythonVersionToFull, Op.isStar, Bool.false_eq_true, ↓reduceIte]
    rw [normalizeSpecifier_of_star_or_tilde _ (Or.inl rfl),
      normalizeSpecifier_of_star_or_tilde _ (Or.inl rfl)]
    exact rangeNode_neStar _
  | [M, m], _ =>
    simp only [pythonVersionToFull]
    rw [normalizeSpecifier_of_star_or_tilde _ (Or.inl rfl),
      normalizeSpecifier_of_star_or_tilde _ (Or.inl rfl)]
    exact rangeNode_neStar _
  | M :: m :: t :: ts, _ =>
    simp only [pythonVersionToFull, Tree.not, Bool.not_false]

/-- `python_version != v.*` is the negation of `python_version == v.*` -/
theorem expression_pyVer_neStar (r : List Nat) (hr : r ≠ []) :
    expression (.version .pyVer ⟨.neStar, r⟩) = (expression (.version .pyVer ⟨.eqStar, r⟩)).not := by
  rw [expression_pyVer, expression_pyVer, normalizeSpecifier_of_star_or_tilde _ (Or.inl rfl),
    normalizeSpecifier_of_star_or_tilde _ (Or.inl rfl)]
  match r, hr with
  | [M], _ =>
    simp only [pythonVersionToFull, Op.isStar, ↓reduceIte]
    rw [normalizeSpecifier_of_star_or_tilde _ (Or.inl rfl),
      normalizeSpecifier_of_star_or_tilde _ (Or.inl rfl)]
    exact rangeNode_neStar _
  | [M, m], _ =>
    simp only [pythonVersionToFull]
    rw [normalizeSpecifier_of_star_or_tilde _ (Or.inl rfl),
      normalizeSpecifier_of_star_or_tilde _ (Or.inl rfl)]
    exact rangeNode_neStar _
  | M :: m :: t :: ts, _ =>
    simp only [pythonVersionToFull, Tree.not, Bool.not_false]

theorem norm_pyVersionsRange (vs : List (List Nat)) (acc r : Ranges Val) (ha : acc.Norm)
    (h : pyVersionsRange vs acc = some r) : r.Norm := by
  induction vs generalizing acc with
  | nil => simp only [pyVersionsRange, Option.some.injEq] at h; subst h; exact ha
  | cons v rest ih =>
    simp only [pyVersionsRange] at h
    split at h
    · simp at h
    · exact ih _ (Ranges.norm_union _ _ ha) h

theorem expression_pyVer_in (vs : List (List Nat)) (neg : Bool) :
    expression (.versionIn .pyVer vs neg) =
      match pyVersionsRange vs [] with
      | none => .leaf neg
      | some r => rangeNode (.ver .pfv) (if neg then Ranges.complement r else r) := rfl

/-- `python_version not in L` is the negation of `python_version in L` -/
theorem expression_pyVer_notIn (vs : List (List Nat)) :
    expression (.versionIn .pyVer vs true) = (expression (.versionIn .pyVer vs false)).not := by
  rw [expression_pyVer_in, expression_pyVer_in]
  cases h : pyVersionsRange vs [] with
  | none => simp [Tree.not]
  | some r =>
    simp only [if_true, Bool.false_eq_true, if_false]
    exact rangeNode_complement _ _ (norm_pyVersionsRange vs [] r Ranges.norm_nil h)

/-! ### `python_version in L` -/

theorem pv_eq_short (v : List Nat) (X Y Z : Nat) (hv : v.length = 1 ∨ v.length = 2) :
    ∃ s', pythonVersionToFull ⟨.eq, v⟩ = .spec s' ∧ s'.rel.length ≤ 2 ∧ Spec.wellFormed s' ∧
      specSem s'.op s'.rel [X, Y, Z] = (cmpRel [X, Y] v == .eq) := by
  match v, hv with
  | [M], _ =>
    have := pvOK_one .eq M X Y Z (by simp)
    simp only [pythonVersionToFull, Op.isStar, Bool.false_eq_true, ↓reduceIte] at this ⊢
    exact ⟨_, rfl, this⟩
  | [M, m], _ =>
    have := pvOK_two .eq M m X Y Z
    simp only [pythonVersionToFull] at this ⊢
    exact ⟨_, rfl, this⟩
  | [], h => simp at h
  | _ :: _ :: _ :: _, h => simp at h

theorem pyVersionsRange_spec (vs : List (List Nat)) (acc : Ranges Val) (ha : acc.Norm) (X Y Z : Nat)
    (hvs : ∀ v ∈ vs, v.length = 1 ∨ v.length = 2) :
    ∃ r, pyVersionsRange vs acc = some r ∧ r.Norm ∧
      r.mem (candVal [X, Y, Z]) =
        (acc.mem (candVal [X, Y, Z]) || vs.any (fun v => cmpRel [X, Y] v == .eq)) := by
  induction vs generalizing acc with
  | nil => exact ⟨acc, rfl, ha, by simp⟩
  | cons v rest ih =>
    obtain ⟨s', h1, h2, h3, h4⟩ := pv_eq_short v X Y Z (hvs v (by simp))
    simp only [pyVersionsRange, h1, List.any_cons]
    obtain ⟨r, i1, i2, i3⟩ := ih (Ranges.union acc (releaseSpecToRange (normalizeSpecifier s')))
      (Ranges.norm_union _ _ ha) (fun v' hv' => hvs v' (by simp [hv']))
    refine ⟨r, i1, i2, ?_⟩
    rw [i3, Ranges.mem_union _ _ ha, normalizeSpecifier_short s' h2, mem_releaseSpecToRange s' _ h3,
      h4, Bool.or_assoc]

/-- `python_version in L` / `not in L`, every member of `L` having one or two release segments:
    membership of `X.Y` up to PEP 440 equality -/
theorem eval_expression_pyVer_in (ρ : Env VarR VarB Val) (vs : List (List Nat)) (neg : Bool)
    (X Y Z : Nat) (hvs : ∀ v ∈ vs, v.length = 1 ∨ v.length = 2)
    (hρ : ρ.rv (.ver .pfv) = candVal [X, Y, Z]) :
    (expression (.versionIn .pyVer vs neg)).eval ρ =
      (neg != vs.any (fun v => cmpRel [X, Y] v == .eq)) := by
  obtain ⟨r, h1, h2, h3⟩ := pyVersionsRange_spec vs [] Ranges.norm_nil X Y Z hvs
  rw [expression_pyVer_in, h1]
  cases neg
  · simp only [Bool.false_eq_true, if_false]
    rw [eval_rangeNode ρ _ _ h2, hρ, h3]; simp [Ranges.mem]
  · simp only [if_true]
    rw [eval_rangeNode ρ _ _ (Ranges.norm_complement _ h2), hρ, Ranges.mem_complement _ h2, h3]
    simp [Ranges.mem]

/-- exact behaviour outside that hypothesis: one member with no or with more than two release
    segments turns the whole list expression into a constant -/
theorem expression_pyVer_in_const (vs : List (List Nat)) (neg : Bool)
    (h : ∃ v ∈ vs, v.length = 0 ∨ 3 ≤ v.length) :
    expression (.versionIn .pyVer vs neg) = .leaf neg := by
  have key : ∀ acc, pyVersionsRange vs acc = none := by
    induction vs with
    | nil => obtain ⟨v, hv, _⟩ := h; simp at hv
    | cons w rest ih =>
      intro acc
      obtain ⟨v, hv, hl⟩ := h
      simp only [pyVersionsRange]
      cases hp : pythonVersionToFull ⟨.eq, w⟩ with
      | const b => rfl
      | spec s' =>
        simp only
        simp only [List.mem_cons] at hv
        rcases hv with rfl | hv
        · exfalso
          match v, hl with
          | [], _ => simp [pythonVersionToFull] at hp
          | [_], hl => simp at hl
          | [_, _], hl => simp at hl
          | _ :: _ :: _ :: _, _ => simp [pythonVersionToFull] at hp
        · exact ih ⟨v, hv, hl⟩ _
  rw [expression_pyVer_in, key]

/-! ### witnesses: the hypotheses above cannot be dropped -/

/-- the carve-out of C10 is real: for Python 3.9, `python_version == "3.9.0.*"` is the constant
    FALSE although `3.9` matches `3.9.0.*` under PEP 440 -/
theorem pyVer_star_carveout_witness :
    expression (.version .pyVer ⟨.eqStar, [3, 9, 0]⟩) = .leaf false ∧
      specSem .eqStar [3, 9, 0] [3, 9] = true := by decide

/-- `python_version in "3.9.0"` is the constant FALSE, while `python_version == "3.9.0"`
    holds on Python 3.9 (and `3.9 == 3.9.0` under PEP 440) -/
theorem pyVer_in_three_segments_witness :
    expression (.versionIn .pyVer [[3, 9, 0]] false) = .leaf false ∧
      cmpRel [3, 9] [3, 9, 0] = .eq ∧
      expression (.version .pyVer ⟨.eq, [3, 9, 0]⟩) = expression (.version .pyVer ⟨.eq, [3, 9]⟩) :=
  ⟨by decide, by simp [cmpRel], by decide⟩

/-- the negation clause needs a non-empty release (no such literal exists) -/
theorem pyVer_ne_empty_witness :
    expression (.version .pyVer ⟨.ne, []⟩) = expression (.version .pyVer ⟨.eq, []⟩) := by decide

end Pep508
