/-
Bound tracking: the values that occur as interval bounds in `not x`, `and x y`, `or x y` and in range
atoms occur as bounds in the operands (`Tree.AllB P`: every bound value of the diagram satisfies `P`).
Used by the relative canonicity argument of C05b (the witnesses of C03 are only needed inside
intervals whose bounds occur in the two diagrams).
-/
import Pep508.Proofs.DnfCollect
set_option linter.unusedSectionVars false
set_option linter.unusedSimpArgs false
namespace Pep508
variable {νr νb α : Type}
variable [LT α] [LE α] [Std.IsLinearOrder α] [Std.LawfulOrderLT α] [DecidableLT α] [DecidableEq α]
variable [LT νr] [LE νr] [Std.IsLinearOrder νr] [Std.LawfulOrderLT νr] [DecidableLT νr] [DecidableEq νr]
variable [LT νb] [LE νb] [Std.IsLinearOrder νb] [Std.LawfulOrderLT νb] [DecidableLT νb] [DecidableEq νb]

mutual
/-- every value occurring as a bound of an edge of the diagram satisfies `P` -/
def Tree.AllB (P : α → Prop) : Tree νr νb α → Prop
  | .leaf _ => True
  | .rng _ es => es.AllB P
  | .bool _ h l => h.AllB P ∧ l.AllB P
def Edges.AllB (P : α → Prop) : Edges νr νb α → Prop
  | .nil => True
  | .cons iv t rest => Ivl.Kind P iv ∧ t.AllB P ∧ rest.AllB P
end

/-- the same for an edge list -/
def AllBL (P : α → Prop) (es : EdgeL νr νb α) : Prop := ∀ e ∈ es, Ivl.Kind P e.1 ∧ e.2.AllB P

theorem Edges.AllB_iff (P : α → Prop) : ∀ (es : Edges νr νb α), es.AllB P ↔ AllBL P es.toList
  | .nil => by simp [Edges.AllB, Edges.toList, AllBL]
  | .cons iv t rest => by
    have ih := Edges.AllB_iff P rest
    simp only [Edges.AllB, Edges.toList, AllBL, List.mem_cons, ih]
    constructor
    · rintro ⟨h1, h2, h3⟩ e (rfl | he)
      · exact ⟨h1, h2⟩
      · exact h3 e he
    · intro h
      exact ⟨(h (iv, t) (Or.inl rfl)).1, (h (iv, t) (Or.inl rfl)).2, fun e he => h e (Or.inr he)⟩

theorem Edges.AllB_ofList (P : α → Prop) (l : EdgeL νr νb α) : (Edges.ofList l).AllB P ↔ AllBL P l := by
  rw [Edges.AllB_iff, Edges.toList_ofList]

theorem AllBL.cons {P : α → Prop} {e : Ivl α × Tree νr νb α} {es : EdgeL νr νb α}
    (h1 : Ivl.Kind P e.1 ∧ e.2.AllB P) (h2 : AllBL P es) : AllBL P (e :: es) := by
  intro e' he'
  rcases List.mem_cons.1 he' with rfl | h
  · exact h1
  · exact h2 e' h

theorem AllBL.tail {P : α → Prop} {e : Ivl α × Tree νr νb α} {es : EdgeL νr νb α}
    (h : AllBL P (e :: es)) : AllBL P es := fun e' he' => h e' (List.mem_cons_of_mem _ he')

theorem AllBL.append {P : α → Prop} {a b : EdgeL νr νb α} (h1 : AllBL P a) (h2 : AllBL P b) :
    AllBL P (a ++ b) := by
  intro e he
  rcases List.mem_append.1 he with h | h
  · exact h1 e h
  · exact h2 e h

theorem Kind_mono' {P Q : α → Prop} (h : ∀ x, P x → Q x) (s : Ivl α) (hs : Ivl.Kind P s) :
    Ivl.Kind Q s := by
  obtain ⟨lo, hi⟩ := s
  obtain ⟨h1, h2⟩ := hs
  constructor
  · cases lo <;> first | trivial | exact h _ h1
  · cases hi <;> first | trivial | exact h _ h2

mutual
theorem Tree.AllB_mono {P Q : α → Prop} (h : ∀ x, P x → Q x) : ∀ (t : Tree νr νb α), t.AllB P → t.AllB Q
  | .leaf _, _ => trivial
  | .rng _ es, ht => Edges.AllB_mono h es ht
  | .bool _ hi lo, ht => ⟨Tree.AllB_mono h hi ht.1, Tree.AllB_mono h lo ht.2⟩
theorem Edges.AllB_mono {P Q : α → Prop} (h : ∀ x, P x → Q x) :
    ∀ (es : Edges νr νb α), es.AllB P → es.AllB Q
  | .nil, _ => trivial
  | .cons iv t rest, he => ⟨Kind_mono' h iv he.1, Tree.AllB_mono h t he.2.1, Edges.AllB_mono h rest he.2.2⟩
end

/-! ### negation -/

mutual
theorem Tree.AllB_not (P : α → Prop) : ∀ (t : Tree νr νb α), t.AllB P → t.not.AllB P
  | .leaf _, _ => trivial
  | .rng _ es, h => Edges.AllB_not P es h
  | .bool _ hi lo, h => ⟨Tree.AllB_not P hi h.1, Tree.AllB_not P lo h.2⟩
theorem Edges.AllB_not (P : α → Prop) : ∀ (es : Edges νr νb α), es.AllB P → es.not.AllB P
  | .nil, _ => trivial
  | .cons _ t rest, h => ⟨h.1, Tree.AllB_not P t h.2.1, Edges.AllB_not P rest h.2.2⟩
end

/-! ### nodes -/

theorem AllB_createNodeR (P : α → Prop) (v : νr) (es : EdgeL νr νb α) (h : AllBL P es) :
    (createNodeR v es).AllB P := by
  unfold createNodeR
  cases es with
  | nil => trivial
  | cons e rest =>
    obtain ⟨iv, c⟩ := e
    simp only
    split
    · exact (h (iv, c) (by simp)).2
    · show (Edges.ofList ((iv, c) :: rest)).AllB P
      exact (Edges.AllB_ofList P _).2 h

theorem AllB_createNodeB (P : α → Prop) (v : νb) (h l : Tree νr νb α) (hh : h.AllB P) (hl : l.AllB P) :
    (createNodeB v h l).AllB P := by
  unfold createNodeB
  split
  · exact hh
  · exact ⟨hh, hl⟩

theorem AllBL_coalesceGo (P : α → Prop) : ∀ (es : EdgeL νr νb α) (cur : Ivl α × Tree νr νb α),
    (Ivl.Kind P cur.1 ∧ cur.2.AllB P) → AllBL P es → AllBL P (coalesceGo cur es)
  | [], cur, hc, _ => by
    simp only [coalesceGo]
    exact AllBL.cons hc (fun _ h => by simp at h)
  | e :: rest, cur, hc, hes => by
    simp only [coalesceGo]
    have he := hes e (by simp)
    split
    · exact AllBL_coalesceGo P rest _ ⟨⟨hc.1.1, he.1.2⟩, hc.2⟩ hes.tail
    · exact AllBL.cons hc (AllBL_coalesceGo P rest e he hes.tail)

theorem AllBL_coalesce (P : α → Prop) (es : EdgeL νr νb α) (h : AllBL P es) : AllBL P (coalesce es) := by
  cases es with
  | nil => exact h
  | cons e rest => exact AllBL_coalesceGo P rest e (h e (by simp)) h.tail

theorem AllBL_mapE (P : α → Prop) (f : Tree νr νb α → Tree νr νb α) (es : EdgeL νr νb α)
    (h : AllBL P es) (hf : ∀ e ∈ es, (f e.2).AllB P) : AllBL P (mapE f es) := by
  unfold mapE
  apply AllBL_coalesce
  intro e he
  simp only [List.mem_map] at he
  obtain ⟨e0, he0, rfl⟩ := he
  exact ⟨(h e0 he0).1, hf e0 he0⟩

theorem Kind_inter (P : α → Prop) (a b : Ivl α) (ha : Ivl.Kind P a) (hb : Ivl.Kind P b) :
    Ivl.Kind P (a.inter b) := by
  obtain ⟨alo, ahi⟩ := a
  obtain ⟨blo, bhi⟩ := b
  obtain ⟨h1, h2⟩ := ha
  obtain ⟨h3, h4⟩ := hb
  simp only at h1 h2 h3 h4
  constructor
  · simp only [Ivl.inter]
    cases alo <;> cases blo <;> simp only [Bnd.maxLo] <;> first
      | trivial | (split <;> assumption) | assumption
  · simp only [Ivl.inter]
    cases ahi <;> cases bhi <;> simp only [Bnd.minHi] <;> first
      | trivial | (split <;> assumption) | assumption

theorem AllBL_productRow (P : α → Prop) (f : Tree νr νb α → Tree νr νb α → Tree νr νb α)
    (l : Ivl α × Tree νr νb α) (hl : Ivl.Kind P l.1) : ∀ (rs : EdgeL νr νb α), AllBL P rs →
    (∀ r ∈ rs, (f l.2 r.2).AllB P) → AllBL P (productRow f l rs)
  | [], _, _ => fun _ h => by simp [productRow] at h
  | r :: rs, hrs, hf => by
    simp only [productRow]
    have ih := AllBL_productRow P f l hl rs hrs.tail (fun r' hr' => hf r' (by simp [hr']))
    split
    · exact AllBL.cons ⟨Kind_inter P _ _ (hrs r (by simp)).1 hl, hf r (by simp)⟩ ih
    · exact ih

theorem AllBL_product (P : α → Prop) (f : Tree νr νb α → Tree νr νb α → Tree νr νb α) :
    ∀ (ls rs : EdgeL νr νb α), AllBL P ls → AllBL P rs →
    (∀ l ∈ ls, ∀ r ∈ rs, (f l.2 r.2).AllB P) → AllBL P (product f ls rs)
  | [], _, _, _, _ => fun _ h => by simp [product] at h
  | l :: ls, rs, hls, hrs, hf => by
    simp only [product]
    exact AllBL.append (AllBL_productRow P f l (hls l (by simp)).1 rs hrs (fun r hr => hf l (by simp) r hr))
      (AllBL_product P f ls rs hls.tail hrs (fun l' hl' r hr => hf l' (by simp [hl']) r hr))

theorem AllBL_applyRanges (P : α → Prop) (f : Tree νr νb α → Tree νr νb α → Tree νr νb α)
    (ls rs : EdgeL νr νb α) (hls : AllBL P ls) (hrs : AllBL P rs)
    (hf : ∀ l ∈ ls, ∀ r ∈ rs, (f l.2 r.2).AllB P) : AllBL P (applyRanges f ls rs) :=
  AllBL_coalesce P _ (AllBL_product P f ls rs hls hrs hf)

/-! ### conjunction, disjunction -/

theorem AllB_andF (P : α → Prop) : ∀ (n : Nat) (x y : Tree νr νb α), x.AllB P → y.AllB P →
    (andF n x y).AllB P := by
  intro n
  induction n with
  | zero => intro x y _ _; trivial
  | succ n ih =>
    intro x y hx hy
    unfold andF
    by_cases c1 : x = .leaf true
    · subst c1; simp only [if_true]; exact hy
    by_cases c2 : y = .leaf true
    · subst c2; simp only [c1, if_true, if_false]; exact hx
    by_cases c3 : x = y
    · subst c3; simp only [c1, if_true, if_false]; exact hx
    by_cases c4 : x = .leaf false ∨ y = .leaf false
    · simp only [c1, c2, c3, c4, if_true, if_false]; trivial
    by_cases c5 : x.not = y
    · simp only [c1, c2, c3, c4, c5, if_true, if_false]; trivial
    simp only [c1, c2, c3, c4, c5, if_false]
    cases x with
    | leaf b => cases b <;> simp_all
    | rng vx ex =>
      have hxl := (Edges.AllB_iff P ex).1 hx
      cases y with
      | leaf b => cases b <;> simp_all
      | rng vy ey =>
        have hyl := (Edges.AllB_iff P ey).1 hy
        simp only []
        split
        · exact AllB_createNodeR P _ _ (AllBL_mapE P _ _ hxl (fun e he => ih _ _ (hxl e he).2 hy))
        split
        · exact AllB_createNodeR P _ _ (AllBL_mapE P _ _ hyl (fun e he => ih _ _ (hyl e he).2 hx))
        · exact AllB_createNodeR P _ _ (AllBL_applyRanges P _ _ _ hxl hyl
            (fun l hl r hr => ih _ _ (hxl l hl).2 (hyl r hr).2))
      | bool vy hy' ly' =>
        simp only []
        exact AllB_createNodeR P _ _ (AllBL_mapE P _ _ hxl (fun e he => ih _ _ (hxl e he).2 hy))
    | bool vx hx' lx' =>
      cases y with
      | leaf b => cases b <;> simp_all
      | rng vy ey =>
        have hyl := (Edges.AllB_iff P ey).1 hy
        simp only []
        exact AllB_createNodeR P _ _ (AllBL_mapE P _ _ hyl (fun e he => ih _ _ (hyl e he).2 hx))
      | bool vy hy' ly' =>
        simp only []
        split
        · exact AllB_createNodeB P _ _ _ (ih _ _ hx.1 hy) (ih _ _ hx.2 hy)
        split
        · exact AllB_createNodeB P _ _ _ (ih _ _ hy.1 hx) (ih _ _ hy.2 hx)
        · exact AllB_createNodeB P _ _ _ (ih _ _ hx.1 hy.1) (ih _ _ hx.2 hy.2)

/-- the bounds of `x and y` are bounds of `x` or of `y` -/
theorem AllB_and (P : α → Prop) (x y : Tree νr νb α) (hx : x.AllB P) (hy : y.AllB P) :
    (Tree.and x y).AllB P := AllB_andF P _ x y hx hy

/-- the bounds of `x or y` are bounds of `x` or of `y` -/
theorem AllB_or (P : α → Prop) (x y : Tree νr νb α) (hx : x.AllB P) (hy : y.AllB P) :
    (Tree.or x y).AllB P :=
  Tree.AllB_not P _ (AllB_and P _ _ (Tree.AllB_not P x hx) (Tree.AllB_not P y hy))

/-! ### range atoms -/

theorem Kind_flipHi (P : α → Prop) (b n : Bnd α) (h : Bnd.Kind P b) (hf : b.flipHi = some n) :
    Bnd.Kind P n := by
  cases b <;> simp only [Bnd.flipHi, Option.some.injEq, reduceCtorEq] at hf <;> subst hf <;> exact h

theorem Kind_flipLo (P : α → Prop) (b n : Bnd α) (h : Bnd.Kind P b) (hf : b.flipLo = some n) :
    Bnd.Kind P n := by
  cases b <;> simp only [Bnd.flipLo, Option.some.injEq, reduceCtorEq] at hf <;> subst hf <;> exact h

theorem AllBL_fromRangeGo (P : α → Prop) : ∀ (r : Ranges α) (cur : Option (Bnd α)),
    (∀ c, cur = some c → Bnd.Kind P c) → (∀ s ∈ r, Ivl.Kind P s) →
    AllBL P (fromRangeGo cur r : EdgeL νr νb α)
  | _, none, _, _ => by
    intro e he
    cases ‹Ranges α› <;> simp [fromRangeGo] at he
  | [], some cur, hc, _ => by
    intro e he
    simp only [fromRangeGo, List.mem_singleton] at he
    subst he
    exact ⟨⟨hc cur rfl, trivial⟩, trivial⟩
  | s :: rest, some cur, hc, hr => by
    have hs := hr s (by simp)
    have ih : AllBL P (fromRangeGo s.hi.flipHi rest : EdgeL νr νb α) :=
      AllBL_fromRangeGo P rest s.hi.flipHi
        (fun c hcc => Kind_flipHi P s.hi c hs.2 hcc) (fun s' hs' => hr s' (by simp [hs']))
    simp only [fromRangeGo]
    cases hfl : s.lo.flipLo with
    | none => exact AllBL.cons ⟨hs, trivial⟩ ih
    | some h =>
      exact AllBL.cons ⟨⟨hc cur rfl, Kind_flipLo P s.lo h hs.1 hfl⟩, trivial⟩
        (AllBL.cons ⟨hs, trivial⟩ ih)

/-- the bounds of the atom `v ∈ r` are the bounds of `r` -/
theorem AllB_rangeNode (P : α → Prop) (v : νr) (r : Ranges α) (hr : ∀ s ∈ r, Ivl.Kind P s) :
    (rangeNode v r : Tree νr νb α).AllB P :=
  AllB_createNodeR P v _ (AllBL_fromRangeGo P r (some .unb) (fun c hc => by cases hc; trivial) hr)

theorem Kind_gaps (P : α → Prop) : ∀ (r : Ranges α) (cur : Option (Bnd α)),
    (∀ c, cur = some c → Bnd.Kind P c) → (∀ s ∈ r, Ivl.Kind P s) →
    ∀ s ∈ Ranges.gaps cur r, Ivl.Kind P s
  | r, none, _, _ => by
    intro s hs
    cases r <;> simp [Ranges.gaps] at hs
  | [], some cur, hc, _ => by
    intro s hs
    simp only [Ranges.gaps, List.mem_singleton] at hs
    subst hs
    exact ⟨hc cur rfl, trivial⟩
  | s0 :: rest, some cur, hc, hr => by
    have hs0 := hr s0 (by simp)
    have ih := Kind_gaps P rest s0.hi.flipHi
      (fun c hcc => Kind_flipHi P s0.hi c hs0.2 hcc) (fun s' hs' => hr s' (by simp [hs']))
    intro s hs
    simp only [Ranges.gaps] at hs
    cases hfl : s0.lo.flipLo with
    | none => rw [hfl] at hs; exact ih s hs
    | some h =>
      rw [hfl] at hs
      simp only [List.mem_cons] at hs
      rcases hs with rfl | hs
      · exact ⟨hc cur rfl, Kind_flipLo P s0.lo h hs0.1 hfl⟩
      · exact ih s hs

theorem Kind_complement (P : α → Prop) (r : Ranges α) (hr : ∀ s ∈ r, Ivl.Kind P s) :
    ∀ s ∈ Ranges.complement r, Ivl.Kind P s :=
  Kind_gaps P r (some .unb) (fun c hc => by cases hc; trivial) hr

end Pep508
