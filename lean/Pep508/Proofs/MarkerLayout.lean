/-
Compositionality of the marker parser: every whitespace layout of a marker derivation parses to
the marker of the derivation.

* `MAst` — derivations WITH their layout: each node carries the optional whitespace runs around it;
  `and` / `or` are left-nested chains (the shape `parse_marker_op` folds), parentheses explicit.
* `MAst.layout` — the text;  `MAst.denote` — the marker (`combine` over the atoms' own parses).
* atoms are not re-parsed here: `AtomOK x a` says `parse_marker_key_op_value` on a cursor standing
  at `a ++ rest` returns the atom's own result (`atomSem x a` = what it returns on `a` alone) and
  stops exactly after `a`, for every context in which an atom may legitimately end
  (`AtomFrame.lean` proves it for `key OP 'string'` and `'string' OP key`).
* `parseMarkers_layout` (M1): `parseMarkers x (layout m ++ trailing blanks)` is `denote m`, with the
  default fuel.  `parseMarkers_layout_indep` (M2): two layouts of the same skeleton parse alike.

Proof: "eventually in the fuel" specifications of the three mutually recursive parsers on a piece of
text followed by an arbitrary continuation, composed along the AST; the default fuel is reached with
`parseMarkersCursor_default` (more fuel gives the same result, FuelMono.lean).
-/
import Pep508.Proofs.CursorAdv
namespace Pep508

open Cursor

/-! ### keyword recognition in the loop of `parse_marker_op` -/

/-- the keyword text -/
def kwChars (isAnd : Bool) : List Char := if isAnd then ['a', 'n', 'd'] else ['o', 'r']

/-- the word `parse_marker_op` compares with the keyword: skip blanks, then the run up to
whitespace, `(` or a quote -/
def kwWord (rest : List Char) : List Char := (rest.dropWhile isWs).takeWhile (fun ch => !kwStop ch)

/-- the first char of `r` exists and satisfies `p` -/
def HeadIs (p : Char → Bool) (r : List Char) : Prop := ∃ ch tl, r = ch :: tl ∧ p ch = true

theorem HeadIs.ne_nil {p : Char → Bool} {r : List Char} (h : HeadIs p r) : r ≠ [] := by
  obtain ⟨ch, tl, rfl, _⟩ := h; simp

theorem HeadIs.append {p : Char → Bool} {r : List Char} (t : List Char) (h : HeadIs p r) :
    HeadIs p (r ++ t) := by
  obtain ⟨ch, tl, rfl, hp⟩ := h; exact ⟨ch, tl ++ t, rfl, hp⟩

theorem HeadIs.headNot {p : Char → Bool} {r : List Char} (h : HeadIs p r) : HeadNot (fun ch => !p ch) r := by
  obtain ⟨ch, tl, rfl, hp⟩ := h
  exact HeadNot.cons tl (by simp [hp])

theorem kw_beq (isAnd : Bool) (word : List Char) :
    (String.ofList word == (if isAnd = true then "and" else "or")) = true ↔ word = kwChars isAnd := by
  rw [beq_iff_eq]
  cases isAnd
  · show String.ofList word = String.ofList ['o', 'r'] ↔ _
    rw [String.ofList_inj]; rfl
  · show String.ofList word = String.ofList ['a', 'n', 'd'] ↔ _
    rw [String.ofList_inj]; rfl

theorem kwChars_notStop (isAnd : Bool) : AllP (fun ch => !kwStop ch) (kwChars isAnd) := by
  cases isAnd
  · show ∀ ch ∈ ['o', 'r'], (!kwStop ch) = true; decide
  · show ∀ ch ∈ ['a', 'n', 'd'], (!kwStop ch) = true; decide

theorem kwChars_headNotWs (isAnd : Bool) (tail : List Char) : HeadNot isWs (kwChars isAnd ++ tail) := by
  cases isAnd
  · exact HeadNot.cons _ (by decide)
  · exact HeadNot.cons _ (by decide)

/-- blanks, the keyword, then a char that ends the keyword: the word is the keyword -/
theorem kwWord_kw (isAnd : Bool) {ws tail : List Char} (hws : AllP isWs ws)
    (ht : HeadIs kwStop tail) : kwWord (ws ++ (kwChars isAnd ++ tail)) = kwChars isAnd := by
  unfold kwWord
  rw [dropWhile_append_all isWs ws _ hws (kwChars_headNotWs isAnd tail)]
  exact takeWhile_append_all _ _ _ (kwChars_notStop isAnd) ht.headNot

/-- the loop stops (after skipping blanks) when the next word is not the keyword -/
theorem loop_exit (x : Ext) (isAnd : Bool) (f : Nat) (st : PState) (hi : st.cur.Inv)
    (hk : kwWord st.cur.rest ≠ kwChars isAnd) :
    parseOpLoop x isAnd (f + 1) st = .ok ⟨st.tree, st.warns, st.cur.eatWhitespace⟩ := by
  rw [parseOpLoop_succ, peekWhile_word (inv_eatWhitespace hi)]
  simp only [Res.ofSlice, eatWhitespace_rest_eq]
  have : ¬ (String.ofList (List.takeWhile (fun ch => !kwStop ch) (List.dropWhile isWs st.cur.rest)) ==
      (if isAnd = true then "and" else "or")) = true := fun h => hk ((kw_beq _ _).1 h)
  simp only [this, Bool.false_eq_true, if_false]

/-- the loop continues over `blanks keyword` when the keyword is followed by a char that ends it -/
theorem loop_step (x : Ext) (isAnd : Bool) (f : Nat) (st : PState) {ws tail : List Char}
    (hi : st.cur.Inv) (hr : st.cur.rest = ws ++ (kwChars isAnd ++ tail)) (hws : AllP isWs ws)
    (ht : HeadIs kwStop tail) :
    parseOpLoop x isAnd (f + 1) st =
      match (if isAnd then parseExpr x f (st.cur.adv (ws ++ kwChars isAnd)) st.warns
             else parseOp x true f (st.cur.adv (ws ++ kwChars isAnd)) st.warns) with
      | .ok st' => parseOpLoop x isAnd f ⟨combine isAnd st.tree st'.tree, st'.warns, st'.cur⟩
      | .err e => .err e
      | .panic s => .panic s := by
  have e1 : st.cur.eatWhitespace = st.cur.adv ws := eatWs_adv hr hws (kwChars_headNotWs isAnd tail)
  have hr1 : (st.cur.adv ws).rest = kwChars isAnd ++ tail := adv_rest hr
  have i1 : (st.cur.adv ws).Inv := adv_inv hi hr
  have e2 := takeWhile_adv (fun ch => !kwStop ch) hr1 (kwChars_notStop isAnd) ht.headNot
  rw [parseOpLoop_succ, e1]
  unfold peekWhile
  rw [e2]
  dsimp only
  rw [slice_adv i1 hr1]
  simp only [Res.ofSlice, (kw_beq isAnd (kwChars isAnd)).2 rfl, if_true, adv_adv]
  rfl

/-! ### "eventually in the fuel" specifications -/

/-- `g fuel = R` for every large enough fuel -/
def Ev (g : Nat → Res PState) (R : Res PState) : Prop := ∃ f0, ∀ f, f0 ≤ f → g f = R

/-- a continuation that ends an identifier: end of input, whitespace or `)` -/
def SoftEnd (rest : List Char) : Prop := ∀ ch, rest.head? = some ch → isWs ch = true ∨ ch = ')'

/-- the continuation after a piece of text is acceptable: the piece ends with a closing quote or `)`
(anything may follow), or the continuation ends an identifier -/
def EndOK (closed : Bool) (rest : List Char) : Prop := closed = true ∨ SoftEnd rest

/-- the next word of the continuation is not the keyword -/
def NotKw (isAnd : Bool) (rest : List Char) : Prop := kwWord rest ≠ kwChars isAnd

theorem SoftEnd.nil : SoftEnd [] := by intro ch h; simp at h

theorem SoftEnd.ws {ws : List Char} (t : List Char) (hws : AllP isWs ws) (hne : ws ≠ []) :
    SoftEnd (ws ++ t) := by
  cases ws with
  | nil => exact absurd rfl hne
  | cons a ws => intro ch h; simp at h; subst h; exact .inl hws.head

theorem SoftEnd.headNotWs_or {ws : List Char} (t : List Char) (hws : AllP isWs ws) :
    SoftEnd (ws ++ (')' :: t)) := by
  cases ws with
  | nil => intro ch h; simp at h; exact .inr h.symm
  | cons a ws => exact SoftEnd.ws _ hws (by simp)

/-- a piece of marker text with its meaning -/
structure Piece where
  text : List Char
  closed : Bool
  tree : Option MTree
  warns : List WarnKind

/-- `parse_marker_expr` on the piece: its tree, its warnings appended, cursor exactly after it -/
def ExprSpec (x : Ext) (P : Piece) : Prop :=
  ∀ (c : Cursor) (w : List WarnKind) (rest : List Char), c.Inv → c.rest = P.text ++ rest →
    EndOK P.closed rest →
    Ev (fun f => parseExpr x f c w) (.ok ⟨P.tree, w ++ P.warns, c.adv P.text⟩)

/-- `parse_marker_op "and"` on the piece behaves like its loop entered after the piece -/
def AndSpec (x : Ext) (P : Piece) : Prop :=
  ∀ (c : Cursor) (w : List WarnKind) (rest : List Char) (R : Res PState), c.Inv →
    c.rest = P.text ++ rest → EndOK P.closed rest →
    Ev (fun f => parseOpLoop x true f ⟨P.tree, w ++ P.warns, c.adv P.text⟩) R →
    Ev (fun f => parseOp x true f c w) R

/-- `parse_marker_op "and"` on the piece when no `and` follows -/
def AndFull (x : Ext) (P : Piece) : Prop :=
  ∀ (c : Cursor) (w : List WarnKind) (rest : List Char), c.Inv → c.rest = P.text ++ rest →
    EndOK P.closed rest → NotKw true rest →
    Ev (fun f => parseOp x true f c w) (.ok ⟨P.tree, w ++ P.warns, (c.adv P.text).eatWhitespace⟩)

/-- `parse_marker_op "or"` on the piece behaves like its loop entered after the piece -/
def OrSpec (x : Ext) (P : Piece) : Prop :=
  ∀ (c : Cursor) (w : List WarnKind) (rest : List Char) (R : Res PState), c.Inv →
    c.rest = P.text ++ rest → EndOK P.closed rest → NotKw true rest →
    Ev (fun f => parseOpLoop x false f ⟨P.tree, w ++ P.warns, (c.adv P.text).eatWhitespace⟩) R →
    Ev (fun f => parseOp x false f c w) R

/-- `parse_marker_op "or"` on the piece when neither `and` nor `or` follows -/
def OrFull (x : Ext) (P : Piece) : Prop :=
  ∀ (c : Cursor) (w : List WarnKind) (rest : List Char), c.Inv → c.rest = P.text ++ rest →
    EndOK P.closed rest → NotKw true rest → NotKw false rest →
    Ev (fun f => parseOp x false f c w) (.ok ⟨P.tree, w ++ P.warns, (c.adv P.text).eatWhitespace⟩)

theorem expr_to_and (x : Ext) {P : Piece} (h : ExprSpec x P) : AndSpec x P := by
  intro c w rest R hi hrest hend hev
  obtain ⟨f1, h1⟩ := hev
  obtain ⟨f2, h2⟩ := h c w rest hi hrest hend
  refine ⟨max f1 f2 + 1, fun f hf => ?_⟩
  obtain ⟨f', rfl⟩ : ∃ f', f = f' + 1 := ⟨f - 1, by omega⟩
  show parseOp x true (f' + 1) c w = R
  rw [parseOp_succ]
  simp only [if_true]
  have h2' : parseExpr x f' c w = _ := h2 f' (by omega)
  rw [h2']
  exact h1 f' (by omega)

theorem and_to_full (x : Ext) {P : Piece} (h : AndSpec x P) : AndFull x P := by
  intro c w rest hi hrest hend hnk
  refine h c w rest _ hi hrest hend ⟨1, fun f hf => ?_⟩
  obtain ⟨f', rfl⟩ : ∃ f', f = f' + 1 := ⟨f - 1, by omega⟩
  show parseOpLoop x true (f' + 1) _ = _
  rw [loop_exit x true f' _ (adv_inv hi hrest) (by rw [adv_rest hrest]; exact hnk)]

theorem and_to_or (x : Ext) {P : Piece} (h : AndFull x P) : OrSpec x P := by
  intro c w rest R hi hrest hend hnk hev
  obtain ⟨f1, h1⟩ := hev
  obtain ⟨f2, h2⟩ := h c w rest hi hrest hend hnk
  refine ⟨max f1 f2 + 1, fun f hf => ?_⟩
  obtain ⟨f', rfl⟩ : ∃ f', f = f' + 1 := ⟨f - 1, by omega⟩
  show parseOp x false (f' + 1) c w = R
  rw [parseOp_succ]
  simp only [Bool.false_eq_true, if_false]
  have h2' : parseOp x true f' c w = _ := h2 f' (by omega)
  rw [h2']
  exact h1 f' (by omega)

theorem or_to_full (x : Ext) {P : Piece} (h : OrSpec x P) : OrFull x P := by
  intro c w rest hi hrest hend hnk1 hnk2
  refine h c w rest _ hi hrest hend hnk1 ⟨1, fun f hf => ?_⟩
  obtain ⟨f', rfl⟩ : ∃ f', f = f' + 1 := ⟨f - 1, by omega⟩
  show parseOpLoop x false (f' + 1) _ = _
  rw [loop_exit x false f' _ (inv_eatWhitespace (adv_inv hi hrest))]
  · dsimp only
    rw [eatWs_idem]
  · dsimp only
    rw [eatWhitespace_rest_eq, adv_rest hrest]
    unfold kwWord
    have := dropWhile_append_all isWs [] _ (AllP.nil _) (dropWhile_headNot isWs rest)
    rw [List.nil_append] at this
    rw [this]
    exact hnk2

/-- chain step at the `and` level: `L and R` -/
theorem and_step (x : Ext) {L R : Piece} {ws : List Char} (hl : AndSpec x L) (hr : ExprSpec x R)
    (hws : AllP isWs ws) (hgap : L.closed = true ∨ ws ≠ []) (hstop : HeadIs kwStop R.text) :
    AndSpec x ⟨L.text ++ (ws ++ (kwChars true ++ R.text)), R.closed, combine true L.tree R.tree,
      L.warns ++ R.warns⟩ := by
  intro c w rest Rs hi hrest hend hev
  have hrest' : c.rest = L.text ++ (ws ++ (kwChars true ++ (R.text ++ rest))) := by
    rw [hrest]; simp only [List.append_assoc]
  refine hl c w _ Rs hi hrest' ?_ ?_
  · rcases hgap with h | h
    · exact .inl h
    · exact .inr (SoftEnd.ws _ hws h)
  · obtain ⟨f1, h1⟩ := hev
    have hi1 := adv_inv hi hrest'
    have hr1 := adv_rest hrest'
    have hr1' : (c.adv L.text).rest = (ws ++ kwChars true) ++ (R.text ++ rest) := by
      rw [hr1]; simp only [List.append_assoc]
    have hr2 := adv_rest hr1'
    have hi2 := adv_inv hi1 hr1'
    obtain ⟨f2, h2⟩ := hr _ (w ++ L.warns) rest hi2 hr2 hend
    refine ⟨max f1 f2 + 1, fun f hf => ?_⟩
    obtain ⟨f', rfl⟩ : ∃ f', f = f' + 1 := ⟨f - 1, by omega⟩
    show parseOpLoop x true (f' + 1) ⟨L.tree, w ++ L.warns, c.adv L.text⟩ = Rs
    rw [loop_step x true f' ⟨L.tree, w ++ L.warns, c.adv L.text⟩ hi1 hr1 hws (hstop.append rest)]
    simp only [if_true]
    have h2' : parseExpr x f' ((c.adv L.text).adv (ws ++ kwChars true)) (w ++ L.warns) = _ :=
      h2 f' (by omega)
    rw [h2']
    dsimp only
    have h1' := h1 f' (by omega)
    dsimp only at h1'
    rw [← h1']
    simp only [adv_adv, List.append_assoc]

/-- chain step at the `or` level: `L or R` -/
theorem or_step (x : Ext) {L R : Piece} {ws : List Char} (hl : OrSpec x L) (hr : AndFull x R)
    (hws : AllP isWs ws) (hgap : L.closed = true ∨ ws ≠ []) (hstop : HeadIs kwStop R.text) :
    OrSpec x ⟨L.text ++ (ws ++ (kwChars false ++ R.text)), R.closed, combine false L.tree R.tree,
      L.warns ++ R.warns⟩ := by
  intro c w rest Rs hi hrest hend hnk hev
  have hrest' : c.rest = L.text ++ (ws ++ (kwChars false ++ (R.text ++ rest))) := by
    rw [hrest]; simp only [List.append_assoc]
  refine hl c w _ Rs hi hrest' ?_ ?_ ?_
  · rcases hgap with h | h
    · exact .inl h
    · exact .inr (SoftEnd.ws _ hws h)
  · show kwWord _ ≠ _
    rw [kwWord_kw false hws (hstop.append rest)]
    decide
  · obtain ⟨f1, h1⟩ := hev
    have hi0 := adv_inv hi hrest'
    have hr0 := adv_rest hrest'
    have e0 : (c.adv L.text).eatWhitespace = c.adv (L.text ++ ws) := by
      rw [eatWs_adv hr0 hws (kwChars_headNotWs false _), adv_adv]
    have hrest1 : c.rest = (L.text ++ ws) ++ (kwChars false ++ (R.text ++ rest)) := by
      rw [hrest']; simp only [List.append_assoc]
    have hi1 := adv_inv hi hrest1
    have hr1 : (c.adv (L.text ++ ws)).rest = [] ++ (kwChars false ++ (R.text ++ rest)) := adv_rest hrest1
    have hr1' : (c.adv (L.text ++ ws)).rest = ([] ++ kwChars false) ++ (R.text ++ rest) := hr1
    have hr2 := adv_rest hr1'
    have hi2 := adv_inv hi1 hr1'
    obtain ⟨f2, h2⟩ := hr _ (w ++ L.warns) rest hi2 hr2 hend hnk
    refine ⟨max f1 f2 + 1, fun f hf => ?_⟩
    obtain ⟨f', rfl⟩ : ∃ f', f = f' + 1 := ⟨f - 1, by omega⟩
    show parseOpLoop x false (f' + 1) ⟨L.tree, w ++ L.warns, (c.adv L.text).eatWhitespace⟩ = Rs
    rw [e0, loop_step x false f' ⟨L.tree, w ++ L.warns, c.adv (L.text ++ ws)⟩ hi1 hr1 (AllP.nil _)
      (hstop.append rest)]
    simp only [Bool.false_eq_true, if_false]
    have h2' : parseOp x true f' ((c.adv (L.text ++ ws)).adv ([] ++ kwChars false)) (w ++ L.warns) = _ :=
      h2 f' (by omega)
    rw [h2']
    dsimp only
    have h1' := h1 f' (by omega)
    dsimp only at h1'
    rw [← h1']
    simp only [adv_adv, List.append_assoc, List.nil_append]

theorem notKw_paren (isAnd : Bool) {ws : List Char} (t : List Char) (hws : AllP isWs ws) :
    NotKw isAnd (ws ++ (')' :: t)) := by
  unfold NotKw kwWord
  rw [dropWhile_append_all isWs ws _ hws (HeadNot.cons t (by decide))]
  rw [List.takeWhile_cons]
  have : (!kwStop ')') = true := by decide
  simp only [this, if_true]
  cases isAnd
  · show _ ≠ ['o', 'r']; intro h; simp at h
  · show _ ≠ ['a', 'n', 'd']; intro h; simp at h

/-- parentheses: `ws1 ( P ws2 )` -/
theorem paren_step (x : Ext) {P : Piece} {ws1 ws2 : List Char} (h : OrFull x P)
    (hws1 : AllP isWs ws1) (hws2 : AllP isWs ws2) :
    ExprSpec x ⟨ws1 ++ ('(' :: (P.text ++ (ws2 ++ [')']))), true, P.tree, P.warns⟩ := by
  intro c w rest hi hrest hend
  have hrest0 : c.rest = ws1 ++ ('(' :: (P.text ++ (ws2 ++ (')' :: rest)))) := by
    rw [hrest]; simp only [List.append_assoc, List.cons_append, List.nil_append]
  have e0 : c.eatWhitespace = c.adv ws1 := eatWs_adv hrest0 hws1 (HeadNot.cons _ (by decide))
  have hi0 := adv_inv hi hrest0
  have hr0 := adv_rest hrest0
  have hr0' : (c.adv ws1).rest = ['('] ++ (P.text ++ (ws2 ++ (')' :: rest))) := hr0
  have hi1 := adv_inv hi0 hr0'
  have hr1 := adv_rest hr0'
  obtain ⟨f1, h1⟩ := h _ w _ hi1 hr1 (.inr (SoftEnd.headNotWs_or rest hws2))
    (notKw_paren true rest hws2) (notKw_paren false rest hws2)
  have hi2 := adv_inv hi1 hr1
  have hr2 := adv_rest hr1
  have e2 : (((c.adv ws1).adv ['(']).adv P.text).eatWhitespace =
      (((c.adv ws1).adv ['(']).adv P.text).adv ws2 := eatWs_adv hr2 hws2 (HeadNot.cons _ (by decide))
  have hr3 := adv_rest hr2
  refine ⟨f1 + 1, fun f hf => ?_⟩
  obtain ⟨f', rfl⟩ : ∃ f', f = f' + 1 := ⟨f - 1, by omega⟩
  show parseExpr x (f' + 1) c w = _
  rw [parseExpr_succ, e0, eatChar_adv hr0]
  dsimp only
  have h1' : parseOp x false f' ((c.adv ws1).adv ['(']) w = _ := h1 f' (by omega)
  rw [h1']
  dsimp only
  rw [e2, nextExpectChar_adv hr3]
  dsimp only
  simp only [adv_adv, List.append_assoc, List.cons_append, List.nil_append]

/-! ### atoms -/

/-- what `parse_marker_key_op_value` makes of the atom text on its own -/
def atomSem (x : Ext) (a : List Char) : Option MExpr × List WarnKind :=
  match parseKeyOpValue x (Cursor.new a) with
  | .ok (r, _) => r
  | _ => (none, [])

/-- the atom text ends with a quote char (its last token is then a quoted string: no key name
contains a quote) -/
def endsQuote (a : List Char) : Bool :=
  match a.getLast? with
  | some ch => ch == '\'' || ch == '"'
  | none => false

/-- the atom parses the same in every context where an atom may end: on a cursor standing at
`a ++ rest`, `parse_marker_key_op_value` returns the atom's own result and stops exactly after `a`.
`rest` is arbitrary when `a` ends with a closing quote, otherwise it must end an identifier. -/
def AtomOK (x : Ext) (a : List Char) : Prop :=
  ∀ (c : Cursor) (rest : List Char), c.Inv → c.rest = a ++ rest → EndOK (endsQuote a) rest →
    parseKeyOpValue x c = .ok (atomSem x a, c.adv a)

/-- the atom starts with a char that is neither blank nor `(` -/
def AtomHead (a : List Char) : Prop := ∃ ch tl, a = ch :: tl ∧ isWs ch = false ∧ ch ≠ '('

/-- atoms: `ws a` -/
theorem atom_step (x : Ext) {ws a : List Char} (hws : AllP isWs ws) (hh : AtomHead a)
    (ha : AtomOK x a) :
    ExprSpec x ⟨ws ++ a, endsQuote a, (atomSem x a).1.map expression, (atomSem x a).2⟩ := by
  intro c w rest hi hrest hend
  obtain ⟨ch, tl, rfl, hch, hne⟩ := hh
  have hrest0 : c.rest = ws ++ (ch :: (tl ++ rest)) := by
    rw [hrest]; simp only [List.append_assoc, List.cons_append]
  have e0 : c.eatWhitespace = c.adv ws := eatWs_adv hrest0 hws (HeadNot.cons _ hch)
  have hi0 := adv_inv hi hrest0
  have hr0 := adv_rest hrest0
  have e1 := ha (c.adv ws) rest hi0 hr0 hend
  refine ⟨1, fun f hf => ?_⟩
  obtain ⟨f', rfl⟩ : ∃ f', f = f' + 1 := ⟨f - 1, by omega⟩
  show parseExpr x (f' + 1) c w = _
  rw [parseExpr_succ, e0, eatChar_ne hr0 hne]
  dsimp only
  rw [e1]
  dsimp only
  rw [adv_adv]

/-! ### the AST of marker texts -/

/-- a marker derivation together with its layout: every optional whitespace run is a field.
`and` / `or` are left-nested chains, `a and b and c` is `and (and a _ b) _ c`. -/
inductive MAst where
  /-- `ws a`: leading blanks, then the comparison text -/
  | atom (ws a : List Char)
  /-- `ws1 ( m ws2 )` -/
  | paren (ws1 : List Char) (m : MAst) (ws2 : List Char)
  /-- `l ws and r` (blanks after the keyword are the leading blanks of `r`) -/
  | and (l : MAst) (ws : List Char) (r : MAst)
  /-- `l ws or r` -/
  | or (l : MAst) (ws : List Char) (r : MAst)

namespace MAst

/-- the text -/
def layout : MAst → List Char
  | atom ws a => ws ++ a
  | paren ws1 m ws2 => ws1 ++ ('(' :: (m.layout ++ (ws2 ++ [')'])))
  | and l ws r => l.layout ++ (ws ++ (kwChars true ++ r.layout))
  | or l ws r => l.layout ++ (ws ++ (kwChars false ++ r.layout))

/-- the text ends with a closing quote or `)`: the next keyword may follow without a blank -/
def closed : MAst → Bool
  | atom _ a => endsQuote a
  | paren _ _ _ => true
  | and _ _ r => r.closed
  | or _ _ r => r.closed

/-- an operand of `and`: a comparison or a parenthesised marker -/
def isExpr : MAst → Bool
  | atom _ _ => true
  | paren _ _ _ => true
  | _ => false

/-- an operand of `or`: an `and` chain (possibly of length one) -/
def isAndChain : MAst → Bool
  | or _ _ _ => false
  | _ => true

/-- the marker of the derivation: `combine` over the atoms' own parses, warnings left to right -/
def denote (x : Ext) : MAst → Option MTree × List WarnKind
  | atom _ a => ((atomSem x a).1.map expression, (atomSem x a).2)
  | paren _ m _ => m.denote x
  | and l _ r => (combine true (l.denote x).1 (r.denote x).1, (l.denote x).2 ++ (r.denote x).2)
  | or l _ r => (combine false (l.denote x).1 (r.denote x).1, (l.denote x).2 ++ (r.denote x).2)

/-- well-formed layout: whitespace runs are whitespace; precedence (`or` under `and` needs
parentheses; chains are left-nested); a keyword is preceded by a blank unless the text before it
ends with a closing quote or `)`, and followed by a blank, `(` or a quote (`kwStop`) -/
def WF : MAst → Prop
  | atom ws a => AllP isWs ws ∧ AtomHead a
  | paren ws1 m ws2 => AllP isWs ws1 ∧ AllP isWs ws2 ∧ m.WF
  | and l ws r => l.WF ∧ r.WF ∧ l.isAndChain = true ∧ r.isExpr = true ∧ AllP isWs ws ∧
      (l.closed = true ∨ ws ≠ []) ∧ HeadIs kwStop r.layout
  | or l ws r => l.WF ∧ r.WF ∧ r.isAndChain = true ∧ AllP isWs ws ∧
      (l.closed = true ∨ ws ≠ []) ∧ HeadIs kwStop r.layout

/-- every atom of the derivation parses the same in every context -/
def AtomsOK (x : Ext) : MAst → Prop
  | atom _ a => AtomOK x a
  | paren _ m _ => m.AtomsOK x
  | and l _ r => l.AtomsOK x ∧ r.AtomsOK x
  | or l _ r => l.AtomsOK x ∧ r.AtomsOK x

/-- the piece of the AST -/
def piece (x : Ext) (m : MAst) : Piece := ⟨m.layout, m.closed, (m.denote x).1, (m.denote x).2⟩

/-- the three specifications, by induction on the derivation -/
theorem specs (x : Ext) : ∀ (m : MAst), m.WF → m.AtomsOK x →
    (m.isExpr = true → ExprSpec x (m.piece x)) ∧
    (m.isAndChain = true → AndSpec x (m.piece x)) ∧
    OrSpec x (m.piece x) := by
  intro m
  induction m with
  | atom ws a =>
    intro hwf hat
    have h1 : ExprSpec x ((atom ws a).piece x) := atom_step x hwf.1 hwf.2 hat
    have h2 := expr_to_and x h1
    exact ⟨fun _ => h1, fun _ => h2, and_to_or x (and_to_full x h2)⟩
  | paren ws1 m ws2 ih =>
    intro hwf hat
    have h0 := or_to_full x (ih hwf.2.2 hat).2.2
    have h1 : ExprSpec x ((paren ws1 m ws2).piece x) := paren_step x h0 hwf.1 hwf.2.1
    have h2 := expr_to_and x h1
    exact ⟨fun _ => h1, fun _ => h2, and_to_or x (and_to_full x h2)⟩
  | and l ws r ihl ihr =>
    intro hwf hat
    obtain ⟨wl, wr, hl, hr, hws, hgap, hstop⟩ := hwf
    have h2 : AndSpec x ((and l ws r).piece x) :=
      and_step x ((ihl wl hat.1).2.1 hl) ((ihr wr hat.2).1 hr) hws hgap hstop
    exact ⟨fun h => by simp [isExpr] at h, fun _ => h2, and_to_or x (and_to_full x h2)⟩
  | or l ws r ihl ihr =>
    intro hwf hat
    obtain ⟨wl, wr, hr, hws, hgap, hstop⟩ := hwf
    have h3 : OrSpec x ((or l ws r).piece x) :=
      or_step x (ihl wl hat.1).2.2 (and_to_full x ((ihr wr hat.2).2.1 hr)) hws hgap hstop
    exact ⟨fun h => by simp [isExpr] at h, fun h => by simp [isAndChain] at h, h3⟩

end MAst

/-! ### the top level -/

theorem dropWhile_blanks {trail : List Char} (ht : AllP isWs trail) : trail.dropWhile isWs = [] := by
  have := dropWhile_append_all isWs trail [] ht (HeadNot.nil _)
  rwa [List.append_nil] at this

theorem takeWhile_blanks {trail : List Char} (ht : AllP isWs trail) : trail.takeWhile isWs = trail := by
  have := takeWhile_append_all isWs trail [] ht (HeadNot.nil _)
  rwa [List.append_nil] at this

theorem kwWord_blanks {trail : List Char} (ht : AllP isWs trail) : kwWord trail = [] := by
  unfold kwWord
  rw [dropWhile_blanks ht]; rfl

theorem notKw_blanks (isAnd : Bool) {trail : List Char} (ht : AllP isWs trail) : NotKw isAnd trail := by
  unfold NotKw
  rw [kwWord_blanks ht]
  cases isAnd
  · show [] ≠ ['o', 'r']; simp
  · show [] ≠ ['a', 'n', 'd']; simp

theorem softEnd_blanks {trail : List Char} (ht : AllP isWs trail) : SoftEnd trail := by
  cases trail with
  | nil => exact SoftEnd.nil
  | cons a t =>
    have := SoftEnd.ws [] ht (by simp)
    simpa using this

/-- `parse_marker_or` on a layout followed by anything that is not a keyword: the marker of the
derivation, for EVERY fuel that is at least the default one (`4 * remaining + 3`) -/
theorem parseOp_layout (x : Ext) (m : MAst) (hwf : m.WF) (hat : m.AtomsOK x) (c : Cursor)
    (w : List WarnKind) (rest : List Char) (hi : c.Inv) (hrest : c.rest = m.layout ++ rest)
    (hend : EndOK m.closed rest) (hk1 : NotKw true rest) (hk2 : NotKw false rest)
    (fuel : Nat) (hf : 4 * c.rest.length + 3 ≤ fuel) :
    parseOp x false fuel c w =
      .ok ⟨(m.denote x).1, w ++ (m.denote x).2, (c.adv m.layout).eatWhitespace⟩ := by
  obtain ⟨f0, h0⟩ := or_to_full x (MAst.specs x m hwf hat).2.2 c w rest hi hrest hend hk1 hk2
  have h1 : parseOp x false (max f0 fuel) c w =
      .ok ⟨(m.denote x).1, w ++ (m.denote x).2, (c.adv m.layout).eatWhitespace⟩ :=
    h0 (max f0 fuel) (by omega)
  rw [← h1]
  exact (parseOp_fuel_mono x (by omega) false c w
    ((descentFuel x fuel).2.1 false c w hi (by simpa using hf))).symm

/-- (M1, cursor form, any continuation) `parse_markers_cursor` on a cursor standing at a layout
followed by `rest`, where `rest` does not continue the marker: the marker of the derivation if only
blanks follow, otherwise an error at the first non-blank char after the marker -/
theorem parseMarkersCursor_layout_rest (x : Ext) (m : MAst) (hwf : m.WF) (hat : m.AtomsOK x)
    (c : Cursor) (rest : List Char) (hi : c.Inv) (hrest : c.rest = m.layout ++ rest)
    (hend : EndOK m.closed rest) (hk1 : NotKw true rest) (hk2 : NotKw false rest)
    (fuel : Nat) (hf : 4 * c.rest.length + 3 ≤ fuel) :
    parseMarkersCursor x fuel c =
      match rest.dropWhile isWs with
      | [] => .ok ⟨(m.denote x).1, (m.denote x).2, (c.adv m.layout).eatWhitespace⟩
      | _ :: tl => serr (c.pos + strLen m.layout + strLen (rest.takeWhile isWs)) tl.length := by
  unfold parseMarkersCursor
  rw [parseOp_layout x m hwf hat c [] rest hi hrest hend hk1 hk2 fuel hf]
  dsimp only
  rw [eatWs_idem, List.nil_append]
  have e : (c.adv m.layout).eatWhitespace =
      ⟨c.input, rest.dropWhile isWs, c.pos + strLen m.layout + strLen (rest.takeWhile isWs)⟩ := by
    rw [eatWhitespace_eq, adv_rest hrest]; rfl
  cases hd : rest.dropWhile isWs with
  | nil =>
    have : (c.adv m.layout).eatWhitespace.next = none := by
      rw [e, hd]; rfl
    rw [this]
  | cons a tl =>
    have : (c.adv m.layout).eatWhitespace.next =
        some ((c.pos + strLen m.layout + strLen (rest.takeWhile isWs), a),
          ⟨c.input, tl, c.pos + strLen m.layout + strLen (rest.takeWhile isWs) + utf8Len a⟩) := by
      rw [e, hd]; rfl
    rw [this]
    rfl

/-- (M1, cursor form) `parse_markers_cursor` on a cursor standing at a layout followed by blanks up
to the end of the input — the call made by the requirement parser after `;` — returns the marker of
the derivation and stops at the end, for every fuel at least `4 * remaining + 3` -/
theorem parseMarkersCursor_layout (x : Ext) (m : MAst) (trail : List Char) (hwf : m.WF)
    (hat : m.AtomsOK x) (ht : AllP isWs trail) (c : Cursor) (hi : c.Inv)
    (hrest : c.rest = m.layout ++ trail) (fuel : Nat) (hf : 4 * c.rest.length + 3 ≤ fuel) :
    parseMarkersCursor x fuel c =
      .ok ⟨(m.denote x).1, (m.denote x).2, c.adv (m.layout ++ trail)⟩ := by
  rw [parseMarkersCursor_layout_rest x m hwf hat c trail hi hrest (.inr (softEnd_blanks ht))
    (notKw_blanks true ht) (notKw_blanks false ht) fuel hf, dropWhile_blanks ht]
  dsimp only
  have hr : (c.adv m.layout).rest = trail ++ [] := by rw [adv_rest hrest, List.append_nil]
  rw [eatWs_adv hr ht (HeadNot.nil _), adv_adv]

/-- (M1) every well-formed whitespace layout of a derivation whose atoms parse the same in every
context parses — with the default fuel — to the marker of the derivation and the atoms' warnings in
left-to-right order -/
theorem parseMarkers_layout (x : Ext) (m : MAst) (trail : List Char) (hwf : m.WF)
    (hat : m.AtomsOK x) (ht : AllP isWs trail) :
    parseMarkers x (m.layout ++ trail) = .ok ((m.denote x).1.getD (.leaf true), (m.denote x).2) := by
  unfold parseMarkers
  rw [parseMarkersCursor_layout x m trail hwf hat ht (Cursor.new (m.layout ++ trail)) (inv_new _) rfl
    _ (by show 4 * (m.layout ++ trail).length + 3 ≤ _; omega)]

/-- (M1, any continuation) a layout followed by text that neither continues the marker nor is
blank: the error is at the first non-blank char after the marker, its length the number of chars
after that char -/
theorem parseMarkers_layout_rest (x : Ext) (m : MAst) (rest : List Char) (hwf : m.WF)
    (hat : m.AtomsOK x) (hend : EndOK m.closed rest) (hk1 : NotKw true rest) (hk2 : NotKw false rest) :
    parseMarkers x (m.layout ++ rest) =
      match rest.dropWhile isWs with
      | [] => .ok ((m.denote x).1.getD (.leaf true), (m.denote x).2)
      | _ :: tl => .err ⟨.string, strLen m.layout + strLen (rest.takeWhile isWs), tl.length⟩ := by
  unfold parseMarkers
  rw [parseMarkersCursor_layout_rest x m hwf hat (Cursor.new (m.layout ++ rest)) rest (inv_new _) rfl
    hend hk1 hk2 _ (by show 4 * (m.layout ++ rest).length + 3 ≤ _; omega)]
  cases rest.dropWhile isWs with
  | nil => rfl
  | cons a tl =>
    show Res.err _ = Res.err _
    simp [Cursor.new]

/-! ### layout independence -/

/-- a derivation without its layout -/
inductive MSkel where
  | atom (a : List Char)
  | paren (m : MSkel)
  | and (l r : MSkel)
  | or (l r : MSkel)

/-- forget the whitespace runs -/
def MAst.skel : MAst → MSkel
  | .atom _ a => .atom a
  | .paren _ m _ => .paren m.skel
  | .and l _ r => .and l.skel r.skel
  | .or l _ r => .or l.skel r.skel

/-- the marker of a skeleton -/
def MSkel.denote (x : Ext) : MSkel → Option MTree × List WarnKind
  | .atom a => ((atomSem x a).1.map expression, (atomSem x a).2)
  | .paren m => m.denote x
  | .and l r => (combine true (l.denote x).1 (r.denote x).1, (l.denote x).2 ++ (r.denote x).2)
  | .or l r => (combine false (l.denote x).1 (r.denote x).1, (l.denote x).2 ++ (r.denote x).2)

theorem MAst.denote_skel (x : Ext) (m : MAst) : m.denote x = m.skel.denote x := by
  induction m with
  | atom ws a => rfl
  | paren ws1 m ws2 ih => exact ih
  | and l ws r ihl ihr => simp only [MAst.denote, MAst.skel, MSkel.denote, ihl, ihr]
  | or l ws r ihl ihr => simp only [MAst.denote, MAst.skel, MSkel.denote, ihl, ihr]

/-- (M2) two well-formed layouts of the same skeleton parse to the same marker and warnings -/
theorem parseMarkers_layout_indep (x : Ext) (m m' : MAst) (trail trail' : List Char)
    (hs : m.skel = m'.skel) (hwf : m.WF) (hwf' : m'.WF) (hat : m.AtomsOK x) (hat' : m'.AtomsOK x)
    (ht : AllP isWs trail) (ht' : AllP isWs trail') :
    parseMarkers x (m.layout ++ trail) = parseMarkers x (m'.layout ++ trail') := by
  rw [parseMarkers_layout x m trail hwf hat ht, parseMarkers_layout x m' trail' hwf' hat' ht',
    MAst.denote_skel, MAst.denote_skel, hs]

/-! ### n-ary chains -/

/-- the chain `first (ws kw operand)*` as the left-nested AST the parser folds -/
def MAst.chain (isAnd : Bool) (first : MAst) (ops : List (List Char × MAst)) : MAst :=
  ops.foldl (fun acc p => if isAnd then .and acc p.1 p.2 else .or acc p.1 p.2) first

/-- its marker is the left fold of `combine` over the operands, warnings in order -/
theorem MAst.denote_chain (x : Ext) (isAnd : Bool) (first : MAst) (ops : List (List Char × MAst)) :
    (MAst.chain isAnd first ops).denote x =
      ops.foldl (fun acc p => (combine isAnd acc.1 (p.2.denote x).1, acc.2 ++ (p.2.denote x).2))
        (first.denote x) := by
  induction ops generalizing first with
  | nil => rfl
  | cons p ops ih =>
    simp only [MAst.chain, List.foldl_cons]
    cases isAnd
    · exact ih (.or first p.1 p.2)
    · exact ih (.and first p.1 p.2)

/-- its text is `first (ws kw operand)*` -/
theorem MAst.layout_chain (isAnd : Bool) (first : MAst) (ops : List (List Char × MAst)) :
    (MAst.chain isAnd first ops).layout =
      ops.foldl (fun s p => s ++ (p.1 ++ (kwChars isAnd ++ p.2.layout))) first.layout := by
  induction ops generalizing first with
  | nil => rfl
  | cons p ops ih =>
    simp only [MAst.chain, List.foldl_cons]
    cases isAnd
    · exact ih (.or first p.1 p.2)
    · exact ih (.and first p.1 p.2)

end Pep508
