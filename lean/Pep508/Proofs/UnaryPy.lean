/-
`simplify_python_versions` / `complexify_python_versions`: evaluation-level theorems.
-/
import Pep508.Proofs.UnaryDisjoint
import Pep508.Theorems.C02
set_option linter.unusedSectionVars false
set_option linter.unusedSimpArgs false
set_option linter.unusedVariables false
namespace Pep508
variable {νr νb α : Type}
variable [LT α] [LE α] [Std.IsLinearOrder α] [Std.LawfulOrderLT α] [DecidableLT α] [DecidableEq α]
variable [LT νr] [LE νr] [Std.IsLinearOrder νr] [Std.LawfulOrderLT νr] [DecidableLT νr] [DecidableEq νr]
variable [LT νb] [LE νb] [Std.IsLinearOrder νb] [Std.LawfulOrderLT νb] [DecidableLT νb] [DecidableEq νb]

/-! ### bounds -/

/-- an invalid segment is empty -/
theorem Ivl.mem_of_not_valid (iv : Ivl α) (a : α) (h : ¬ iv.valid = true) : iv.mem a = false := by
  cases hm : iv.mem a with
  | false => rfl
  | true => exact absurd (Ivl.valid_of_mem iv a hm) h

theorem Bnd.flipLo_spec (lo below : Bnd α) (x : α) (h : lo.flipLo = some below) :
    below.hiOk x = !lo.loOk x := by
  cases lo <;> simp only [Bnd.flipLo, Option.some.injEq, reduceCtorEq] at h <;> subst h <;>
    simp only [Bnd.hiOk, Bnd.loOk] <;> grind

theorem Bnd.flipHi_spec (hi above : Bnd α) (x : α) (h : hi.flipHi = some above) :
    above.loOk x = !hi.hiOk x := by
  cases hi <;> simp only [Bnd.flipHi, Option.some.injEq, reduceCtorEq] at h <;> subst h <;>
    simp only [Bnd.hiOk, Bnd.loOk] <;> grind

theorem Bnd.flipLo_none_u (lo : Bnd α) (x : α) (h : lo.flipLo = none) : lo.loOk x = true := by
  cases lo <;> simp [Bnd.flipLo, Bnd.loOk] at *

theorem Bnd.flipHi_none_u (hi : Bnd α) (x : α) (h : hi.flipHi = none) : hi.hiOk x = true := by
  cases hi <;> simp [Bnd.flipHi, Bnd.hiOk] at *

/-- in a valid segment, a point above the upper bound is above the lower bound -/
theorem Ivl.lo_of_not_hi (iv : Ivl α) (x : α) (hv : iv.valid = true) (h : iv.hi.hiOk x = false) :
    iv.lo.loOk x = true := by
  obtain ⟨l, u⟩ := iv
  cases l <;> cases u <;> simp only [Ivl.valid, Bnd.loOk, Bnd.hiOk] at * <;> grind

theorem Ivl.hi_of_not_lo (iv : Ivl α) (x : α) (hv : iv.valid = true) (h : iv.lo.loOk x = false) :
    iv.hi.hiOk x = true := by
  obtain ⟨l, u⟩ := iv
  cases l <;> cases u <;> simp only [Ivl.valid, Bnd.loOk, Bnd.hiOk] at * <;> grind

/-- a segment that meets `(lo, hi)` (syntactically) ends above every point below `lo` -/
theorem Ivl.hi_of_valid_inter (lo hi : Bnd α) (iv : Ivl α) (x : α)
    (hv : ((Ivl.mk lo hi).inter iv).valid = true) (h : lo.loOk x = false) :
    iv.hi.hiOk x = true := by
  obtain ⟨l, u⟩ := iv
  cases lo <;> cases hi <;> cases l <;> cases u <;>
    simp only [Ivl.inter, Ivl.valid, Bnd.maxLo, Bnd.minHi, Bnd.loOk, Bnd.hiOk] at * <;> grind

theorem Ivl.lo_of_valid_inter (lo hi : Bnd α) (iv : Ivl α) (x : α)
    (hv : ((Ivl.mk lo hi).inter iv).valid = true) (h : hi.hiOk x = false) :
    iv.lo.loOk x = true := by
  obtain ⟨l, u⟩ := iv
  cases lo <;> cases hi <;> cases l <;> cases u <;>
    simp only [Ivl.inter, Ivl.valid, Bnd.maxLo, Bnd.minHi, Bnd.loOk, Bnd.hiOk] at * <;> grind

theorem Bnd.loOk_maxLo (a b : Bnd α) (x : α) : (Bnd.maxLo a b).loOk x = (a.loOk x && b.loOk x) := by
  cases a <;> cases b <;> simp only [Bnd.maxLo, Bnd.loOk] <;> grind

theorem Bnd.hiOk_minHi_u (a b : Bnd α) (x : α) : (Bnd.minHi a b).hiOk x = (a.hiOk x && b.hiOk x) := by
  cases a <;> cases b <;> simp only [Bnd.minHi, Bnd.hiOk] <;> grind

/-! ### the marker `pv ∈ (lo, hi)` -/

theorem fromRange_single_eval (ρ : Env νr νb α) (lo hi : Bnd α) (x : α) :
    evalL ρ x (fromRange [⟨lo, hi⟩] : EdgeL νr νb α) = (Ivl.mk lo hi).mem x := by
  cases lo <;> cases hi <;>
    simp only [fromRange, fromRangeGo, Bnd.flipLo, Bnd.flipHi, evalL,
      Ivl.mem, Bnd.loOk, Bnd.hiOk, Tree.eval] <;> grind

theorem fromRange_single_hit (lo hi : Bnd α) (x : α) :
    hitL x (fromRange [⟨lo, hi⟩] : EdgeL νr νb α) = true := by
  cases lo <;> cases hi <;>
    simp only [fromRange, fromRangeGo, Bnd.flipLo, Bnd.flipHi, hitL, List.any_cons,
      List.any_nil, Ivl.mem, Bnd.loOk, Bnd.hiOk] <;> grind

theorem fromRange_single_OKL (lo hi : Bnd α) (hv : (Ivl.mk lo hi).valid = true) :
    OKL (fromRange [⟨lo, hi⟩] : EdgeL νr νb α) := by
  cases lo <;> cases hi <;>
    simp only [fromRange, fromRangeGo, Bnd.flipLo, Bnd.flipHi, OKL,
      List.mem_cons, List.not_mem_nil, or_false, forall_eq_or_imp, forall_eq,
      Ivl.valid, Tree.OK] at * <;> grind

theorem covers_fromRange_single (lo hi : Bnd α) : Covers (fromRange [⟨lo, hi⟩] : EdgeL νr νb α) := by
  rw [covers_iff]; intro x; exact fromRange_single_hit lo hi x

/-- `python_full_version ∈ (lo, hi)` as a diagram -/
theorem eval_pyNode (ρ : Env νr νb α) (pv : νr) (lo hi : Bnd α) :
    (createNodeR pv (fromRange [⟨lo, hi⟩]) : Tree νr νb α).eval ρ = (Ivl.mk lo hi).mem (ρ.rv pv) := by
  rw [eval_createNodeR ρ pv _ (covers_fromRange_single lo hi)]
  exact fromRange_single_eval ρ lo hi _

theorem OK_pyNode (pv : νr) (lo hi : Bnd α) (hv : (Ivl.mk lo hi).valid = true) :
    (createNodeR pv (fromRange [⟨lo, hi⟩]) : Tree νr νb α).OK :=
  OK_createNodeR pv _ (fromRange_single_OKL lo hi hv) (covers_fromRange_single lo hi)

/-! ### ordered edge lists -/

/-- `e` lies entirely below the start of `e2` -/
def Sep (e e2 : Ivl α × Tree νr νb α) : Prop :=
  ∀ x, e2.1.lo.loOk x = true → e.1.hi.hiOk x = false

/-- in an ordered list, an edge holding the value is the one evaluation takes -/
theorem evalL_of_sep (ρ : Env νr νb α) (x : α) (l : EdgeL νr νb α) (hp : l.Pairwise Sep)
    (e : Ivl α × Tree νr νb α) (he : e ∈ l) (hm : e.1.mem x = true) :
    evalL ρ x l = e.2.eval ρ ∧ hitL x l = true := by
  induction l with
  | nil => simp at he
  | cons a rest ih =>
    rw [List.pairwise_cons] at hp
    simp only [List.mem_cons] at he
    rcases he with he | he
    · subst he; simp [evalL, hitL, hm]
    · have hlo : e.1.lo.loOk x = true := by
        simp only [Ivl.mem, Bool.and_eq_true] at hm; exact hm.1
      have hna : a.1.mem x = false := by
        simp only [Ivl.mem, hp.1 e he x hlo, Bool.and_false]
      obtain ⟨i1, i2⟩ := ih hp.2 he
      simp only [hitL] at i2
      simp [evalL, hitL, hna, i1, i2]

theorem partitionFrom_sep (cur : Bnd α) (es : EdgeL νr νb α) (h : partitionFrom cur es = true) :
    es.Pairwise Sep ∧ ∀ e ∈ es, ∀ x, e.1.lo.loOk x = true → cur.loOk x = true := by
  induction es generalizing cur with
  | nil => simp [partitionFrom] at h
  | cons e rest ih =>
    obtain ⟨iv, t⟩ := e
    cases rest with
    | nil =>
      simp only [partitionFrom, Bool.and_eq_true, decide_eq_true_eq] at h
      obtain ⟨⟨h1, h2⟩, h3⟩ := h
      refine ⟨List.pairwise_singleton _ _, ?_⟩
      intro e he x hx
      simp only [List.mem_singleton] at he
      subst he; rw [← h1]; exact hx
    | cons e2 rest2 =>
      obtain ⟨iv2, t2⟩ := e2
      simp only [partitionFrom, Bool.and_eq_true, decide_eq_true_eq] at h
      obtain ⟨⟨⟨h1, h2⟩, _⟩, h4⟩ := h
      cases hf : iv.hi.flipHi with
      | none => simp [hf] at h4
      | some nxt =>
        simp only [hf] at h4
        obtain ⟨i1, i2⟩ := ih nxt h4
        have key : ∀ b ∈ (iv2, t2) :: rest2, ∀ x, b.1.lo.loOk x = true → iv.hi.hiOk x = false := by
          intro b hb x hx
          have := i2 b hb x hx
          rw [Bnd.flipHi_spec iv.hi nxt x hf] at this
          simpa using this
        refine ⟨List.pairwise_cons.mpr ⟨fun b hb => key b hb, i1⟩, ?_⟩
        intro e he x hx
        simp only [List.mem_cons] at he
        rcases he with he | he
        · subst he; rw [← h1]; exact hx
        · rw [← h1]
          exact Ivl.lo_of_not_hi iv x h2 (key e (by simpa using he) x hx)

/-- pointwise `create_node`: enough that *this* value is on some edge -/
theorem eval_createNodeR_hit (ρ : Env νr νb α) (v : νr) (es : EdgeL νr νb α)
    (hh : hitL (ρ.rv v) es = true) : (createNodeR v es).eval ρ = evalL ρ (ρ.rv v) es := by
  unfold createNodeR
  cases es with
  | nil => simp [hitL] at hh
  | cons e rest =>
    obtain ⟨iv, c⟩ := e
    simp only
    split
    · rename_i h
      symm
      apply evalL_all_same
      · intro e' he'
        simp only [List.mem_cons] at he'
        rcases he' with h' | h'
        · subst h'; rfl
        · simp only [List.all_eq_true, beq_iff_eq] at h; exact h e' h'
      · exact hh
    · simp [Tree.eval, Edges.eval_eq, Edges.toList_ofList]

/-! ### `complexify_python_versions` on a `python_full_version` node -/

/-- the edge survives the filter of `complexifyEdges` -/
def Kept (lo hi : Bnd α) (e : Ivl α × Tree νr νb α) : Prop :=
  ((Ivl.mk lo hi).inter e.1).valid = true

section Lo
variable (lo hi : Bnd α) (new : EdgeL νr νb α)

theorem complexifyLo_sep (hp : new.Pairwise Sep) (hk : ∀ e ∈ new, Kept lo hi e) :
    (complexifyLo lo new).Pairwise Sep := by
  unfold complexifyLo
  cases hf : lo.flipLo with
  | none => exact hp
  | some below =>
    cases new with
    | nil => exact hp
    | cons e rest =>
      obtain ⟨iv, c⟩ := e
      rw [List.pairwise_cons] at hp
      simp only
      split
      · exact List.pairwise_cons.mpr ⟨fun b hb => hp.1 b hb, hp.2⟩
      · refine List.pairwise_cons.mpr ⟨?_, List.pairwise_cons.mpr ⟨fun b hb => hp.1 b hb, hp.2⟩⟩
        intro b hb x hx
        simp only [List.mem_cons] at hb
        have hlo : lo.loOk x = true := by
          rcases hb with hb | hb
          · subst hb; exact hx
          · have h1 : iv.hi.hiOk x = false := hp.1 b hb x hx
            cases h2 : lo.loOk x with
            | true => rfl
            | false =>
              have := Ivl.hi_of_valid_inter lo hi iv x (hk (iv, c) (by simp)) h2
              rw [h1] at this; exact absurd this (by simp)
        show below.hiOk x = false
        rw [Bnd.flipLo_spec lo below x hf, hlo]; rfl

theorem complexifyLo_hiInv (hv : (Ivl.mk lo hi).valid = true) (hk : ∀ e ∈ new, Kept lo hi e) :
    ∀ e ∈ complexifyLo lo new, ∀ x, hi.hiOk x = false → e.1.lo.loOk x = true := by
  have hk' : ∀ e ∈ new, ∀ x, hi.hiOk x = false → e.1.lo.loOk x = true :=
    fun e he x hx => Ivl.lo_of_valid_inter lo hi e.1 x (hk e he) hx
  unfold complexifyLo
  cases hf : lo.flipLo with
  | none => exact hk'
  | some below =>
    cases new with
    | nil => exact hk'
    | cons e rest =>
      obtain ⟨iv, c⟩ := e
      simp only
      split
      · intro e he x hx
        simp only [List.mem_cons] at he
        rcases he with he | he
        · subst he; rfl
        · exact hk' e (by simp [he]) x hx
      · intro e he x hx
        simp only [List.mem_cons] at he
        rcases he with he | he | he
        · subst he; rfl
        · subst he; exact Ivl.lo_of_not_hi ⟨lo, hi⟩ x hv hx
        · exact hk' e (by simp [he]) x hx

theorem complexifyLo_mem (x : α) (hx : lo.loOk x = true) (e : Ivl α × Tree νr νb α) (he : e ∈ new)
    (hm : e.1.mem x = true) : ∃ e' ∈ complexifyLo lo new, e'.1.mem x = true ∧ e'.2 = e.2 := by
  unfold complexifyLo
  cases hf : lo.flipLo with
  | none => exact ⟨e, he, hm, rfl⟩
  | some below =>
    cases new with
    | nil => simp at he
    | cons a rest =>
      obtain ⟨iv, c⟩ := a
      simp only [List.mem_cons] at he
      simp only
      have hhi : e.1.hi.hiOk x = true := by
        simp only [Ivl.mem, Bool.and_eq_true] at hm; exact hm.2
      split
      · rcases he with he | he
        · subst he
          exact ⟨_, List.mem_cons_self, by simpa [Ivl.mem, Bnd.loOk] using hhi, rfl⟩
        · exact ⟨e, by simp [he], hm, rfl⟩
      · rcases he with he | he
        · subst he
          exact ⟨(⟨lo, iv.hi⟩, c), by simp, by simp only [Ivl.mem, hx, Bool.true_and]; exact hhi, rfl⟩
        · exact ⟨e, by simp [he], hm, rfl⟩

theorem complexifyLo_below (x : α) (hx : lo.loOk x = false) (hne : new ≠ [])
    (hk : ∀ e ∈ new, Kept lo hi e) :
    ∃ e' ∈ complexifyLo lo new, e'.1.mem x = true ∧ e'.2 = .leaf false := by
  unfold complexifyLo
  cases hf : lo.flipLo with
  | none => rw [Bnd.flipLo_none_u lo x hf] at hx; exact absurd hx (by simp)
  | some below =>
    cases new with
    | nil => exact absurd rfl hne
    | cons a rest =>
      obtain ⟨iv, c⟩ := a
      simp only
      split
      · rename_i hc
        refine ⟨_, List.mem_cons_self, ?_, hc⟩
        have := Ivl.hi_of_valid_inter lo hi iv x (hk (iv, c) (by simp)) hx
        simpa [Ivl.mem, Bnd.loOk] using this
      · refine ⟨_, List.mem_cons_self, ?_, rfl⟩
        show ((Bnd.unb : Bnd α).loOk x && below.hiOk x) = true
        rw [Bnd.flipLo_spec lo below x hf, hx]; rfl

theorem complexifyLo_ne_nil (hne : new ≠ []) : complexifyLo lo new ≠ [] := by
  unfold complexifyLo
  cases hf : lo.flipLo with
  | none => exact hne
  | some below =>
    cases new with
    | nil => exact absurd rfl hne
    | cons a rest =>
      obtain ⟨iv, c⟩ := a
      simp only
      split <;> simp

theorem complexifyLo_nil : complexifyLo lo ([] : EdgeL νr νb α) = [] := by
  unfold complexifyLo
  cases lo.flipLo <;> rfl

end Lo

section Hi
variable (hi above : Bnd α)

/-- every result edge starts where an input edge starts, or is the added tail -/
theorem complexifyHiGo_sep_left (hf : hi.flipHi = some above) (m : EdgeL νr νb α)
    (hinv : ∀ e ∈ m, ∀ x, hi.hiOk x = false → e.1.lo.loOk x = true)
    (a : Ivl α × Tree νr νb α) (ha : ∀ b ∈ m, Sep a b) (hne : m ≠ []) :
    ∀ b ∈ complexifyHiGo hi above m, Sep a b := by
  induction m with
  | nil => exact absurd rfl hne
  | cons e rest ih =>
    obtain ⟨iv, c⟩ := e
    cases rest with
    | nil =>
      simp only [complexifyHiGo]
      split
      · intro b hb
        simp only [List.mem_singleton] at hb
        subst hb
        exact ha (iv, c) (by simp)
      · intro b hb
        simp only [List.mem_cons, List.not_mem_nil, or_false] at hb
        rcases hb with hb | hb
        · subst hb; exact ha (iv, c) (by simp)
        · subst hb
          intro x hx
          have h1 : hi.hiOk x = false := by
            have := Bnd.flipHi_spec hi above x hf
            rw [show above.loOk x = true from hx] at this
            simpa using this.symm
          exact ha (iv, c) (by simp) x (hinv (iv, c) (by simp) x h1)
    | cons e2 rest2 =>
      simp only [complexifyHiGo]
      intro b hb
      simp only [List.mem_cons] at hb
      rcases hb with hb | hb
      · subst hb; exact ha (iv, c) (by simp)
      · exact ih (fun e he => hinv e (List.mem_cons_of_mem _ he))
          (fun b hb => ha b (List.mem_cons_of_mem _ hb)) (by simp) b hb

theorem complexifyHiGo_sep (hf : hi.flipHi = some above) (m : EdgeL νr νb α) (hp : m.Pairwise Sep)
    (hinv : ∀ e ∈ m, ∀ x, hi.hiOk x = false → e.1.lo.loOk x = true) :
    (complexifyHiGo hi above m).Pairwise Sep := by
  induction m with
  | nil => simp [complexifyHiGo]
  | cons e rest ih =>
    obtain ⟨iv, c⟩ := e
    rw [List.pairwise_cons] at hp
    cases rest with
    | nil =>
      simp only [complexifyHiGo]
      split
      · exact List.pairwise_singleton _ _
      · refine List.pairwise_cons.mpr ⟨?_, List.pairwise_singleton _ _⟩
        intro b hb x hx
        simp only [List.mem_singleton] at hb
        subst hb
        have := Bnd.flipHi_spec hi above x hf
        rw [show above.loOk x = true from hx] at this
        show hi.hiOk x = false
        simpa using this.symm
    | cons e2 rest2 =>
      simp only [complexifyHiGo]
      refine List.pairwise_cons.mpr ⟨?_, ih hp.2 (fun e he => hinv e (List.mem_cons_of_mem _ he))⟩
      exact complexifyHiGo_sep_left hi above hf (e2 :: rest2)
        (fun e he => hinv e (List.mem_cons_of_mem _ he)) (iv, c) hp.1 (by simp)

theorem complexifyHiGo_mem (m : EdgeL νr νb α) (x : α) (hx : hi.hiOk x = true)
    (e : Ivl α × Tree νr νb α) (he : e ∈ m) (hm : e.1.mem x = true) :
    ∃ e' ∈ complexifyHiGo hi above m, e'.1.mem x = true ∧ e'.2 = e.2 := by
  induction m with
  | nil => simp at he
  | cons a rest ih =>
    obtain ⟨iv, c⟩ := a
    have hlo : e.1.lo.loOk x = true := by
      simp only [Ivl.mem, Bool.and_eq_true] at hm; exact hm.1
    cases rest with
    | nil =>
      simp only [List.mem_singleton] at he
      subst he
      simp only [complexifyHiGo]
      split
      · exact ⟨_, List.mem_cons_self, by simpa [Ivl.mem, Bnd.hiOk] using hlo, rfl⟩
      · exact ⟨(⟨iv.lo, hi⟩, c), by simp, by simp only [Ivl.mem, hx, Bool.and_true]; exact hlo, rfl⟩
    | cons e2 rest2 =>
      simp only [complexifyHiGo]
      simp only [List.mem_cons] at he
      rcases he with he | he
      · subst he; exact ⟨_, List.mem_cons_self, hm, rfl⟩
      · obtain ⟨e', he', h1, h2⟩ := ih (by simpa using he)
        exact ⟨e', by simp [he'], h1, h2⟩

theorem complexifyHiGo_above (hf : hi.flipHi = some above) (m : EdgeL νr νb α) (x : α) (hx : hi.hiOk x = false) (hne : m ≠ [])
    (hinv : ∀ e ∈ m, ∀ x, hi.hiOk x = false → e.1.lo.loOk x = true) :
    ∃ e' ∈ complexifyHiGo hi above m, e'.1.mem x = true ∧ e'.2 = .leaf false := by
  induction m with
  | nil => exact absurd rfl hne
  | cons a rest ih =>
    obtain ⟨iv, c⟩ := a
    cases rest with
    | nil =>
      simp only [complexifyHiGo]
      split
      · rename_i hc
        refine ⟨_, List.mem_cons_self, ?_, hc⟩
        have := hinv (iv, c) (by simp) x hx
        simpa [Ivl.mem, Bnd.hiOk] using this
      · refine ⟨(⟨above, .unb⟩, .leaf false), by simp, ?_, rfl⟩
        show (above.loOk x && (Bnd.unb : Bnd α).hiOk x) = true
        rw [Bnd.flipHi_spec hi above x hf, hx]; rfl
    | cons e2 rest2 =>
      simp only [complexifyHiGo]
      obtain ⟨e', he', h1, h2⟩ := ih (by simp) (fun e he => hinv e (by simp [he]))
      exact ⟨e', by simp [he'], h1, h2⟩

end Hi

theorem complexifyHi_nil (hi : Bnd α) : complexifyHi hi ([] : EdgeL νr νb α) = [] := by
  unfold complexifyHi
  cases hi.flipHi <;> rfl

/-- the three regions of the line, for the surgery on a partition -/
theorem complexifyEdges_find (lo hi : Bnd α) (es : EdgeL νr νb α)
    (hp : partitionFrom .unb es = true) (hv : (Ivl.mk lo hi).valid = true) (x : α) :
    (complexifyEdges lo hi es).Pairwise Sep ∧
    (∀ e ∈ es, e.1.mem x = true → (Ivl.mk lo hi).mem x = true →
      ∃ e' ∈ complexifyEdges lo hi es, e'.1.mem x = true ∧ e'.2 = e.2) ∧
    ((Ivl.mk lo hi).mem x = false → complexifyEdges lo hi es = [] ∨
      ∃ e' ∈ complexifyEdges lo hi es, e'.1.mem x = true ∧ e'.2 = .leaf false) := by
  obtain ⟨hsep, _⟩ := partitionFrom_sep .unb es hp
  unfold complexifyEdges
  generalize hnew : es.filter (fun e => ((Ivl.mk lo hi).inter e.1).valid) = new
  have hnsep : new.Pairwise Sep := by rw [← hnew]; exact hsep.filter _
  have hk : ∀ e ∈ new, Kept lo hi e := by
    intro e he
    rw [← hnew] at he
    exact (List.mem_filter.mp he).2
  have hmsep := complexifyLo_sep lo hi new hnsep hk
  have hminv := complexifyLo_hiInv lo hi new hv hk
  simp only []
  refine ⟨?_, ?_, ?_⟩
  · unfold complexifyHi
    cases hf : hi.flipHi with
    | none => exact hmsep
    | some above => exact complexifyHiGo_sep hi above hf _ hmsep hminv
  · intro e he hm hin
    simp only [Ivl.mem, Bool.and_eq_true] at hin
    have hen : e ∈ new := by
      rw [← hnew]
      refine List.mem_filter.mpr ⟨he, ?_⟩
      apply Ivl.valid_of_mem _ x
      rw [Ivl.mem_inter, hm]
      simp [Ivl.mem, hin.1, hin.2]
    obtain ⟨e1, he1, h1, h2⟩ := complexifyLo_mem lo new x hin.1 e hen hm
    unfold complexifyHi
    cases hf : hi.flipHi with
    | none => exact ⟨e1, he1, h1, h2⟩
    | some above =>
      obtain ⟨e2, he2, h3, h4⟩ := complexifyHiGo_mem hi above _ x hin.2 e1 he1 h1
      exact ⟨e2, he2, h3, h4.trans h2⟩
  · intro hout
    by_cases hne : new = []
    · left; subst hne; rw [complexifyLo_nil, complexifyHi_nil]
    right
    by_cases hlo : lo.loOk x = true
    · have hhi : hi.hiOk x = false := by
        simp only [Ivl.mem, hlo, Bool.true_and] at hout; exact hout
      unfold complexifyHi
      cases hf : hi.flipHi with
      | none => rw [Bnd.flipHi_none_u hi x hf] at hhi; exact absurd hhi (by simp)
      | some above =>
        exact complexifyHiGo_above hi above hf _ x hhi (complexifyLo_ne_nil lo new hne) hminv
    · have hlo' : lo.loOk x = false := by simpa using hlo
      have hhi : hi.hiOk x = true := Ivl.hi_of_not_lo ⟨lo, hi⟩ x hv hlo'
      obtain ⟨e1, he1, h1, h2⟩ := complexifyLo_below lo hi new x hlo' hne hk
      unfold complexifyHi
      cases hf : hi.flipHi with
      | none => exact ⟨e1, he1, h1, h2⟩
      | some above =>
        obtain ⟨e2, he2, h3, h4⟩ := complexifyHiGo_mem hi above _ x hhi e1 he1 h1
        exact ⟨e2, he2, h3, h4.trans h2⟩

/-- **the edge surgery of `complexify_python_versions` conjoins the node with `pv ∈ (lo, hi)`** -/
theorem eval_complexifyEdges (ρ : Env νr νb α) (v : νr) (lo hi : Bnd α) (es : EdgeL νr νb α)
    (hp : partitionFrom .unb es = true) (hv : (Ivl.mk lo hi).valid = true) :
    (createNodeR v (complexifyEdges lo hi es)).eval ρ =
      (evalL ρ (ρ.rv v) es && (Ivl.mk lo hi).mem (ρ.rv v)) := by
  obtain ⟨hsep, _⟩ := partitionFrom_sep .unb es hp
  obtain ⟨_, hcov⟩ := partitionFrom_spec .unb es hp
  obtain ⟨fsep, fin, fout⟩ := complexifyEdges_find lo hi es hp hv (ρ.rv v)
  cases hin : (Ivl.mk lo hi).mem (ρ.rv v) with
  | true =>
    have hh := hcov (ρ.rv v) rfl
    simp only [hitL, List.any_eq_true] at hh
    obtain ⟨e, he, hm⟩ := hh
    obtain ⟨e', he', h1, h2⟩ := fin e he hm hin
    obtain ⟨r1, r2⟩ := evalL_of_sep ρ _ _ fsep e' he' h1
    rw [eval_createNodeR_hit ρ v _ r2, r1, (evalL_of_sep ρ _ _ hsep e he hm).1, h2]
    simp
  | false =>
    rcases fout hin with h | ⟨e', he', h1, h2⟩
    · rw [h]; simp [createNodeR, Tree.eval]
    · obtain ⟨r1, r2⟩ := evalL_of_sep ρ _ _ fsep e' he' h1
      rw [eval_createNodeR_hit ρ v _ r2, r1, h2]
      simp [Tree.eval]

/-! ### `simplify_python_versions` on a `python_full_version` node -/

theorem setFirstLo_sep (lo' : Bnd α) (m : EdgeL νr νb α) (hp : m.Pairwise Sep) :
    (setFirstLo lo' m).Pairwise Sep := by
  cases m with
  | nil => exact hp
  | cons e rest =>
    obtain ⟨iv, c⟩ := e
    rw [List.pairwise_cons] at hp
    exact List.pairwise_cons.mpr ⟨fun b hb => hp.1 b hb, hp.2⟩

theorem setFirstLo_mem (lo' : Bnd α) (m : EdgeL νr νb α) (x : α) (hx : lo'.loOk x = true)
    (e : Ivl α × Tree νr νb α) (he : e ∈ m) (hm : e.1.mem x = true) :
    ∃ e' ∈ setFirstLo lo' m, e'.1.mem x = true ∧ e'.2 = e.2 := by
  cases m with
  | nil => simp at he
  | cons a rest =>
    obtain ⟨iv, c⟩ := a
    simp only [List.mem_cons] at he
    simp only [setFirstLo]
    rcases he with he | he
    · subst he
      refine ⟨_, List.mem_cons_self, ?_, rfl⟩
      simp only [Ivl.mem, Bool.and_eq_true] at hm ⊢
      exact ⟨hx, hm.2⟩
    · exact ⟨e, by simp [he], hm, rfl⟩

theorem setLastHi_sep_left (hi' : Bnd α) (m : EdgeL νr νb α) (a : Ivl α × Tree νr νb α)
    (ha : ∀ b ∈ m, Sep a b) : ∀ b ∈ setLastHi hi' m, Sep a b := by
  induction m with
  | nil => simp [setLastHi]
  | cons e rest ih =>
    obtain ⟨iv, c⟩ := e
    cases rest with
    | nil =>
      simp only [setLastHi]
      intro b hb
      simp only [List.mem_singleton] at hb
      subst hb
      exact ha (iv, c) (by simp)
    | cons e2 rest2 =>
      simp only [setLastHi]
      intro b hb
      simp only [List.mem_cons] at hb
      rcases hb with hb | hb
      · subst hb; exact ha (iv, c) (by simp)
      · exact ih (fun b hb => ha b (List.mem_cons_of_mem _ hb)) b hb

theorem setLastHi_sep (hi' : Bnd α) (m : EdgeL νr νb α) (hp : m.Pairwise Sep) :
    (setLastHi hi' m).Pairwise Sep := by
  induction m with
  | nil => simp [setLastHi]
  | cons e rest ih =>
    obtain ⟨iv, c⟩ := e
    rw [List.pairwise_cons] at hp
    cases rest with
    | nil => simp only [setLastHi]; exact List.pairwise_singleton _ _
    | cons e2 rest2 =>
      simp only [setLastHi]
      exact List.pairwise_cons.mpr ⟨setLastHi_sep_left hi' _ (iv, c) hp.1, ih hp.2⟩

theorem setLastHi_mem (hi' : Bnd α) (m : EdgeL νr νb α) (x : α) (hx : hi'.hiOk x = true)
    (e : Ivl α × Tree νr νb α) (he : e ∈ m) (hm : e.1.mem x = true) :
    ∃ e' ∈ setLastHi hi' m, e'.1.mem x = true ∧ e'.2 = e.2 := by
  induction m with
  | nil => simp at he
  | cons a rest ih =>
    obtain ⟨iv, c⟩ := a
    cases rest with
    | nil =>
      simp only [List.mem_singleton] at he
      subst he
      simp only [setLastHi]
      refine ⟨_, List.mem_cons_self, ?_, rfl⟩
      simp only [Ivl.mem, Bool.and_eq_true] at hm ⊢
      exact ⟨hm.1, hx⟩
    | cons e2 rest2 =>
      simp only [setLastHi]
      simp only [List.mem_cons] at he
      rcases he with he | he
      · subst he; exact ⟨_, List.mem_cons_self, hm, rfl⟩
      · obtain ⟨e', he', h1, h2⟩ := ih (by simpa using he)
        exact ⟨e', by simp [he'], h1, h2⟩

/-- **the edge surgery of `simplify_python_versions` keeps the node's value inside `(lo, hi)`** -/
theorem eval_simplifyEdges (ρ : Env νr νb α) (v : νr) (lo hi : Bnd α) (es : EdgeL νr νb α)
    (hp : partitionFrom .unb es = true) (hin : (Ivl.mk lo hi).mem (ρ.rv v) = true) :
    (createNodeR v (simplifyEdges lo hi es)).eval ρ = evalL ρ (ρ.rv v) es := by
  obtain ⟨hsep, _⟩ := partitionFrom_sep .unb es hp
  obtain ⟨_, hcov⟩ := partitionFrom_spec .unb es hp
  have hh := hcov (ρ.rv v) rfl
  simp only [hitL, List.any_eq_true] at hh
  obtain ⟨e, he, hm⟩ := hh
  unfold simplifyEdges
  generalize hnew : es.filterMap (fun e =>
    let o := e.1.inter ⟨lo, hi⟩
    if o.valid then some (o, e.2) else none) = new
  simp only []
  have hnsep : new.Pairwise Sep := by
    rw [← hnew]
    refine List.Pairwise.filterMap _ ?_ hsep
    intro a a' haa b hb b' hb'
    simp only [] at hb hb'
    split at hb
    · split at hb'
      · simp only [Option.some.injEq] at hb hb'
        subst hb; subst hb'
        intro x hx
        simp only [Ivl.inter, Bnd.loOk_maxLo, Bnd.hiOk_minHi_u, Bool.and_eq_true] at hx ⊢
        rw [haa x hx.1]; rfl
      · simp at hb'
    · simp at hb
  have hmi : (e.1.inter ⟨lo, hi⟩).mem (ρ.rv v) = true := by rw [Ivl.mem_inter, hm, hin]; rfl
  have hen : (e.1.inter ⟨lo, hi⟩, e.2) ∈ new := by
    rw [← hnew]
    refine List.mem_filterMap.mpr ⟨e, he, ?_⟩
    simp only [Ivl.valid_of_mem _ _ hmi, if_true]
  obtain ⟨e1, he1, h1, h2⟩ := setFirstLo_mem .unb new (ρ.rv v) rfl _ hen hmi
  obtain ⟨e2, he2, h3, h4⟩ := setLastHi_mem .unb _ (ρ.rv v) rfl e1 he1 h1
  have fsep := setLastHi_sep .unb _ (setFirstLo_sep .unb new hnsep)
  obtain ⟨r1, r2⟩ := evalL_of_sep ρ _ _ fsep e2 he2 h3
  rw [eval_createNodeR_hit ρ v _ r2, r1, (evalL_of_sep ρ _ _ hsep e he hm).1, h4, h2]

/-! ### the tree level -/

theorem Edges.complexifyPyE_eq_u (pv : νr) (lo hi : Bnd α) : ∀ (es : Edges νr νb α),
    es.complexifyPyE pv lo hi = es.toList.map (fun e => (e.1, e.2.complexifyPy pv lo hi))
  | .nil => rfl
  | .cons iv t rest => by
    simp [Edges.complexifyPyE, Edges.toList, Edges.complexifyPyE_eq_u pv lo hi rest]

theorem Edges.simplifyPyE_eq_u (pv : νr) (lo hi : Bnd α) : ∀ (es : Edges νr νb α),
    es.simplifyPyE pv lo hi = es.toList.map (fun e => (e.1, e.2.simplifyPy pv lo hi))
  | .nil => rfl
  | .cons iv t rest => by
    simp [Edges.simplifyPyE, Edges.toList, Edges.simplifyPyE_eq_u pv lo hi rest]

theorem Edges.wfAll_mem_u : ∀ (es : Edges νr νb α) (k : Rank νr νb), es.wfAll k = true →
    ∀ e ∈ es.toList, e.2.wf = true
  | .nil, _, _ => by simp [Edges.toList]
  | .cons iv t rest, k, h => by
    simp only [Edges.wfAll, Bool.and_eq_true] at h
    intro e he
    simp only [Edges.toList, List.mem_cons] at he
    rcases he with he | he
    · subst he; exact h.1.1
    · exact Edges.wfAll_mem_u rest k h.2 e he

theorem Ivl.mem_unb_unb (a : α) : (Ivl.mk (.unb : Bnd α) .unb).mem a = true := rfl

theorem eval_complexifyPy_aux (pv : νr) (lo hi : Bnd α) (ρ : Env νr νb α) :
    ∀ (n : Nat) (t : Tree νr νb α), t.size < n → t.wf = true →
    (t.complexifyPy pv lo hi).eval ρ = (t.eval ρ && (Ivl.mk lo hi).mem (ρ.rv pv)) := by
  intro n
  induction n with
  | zero => intro t h; omega
  | succ n ih =>
    intro t hsz hwf
    have hok := Tree.OK_of_wf t hwf
    cases t with
    | leaf b =>
      simp only [Tree.complexifyPy]
      cases b
      · simp [Tree.eval]
      · by_cases c1 : lo = .unb ∧ hi = .unb
        · obtain ⟨rfl, rfl⟩ := c1; simp [Tree.eval, Ivl.mem_unb_unb]
        · by_cases c2 : (Ivl.mk lo hi).valid = true
          · simp only [c1, c2, if_true, if_false, reduceCtorEq, eval_pyNode]
            simp [Tree.eval]
          · simp only [c1, c2, if_false, reduceCtorEq, Ivl.mem_of_not_valid _ _ c2]
            simp [Tree.eval]
    | rng v es =>
      simp only [Tree.complexifyPy]
      by_cases c1 : lo = .unb ∧ hi = .unb
      · obtain ⟨rfl, rfl⟩ := c1; simp [Ivl.mem_unb_unb]
      by_cases c2 : (Ivl.mk lo hi).valid = true
      · simp only [c1, c2, not_true_eq_false, if_false]
        simp only [Tree.wf, Bool.and_eq_true] at hwf
        obtain ⟨⟨_, hpart⟩, hall⟩ := hwf
        by_cases c3 : v = pv
        · subst c3
          simp only [if_true]
          rw [eval_complexifyEdges ρ v lo hi _ hpart c2, Tree.eval_rng]
        by_cases c4 : pv < v
        · simp only [c3, c4, if_true, if_false]
          rw [C02.eval_and ρ _ _ hok (OK_pyNode pv lo hi c2), eval_pyNode]
        · simp only [c3, c4, if_false]
          obtain ⟨hxo, hxc⟩ := Tree.OK_rng hok
          rw [Edges.complexifyPyE_eq_u]
          show (createNodeR v (mapE (fun c => c.complexifyPy pv lo hi) es.toList)).eval ρ = _
          rw [eval_node_map ρ v _ _ (fun b => b && (Ivl.mk lo hi).mem (ρ.rv pv)) hxo hxc, Tree.eval_rng]
          intro e he
          exact ih e.2 (by have := Tree.size_rng_child v es e he; omega)
            (Edges.wfAll_mem_u es _ hall e he)
      · simp only [c1, c2, not_false_eq_true, if_true, if_false, Ivl.mem_of_not_valid _ _ c2]
        simp [Tree.eval]
    | bool v h l =>
      simp only [Tree.complexifyPy]
      by_cases c1 : lo = .unb ∧ hi = .unb
      · obtain ⟨rfl, rfl⟩ := c1; simp [Ivl.mem_unb_unb]
      by_cases c2 : (Ivl.mk lo hi).valid = true
      · simp only [c1, c2, not_true_eq_false, if_false]
        rw [C02.eval_and ρ _ _ hok (OK_pyNode pv lo hi c2), eval_pyNode]
      · simp only [c1, c2, not_false_eq_true, if_true, if_false, Ivl.mem_of_not_valid _ _ c2]
        simp [Tree.eval]

/-- **`complexify_python_versions` conjoins the marker with `python_full_version ∈ (lo, hi)`** -/
theorem eval_complexifyPy (pv : νr) (lo hi : Bnd α) (t : Tree νr νb α) (ht : t.wf = true)
    (ρ : Env νr νb α) :
    (t.complexifyPy pv lo hi).eval ρ = (t.eval ρ && (Ivl.mk lo hi).mem (ρ.rv pv)) :=
  eval_complexifyPy_aux pv lo hi ρ _ t (Nat.lt_succ_self _) ht

theorem eval_simplifyPy_aux (pv : νr) (lo hi : Bnd α) (ρ : Env νr νb α)
    (hin : (Ivl.mk lo hi).mem (ρ.rv pv) = true) :
    ∀ (n : Nat) (t : Tree νr νb α), t.size < n → t.wf = true →
    (t.simplifyPy pv lo hi).eval ρ = t.eval ρ := by
  intro n
  induction n with
  | zero => intro t h; omega
  | succ n ih =>
    intro t hsz hwf
    have hok := Tree.OK_of_wf t hwf
    cases t with
    | leaf b => simp [Tree.simplifyPy]
    | rng v es =>
      simp only [Tree.simplifyPy]
      by_cases c1 : lo = .unb ∧ hi = .unb
      · simp only [c1, and_self, if_true]
      simp only [c1, if_false]
      simp only [Tree.wf, Bool.and_eq_true] at hwf
      obtain ⟨⟨_, hpart⟩, hall⟩ := hwf
      by_cases c3 : v = pv
      · subst c3
        simp only [if_true, Ivl.valid_of_mem _ _ hin]
        rw [eval_simplifyEdges ρ v lo hi _ hpart hin, Tree.eval_rng]
      · simp only [c3, if_false]
        obtain ⟨hxo, hxc⟩ := Tree.OK_rng hok
        rw [Edges.simplifyPyE_eq_u]
        show (createNodeR v (mapE (fun c => c.simplifyPy pv lo hi) es.toList)).eval ρ = _
        rw [eval_node_map ρ v _ _ (fun b => b) hxo hxc, Tree.eval_rng]
        intro e he
        exact ih e.2 (by have := Tree.size_rng_child v es e he; omega)
          (Edges.wfAll_mem_u es _ hall e he)
    | bool v h l =>
      simp only [Tree.simplifyPy]
      by_cases c1 : lo = .unb ∧ hi = .unb
      · simp only [c1, and_self, if_true]
      simp only [c1, if_false]
      simp only [Tree.wf, Bool.and_eq_true] at hwf
      have sz : h.size < (Tree.bool v h l).size ∧ l.size < (Tree.bool v h l).size := by
        simp [Tree.size]; omega
      rw [eval_createNodeB, ih h (by omega) hwf.1.1.1.2, ih l (by omega) hwf.1.1.2]
      simp [Tree.eval]

/-- **`simplify_python_versions` does not change the marker's value in environments whose
    `python_full_version` satisfies the `requires-python` bounds** -/
theorem eval_simplifyPy (pv : νr) (lo hi : Bnd α) (t : Tree νr νb α) (ht : t.wf = true)
    (ρ : Env νr νb α) (hin : (Ivl.mk lo hi).mem (ρ.rv pv) = true) :
    (t.simplifyPy pv lo hi).eval ρ = t.eval ρ :=
  eval_simplifyPy_aux pv lo hi ρ hin _ t (Nat.lt_succ_self _) ht

end Pep508
