/-
C05, part 2: the simplification pass of `to_dnf` (`simplify`: redundant-term elimination,
then redundant-clause elimination) preserves the meaning of a DNF.
-/
import Pep508.Model.Dnf
import Pep508.Proofs.ExprStr
set_option linter.unusedSectionVars false
set_option linter.unusedSimpArgs false
set_option linter.unusedVariables false
namespace Pep508
open Spec

/-! ### meaning of terms, clauses, DNFs -/

def termSem (ρ : Env VarR VarB Val) (e : MExpr) : Bool := (expression e).eval ρ
def clauseSem (ρ : Env VarR VarB Val) (c : List MExpr) : Bool := c.all (termSem ρ)
def dnfSem (ρ : Env VarR VarB Val) (d : List (List MExpr)) : Bool := d.any (clauseSem ρ)

/-- the only shape for which `is_negation` is unsound: a `python_version` specifier without
    release segments (both `python_version == ''`-like terms are the constant FALSE).
    No parser or diagram produces it. -/
def TermOK : MExpr → Prop
  | .version .pyVer s => s.rel ≠ []
  | _ => True

/-! ### `is_negation` is sound -/

theorem mem_lt_ge (v x : Val) :
    Ranges.mem [⟨.incl v, .unb⟩] x = !Ranges.mem [⟨.unb, .excl v⟩] x := by
  simp only [Ranges.mem_single, Ivl.mem, Bnd.loOk, Bnd.hiOk]; grind

theorem mem_le_gt (v x : Val) :
    Ranges.mem [⟨.excl v, .unb⟩] x = !Ranges.mem [⟨.unb, .incl v⟩] x := by
  simp only [Ranges.mem_single, Ivl.mem, Bnd.loOk, Bnd.hiOk]; grind

/-- at the level of release ranges, `Operator::negate` is complementation -/
theorem mem_releaseSpecToRange_negate (op op' : Op) (r : List Nat) (x : Val)
    (h : op.negate = some op') :
    (releaseSpecToRange ⟨op', r⟩).mem x = !(releaseSpecToRange ⟨op, r⟩).mem x := by
  cases op <;> simp only [Op.negate, Option.some.injEq, reduceCtorEq] at h <;> subst h <;>
    simp only [releaseSpecToRange]
  case eq | exactEq => exact Ranges.mem_complement _ (Ranges.norm_singleton _) x
  case ne => rw [Ranges.mem_complement _ (Ranges.norm_singleton _) x, Bool.not_not]
  case lt => exact mem_lt_ge _ x
  case le => exact mem_le_gt _ x
  case gt => rw [mem_le_gt, Bool.not_not]
  case ge => rw [mem_lt_ge, Bool.not_not]
  case eqStar => exact Ranges.mem_complement _ (Ranges.norm_ofBounds _ _) x
  case neStar => rw [Ranges.mem_complement _ (Ranges.norm_ofBounds _ _) x, Bool.not_not]

theorem negate_isStar (op op' : Op) (h : op.negate = some op') : op'.isStar = op.isStar := by
  cases op <;> simp only [Op.negate, Option.some.injEq, reduceCtorEq] at h <;> subst h <;> rfl

theorem negate_ne_tilde (op op' : Op) (h : op.negate = some op') : op ≠ .tilde ∧ op' ≠ .tilde := by
  cases op <;> simp only [Op.negate, Option.some.injEq, reduceCtorEq] at h <;> subst h <;> simp

theorem ite_spec_rel (c : Prop) [Decidable c] (o o' : Op) (a b : List Nat) :
    (if c then (⟨o', a⟩ : Pep508.Spec) else ⟨o', b⟩) =
      ⟨o', (if c then (⟨o, a⟩ : Pep508.Spec) else ⟨o, b⟩).rel⟩ := by
  split <;> rfl

theorem normalizeSpecifier_negate (op op' : Op) (r : List Nat) (h : op.negate = some op') :
    normalizeSpecifier ⟨op', r⟩ = ⟨op', (normalizeSpecifier ⟨op, r⟩).rel⟩ := by
  have h1 := negate_isStar op op' h
  have h2 := negate_ne_tilde op op' h
  unfold normalizeSpecifier
  simp only [h1]
  have e1 : (op == Op.tilde) = false := by simpa using h2.1
  have e2 : (op' == Op.tilde) = false := by simpa using h2.2
  simp only [e1, e2, Bool.or_false]
  by_cases hs : op.isStar = true
  · simp [hs]
  · simp only [hs, Bool.false_eq_true, if_false]
    exact ite_spec_rel _ _ _ _ _

theorem normalizeSpecifier_self (op : Op) (r : List Nat) :
    normalizeSpecifier ⟨op, r⟩ = ⟨op, (normalizeSpecifier ⟨op, r⟩).rel⟩ := by
  have := normalizeSpecifier_op ⟨op, r⟩
  generalize normalizeSpecifier ⟨op, r⟩ = s at this
  obtain ⟨o, r'⟩ := s
  simp only at this; subst this; rfl

/-- value of the diagram of a `PvResult` -/
def pvSem (ρ : Env VarR VarB Val) : PvResult → Bool
  | .spec s => (releaseSpecToRange s).mem (ρ.rv (.ver .pfv))
  | .const b => b

theorem termSem_pyVer (ρ : Env VarR VarB Val) (s : Pep508.Spec) :
    termSem ρ (.version .pyVer s) = pvSem ρ (pythonVersionToFull (normalizeSpecifier s)) := by
  unfold termSem
  rw [expression_pyVer]
  cases pythonVersionToFull (normalizeSpecifier s) with
  | const b => rfl
  | spec s' =>
    simp only [pvSem]
    rw [releaseSpecToRange_normalize, eval_rangeNode ρ _ _ (norm_releaseSpecToRange s')]

theorem pvSem_negate (ρ : Env VarR VarB Val) (op op' : Op) (r : List Nat) (hr : r ≠ [])
    (h : op.negate = some op') :
    pvSem ρ (pythonVersionToFull ⟨op', r⟩) = !pvSem ρ (pythonVersionToFull ⟨op, r⟩) := by
  match r, hr with
  | [M], _ =>
    cases op <;> simp only [Op.negate, Option.some.injEq, reduceCtorEq] at h <;> subst h <;>
      simp only [pythonVersionToFull, Op.isStar, Bool.false_eq_true, if_false, if_true, pvSem] <;>
      exact mem_releaseSpecToRange_negate _ _ _ _ rfl
  | [M, m], _ =>
    cases op <;> simp only [Op.negate, Option.some.injEq, reduceCtorEq] at h <;> subst h <;>
      simp only [pythonVersionToFull, pvSem] <;>
      exact mem_releaseSpecToRange_negate _ _ _ _ rfl
  | M :: m :: t :: ts, _ =>
    cases op <;> simp only [Op.negate, Option.some.injEq, reduceCtorEq] at h <;> subst h <;>
      simp only [pythonVersionToFull, pvSem, Bool.not_true, Bool.not_false] <;>
      exact mem_releaseSpecToRange_negate _ _ _ _ rfl

theorem termSem_version (ρ : Env VarR VarB Val) (k : VKey) (s : Pep508.Spec) (hk : k ≠ .pyVer) :
    termSem ρ (.version k s) = (releaseSpecToRange s).mem (ρ.rv (.ver k)) := by
  unfold termSem
  rw [expression_version_of_ne k s hk, releaseSpecToRange_normalize,
    eval_rangeNode ρ _ _ (norm_releaseSpecToRange s)]

theorem termSem_versionIn_neg (ρ : Env VarR VarB Val) (k : VKey) (vs : List (List Nat)) :
    termSem ρ (.versionIn k vs true) = !termSem ρ (.versionIn k vs false) := by
  unfold termSem
  by_cases hk : k = .pyVer
  · subst hk
    rw [expression_pyVer_notIn]
    exact Tree.eval_not ρ _ (OK_expression _)
  · rw [expression_versionIn_notIn k vs hk]
    exact Tree.eval_not ρ _ (OK_expression _)

theorem termSem_string_range (ρ : Env VarR VarB Val) (k : SKey) (op : SOp) (v : String)
    (hop : op = .eq ∨ op = .ne ∨ op = .gt ∨ op = .ge ∨ op = .lt ∨ op = .le) :
    termSem ρ (.string k op v) = (stringRange op v).mem (ρ.rv (.str k)) := by
  unfold termSem
  rw [expression_string_cmp k op v hop, eval_rangeNode ρ _ _ (norm_stringRange op v)]

theorem termSem_string_negate (ρ : Env VarR VarB Val) (k : SKey) (op : SOp) (v : String) :
    termSem ρ (.string k op.negate v) = !termSem ρ (.string k op v) := by
  cases op <;> simp only [SOp.negate]
  case isIn => unfold termSem; rw [eval_expression_notIn, eval_expression_isIn]
  case notIn => unfold termSem; rw [eval_expression_notIn, eval_expression_isIn, Bool.not_not]
  case contains => unfold termSem; rw [eval_expression_notContains, eval_expression_contains]
  case notContains =>
    unfold termSem; rw [eval_expression_notContains, eval_expression_contains, Bool.not_not]
  all_goals
    rw [termSem_string_range ρ k _ v (by simp), termSem_string_range ρ k _ v (by simp)]
    simp only [stringRange]
  case eq => exact Ranges.mem_complement _ (Ranges.norm_singleton _) _
  case ne => rw [Ranges.mem_complement _ (Ranges.norm_singleton _), Bool.not_not]
  case lt => exact mem_lt_ge _ _
  case le => exact mem_le_gt _ _
  case gt => rw [mem_le_gt, Bool.not_not]
  case ge => rw [mem_lt_ge, Bool.not_not]

/-- `is_negation(a, b)` implies that `a` and `b` have opposite truth values in every environment
    (for `python_version` specifiers: provided the release is non-empty) -/
theorem isNegation_sound (ρ : Env VarR VarB Val) (a b : MExpr) (hb : TermOK b)
    (h : isNegation a b = true) : termSem ρ a = !termSem ρ b := by
  match a, b, hb, h with
  | .version k s, .version k2 s2, hb, h =>
    obtain ⟨op, r⟩ := s
    obtain ⟨op2, r2⟩ := s2
    simp only [isNegation, Bool.and_eq_true, beq_iff_eq] at h
    obtain ⟨⟨hk, hr⟩, hn⟩ := h
    subst hk; subst hr
    suffices hsuf : termSem ρ (.version k ⟨op2, r⟩) = !termSem ρ (.version k ⟨op, r⟩) by
      rw [hsuf, Bool.not_not]
    by_cases hk : k = .pyVer
    · subst hk
      have hr : r ≠ [] := hb
      rw [termSem_pyVer, termSem_pyVer, normalizeSpecifier_negate op op2 r hn]
      have hne : (normalizeSpecifier ⟨op, r⟩).rel ≠ [] := normalizeSpecifier_rel_ne_nil _ hr
      have := pvSem_negate ρ op op2 _ hne hn
      rw [this, ← normalizeSpecifier_self op r]
    · rw [termSem_version ρ k _ hk, termSem_version ρ k _ hk]
      exact mem_releaseSpecToRange_negate op op2 r (ρ.rv (.ver k)) hn
  | .versionIn k vs n, .versionIn k2 vs2 n2, _, h =>
    simp only [isNegation, Bool.and_eq_true, beq_iff_eq, bne_iff_ne, ne_eq] at h
    obtain ⟨⟨hk, hv⟩, hn⟩ := h
    subst hk; subst hv
    cases n <;> cases n2 <;> simp at hn
    · rw [termSem_versionIn_neg, Bool.not_not]
    · rw [termSem_versionIn_neg]
  | .string k op v, .string k2 op2 v2, _, h =>
    simp only [isNegation, Bool.and_eq_true, beq_iff_eq] at h
    obtain ⟨⟨hk, hv⟩, hn⟩ := h
    subst hk; subst hv; subst hn
    have := termSem_string_negate ρ k op v
    rw [this, Bool.not_not]
  | .extra n e, .extra n2 e2, _, h =>
    simp only [isNegation, Bool.and_eq_true, beq_iff_eq, bne_iff_ne, ne_eq] at h
    obtain ⟨he, hn⟩ := h
    subst he
    unfold termSem
    rw [eval_expression_extra, eval_expression_extra]
    cases n <;> cases n2 <;> simp at hn <;> cases ρ.bv (.extra e) <;> rfl

/-! ### list-level characterisations -/

theorem clauseSem_iff (ρ : Env VarR VarB Val) (c : List MExpr) :
    clauseSem ρ c = true ↔ ∀ t ∈ c, termSem ρ t = true := by
  simp [clauseSem, List.all_eq_true]

theorem dnfSem_iff (ρ : Env VarR VarB Val) (d : List (List MExpr)) :
    dnfSem ρ d = true ↔ ∃ (j : Nat) (c : List MExpr), d[j]? = some c ∧ clauseSem ρ c = true := by
  simp only [dnfSem, List.any_eq_true]
  constructor
  · rintro ⟨c, hc, h⟩
    obtain ⟨j, hj⟩ := List.mem_iff_getElem?.1 hc
    exact ⟨j, c, hj, h⟩
  · rintro ⟨j, c, hj, h⟩
    exact ⟨c, List.mem_of_getElem? hj, h⟩

theorem mem_removeIdxs (l : List MExpr) (idxs : List Nat) (t : MExpr) :
    t ∈ removeIdxs l idxs ↔ ∃ p, l[p]? = some t ∧ p ∉ idxs := by
  simp only [removeIdxs, List.mem_map, List.mem_filter, List.mem_zipIdx_iff_getElem?,
    Bool.not_eq_true', List.contains_eq_mem, decide_eq_false_iff_not]
  constructor
  · rintro ⟨⟨a, p⟩, ⟨h1, h2⟩, rfl⟩
    exact ⟨p, h1, h2⟩
  · rintro ⟨p, h1, h2⟩
    exact ⟨(t, p), ⟨h1, h2⟩, rfl⟩

theorem mem_of_mem_removeIdxs (l : List MExpr) (idxs : List Nat) (t : MExpr)
    (h : t ∈ removeIdxs l idxs) : t ∈ l := by
  obtain ⟨p, hp, _⟩ := (mem_removeIdxs l idxs t).1 h
  exact List.mem_of_getElem? hp

theorem clauseSem_removeIdxs_of (ρ : Env VarR VarB Val) (l : List MExpr) (idxs : List Nat)
    (h : clauseSem ρ l = true) : clauseSem ρ (removeIdxs l idxs) = true := by
  rw [clauseSem_iff] at h ⊢
  exact fun t ht => h t (mem_of_mem_removeIdxs l idxs t ht)

theorem idxOf?_getElem? (l : List MExpr) (t : MExpr) (p : Nat) (h : l.idxOf? t = some p) :
    l[p]? = some t := by
  unfold List.idxOf? at h
  obtain ⟨hlt, h1, _⟩ := List.findIdx?_eq_some_iff_getElem.1 h
  rw [List.getElem?_eq_some_iff]
  exact ⟨hlt, by simpa using h1⟩

/-! ### first phase: redundant terms -/

/-- One elimination step.  `other` is a different clause all of whose members are negations of
    `term` or occur in `clause` at a position that is still present; then, in an environment where
    no other clause of the DNF holds, dropping `term` does not change the clause's value. -/
theorem redundantTerms_inv (ρ : Env VarR VarB Val) (dnf : List (List MExpr)) (i : Nat)
    (clause : List MExpr) (hok : ∀ t ∈ clause, TermOK t)
    (hno : ∀ j o, j ≠ i → dnf[j]? = some o → clauseSem ρ o = false) :
    ∀ (work : List (Nat × MExpr)) (red : List Nat),
      (∀ p ∈ work, clause[p.1]? = some p.2) →
      (clauseSem ρ (removeIdxs clause red) = true → clauseSem ρ clause = true) →
      clauseSem ρ (removeIdxs clause (redundantTerms dnf i clause work red)) = true →
      clauseSem ρ clause = true
  | [], red, _, hinv => by simpa [redundantTerms] using hinv
  | (k, term) :: rest, red, hw, hinv => by
    unfold redundantTerms
    have hk : clause[k]? = some term := hw (k, term) (List.mem_cons_self)
    have hw' : ∀ p ∈ rest, clause[p.1]? = some p.2 := fun p hp => hw p (List.mem_cons_of_mem _ hp)
    simp only
    split
    · rename_i hit
      refine redundantTerms_inv ρ dnf i clause hok hno rest (red ++ [k]) hw' ?_
      intro h
      apply hinv
      rw [clauseSem_iff] at h ⊢
      simp only [List.any_eq_true, Bool.and_eq_true, bne_iff_ne, ne_eq, List.all_eq_true,
        Bool.or_eq_true] at hit
      obtain ⟨⟨other, j⟩, hmem, hji, hall⟩ := hit
      have hoj : dnf[j]? = some other := List.mem_zipIdx_iff_getElem?.1 hmem
      have hfalse := hno j other hji hoj
      intro t ht
      obtain ⟨p, hp, hpr⟩ := (mem_removeIdxs clause red t).1 ht
      by_cases hpk : p = k
      · -- the dropped term itself
        subst hpk
        have htt : t = term := by rw [hk] at hp; exact (Option.some.inj hp).symm
        subst htt
        cases hterm : termSem ρ t
        · exfalso
          have : clauseSem ρ other = true := by
            rw [clauseSem_iff]
            intro t' ht'
            obtain ⟨hne, hcase⟩ := hall t' ht'
            rcases hcase with hneg | hpos
            · rw [isNegation_sound ρ t' t (hok t (List.mem_of_getElem? hk)) hneg, hterm]; rfl
            · cases hq : clause.idxOf? t' with
              | none => simp [hq] at hpos
              | some q =>
                simp only [hq, Bool.not_eq_true', List.contains_eq_mem,
                  decide_eq_false_iff_not] at hpos
                have hq' := idxOf?_getElem? clause t' q hq
                have hqp : q ≠ p := by
                  intro e; subst e; rw [hk] at hq'
                  exact hne (Option.some.inj hq').symm
                apply h t'
                rw [mem_removeIdxs]
                exact ⟨q, hq', by simp [hpos, hqp]⟩
          rw [this] at hfalse; exact absurd hfalse (by simp)
        · rfl
      · apply h t
        rw [mem_removeIdxs]
        exact ⟨p, hp, by simp [hpr, hpk]⟩
    · exact redundantTerms_inv ρ dnf i clause hok hno rest red hw' hinv

theorem zipIdx_swap_mem (clause : List MExpr) :
    ∀ p ∈ (clause.zipIdx.map fun (t, k) => (k, t)), clause[p.1]? = some p.2 := by
  intro p hp
  simp only [List.mem_map] at hp
  obtain ⟨⟨t, k⟩, hm, rfl⟩ := hp
  exact List.mem_zipIdx_iff_getElem?.1 hm

/-- all terms of a DNF are `TermOK` -/
def AllOK (d : List (List MExpr)) : Prop := ∀ c ∈ d, ∀ t ∈ c, TermOK t

/-- processing one clause in place preserves the meaning of the DNF -/
theorem simplifyTerms_step (ρ : Env VarR VarB Val) (dnf : List (List MExpr)) (i : Nat)
    (clause : List MExpr) (hi : dnf[i]? = some clause) (hok : AllOK dnf) :
    dnfSem ρ (dnf.set i (removeIdxs clause
        (redundantTerms dnf i clause (clause.zipIdx.map fun (t, k) => (k, t)) []))) =
      dnfSem ρ dnf := by
  generalize hred : redundantTerms dnf i clause (clause.zipIdx.map fun (t, k) => (k, t)) [] = red
  have hlt : i < dnf.length := by
    rw [List.getElem?_eq_some_iff] at hi; exact hi.1
  rw [Bool.eq_iff_iff, dnfSem_iff, dnfSem_iff]
  constructor
  · rintro ⟨j, c, hj, hc⟩
    by_cases hji : i = j
    · subst hji
      rw [List.getElem?_set_self hlt] at hj
      have hcc := Option.some.inj hj
      subst hcc
      by_cases hex : ∃ j o, j ≠ i ∧ dnf[j]? = some o ∧ clauseSem ρ o = true
      · obtain ⟨j, o, _, h1, h2⟩ := hex
        exact ⟨j, o, h1, h2⟩
      · have hno : ∀ j o, j ≠ i → dnf[j]? = some o → clauseSem ρ o = false := by
          intro j o h1 h2
          cases h3 : clauseSem ρ o
          · rfl
          · exact absurd ⟨j, o, h1, h2, h3⟩ hex
        refine ⟨i, clause, hi, ?_⟩
        have := redundantTerms_inv ρ dnf i clause (hok clause (List.mem_of_getElem? hi)) hno
          (clause.zipIdx.map fun (t, k) => (k, t)) [] (zipIdx_swap_mem clause)
          (fun h => by
            rw [clauseSem_iff] at h ⊢
            intro t ht
            obtain ⟨p, hp⟩ := List.mem_iff_getElem?.1 ht
            exact h t ((mem_removeIdxs clause [] t).2 ⟨p, hp, by simp⟩))
        rw [hred] at this
        exact this hc
    · rw [List.getElem?_set_ne hji] at hj
      exact ⟨j, c, hj, hc⟩
  · rintro ⟨j, c, hj, hc⟩
    by_cases hji : i = j
    · subst hji
      rw [hi] at hj
      have hcc := Option.some.inj hj
      subst hcc
      exact ⟨i, _, List.getElem?_set_self hlt, clauseSem_removeIdxs_of ρ _ _ hc⟩
    · refine ⟨j, c, ?_, hc⟩
      rw [List.getElem?_set_ne hji]; exact hj

theorem AllOK_set (dnf : List (List MExpr)) (i : Nat) (clause : List MExpr) (red : List Nat)
    (hi : dnf[i]? = some clause) (hok : AllOK dnf) : AllOK (dnf.set i (removeIdxs clause red)) := by
  intro c hc t ht
  rcases List.mem_or_eq_of_mem_set hc with h | h
  · exact hok c h t ht
  · subst h
    exact hok clause (List.mem_of_getElem? hi) t (mem_of_mem_removeIdxs _ _ _ ht)

/-- the whole first phase preserves meaning (and `AllOK`) -/
theorem simplifyTerms_sound (ρ : Env VarR VarB Val) :
    ∀ (fuel i : Nat) (dnf : List (List MExpr)), AllOK dnf →
      dnfSem ρ (simplifyTerms fuel i dnf) = dnfSem ρ dnf ∧ AllOK (simplifyTerms fuel i dnf)
  | 0, _, dnf, hok => ⟨rfl, hok⟩
  | fuel + 1, i, dnf, hok => by
    unfold simplifyTerms
    cases hi : dnf[i]? with
    | none => exact ⟨rfl, hok⟩
    | some clause =>
      simp only
      obtain ⟨h1, h2⟩ := simplifyTerms_sound ρ fuel (i + 1) _ (AllOK_set dnf i clause _ hi hok)
      exact ⟨h1.trans (simplifyTerms_step ρ dnf i clause hi hok), h2⟩

/-! ### second phase: redundant clauses -/

/-- some clause that has not been eliminated holds -/
def keptSem (ρ : Env VarR VarB Val) (d : List (List MExpr)) (red : List Nat) : Prop :=
  ∃ (j : Nat) (c : List MExpr), d[j]? = some c ∧ j ∉ red ∧ clauseSem ρ c = true

theorem redundantClauses_inv (ρ : Env VarR VarB Val) (d : List (List MExpr)) :
    ∀ (work red : List Nat), keptSem ρ d red → keptSem ρ d (redundantClauses d work red)
  | [], red, h => by simpa [redundantClauses] using h
  | i :: rest, red, h => by
    unfold redundantClauses
    simp only
    split
    · rename_i hit
      apply redundantClauses_inv ρ d rest
      simp only [List.any_eq_true, Bool.and_eq_true, bne_iff_ne, ne_eq, List.all_eq_true,
        Bool.not_eq_true', List.contains_eq_mem, decide_eq_false_iff_not, decide_eq_true_eq] at hit
      obtain ⟨⟨other, j⟩, hmem, ⟨hji, hjr⟩, hall⟩ := hit
      have hoj : d[j]? = some other := List.mem_zipIdx_iff_getElem?.1 hmem
      obtain ⟨j0, c0, h1, h2, h3⟩ := h
      by_cases hj0 : j0 = i
      · subst hj0
        refine ⟨j, other, hoj, by simp [hjr, hji], ?_⟩
        rw [clauseSem_iff] at h3 ⊢
        intro t ht
        have := hall t ht
        rw [h1] at this
        exact h3 t this
      · exact ⟨j0, c0, h1, by simp [h2, hj0], h3⟩
    · exact redundantClauses_inv ρ d rest red h

/-- C05 (simplification): `simplify` does not change the function a DNF denotes -/
theorem simplifyDnf_sound (ρ : Env VarR VarB Val) (d : List (List MExpr)) (hok : AllOK d) :
    dnfSem ρ (simplifyDnf d) = dnfSem ρ d := by
  obtain ⟨h1, _⟩ := simplifyTerms_sound ρ (d.length + 1) 0 d hok
  rw [← h1]
  unfold simplifyDnf
  simp only
  generalize simplifyTerms (d.length + 1) 0 d = d1
  generalize hred : redundantClauses d1 (List.range d1.length) [] = red
  rw [Bool.eq_iff_iff]
  constructor
  · intro h
    simp only [dnfSem, List.any_eq_true, List.mem_map, List.mem_filter] at h ⊢
    obtain ⟨c, ⟨⟨c', j⟩, ⟨hm, _⟩, rfl⟩, hc⟩ := h
    exact ⟨c', List.mem_of_getElem? (List.mem_zipIdx_iff_getElem?.1 hm), hc⟩
  · intro h
    have hk : keptSem ρ d1 [] := by
      obtain ⟨j, c, h1, h2⟩ := (dnfSem_iff ρ d1).1 h
      exact ⟨j, c, h1, by simp, h2⟩
    have := redundantClauses_inv ρ d1 (List.range d1.length) [] hk
    rw [hred] at this
    obtain ⟨j, c, h1, h2, h3⟩ := this
    simp only [dnfSem, List.any_eq_true, List.mem_map, List.mem_filter]
    refine ⟨c, ⟨(c, j), ⟨List.mem_zipIdx_iff_getElem?.2 h1, by simpa using h2⟩, rfl⟩, h3⟩

/-- The hypothesis `AllOK` cannot be dropped: with the (unparseable) specifier
    `python_version == ''` — the constant FALSE, like its "negation" `python_version != ''` —
    term elimination turns an unsatisfiable DNF into a satisfiable one. -/
theorem simplifyDnf_needs_TermOK_witness :
    let d : List (List MExpr) :=
      [[.version .pyVer ⟨.eq, []⟩, .extra false (.extra "e")], [.version .pyVer ⟨.ne, []⟩]]
    let ρ : Env VarR VarB Val := ⟨fun _ => .ver [], fun _ => true⟩
    dnfSem ρ d = false ∧ dnfSem ρ (simplifyDnf d) = true := by decide

end Pep508
