/-
`Typed` (version nodes carry version bounds, string nodes string bounds, `python_version` labels no
node) holds for every expression diagram and is preserved by `not` / `and` / `or`: together with
C20 (`wf`) and NormBounds.lean this shows that every marker built from expressions by the algebra
satisfies all hypotheses of the DNF soundness theorem.
-/
import Pep508.Proofs.BoundsInV
import Pep508.Proofs.NormBounds
set_option linter.unusedSimpArgs false
namespace Pep508

/-- the variable is not `python_version` -/
def NoPy (v : VarR) : Prop := ∀ k, v = .ver k → k ≠ .pyVer

mutual
theorem typed_iff_allV : ∀ t : MTree, Typed t ↔ t.AllV NoPy kindOf
  | .leaf _ => by simp [Typed, Tree.AllV]
  | .rng v es => by
    simp only [Typed, Tree.AllV, NoPy]
    rw [typedE_iff_allV v es]
  | .bool _ h l => by
    simp only [Typed, Tree.AllV]
    rw [typed_iff_allV h, typed_iff_allV l]
theorem typedE_iff_allV (v : VarR) : ∀ es : Edges VarR VarB Val, TypedE v es ↔ es.AllV NoPy kindOf v
  | .nil => by simp [TypedE, Edges.AllV]
  | .cons iv t rest => by
    simp only [TypedE, Edges.AllV]
    rw [typed_iff_allV t, typedE_iff_allV v rest]
end

theorem typed_not (x : MTree) (hx : Typed x) : Typed x.not :=
  (typed_iff_allV _).2 (Tree.AllV_not NoPy kindOf x ((typed_iff_allV x).1 hx))

theorem typed_and (x y : MTree) (hx : Typed x) (hy : Typed y) : Typed (Tree.and x y) :=
  (typed_iff_allV _).2 (AllV_and NoPy kindOf x y ((typed_iff_allV x).1 hx) ((typed_iff_allV y).1 hy))

theorem typed_or (x y : MTree) (hx : Typed x) (hy : Typed y) : Typed (Tree.or x y) :=
  (typed_iff_allV _).2 (AllV_or NoPy kindOf x y ((typed_iff_allV x).1 hx) ((typed_iff_allV y).1 hy))

/-! ### expressions -/

theorem Kind_releaseSpec_gen (P : Val → Prop) (hP : ∀ r, P (.ver (stripZeros r))) (s : Spec) :
    ∀ iv ∈ releaseSpecToRange s, Ivl.Kind P iv := by
  obtain ⟨op, rel⟩ := s
  have h := hP rel
  cases op
  case eq => exact Kind_single P _ h
  case exactEq => exact Kind_single P _ h
  case ne => exact Kind_complement P _ (Kind_single P _ h)
  case tilde => exact Kind_ofBounds' P _ _ h (hP _)
  case eqStar => exact Kind_ofBounds' P _ _ h (hP _)
  case neStar => exact Kind_complement P _ (Kind_ofBounds' P _ _ h (hP _))
  all_goals
    intro iv hiv
    simp only [releaseSpecToRange, List.mem_singleton] at hiv
    subst hiv
    first | exact ⟨trivial, h⟩ | exact ⟨h, trivial⟩

theorem Kind_pyVersionsRange_gen (P : Val → Prop) (hP : ∀ r, P (.ver (stripZeros r))) :
    ∀ (vs : List (List Nat)) (acc r : Ranges Val),
    (∀ s ∈ acc, Ivl.Kind P s) → pyVersionsRange vs acc = some r → ∀ s ∈ r, Ivl.Kind P s
  | [], acc, r, ha, h => by
    simp only [pyVersionsRange, Option.some.injEq] at h
    subst h; exact ha
  | v :: rest, acc, r, ha, h => by
    simp only [pyVersionsRange] at h
    split at h
    · cases h
    · exact Kind_pyVersionsRange_gen P hP rest _ r
        (Kind_union P _ _ ha (Kind_releaseSpec_gen P hP _)) h

theorem Kind_foldl_singletons_gen (P : Val → Prop) (hP : ∀ r, P (.ver (stripZeros r))) :
    ∀ (vs : List (List Nat)) (acc : Ranges Val), (∀ s ∈ acc, Ivl.Kind P s) →
    ∀ s ∈ vs.foldl (fun acc v => Ranges.union acc (Ranges.singleton (.ver (stripZeros v)))) acc,
      Ivl.Kind P s
  | [], acc, ha => by simpa using ha
  | v :: rest, acc, ha => by
    simp only [List.foldl_cons]
    exact Kind_foldl_singletons_gen P hP rest _ (Kind_union P _ _ ha (Kind_single P _ (hP v)))

theorem AllV_boolNode (PV : VarR → Prop) (P : VarR → Val → Prop) (v : VarB) (b : Bool) :
    (boolNode v b).AllV PV P := by
  cases b <;> simp [boolNode, Tree.AllV]

/-- every expression diagram is typed -/
theorem typed_expression (e : MExpr) : Typed (expression e) := by
  rw [typed_iff_allV]
  have hPv : ∀ (k : VKey) (r : List Nat), kindOf (.ver k) (.ver (stripZeros r)) := fun _ _ => trivial
  have hnp : ∀ k : VKey, k ≠ .pyVer → NoPy (.ver k) := by
    intro k hk k' h; cases h; exact hk
  have hns : ∀ k : SKey, NoPy (.str k) := by intro k k' h; cases h
  have hrange : ∀ (v : VarR) (hv : NoPy v) (neg : Bool) (r : Ranges Val),
      (∀ s ∈ r, Ivl.Kind (kindOf v) s) →
      (rangeNode v (if neg then Ranges.complement r else r) : MTree).AllV NoPy kindOf := by
    intro v hv neg r hr
    cases neg
    · exact AllV_rangeNode NoPy kindOf v hv r hr
    · exact AllV_rangeNode NoPy kindOf v hv _ (Kind_complement _ r hr)
  have hver : ∀ (k : VKey) (hk : k ≠ .pyVer) (s : Spec),
      (rangeNode (.ver k) (releaseSpecToRange (normalizeSpecifier s)) : MTree).AllV NoPy kindOf :=
    fun k hk s => AllV_rangeNode NoPy kindOf _ (hnp k hk) _ (Kind_releaseSpec_gen _ (hPv k) _)
  have hin : ∀ (k : VKey) (hk : k ≠ .pyVer) (vs : List (List Nat)) (neg : Bool),
      (rangeNode (.ver k) (if neg then Ranges.complement
        (vs.foldl (fun acc v => Ranges.union acc (Ranges.singleton (.ver (stripZeros v)))) [])
        else vs.foldl (fun acc v => Ranges.union acc (Ranges.singleton (.ver (stripZeros v)))) []) :
        MTree).AllV NoPy kindOf :=
    fun k hk vs neg => hrange _ (hnp k hk) neg _ (Kind_foldl_singletons_gen _ (hPv k) vs [] (by simp))
  cases e with
  | version k s =>
    cases k
    case pyVer =>
      simp only [expression]
      split
      · exact hver .pfv (by simp) _
      · trivial
    case implVer => exact hver .implVer (by simp) s
    case pfv => exact hver .pfv (by simp) s
  | versionIn k vs neg =>
    cases k
    case pyVer =>
      simp only [expression]
      split
      · trivial
      · rename_i r hr
        exact hrange _ (hnp .pfv (by simp)) neg r
          (Kind_pyVersionsRange_gen _ (hPv .pfv) vs [] r (by simp) hr)
    case implVer => exact hin .implVer (by simp) vs neg
    case pfv => exact hin .pfv (by simp) vs neg
  | string k op v =>
    have hs : kindOf (.str k) (.str v) := trivial
    cases op
    case isIn => exact AllV_boolNode _ _ _ _
    case notIn => exact AllV_boolNode _ _ _ _
    case contains => exact AllV_boolNode _ _ _ _
    case notContains => exact AllV_boolNode _ _ _ _
    case eq => exact AllV_rangeNode NoPy kindOf _ (hns k) _ (Kind_single _ _ hs)
    case ne =>
      exact AllV_rangeNode NoPy kindOf _ (hns k) _ (Kind_complement _ _ (Kind_single _ _ hs))
    all_goals
      refine AllV_rangeNode NoPy kindOf _ (hns k) _ ?_
      intro s hsm
      simp only [stringRange, List.mem_singleton] at hsm
      subst hsm
      first | exact ⟨trivial, hs⟩ | exact ⟨hs, trivial⟩
  | extra neg name => exact AllV_boolNode _ _ _ _

end Pep508
