/-
The structural C20 predicate (`Tree.wf`) implies the semantic invariant `Tree.OK`
(valid segments that cover the line) under which the evaluation theorems are stated.
-/
import Pep508.Proofs.And
set_option linter.unusedSectionVars false
namespace Pep508
variable {νr νb α : Type}
variable [LT α] [LE α] [Std.IsLinearOrder α] [Std.LawfulOrderLT α] [DecidableLT α] [DecidableEq α]
variable [LT νr] [LE νr] [Std.IsLinearOrder νr] [Std.LawfulOrderLT νr] [DecidableLT νr] [DecidableEq νr]
variable [LT νb] [LE νb] [Std.IsLinearOrder νb] [Std.LawfulOrderLT νb] [DecidableLT νb] [DecidableEq νb]

theorem Bnd.flipHi_cover (h : Bnd α) (nxt : Bnd α) (x : α) (hf : h.flipHi = some nxt) :
    h.hiOk x = true ∨ nxt.loOk x = true := by
  cases h <;> simp only [Bnd.flipHi, Option.some.injEq, reduceCtorEq] at hf <;> subst hf <;>
    simp only [Bnd.hiOk, Bnd.loOk] <;> grind

theorem partitionFrom_spec (cur : Bnd α) (es : EdgeL νr νb α) (h : partitionFrom cur es = true) :
    (∀ e ∈ es, e.1.valid = true) ∧ (∀ x, cur.loOk x = true → hitL x es = true) := by
  induction es generalizing cur with
  | nil => simp [partitionFrom] at h
  | cons e rest ih =>
    obtain ⟨iv, t⟩ := e
    cases rest with
    | nil =>
      simp only [partitionFrom, Bool.and_eq_true, decide_eq_true_eq] at h
      obtain ⟨⟨h1, h2⟩, h3⟩ := h
      refine ⟨by simpa using h2, ?_⟩
      intro x hx
      simp [hitL, Ivl.mem, h1, hx, h3, Bnd.hiOk]
    | cons e2 rest2 =>
      obtain ⟨iv2, t2⟩ := e2
      simp only [partitionFrom, Bool.and_eq_true, decide_eq_true_eq] at h
      obtain ⟨⟨⟨h1, h2⟩, _⟩, h4⟩ := h
      cases hf : iv.hi.flipHi with
      | none => simp [hf] at h4
      | some nxt =>
        simp only [hf] at h4
        obtain ⟨i1, i2⟩ := ih nxt h4
        refine ⟨?_, ?_⟩
        · intro e he
          simp only [List.mem_cons] at he
          rcases he with he | he
          · subst he; exact h2
          · exact i1 e (by simpa using he)
        · intro x hx
          rcases Bnd.flipHi_cover iv.hi nxt x hf with hh | hh
          · simp [hitL, Ivl.mem, h1, hx, hh]
          · have := i2 x hh
            simp only [hitL, List.any_cons] at this ⊢
            simp [this]

mutual
theorem Tree.OK_of_wf : ∀ (t : Tree νr νb α), t.wf = true → t.OK
  | .leaf _, _ => trivial
  | .rng v es, h => by
    simp only [Tree.wf, Bool.and_eq_true] at h
    obtain ⟨⟨_, h2⟩, h3⟩ := h
    obtain ⟨p1, p2⟩ := partitionFrom_spec .unb es.toList h2
    refine ⟨Edges.OKAll_of_wf es (.r v) h3 p1, ?_⟩
    rw [covers_iff]
    intro x
    exact p2 x (by simp [Bnd.loOk])
  | .bool v hi lo, h => by
    simp only [Tree.wf, Bool.and_eq_true] at h
    exact ⟨Tree.OK_of_wf hi h.1.1.1.2, Tree.OK_of_wf lo h.1.1.2⟩
theorem Edges.OKAll_of_wf : ∀ (es : Edges νr νb α) (k : Rank νr νb), es.wfAll k = true →
    (∀ e ∈ es.toList, e.1.valid = true) → es.OKAll
  | .nil, _, _, _ => trivial
  | .cons iv t rest, k, h, hv => by
    simp only [Edges.wfAll, Bool.and_eq_true] at h
    exact ⟨hv (iv, t) (by simp [Edges.toList]), Tree.OK_of_wf t h.1.1,
      Edges.OKAll_of_wf rest k h.2 (fun e he => hv e (by simp [Edges.toList, he]))⟩
end

end Pep508
