/-
Canonicity of the reduced ordered decision diagram model: two well-formed diagrams (`Tree.wf`)
that evaluate equally in every environment are structurally identical.

The value order must be dense without end points (every syntactically valid interval has to be
inhabited, otherwise e.g. `(3, 4)` over the integers is a valid but empty edge).
-/
import Pep508.Proofs.WfOK
set_option linter.unusedSectionVars false
namespace Pep508

/-- the value order is dense and has no least / greatest element: every syntactically valid
    interval is inhabited -/
class DenseUnbounded (α : Type) [LT α] : Prop where
  dense : ∀ a b : α, a < b → ∃ c, a < c ∧ c < b
  no_min : ∀ a : α, ∃ c, c < a
  no_max : ∀ a : α, ∃ c, a < c

variable {νr νb α : Type}
variable [LT α] [LE α] [Std.IsLinearOrder α] [Std.LawfulOrderLT α] [DecidableLT α] [DecidableEq α]
variable [LT νr] [LE νr] [Std.IsLinearOrder νr] [Std.LawfulOrderLT νr] [DecidableLT νr] [DecidableEq νr]
variable [LT νb] [LE νb] [Std.IsLinearOrder νb] [Std.LawfulOrderLT νb] [DecidableLT νb] [DecidableEq νb]

/-! ### bounds -/

/-- valid ⇒ inhabited -/
theorem Ivl.exists_mem_of_valid [DenseUnbounded α] [Inhabited α] (iv : Ivl α)
    (h : iv.valid = true) : ∃ a, iv.mem a = true := by
  obtain ⟨lo, hi⟩ := iv
  cases lo with
  | unb =>
    cases hi with
    | unb => exact ⟨default, by simp [Ivl.mem, Bnd.loOk, Bnd.hiOk]⟩
    | incl e => exact ⟨e, by simp only [Ivl.mem, Bnd.loOk, Bnd.hiOk]; grind⟩
    | excl e =>
      obtain ⟨c, hc⟩ := DenseUnbounded.no_min e
      exact ⟨c, by simp only [Ivl.mem, Bnd.loOk, Bnd.hiOk]; grind⟩
  | incl s =>
    refine ⟨s, ?_⟩
    cases hi <;> simp only [Ivl.mem, Ivl.valid, Bnd.loOk, Bnd.hiOk] at * <;> grind
  | excl s =>
    cases hi with
    | unb =>
      obtain ⟨c, hc⟩ := DenseUnbounded.no_max s
      exact ⟨c, by simp only [Ivl.mem, Bnd.loOk, Bnd.hiOk]; grind⟩
    | incl e =>
      refine ⟨e, ?_⟩
      simp only [Ivl.mem, Ivl.valid, Bnd.loOk, Bnd.hiOk] at *; grind
    | excl e =>
      simp only [Ivl.valid, decide_eq_true_eq] at h
      obtain ⟨c, hc⟩ := DenseUnbounded.dense s e h
      exact ⟨c, by simp only [Ivl.mem, Bnd.loOk, Bnd.hiOk]; grind⟩

/-- upper bound `h1` ends strictly before upper bound `h2`: the segment from just after `h1`
    up to `h2` is a valid segment -/
def Bnd.hiLt (h1 h2 : Bnd α) : Prop := ∃ n, h1.flipHi = some n ∧ (Ivl.mk n h2).valid = true

theorem Bnd.hi_trichotomy (h1 h2 : Bnd α) : h1 = h2 ∨ Bnd.hiLt h1 h2 ∨ Bnd.hiLt h2 h1 := by
  cases h1 <;> cases h2 <;> simp only [Bnd.hiLt, Bnd.flipHi, Ivl.valid] <;> grind

/-- after the flipped bound nothing satisfies the original upper bound -/
theorem Bnd.flipHi_disjoint (h n : Bnd α) (a : α) (hf : h.flipHi = some n)
    (hn : n.loOk a = true) : h.hiOk a = false := by
  cases h <;> simp only [Bnd.flipHi, Option.some.injEq, reduceCtorEq] at hf <;> subst hf <;>
    simp only [Bnd.hiOk, Bnd.loOk] at * <;> grind

/-- a point after a valid segment `⟨cur, h⟩` satisfies the segment's lower bound -/
theorem Bnd.loOk_of_after (cur h n : Bnd α) (a : α) (hv : (Ivl.mk cur h).valid = true)
    (hf : h.flipHi = some n) (hn : n.loOk a = true) : cur.loOk a = true := by
  cases h <;> simp only [Bnd.flipHi, Option.some.injEq, reduceCtorEq] at hf <;> subst hf <;>
    cases cur <;> simp only [Ivl.valid, Bnd.loOk] at * <;> grind

/-- two valid segments with the same lower bound have a valid intersection -/
theorem Ivl.valid_minHi (n h1 h2 : Bnd α) (v1 : (Ivl.mk n h1).valid = true)
    (v2 : (Ivl.mk n h2).valid = true) : (Ivl.mk n (Bnd.minHi h1 h2)).valid = true := by
  cases n <;> cases h1 <;> cases h2 <;> simp only [Ivl.valid, Bnd.minHi] at * <;> grind

theorem Bnd.hiOk_minHi (h1 h2 : Bnd α) (a : α) :
    (Bnd.minHi h1 h2).hiOk a = (h1.hiOk a && h2.hiOk a) := by
  cases h1 <;> cases h2 <;> simp only [Bnd.minHi, Bnd.hiOk] <;> grind

/-- the key geometric fact: if segment `⟨cur, h1⟩` ends strictly before `h2`, then every valid
    segment `⟨n, hi'⟩` that starts right after it contains a point that is still below `h2`
    (and that point is outside the first segment but above `cur`) -/
theorem Bnd.exists_between [DenseUnbounded α] [Inhabited α] (cur h1 h2 n hi' : Bnd α)
    (hv : (Ivl.mk cur h1).valid = true) (hf : h1.flipHi = some n)
    (hlt : (Ivl.mk n h2).valid = true) (hv' : (Ivl.mk n hi').valid = true) :
    ∃ a, cur.loOk a = true ∧ h1.hiOk a = false ∧ n.loOk a = true ∧ hi'.hiOk a = true ∧
      h2.hiOk a = true := by
  obtain ⟨a, ha⟩ := Ivl.exists_mem_of_valid _ (Ivl.valid_minHi n hi' h2 hv' hlt)
  simp only [Ivl.mem, Bnd.hiOk_minHi, Bool.and_eq_true] at ha
  exact ⟨a, Bnd.loOk_of_after cur h1 n a hv hf ha.1, Bnd.flipHi_disjoint h1 n a hf ha.1, ha.1,
    ha.2.1, ha.2.2⟩

/-! ### independence of variables that come before the root -/

theorem Rank.lt_trans_c (a b c : Rank νr νb) (h1 : a.lt b = true) (h2 : b.lt c = true) :
    a.lt c = true := by
  cases a <;> cases b <;> cases c <;> simp only [Rank.lt] at * <;> grind

/-- the two environments agree on every variable strictly after `k` -/
def Env.agreeAfter (k : Rank νr νb) (ρ ρ' : Env νr νb α) : Prop :=
  (∀ w, k.lt (.r w) = true → ρ.rv w = ρ'.rv w) ∧ (∀ w, k.lt (.b w) = true → ρ.bv w = ρ'.bv w)

theorem Env.agreeAfter_mono (k k' : Rank νr νb) (ρ ρ' : Env νr νb α) (h : k.lt k' = true)
    (ha : Env.agreeAfter k ρ ρ') : Env.agreeAfter k' ρ ρ' :=
  ⟨fun w hw => ha.1 w (Rank.lt_trans_c _ _ _ h hw), fun w hw => ha.2 w (Rank.lt_trans_c _ _ _ h hw)⟩

mutual
/-- a well-formed diagram whose root comes after `k` only looks at variables after `k` -/
theorem Tree.eval_agree : ∀ (t : Tree νr νb α) (k : Rank νr νb) (ρ ρ' : Env νr νb α),
    t.wf = true → t.rootGt k = true → Env.agreeAfter k ρ ρ' → t.eval ρ = t.eval ρ'
  | .leaf _, _, _, _, _, _, _ => rfl
  | .rng w es, k, ρ, ρ', hwf, hgt, ha => by
    simp only [Tree.wf, Bool.and_eq_true] at hwf
    simp only [Tree.rootGt] at hgt
    simp only [Tree.eval]
    rw [ha.1 w hgt]
    exact Edges.eval_agree es (.r w) ρ ρ' hwf.2 (Env.agreeAfter_mono k _ ρ ρ' hgt ha) _
  | .bool w h l, k, ρ, ρ', hwf, hgt, ha => by
    simp only [Tree.wf, Bool.and_eq_true] at hwf
    simp only [Tree.rootGt] at hgt
    have ha' := Env.agreeAfter_mono k _ ρ ρ' hgt ha
    simp only [Tree.eval]
    rw [ha.2 w hgt, Tree.eval_agree h (.b w) ρ ρ' hwf.1.1.1.2 hwf.1.2 ha',
      Tree.eval_agree l (.b w) ρ ρ' hwf.1.1.2 hwf.2 ha']
theorem Edges.eval_agree : ∀ (es : Edges νr νb α) (k : Rank νr νb) (ρ ρ' : Env νr νb α),
    es.wfAll k = true → Env.agreeAfter k ρ ρ' → ∀ x, es.eval ρ x = es.eval ρ' x
  | .nil, _, _, _, _, _, _ => rfl
  | .cons iv t rest, k, ρ, ρ', hwf, ha, x => by
    simp only [Edges.wfAll, Bool.and_eq_true] at hwf
    simp only [Edges.eval]
    rw [Tree.eval_agree t k ρ ρ' hwf.1.1 hwf.1.2 ha, Edges.eval_agree rest k ρ ρ' hwf.2 ha x]
end

/-- overwrite one range variable -/
def Env.setR (ρ : Env νr νb α) (v : νr) (a : α) : Env νr νb α :=
  ⟨fun w => if w = v then a else ρ.rv w, ρ.bv⟩

/-- overwrite one boolean variable -/
def Env.setB (ρ : Env νr νb α) (v : νb) (b : Bool) : Env νr νb α :=
  ⟨ρ.rv, fun w => if w = v then b else ρ.bv w⟩

theorem Env.agreeAfter_setR (ρ : Env νr νb α) (v : νr) (a : α) :
    Env.agreeAfter (.r v) (ρ.setR v a) ρ := by
  constructor
  · intro w hw
    simp only [Rank.lt, decide_eq_true_eq] at hw
    have : w ≠ v := by grind
    simp [Env.setR, this]
  · intro w _; rfl

theorem Env.agreeAfter_setB (ρ : Env νr νb α) (v : νb) (b : Bool) :
    Env.agreeAfter (.b v) (ρ.setB v b) ρ := by
  constructor
  · intro w hw; rfl
  · intro w hw
    simp only [Rank.lt, decide_eq_true_eq] at hw
    have : w ≠ v := by grind
    simp [Env.setB, this]

theorem Env.setB_bv (ρ : Env νr νb α) (v : νb) (b : Bool) : (ρ.setB v b).bv v = b := by
  simp [Env.setB]

theorem Env.setR_rv (ρ : Env νr νb α) (v : νr) (a : α) : (ρ.setR v a).rv v = a := by
  simp [Env.setR]

theorem Tree.eval_setR (t : Tree νr νb α) (ρ : Env νr νb α) (v : νr) (a : α)
    (hwf : t.wf = true) (hgt : t.rootGt (.r v) = true) : t.eval (ρ.setR v a) = t.eval ρ :=
  Tree.eval_agree t (.r v) _ _ hwf hgt (Env.agreeAfter_setR ρ v a)

theorem Tree.eval_setB (t : Tree νr νb α) (ρ : Env νr νb α) (v : νb) (b : Bool)
    (hwf : t.wf = true) (hgt : t.rootGt (.b v) = true) : t.eval (ρ.setB v b) = t.eval ρ :=
  Tree.eval_agree t (.b v) _ _ hwf hgt (Env.agreeAfter_setB ρ v b)

theorem Edges.wfAll_mem : ∀ (es : Edges νr νb α) (k : Rank νr νb), es.wfAll k = true →
    ∀ e ∈ es.toList, e.2.wf = true ∧ e.2.rootGt k = true
  | .nil, _, _, e, he => by simp [Edges.toList] at he
  | .cons iv t rest, k, h, e, he => by
    simp only [Edges.wfAll, Bool.and_eq_true] at h
    simp only [Edges.toList, List.mem_cons] at he
    rcases he with he | he
    · subst he; exact h.1
    · exact Edges.wfAll_mem rest k h.2 e he

/-- evaluating a range node after overwriting its variable with `a`: the edge list decides on `a`,
    the children do not notice -/
theorem Tree.eval_rng_setR (ρ : Env νr νb α) (v : νr) (a : α) (es : Edges νr νb α)
    (hwf : es.wfAll (.r v) = true) :
    (Tree.rng v es).eval (ρ.setR v a) = evalL ρ a es.toList := by
  rw [Tree.eval_rng]
  have hv : (ρ.setR v a).rv v = a := by simp [Env.setR]
  rw [hv]
  have := Edges.wfAll_mem es (.r v) hwf
  generalize es.toList = l at this
  induction l with
  | nil => rfl
  | cons e rest ih =>
    simp only [evalL]
    rw [ih (fun e' he' => this e' (by simp [he'])),
      Tree.eval_setR e.2 ρ v a (this e (by simp)).1 (this e (by simp)).2]

/-! ### partitions -/

theorem partitionFrom_head (cur : Bnd α) (e : Ivl α × Tree νr νb α) (rest : EdgeL νr νb α)
    (h : partitionFrom cur (e :: rest) = true) : e.1.lo = cur ∧ e.1.valid = true := by
  obtain ⟨iv, t⟩ := e
  cases rest with
  | nil =>
    simp only [partitionFrom, Bool.and_eq_true, decide_eq_true_eq] at h
    exact ⟨h.1.1, h.1.2⟩
  | cons e2 rest2 =>
    obtain ⟨iv2, t2⟩ := e2
    simp only [partitionFrom, Bool.and_eq_true, decide_eq_true_eq] at h
    exact ⟨h.1.1.1, h.1.1.2⟩

theorem partitionFrom_single (cur : Bnd α) (e : Ivl α × Tree νr νb α)
    (h : partitionFrom cur [e] = true) : e.1.hi = .unb := by
  obtain ⟨iv, t⟩ := e
  simp only [partitionFrom, Bool.and_eq_true, decide_eq_true_eq] at h
  exact h.2

theorem partitionFrom_cons2 (cur : Bnd α) (e1 e2 : Ivl α × Tree νr νb α) (rest : EdgeL νr νb α)
    (h : partitionFrom cur (e1 :: e2 :: rest) = true) :
    e1.2 ≠ e2.2 ∧ ∃ n, e1.1.hi.flipHi = some n ∧ partitionFrom n (e2 :: rest) = true := by
  obtain ⟨iv, t⟩ := e1
  obtain ⟨iv2, t2⟩ := e2
  simp only [partitionFrom, Bool.and_eq_true, decide_eq_true_eq] at h
  refine ⟨h.1.2, ?_⟩
  cases hf : iv.hi.flipHi with
  | none => simp [hf] at h
  | some n => simp only [hf] at h; exact ⟨n, rfl, h.2⟩


/-- semantic equality of diagrams -/
def Tree.equiv (x y : Tree νr νb α) : Prop := ∀ ρ : Env νr νb α, x.eval ρ = y.eval ρ

/-- two partitions from the same bound that denote the same function, where the first segment
    of the first one ends strictly earlier: impossible, the first two children of the first
    partition would both be equivalent to the first child of the second -/
theorem partition_hiLt_absurd [DenseUnbounded α] [Inhabited α] (cur : Bnd α)
    (e1 e2 : Ivl α × Tree νr νb α) (rest : EdgeL νr νb α) (f : Ivl α × Tree νr νb α)
    (fs : EdgeL νr νb α)
    (hes : partitionFrom cur (e1 :: e2 :: rest) = true)
    (hfs : partitionFrom cur (f :: fs) = true)
    (hlt : Bnd.hiLt e1.1.hi f.1.hi)
    (H : ∀ (ρ : Env νr νb α) a, cur.loOk a = true →
      evalL ρ a (e1 :: e2 :: rest) = evalL ρ a (f :: fs))
    (IH1 : Tree.equiv e1.2 f.2 → e1.2 = f.2) (IH2 : Tree.equiv e2.2 f.2 → e2.2 = f.2) : False := by
  obtain ⟨hlo1, hv1⟩ := partitionFrom_head cur e1 _ hes
  obtain ⟨hne, n, hn, hes2⟩ := partitionFrom_cons2 cur e1 e2 rest hes
  obtain ⟨hlo2, hv2⟩ := partitionFrom_head n e2 _ hes2
  obtain ⟨hlof, hvf⟩ := partitionFrom_head cur f _ hfs
  obtain ⟨n', hn', hlt'⟩ := hlt
  rw [hn] at hn'
  cases hn'
  obtain ⟨iv1, c1⟩ := e1
  obtain ⟨iv2, c2⟩ := e2
  obtain ⟨jv, d⟩ := f
  obtain ⟨lo1, hi1⟩ := iv1
  obtain ⟨lo2, hi2⟩ := iv2
  obtain ⟨loj, hij⟩ := jv
  simp only at hlo1 hlo2 hlof hn hlt' IH1 IH2 hne hv1 hv2 hvf
  subst hlo1 hlo2
  subst hlof
  apply hne
  -- a point of the first segment: it is in `jv` as well
  have e1 : Tree.equiv c1 d := by
    obtain ⟨a, ha⟩ := Ivl.exists_mem_of_valid _ (Ivl.valid_minHi loj hi1 hij hv1 hvf)
    simp only [Ivl.mem, Bnd.hiOk_minHi, Bool.and_eq_true] at ha
    intro ρ
    have := H ρ a ha.1
    simpa [evalL, Ivl.mem, ha.1, ha.2.1, ha.2.2] using this
  have e2 : Tree.equiv c2 d := by
    obtain ⟨a, h1, h2, h3, h4, h5⟩ := Bnd.exists_between loj hi1 hij lo2 hi2 hv1 hn hlt' hv2
    intro ρ
    have := H ρ a h1
    simpa [evalL, Ivl.mem, h1, h2, h3, h4, h5] using this
  rw [IH1 e1, IH2 e2]

/-- **uniqueness of partitions**: two reduced partitions of the same half line that denote the
    same function (children compared semantically) are the same list, provided semantically equal
    children are equal (the induction hypothesis of the main theorem) -/
theorem partition_unique [DenseUnbounded α] [Inhabited α] :
    ∀ (es fs : EdgeL νr νb α) (cur : Bnd α),
    partitionFrom cur es = true → partitionFrom cur fs = true →
    (∀ (ρ : Env νr νb α) a, cur.loOk a = true → evalL ρ a es = evalL ρ a fs) →
    (∀ e ∈ es, ∀ f ∈ fs, Tree.equiv e.2 f.2 → e.2 = f.2) → es = fs := by
  intro es
  induction es with
  | nil => intro fs cur h; simp [partitionFrom] at h
  | cons e rest ih =>
    intro fs cur hes hfs H IH
    cases fs with
    | nil => simp [partitionFrom] at hfs
    | cons f frest =>
      obtain ⟨hlo1, hv1⟩ := partitionFrom_head cur e _ hes
      obtain ⟨hlof, hvf⟩ := partitionFrom_head cur f _ hfs
      have IHef := IH e (by simp) f (by simp)
      rcases Bnd.hi_trichotomy e.1.hi f.1.hi with heq | hlt | hlt
      · -- same first segment
        have hiv : e.1 = f.1 := by
          obtain ⟨⟨lo1, hi1⟩, c⟩ := e
          obtain ⟨⟨lo2, hi2⟩, d⟩ := f
          simp only at hlo1 hlof heq
          simp [hlo1, hlof, heq]
        have hcd : e.2 = f.2 := by
          apply IHef
          obtain ⟨a, ha⟩ := Ivl.exists_mem_of_valid _ hv1
          intro ρ
          have hla : cur.loOk a = true := by
            rw [← hlo1]; simp only [Ivl.mem, Bool.and_eq_true] at ha; exact ha.1
          have := H ρ a hla
          have ha' : f.1.mem a = true := hiv ▸ ha
          simpa [evalL, ha, ha'] using this
        have hef : e = f := Prod.ext hiv hcd
        subst hef
        cases rest with
        | nil =>
          cases frest with
          | nil => rfl
          | cons f2 frest2 =>
            have h1 := partitionFrom_single cur e hes
            obtain ⟨_, n, hn, _⟩ := partitionFrom_cons2 cur e f2 frest2 hfs
            simp [h1, Bnd.flipHi] at hn
        | cons e2 rest2 =>
          cases frest with
          | nil =>
            have h1 := partitionFrom_single cur e hfs
            obtain ⟨_, n, hn, _⟩ := partitionFrom_cons2 cur e e2 rest2 hes
            simp [h1, Bnd.flipHi] at hn
          | cons f2 frest2 =>
            obtain ⟨_, n, hn, hes2⟩ := partitionFrom_cons2 cur e e2 rest2 hes
            obtain ⟨_, n', hn', hfs2⟩ := partitionFrom_cons2 cur e f2 frest2 hfs
            rw [hn] at hn'
            cases hn'
            congr 1
            apply ih (f2 :: frest2) n hes2 hfs2
            · intro ρ a ha
              have hla := Bnd.loOk_of_after cur e.1.hi n a (by rw [← hlo1]; exact hv1) hn ha
              have hdis := Bnd.flipHi_disjoint e.1.hi n a hn ha
              have := H ρ a hla
              simpa only [evalL, Ivl.mem, hdis, Bool.and_false, Bool.false_eq_true, if_false]
                using this
            · intro e' he' f' hf'
              exact IH e' (by simp [he']) f' (by simp [hf'])
      · -- the first list's first segment ends earlier
        exfalso
        cases rest with
        | nil =>
          have h1 := partitionFrom_single cur e hes
          obtain ⟨n, hn, _⟩ := hlt
          simp [h1, Bnd.flipHi] at hn
        | cons e2 rest2 =>
          exact partition_hiLt_absurd cur e e2 rest2 f frest hes hfs hlt H IHef
            (IH e2 (by simp) f (by simp))
      · exfalso
        cases frest with
        | nil =>
          have h1 := partitionFrom_single cur f hfs
          obtain ⟨n, hn, _⟩ := hlt
          simp [h1, Bnd.flipHi] at hn
        | cons f2 frest2 =>
          refine partition_hiLt_absurd cur f f2 frest2 e rest hfs hes hlt
            (fun ρ a ha => (H ρ a ha).symm) ?_ ?_
          · intro h; exact (IHef (fun ρ => (h ρ).symm)).symm
          · intro h; exact (IH e (by simp) f2 (by simp) (fun ρ => (h ρ).symm)).symm


/-! ### a well-formed node really depends on its root variable -/

/-- a well-formed range node is never equivalent to a diagram that ignores its variable -/
theorem rng_root_absurd [DenseUnbounded α] [Inhabited α] (v : νr) (es : Edges νr νb α)
    (y : Tree νr νb α) (hx : (Tree.rng v es).wf = true) (hy : y.wf = true)
    (hgt : y.rootGt (.r v) = true) (h : Tree.equiv (.rng v es) y)
    (IH : ∀ e ∈ es.toList, Tree.equiv e.2 y → e.2 = y) : False := by
  simp only [Tree.wf, Bool.and_eq_true, decide_eq_true_eq] at hx
  obtain ⟨⟨hlen, hpart⟩, hall⟩ := hx
  have hev : ∀ (ρ : Env νr νb α) a, evalL ρ a es.toList = y.eval ρ := by
    intro ρ a
    rw [← Tree.eval_rng_setR ρ v a es hall, h (ρ.setR v a), Tree.eval_setR y ρ v a hy hgt]
  cases hl : es.toList with
  | nil => simp [hl] at hlen
  | cons e1 l1 =>
    cases l1 with
    | nil => simp [hl] at hlen
    | cons e2 rest =>
      rw [hl] at hpart IH hev
      obtain ⟨_, hv1⟩ := partitionFrom_head _ e1 _ hpart
      obtain ⟨hne, n, hn, hes2⟩ := partitionFrom_cons2 _ e1 e2 rest hpart
      obtain ⟨hlo2, hv2⟩ := partitionFrom_head n e2 _ hes2
      apply hne
      have q1 : Tree.equiv e1.2 y := by
        obtain ⟨a, ha⟩ := Ivl.exists_mem_of_valid _ hv1
        intro ρ
        have := hev ρ a
        simpa [evalL, ha] using this
      have q2 : Tree.equiv e2.2 y := by
        obtain ⟨a, ha⟩ := Ivl.exists_mem_of_valid _ hv2
        intro ρ
        simp only [Ivl.mem, Bool.and_eq_true] at ha
        have hla : n.loOk a = true := by rw [← hlo2]; exact ha.1
        have hdis := Bnd.flipHi_disjoint e1.1.hi n a hn hla
        have := hev ρ a
        simpa [evalL, ha.1, ha.2, Ivl.mem, hdis] using this
      rw [IH e1 (by simp) q1, IH e2 (by simp) q2]

/-- a well-formed boolean node is never equivalent to a diagram that ignores its variable -/
theorem bool_root_absurd (v : νb) (hi lo y : Tree νr νb α)
    (hx : (Tree.bool v hi lo).wf = true) (hy : y.wf = true)
    (hgt : y.rootGt (.b v) = true) (h : Tree.equiv (.bool v hi lo) y)
    (IH1 : Tree.equiv hi y → hi = y) (IH2 : Tree.equiv lo y → lo = y) : False := by
  simp only [Tree.wf, Bool.and_eq_true, decide_eq_true_eq] at hx
  obtain ⟨⟨⟨⟨hne, hwh⟩, hwl⟩, hgh⟩, hgl⟩ := hx
  apply hne
  have q1 : Tree.equiv hi y := by
    intro ρ
    have := h (ρ.setB v true)
    rw [Tree.eval_setB y ρ v true hy hgt] at this
    simp only [Tree.eval, Env.setB_bv, if_true] at this
    rw [← this, Tree.eval_setB hi ρ v true hwh hgh]
  have q2 : Tree.equiv lo y := by
    intro ρ
    have := h (ρ.setB v false)
    rw [Tree.eval_setB y ρ v false hy hgt] at this
    simp only [Tree.eval, Env.setB_bv, Bool.false_eq_true, if_false] at this
    rw [← this, Tree.eval_setB lo ρ v false hwl hgl]
  rw [IH1 q1, IH2 q2]


/-! ### canonicity -/

theorem Tree.wf_rng_child (v : νr) (es : Edges νr νb α) (h : (Tree.rng v es).wf = true)
    (e : Ivl α × Tree νr νb α) (he : e ∈ es.toList) :
    e.2.wf = true ∧ e.2.rootGt (.r v) = true := by
  simp only [Tree.wf, Bool.and_eq_true] at h
  exact Edges.wfAll_mem es (.r v) h.2 e he

theorem canonical_aux [DenseUnbounded α] [Inhabited α] : ∀ (n : Nat) (x y : Tree νr νb α),
    x.size + y.size < n → x.wf = true → y.wf = true → Tree.equiv x y → x = y := by
  intro n
  induction n with
  | zero => intro x y h; omega
  | succ n ih =>
    intro x y hsz hx hy h
    have hsym : Tree.equiv y x := fun ρ => (h ρ).symm
    -- a range node on the left against something that ignores its variable
    have rngL : ∀ v es, x = .rng v es → y.rootGt (.r v) = true → False := by
      intro v es hxe hgt
      subst hxe
      refine rng_root_absurd v es y hx hy hgt h ?_
      intro e he q
      exact ih e.2 y (by have := Tree.size_rng_child v es e he; omega)
        (Tree.wf_rng_child v es hx e he).1 hy q
    have rngR : ∀ v es, y = .rng v es → x.rootGt (.r v) = true → False := by
      intro v es hye hgt
      subst hye
      refine rng_root_absurd v es x hy hx hgt hsym ?_
      intro e he q
      exact (ih x e.2 (by have := Tree.size_rng_child v es e he; omega) hx
        (Tree.wf_rng_child v es hy e he).1 (fun ρ => (q ρ).symm)).symm
    have boolL : ∀ v a b, x = .bool v a b → y.rootGt (.b v) = true → False := by
      intro v a b hxe hgt
      subst hxe
      have hx' := hx
      simp only [Tree.wf, Bool.and_eq_true] at hx'
      refine bool_root_absurd v a b y hx hy hgt h ?_ ?_
      · intro q; exact ih a y (by simp only [Tree.size] at hsz; omega) hx'.1.1.1.2 hy q
      · intro q; exact ih b y (by simp only [Tree.size] at hsz; omega) hx'.1.1.2 hy q
    have boolR : ∀ v a b, y = .bool v a b → x.rootGt (.b v) = true → False := by
      intro v a b hye hgt
      subst hye
      have hy' := hy
      simp only [Tree.wf, Bool.and_eq_true] at hy'
      refine bool_root_absurd v a b x hy hx hgt hsym ?_ ?_
      · intro q
        exact (ih x a (by simp only [Tree.size] at hsz; omega) hx hy'.1.1.1.2
          (fun ρ => (q ρ).symm)).symm
      · intro q
        exact (ih x b (by simp only [Tree.size] at hsz; omega) hx hy'.1.1.2
          (fun ρ => (q ρ).symm)).symm
    cases x with
    | leaf b =>
      cases y with
      | leaf b' =>
        have := h ⟨fun _ => default, fun _ => false⟩
        simpa [Tree.eval] using this
      | rng w fs => exact (rngR w fs rfl rfl).elim
      | bool w c d => exact (boolR w c d rfl rfl).elim
    | rng v es =>
      cases y with
      | leaf b' => exact (rngL v es rfl rfl).elim
      | rng w fs =>
        by_cases c1 : v < w
        · exact (rngL v es rfl (by simp [Tree.rootGt, Rank.lt, c1])).elim
        by_cases c2 : w < v
        · exact (rngR w fs rfl (by simp [Tree.rootGt, Rank.lt, c2])).elim
        have hv : v = w := lt_asymm' c1 c2
        subst hv
        have hx' := hx
        have hy' := hy
        simp only [Tree.wf, Bool.and_eq_true] at hx' hy'
        have hl : es.toList = fs.toList := by
          apply partition_unique es.toList fs.toList .unb hx'.1.2 hy'.1.2
          · intro ρ a _
            rw [← Tree.eval_rng_setR ρ v a es hx'.2, ← Tree.eval_rng_setR ρ v a fs hy'.2]
            exact h _
          · intro e he f hf q
            exact ih e.2 f.2 (by
              have := Tree.size_rng_child v es e he
              have := Tree.size_rng_child v fs f hf
              omega) (Tree.wf_rng_child v es hx e he).1 (Tree.wf_rng_child v fs hy f hf).1 q
        rw [← Edges.ofList_toList es, ← Edges.ofList_toList fs, hl]
      | bool w c d => exact (rngL v es rfl rfl).elim
    | bool v a b =>
      cases y with
      | leaf b' => exact (boolL v a b rfl rfl).elim
      | rng w fs => exact (rngR w fs rfl rfl).elim
      | bool w c d =>
        by_cases c1 : v < w
        · exact (boolL v a b rfl (by simp [Tree.rootGt, Rank.lt, c1])).elim
        by_cases c2 : w < v
        · exact (boolR w c d rfl (by simp [Tree.rootGt, Rank.lt, c2])).elim
        have hv : v = w := lt_asymm' c1 c2
        subst hv
        have hx' := hx
        have hy' := hy
        simp only [Tree.wf, Bool.and_eq_true] at hx' hy'
        simp only [Tree.size] at hsz
        have q1 : Tree.equiv a c := by
          intro ρ
          have := h (ρ.setB v true)
          simp only [Tree.eval, Env.setB_bv, if_true] at this
          rwa [Tree.eval_setB a ρ v true hx'.1.1.1.2 hx'.1.2,
            Tree.eval_setB c ρ v true hy'.1.1.1.2 hy'.1.2] at this
        have q2 : Tree.equiv b d := by
          intro ρ
          have := h (ρ.setB v false)
          simp only [Tree.eval, Env.setB_bv, Bool.false_eq_true, if_false] at this
          rwa [Tree.eval_setB b ρ v false hx'.1.1.2 hx'.2,
            Tree.eval_setB d ρ v false hy'.1.1.2 hy'.2] at this
        rw [ih a c (by omega) hx'.1.1.1.2 hy'.1.1.1.2 q1, ih b d (by omega) hx'.1.1.2 hy'.1.1.2 q2]

/-- **canonicity**: well-formed diagrams that agree in every environment are identical -/
theorem canonical [DenseUnbounded α] [Inhabited α] (x y : Tree νr νb α)
    (hx : x.wf = true) (hy : y.wf = true)
    (h : ∀ ρ : Env νr νb α, x.eval ρ = y.eval ρ) : x = y :=
  canonical_aux (x.size + y.size + 1) x y (by omega) hx hy h

/-- a well-formed tautology is the `true` terminal -/
theorem canonical_true [DenseUnbounded α] [Inhabited α] (x : Tree νr νb α) (hx : x.wf = true)
    (h : ∀ ρ : Env νr νb α, x.eval ρ = true) : x = .leaf true :=
  canonical x (.leaf true) hx rfl (fun ρ => by rw [h ρ]; rfl)

/-- a well-formed unsatisfiable diagram is the `false` terminal -/
theorem canonical_false [DenseUnbounded α] [Inhabited α] (x : Tree νr νb α) (hx : x.wf = true)
    (h : ∀ ρ : Env νr νb α, x.eval ρ = false) : x = .leaf false :=
  canonical x (.leaf false) hx rfl (fun ρ => by rw [h ρ]; rfl)

/-- the trivial converse -/
theorem eval_eq_of_eq (x y : Tree νr νb α) (h : x = y) (ρ : Env νr νb α) :
    x.eval ρ = y.eval ρ := by rw [h]

/-- for well-formed diagrams structural equality *is* semantic equality -/
theorem canonical_iff [DenseUnbounded α] [Inhabited α] (x y : Tree νr νb α)
    (hx : x.wf = true) (hy : y.wf = true) :
    x = y ↔ ∀ ρ : Env νr νb α, x.eval ρ = y.eval ρ :=
  ⟨fun h ρ => eval_eq_of_eq x y h ρ, canonical x y hx hy⟩

/-- non-vacuity: the rationals satisfy every order assumption of `canonical` -/
instance : DenseUnbounded Rat where
  dense a b h := ⟨(a + b) / 2, by grind, by grind⟩
  no_min a := ⟨a - 1, by grind⟩
  no_max a := ⟨a + 1, by grind⟩

example (x y : Tree Nat Nat Rat) (hx : x.wf = true) (hy : y.wf = true)
    (h : ∀ ρ : Env Nat Nat Rat, x.eval ρ = y.eval ρ) : x = y := canonical x y hx hy h

end Pep508

section
open Pep508
#print axioms Pep508.canonical
#print axioms Pep508.canonical_true
#print axioms Pep508.canonical_false
#print axioms Pep508.canonical_iff
end
